(* C19 — inbound routing is exact and the connection's receiver outlives bad input.
   Model: Node/Node.v — receive_message_from_read_half + the receiver task as on_frame (one frame body), route_message
   as route, and the receiver's exit conditions in step; after fix commit 375429f. *)
From EDP Require Import Base.Bytes Term.Term Order.Cmp Codec.Decode Dist.Control Dist.Receive Node.Node Node.NodeFacts.
Open Scope N_scope.

(* the connection is deregistered only when the peer closes the stream or breaks framing *)
Theorem C19_disconnect_only_on_close_or_framing : forall cfg st o,
  n_connected st = true -> n_connected (fst (step cfg st o)) = false -> o = OOverlong \/ o = OPeerClose.
Proof. exact disconnect_only_on_close_or_framing. Qed.

(* ticks, foreign markers, undecodable control terms, terms that are no control tuple: nothing at all changes *)
Theorem C19_unusable_frames_change_nothing : forall cfg st,
  on_frame cfg st [] = st /\
  (forall b0 rest, (b0 =? pass_through) = false -> on_frame cfg st (b0 :: rest) = st) /\
  (forall rest, decode_trailing cfg rest = None -> on_frame cfg st (pass_through :: rest) = st) /\
  (forall rest ctl remaining e, decode_trailing cfg rest = Some (ctl, remaining) ->
     from_term Gen.ControlTable.control_table ctl = CErr e -> on_frame cfg st (pass_through :: rest) = st).
Proof. exact unusable_frames_change_nothing. Qed.

(* a message for a live process reaches exactly that process *)
Theorem C19_send_routed_to_its_process : forall st fs body p, crashes (MRegular body) = false ->
  pid_of (role 2 fs) = Some p -> (exists x, find_proc p (n_procs st) = Some x) ->
  route st (CMsg 2 fs) (Some body) = set_procs st (update_proc p (add_event (MRegular body)) (n_procs st)).
Proof. exact send_routed_to_its_process. Qed.

(* messages for unknown recipients are dropped without affecting anything *)
Theorem C19_unknown_pid_dropped : forall st fs body p,
  pid_of (role 2 fs) = Some p -> find_proc p (n_procs st) = None ->
  find (fun e => same_key (fst e) p) (n_pending st) = None -> route st (CMsg 2 fs) (Some body) = st.
Proof. exact unknown_recipient_dropped. Qed.

Theorem C19_unknown_name_dropped : forall st fs body name,
  role 5 fs = TAtom name -> lookup_name name (n_names st) = None -> route st (CMsg 6 fs) (Some body) = st.
Proof. exact unknown_name_dropped. Qed.

(* exit and monitor notifications reach their target with sender, reference and reason intact *)
Example C19_exit_and_monitor_exit_routed :
  let cfg := {| d_arms := Gen.DecoderArms.owned_arms; d_cache := []; d_refs := []; d_inflate := fun _ => None; d_float_text := fun _ => None;
                d_kcmp := cmp_owned; d_kinsert := map_insert; d_extra_fuel := 0 |} in
  let me := {| pnode := [110]; pnum := 1; pserial := 0; pcreation := 7; ploc := None |} in
  let them := {| pnode := [112]; pnum := 9; pserial := 1; pcreation := 2; ploc := None |} in
  let r := TRef [112] 2 [5; 6; 7] None in
  let st0 := run cfg (node_init [110] 7 true) [OSpawn] in
  let st1 := route st0 (CMsg 3 [(1, TPid them); (2, TPid me); (3, TAtom [107])]) None in
  let st2 := route st1 (CMsg 21 [(7, TPid them); (2, TPid me); (8, r); (3, TAtom [100])]) None in
  map pevents (n_procs st2) = [[MExit them (TAtom [107]); MMonitorExit them r (TAtom [100])]].
Proof. vm_compute. reflexivity. Qed.

Check C19_disconnect_only_on_close_or_framing.
