(* C20 — Elixir wrappers and proplist/map helpers convert back to what went in; a range's length, membership test and
   iteration agree for all bounds and steps without arithmetic overflow.
   Models: Elixir/Range.v (machine arithmetic explicit: every operation that could leave its integer type is checked),
   Elixir/Wrap.v (to_term / from_term of every wrapper, proplist helpers, builders).  The models follow the code after
   fix commits d6fecb7, fcede6b, 9dd377f and 10e629c; the correspondence run compares them with the library on every
   check. *)
From Coq Require Import Permutation String.
From EDP Require Import Base.Bytes Term.Term Term.Access Term.AccessFacts Order.Cmp Codec.Norm
  Elixir.Range Elixir.RangeFacts Elixir.Wrap Elixir.WrapFacts Elixir.ProplistFacts.
Open Scope string_scope.
Open Scope Z_scope.

(* ---------- ranges: for all 64-bit bounds and steps ---------- *)
(* no arithmetic overflow: none of the checked machine operations fails *)
Theorem C20_range_no_overflow : forall r v k, range_ok r -> i64_ok v = true ->
  r_len r <> None /\ r_contains r v <> None /\ it_size_hint r (it_after r k) <> None.
Proof. exact no_overflow. Qed.

(* len is the number of members (saturated at usize::MAX, which only the full-width ranges of step +-1 reach) *)
Theorem C20_range_len : forall r, range_ok r -> r_len r = Some (Z.min (r_count r) u64_max).
Proof. exact len_spec. Qed.

(* contains decides membership in { first + k*step | 0 <= k < count } *)
Theorem C20_range_contains : forall r v, range_ok r -> i64_ok v = true ->
  exists b, r_contains r v = Some b /\ (b = true <-> exists k, 0 <= k < r_count r /\ v = r_member r k).
Proof. exact contains_spec. Qed.

(* iteration: the k-th call of next returns the k-th member while there is one, and None ever after *)
Theorem C20_range_iteration : forall r k, range_ok r ->
  it_nth r k = if Z.of_nat k <? r_count r then Some (r_member r (Z.of_nat k)) else None.
Proof. exact nth_spec. Qed.

Theorem C20_range_size_hint : forall r k, range_ok r ->
  it_size_hint r (it_after r k) = Some (Z.min (Z.max (r_count r - Z.of_nat k) 0) u64_max).
Proof. exact hint_spec. Qed.

(* the three agree: a value is produced by the iterator exactly when contains accepts it, and the iterator produces
   exactly len values *)
Theorem C20_range_iter_contains_agree : forall r v, range_ok r -> i64_ok v = true ->
  (r_contains r v = Some true <-> exists k, it_nth r k = Some v).
Proof. exact iter_contains_agree. Qed.

Theorem C20_range_iter_len_agree : forall r, range_ok r -> r_count r <= u64_max ->
  r_len r = Some (r_count r) /\
  (forall k, Z.of_nat k < r_count r -> exists v, it_nth r k = Some v) /\
  (forall k, r_count r <= Z.of_nat k -> it_nth r k = None).
Proof. exact iter_len_agree. Qed.

(* ---------- wrappers ---------- *)
(* every wrapper value of the Rust type converts to a term and back to an equal value ... *)
Theorem C20_wrapper_roundtrip : forall w, wf_wval w -> wfrom_term (kind_of w) (wto_term w) = Some w.
Proof. exact roundtrip_memory. Qed.

(* ... also after the term went through the wire encoding (decode (encode t) = norm t is C01_roundtrip_parse):
   typed fields come back unchanged, embedded terms in their wire representation *)
Theorem C20_wrapper_roundtrip_wire : forall w, wf_wval w -> wf_wire w ->
  wfrom_term (kind_of w) (norm (wto_term w)) = Some (wnorm w).
Proof. exact roundtrip_wire. Qed.

(* a wide integer is still an integer to the accessors after the wire turned it into a big integer *)
Theorem C20_wide_integers_survive : forall z, i64_ok z = true -> as_integer (norm_int z) = Some z.
Proof. exact as_integer_norm_int. Qed.

(* from_term never fabricates a field: what it returns lies in the field's type, and a term that does not carry the
   wrapper's own struct tag is rejected *)
Theorem C20_from_term_in_type : forall k t w, wfrom_term k t = Some w -> in_type w.
Proof. exact from_term_in_type. Qed.

Theorem C20_from_term_wrong_struct : forall k t, struct_fields (module_of k) t = None -> wfrom_term k t = None.
Proof. exact from_term_wrong_struct. Qed.

(* recorded finding C20-exception-module-prefix: a module name that already carries the Elixir. prefix does not come
   back (the prefix is stripped on reading but not added twice on writing) *)
Theorem C20_refuted_module_prefix :
  let w := WUndef (StrOk (str "Elixir.Foo")) (StrOk (str "bar")) 2 None in
  wfrom_term (kind_of w) (wto_term w) = Some (WUndef (StrOk (str "Foo")) (StrOk (str "bar")) 2 None).
Proof. vm_compute. reflexivity. Qed.

(* ---------- proplists, maps, builders ---------- *)
Theorem C20_map_proplist_map : forall m, map_of_list cmp_owned m = m ->
  obind (map_to_proplist (TMap m)) proplist_to_map = Some (TMap m).
Proof. exact map_proplist_map_id. Qed.

Theorem C20_proplist_map_proplist : forall els, keys_distinct cmp_owned [] (entries_of els) ->
  exists m, proplist_to_map (TList els) = Some (TMap m) /\
            map_to_proplist (TMap m) = Some (TList (map tuple_of m)) /\
            normalize_proplist (TList els) = Some (TList (map tuple_of (entries_of els))) /\
            Permutation (entries_of els) m.
Proof. exact proplist_map_proplist. Qed.

Theorem C20_keyword_list_to_map : forall l, proplist_to_map (kw_build l) = Some (akm_build l).
Proof. exact kw_to_map_is_akm. Qed.

Theorem C20_keyword_list_get : forall name l,
  match kw_build l with
  | TList els => proplist_get_atom_key name els = option_map snd (find (fun kv => eq_bytes (fst kv) name) l)
  | _ => False
  end.
Proof. exact kw_get. Qed.

(* ---------- the hypotheses are satisfiable ---------- *)
Example C20_example_range :
  let r := {| rfirst := i64_min; rlast := i64_max; rstep := 4611686018427387905 |} in
  range_ok r /\ r_count r = 4 /\ r_len r = Some 4 /\ r_contains r i64_max = Some false /\
  it_nth r 3%nat = Some (r_member r 3) /\ it_nth r 4%nat = None.
Proof. cbv zeta. repeat split; vm_compute; reflexivity. Qed.

Example C20_example_wrapper :
  wf_wval (WDateTime 2024 2 30 23 59 60 999999 6 (StrOk (str "Etc/UTC")) (StrOk (str "UTC")) 0 (-3600)) /\
  wf_wval (WRange {| rfirst := i64_min; rlast := 1099511627776; rstep := -7 |}) /\
  wf_wval (WFClause None None None None) /\
  wf_wval (WMapSet [TInt 1099511627776; TAtom (str "a")]).
Proof.
  repeat split; try (unfold is_i32, is_u8, is_u32; lia); try reflexivity;
    try (eexists; split; [reflexivity|vm_compute; reflexivity]).
Qed.

Example C20_example_proplist :
  keys_distinct cmp_owned [] (entries_of [TTuple [TAtom (str "a"); TInt 1]; TAtom (str "flag"); TInt 9; TTuple [TBin [107%N]; TNil]]).
Proof.
  unfold entries_of. cbn [flat_map entry_of app keys_distinct fst].
  repeat split; intros kv' H; cbn [In] in H;
    repeat (destruct H as [<-|H]; [intro E; vm_compute in E; discriminate E|]); contradiction.
Qed.

Check C20_range_no_overflow.
