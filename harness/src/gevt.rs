//! The gen_event behaviour (C18, last clause): a `GenEventManager` with instrumented handlers runs in the library's own
//! process loop (`spawn_process`) with a registry of its own — no node, no EPMD.
use crate::conn::runtime;
use crate::termio::{Toks, read_term, term_str};
use edp_node::mailbox::{Mailbox, Message};
use edp_node::process::{ProcessHandle, spawn_process};
use edp_node::registry::ProcessRegistry;
use edp_node::{EventResult, GenEventCallResult, GenEventHandler, GenEventManager};
use erltf::OwnedTerm;
use erltf::types::{Atom, ExternalPid, ExternalReference};
use std::future::Future;
use std::pin::Pin;
use std::sync::{Arc, Mutex};
use std::time::Duration;

type Log = Arc<Mutex<Vec<(String, String)>>>;

/// logs under the key it is stored under (a swapped-in handler keeps its predecessor's key, not its own id)
struct Probe {
    key: String,
    id: OwnedTerm,
    count: i64,
    log: Log,
}

fn atom(s: &str) -> OwnedTerm {
    OwnedTerm::Atom(Atom::new(s))
}

impl Probe {
    fn note(&self, kind: &str, t: &OwnedTerm) {
        self.log.lock().unwrap().push((self.key.clone(), format!("{} {}", kind, term_str(t))));
    }
    fn successor(&self) -> Box<dyn GenEventHandler> {
        Box::new(Probe {
            key: self.key.clone(),
            id: OwnedTerm::Tuple(vec![self.id.clone(), OwnedTerm::Integer(2)]),
            count: 0,
            log: self.log.clone(),
        })
    }
}

impl GenEventHandler for Probe {
    fn init<'a>(&'a mut self, args: OwnedTerm) -> Pin<Box<dyn Future<Output = edp_node::Result<()>> + Send + 'a>> {
        Box::pin(async move {
            self.note("init", &args);
            if args.is_atom_with_name("bad") { Err(edp_node::Error::MailboxClosed) } else { Ok(()) }
        })
    }
    fn handle_event<'a>(&'a mut self, event: OwnedTerm) -> Pin<Box<dyn Future<Output = edp_node::Result<EventResult>> + Send + 'a>> {
        Box::pin(async move {
            self.note("event", &event);
            if event.is_atom_with_name("remove") {
                Ok(EventResult::Remove)
            } else if event.is_atom_with_name("fail") {
                Err(edp_node::Error::MailboxClosed)
            } else if event.is_atom_with_name("swap") {
                Ok(EventResult::SwapHandler(self.successor(), atom("swapped")))
            } else if event.is_atom_with_name("badswap") {
                Ok(EventResult::SwapHandler(self.successor(), atom("bad")))
            } else {
                self.count += 1;
                Ok(EventResult::Ok)
            }
        })
    }
    fn handle_call<'a>(&'a mut self, request: OwnedTerm) -> Pin<Box<dyn Future<Output = edp_node::Result<GenEventCallResult>> + Send + 'a>> {
        Box::pin(async move {
            self.note("call", &request);
            if request.is_atom_with_name("count") {
                Ok(GenEventCallResult::Reply(OwnedTerm::Integer(self.count)))
            } else if request.is_atom_with_name("remove") {
                Ok(GenEventCallResult::Remove(atom("ok")))
            } else if request.is_atom_with_name("fail") {
                Err(edp_node::Error::MailboxClosed)
            } else if request.is_atom_with_name("swap") {
                Ok(GenEventCallResult::SwapHandler(self.successor(), atom("swapped"), atom("ok")))
            } else if request.is_atom_with_name("badswap") {
                Ok(GenEventCallResult::SwapHandler(self.successor(), atom("bad"), atom("ok")))
            } else {
                Ok(GenEventCallResult::Reply(OwnedTerm::Tuple(vec![self.id.clone(), request])))
            }
        })
    }
    fn handle_info<'a>(&'a mut self, msg: OwnedTerm) -> Pin<Box<dyn Future<Output = edp_node::Result<EventResult>> + Send + 'a>> {
        Box::pin(async move {
            self.note("info", &msg);
            self.count += 100;
            Ok(EventResult::Ok)
        })
    }
    fn terminate<'a>(&'a mut self, reason: OwnedTerm) -> Pin<Box<dyn Future<Output = ()> + Send + 'a>> {
        Box::pin(async move {
            self.note("term", &reason);
        })
    }
    fn id(&self) -> OwnedTerm {
        self.id.clone()
    }
}

fn caller(k: usize) -> ExternalPid {
    ExternalPid::new(Atom::new("c@h"), 100 + k as u32, 0, 1)
}

/// the answer to which_handlers lists the ids in the hash map's order: compared sorted
fn canon(t: &OwnedTerm) -> OwnedTerm {
    if let OwnedTerm::Tuple(els) = t
        && els.len() == 2
        && let OwnedTerm::List(ids) = &els[1]
    {
        let mut ids = ids.clone();
        ids.sort_by_key(term_str);
        return OwnedTerm::Tuple(vec![els[0].clone(), OwnedTerm::List(ids)]);
    }
    t.clone()
}

async fn run(mask: &str, steps: Vec<String>) -> String {
    let registry = Arc::new(ProcessRegistry::new());
    let mut boxes: Vec<Mailbox> = Vec::new();
    for (k, c) in mask.chars().enumerate() {
        let mb = Mailbox::with_capacity(4096);
        if c == '1' {
            registry.insert(caller(k), ProcessHandle::new(caller(k), mb.sender())).await;
        }
        boxes.push(mb);
    }
    // the script's end marker: a which_handlers request from a caller of the harness's own
    let sync_pid = ExternalPid::new(Atom::new("c@h"), 98, 0, 1);
    let mut sync_box = Mailbox::with_capacity(16);
    registry.insert(sync_pid.clone(), ProcessHandle::new(sync_pid.clone(), sync_box.sender())).await;
    let log: Log = Arc::new(Mutex::new(Vec::new()));
    let mut manager = GenEventManager::new(registry.clone());
    let mut rest = Vec::new();
    for st in &steps {
        if let Some(h) = st.strip_prefix("H ") {
            let mut t = Toks::new(h);
            let id = read_term(&mut t);
            let args = read_term(&mut t);
            let probe = Probe { key: term_str(&id), id, count: 0, log: log.clone() };
            let _ = manager.add_handler(Box::new(probe), args).await;
        } else {
            rest.push(st.clone());
        }
    }
    let server_pid = ExternalPid::new(Atom::new("c@h"), 99, 0, 1);
    let handle = spawn_process(manager, Mailbox::with_capacity(4096), registry.clone(), server_pid.clone()).await;
    registry.insert(server_pid.clone(), handle.clone()).await;
    for st in &rest {
        let mut t = Toks::new(st);
        let msg = match t.next() {
            "R" => {
                let f = t.next();
                let from = if f == "-" { None } else { Some(caller(f.trim_start_matches('$').parse().expect("caller"))) };
                Message::Regular { from, body: read_term(&mut t) }
            }
            "X" => Message::Exit { from: caller(0), reason: read_term(&mut t) },
            "O" => Message::Link { from: caller(0) },
            other => panic!("bad gevt step {other}"),
        };
        let _ = handle.send(msg).await;
    }
    let marker = OwnedTerm::Tuple(vec![
        atom("$gen_which_handlers"),
        OwnedTerm::Tuple(vec![OwnedTerm::Pid(sync_pid.clone()), OwnedTerm::Reference(ExternalReference::new(Atom::new("c@h"), 1, vec![0]))]),
    ]);
    let _ = handle.send(Message::Regular { from: None, body: marker }).await;
    for _ in 0..2000 {
        if sync_box.try_recv().is_ok() || registry.get(&server_pid).await.is_none() {
            break;
        }
        tokio::time::sleep(Duration::from_millis(1)).await;
    }
    let join = |l: Vec<String>| if l.is_empty() { "-".to_string() } else { l.join(" , ") };
    let entries = log.lock().unwrap().clone();
    let mut keys: Vec<String> = entries.iter().map(|e| e.0.clone()).collect();
    keys.sort();
    keys.dedup();
    let mut out: Vec<String> = keys
        .iter()
        .map(|k| format!("h[{}]={}", k, join(entries.iter().filter(|e| &e.0 == k).map(|e| e.1.clone()).collect())))
        .collect();
    for (k, mb) in boxes.iter_mut().enumerate() {
        let mut got = Vec::new();
        while let Ok(m) = mb.try_recv() {
            got.push(match m {
                Message::Regular { body, .. } => term_str(&canon(&body)),
                other => format!("?{:?}", std::mem::discriminant(&other)),
            });
        }
        out.push(format!("c{}={}", k, join(got)));
    }
    out.join(" ;; ")
}

pub fn run_case(line: &str) -> String {
    let mut parts = line.split(" ;; ");
    let head = parts.next().expect("head");
    let mut t = Toks::new(head);
    assert_eq!(t.next(), "gevt");
    let mask = t.next().to_string();
    let steps: Vec<String> = parts.map(|s| s.to_string()).collect();
    runtime().block_on(run(&mask, steps))
}
