(* The Elixir-facing wrappers of crates/edp_elixir_terms (range.rs, date_time.rs, map_set.rs, exceptions.rs,
   builders.rs) and the proplist/map helpers of erltf term.rs, as conversions between wrapper values and terms.
   The model follows the code after fix commits fcede6b (try_from instead of `as` casts), 9dd377f (nil module and
   function of FunctionClauseError) and 10e629c (as_integer reads big integers).  Definitions only. *)
From Coq Require Import String.
From EDP Require Import Base.Bytes Term.Term Term.Access Order.Cmp Elixir.Range.
Open Scope N_scope.

Definition str (s : string) : bytes :=
  (fix go (s : string) : bytes := match s with EmptyString => [] | String c r => N.of_nat (Ascii.nat_of_ascii c) :: go r end) s.

(* atom names used by the wrappers, as byte-list constants *)
Definition n_struct := Eval compute in str "__struct__".
Definition n_exception := Eval compute in str "__exception__".
Definition n_true := Eval compute in str "true".
Definition n_nil := Eval compute in str "nil".
Definition n_first := Eval compute in str "first".
Definition n_last := Eval compute in str "last".
Definition n_step := Eval compute in str "step".
Definition n_year := Eval compute in str "year".
Definition n_month := Eval compute in str "month".
Definition n_day := Eval compute in str "day".
Definition n_hour := Eval compute in str "hour".
Definition n_minute := Eval compute in str "minute".
Definition n_second := Eval compute in str "second".
Definition n_microsecond := Eval compute in str "microsecond".
Definition n_calendar := Eval compute in str "calendar".
Definition n_iso := Eval compute in str "Elixir.Calendar.ISO".
Definition n_time_zone := Eval compute in str "time_zone".
Definition n_zone_abbr := Eval compute in str "zone_abbr".
Definition n_utc_offset := Eval compute in str "utc_offset".
Definition n_std_offset := Eval compute in str "std_offset".
Definition n_map := Eval compute in str "map".
Definition n_set := Eval compute in str "set".
Definition n_message := Eval compute in str "message".
Definition n_key := Eval compute in str "key".
Definition n_term := Eval compute in str "term".
Definition n_module := Eval compute in str "module".
Definition n_function := Eval compute in str "function".
Definition n_arity := Eval compute in str "arity".
Definition n_reason := Eval compute in str "reason".
Definition n_args := Eval compute in str "args".
Definition n_elixir_dot := Eval compute in str "Elixir.".
Definition m_range := Eval compute in str "Elixir.Range".
Definition m_date := Eval compute in str "Elixir.Date".
Definition m_time := Eval compute in str "Elixir.Time".
Definition m_naive := Eval compute in str "Elixir.NaiveDateTime".
Definition m_datetime := Eval compute in str "Elixir.DateTime".
Definition m_mapset := Eval compute in str "Elixir.MapSet".
Definition m_argument := Eval compute in str "Elixir.ArgumentError".
Definition m_runtime := Eval compute in str "Elixir.RuntimeError".
Definition m_arithmetic := Eval compute in str "Elixir.ArithmeticError".
Definition m_key := Eval compute in str "Elixir.KeyError".
Definition m_match := Eval compute in str "Elixir.MatchError".
Definition m_badmap := Eval compute in str "Elixir.BadMapError".
Definition m_badfun := Eval compute in str "Elixir.BadFunctionError".
Definition m_caseclause := Eval compute in str "Elixir.CaseClauseError".
Definition m_withclause := Eval compute in str "Elixir.WithClauseError".
Definition m_undef := Eval compute in str "Elixir.UndefinedFunctionError".
Definition m_fclause := Eval compute in str "Elixir.FunctionClauseError".
Definition m_cond := Eval compute in str "Elixir.CondClauseError".

(* ---------- shared accessors ---------- *)
Definition obind {A B} (o : option A) (f : A -> option B) : option B := match o with Some a => f a | None => None end.
Notation "x <~ e ;; k" := (obind e (fun x => k)) (at level 61, e at next level, right associativity).

(* BTreeMap::get: the entry whose key compares Equal *)
Fixpoint mget (k : term) (m : list (term * term)) : option term :=
  match m with
  | [] => None
  | (k', v) :: r => match cmp_owned k k' with Eq => Some v | _ => mget k r end
  end.
Definition aget (name : bytes) (m : list (term * term)) : option term := mget (TAtom name) m.
Definition mk_map (kvs : list (term * term)) : term := TMap (map_of_list cmp_owned kvs).
Definition atom_name (t : term) : option bytes := match t with TAtom a => Some a | _ => None end.
Definition is_atom_named (name : bytes) (t : term) : bool :=
  match t with TAtom a => eq_bytes a name | _ => false end.
Definition struct_module (t : term) : option bytes :=
  match t with TMap m => v <~ aget n_struct m ;; atom_name v | _ => None end.
(* `term.elixir_struct_module() != Some(name)` guard followed by as_map()? *)
Definition struct_fields (name : bytes) (t : term) : option (list (term * term)) :=
  match struct_module t with
  | Some a => if eq_bytes a name then match t with TMap m => Some m | _ => None end else None
  | None => None
  end.

(* a Rust String produced from bytes with from_utf8_lossy: the bytes themselves when they are valid UTF-8; the
   replacement-character text is not modelled, only the fact that the input was altered *)
Inductive estr := StrOk (b : bytes) | StrLossy.
Definition lossy (b : bytes) : estr := if utf8_valid b then StrOk b else StrLossy.
Definition estr_bytes (s : estr) : bytes := match s with StrOk b => b | StrLossy => [] end.

Fixpoint small_ints (l : list term) : option bytes :=
  match l with
  | [] => Some []
  | TInt z :: r => if ((0 <=? z) && (z <=? 255))%Z then (bs <~ small_ints r ;; Some (Z.to_N z :: bs)) else None
  | _ :: _ => None
  end.
Definition as_erlang_string (t : term) : option estr :=
  match t with
  | TList l => bs <~ small_ints l ;; Some (lossy bs)
  | TStr s => Some (StrOk s)
  | TBin b => Some (lossy b)
  | _ => None
  end.

Definition to_u8 (z : Z) : option Z := if ((0 <=? z) && (z <=? 255))%Z then Some z else None.
Definition to_u32 (z : Z) : option Z := if ((0 <=? z) && (z <=? 4294967295))%Z then Some z else None.
Definition to_i32 (z : Z) : option Z := if ((-2147483648 <=? z) && (z <=? 2147483647))%Z then Some z else None.
Definition int_field (name : bytes) (m : list (term * term)) : option Z := v <~ aget name m ;; as_integer v.

(* {value, precision} under the key `microsecond`; absent or not a 2-tuple reads as (0, 0) *)
Definition microsecond_field (m : list (term * term)) : option (Z * Z) :=
  match aget n_microsecond m with
  | Some (TTuple [val; prec]) => v <~ as_integer val ;; v' <~ to_u32 v ;; p <~ as_integer prec ;; p' <~ to_u8 p ;; Some (v', p')
  | _ => Some (0, 0)%Z
  end.

Definition starts_with (p s : bytes) : bool := eq_bytes (firstn (length p) s) p.
Definition strip_elixir (s : bytes) : bytes := if starts_with n_elixir_dot s then skipn (length n_elixir_dot) s else s.
Definition add_elixir (s : bytes) : bytes := if starts_with n_elixir_dot s then s else n_elixir_dot ++ s.
Definition t_nil : term := TAtom n_nil.
Definition t_true : term := TAtom n_true.

(* ---------- wrapper values ---------- *)
Inductive wval :=
| WRange (r : range)
| WDate (y m d : Z)
| WTime (h mi s us prec : Z)
| WNaive (y m d h mi s us prec : Z)
| WDateTime (y m d h mi s us prec : Z) (tz abbr : estr) (utc std : Z)
| WMapSet (els : list term)                         (* the BTreeSet's elements in its order *)
| WMsgErr (kind : N) (msg : estr)                   (* 0 ArgumentError, 1 RuntimeError, 2 ArithmeticError *)
| WKeyErr (key tm : term) (msg : option estr)
| WTermErr (kind : N) (tm : term)                   (* 0 Match, 1 BadMap, 2 BadFunction, 3 CaseClause, 4 WithClause *)
| WUndef (module function : estr) (arity : Z) (reason : option estr)
| WFClause (module function : option estr) (arity : option Z) (args : option term)
| WCond.

Definition msg_module (kind : N) : bytes :=
  match kind with 0 => m_argument | 1 => m_runtime | _ => m_arithmetic end.
Definition term_module (kind : N) : bytes :=
  match kind with 0 => m_match | 1 => m_badmap | 2 => m_badfun | 3 => m_caseclause | _ => m_withclause end.

Definition exception_base (module : bytes) : list (term * term) :=
  [(TAtom n_struct, TAtom module); (TAtom n_exception, t_true)].
Definition bin_of (s : estr) : term := TBin (estr_bytes s).
Definition opt_bin (o : option estr) : term := match o with Some s => bin_of s | None => t_nil end.

(* BTreeSet<OwnedTerm> built by inserting the values one by one (from_values / FromIterator after fix commit
   ac9580f): a value that compares Equal to a member is not inserted *)
Fixpoint set_insert (e : term) (l : list term) : list term :=
  match l with
  | [] => [e]
  | x :: r => match cmp_owned e x with Lt => e :: l | Eq => l | Gt => x :: set_insert e r end
  end.
Definition set_of_list (l : list term) : list term := fold_left (fun s e => set_insert e s) l [].

Definition date_fields (y m d : Z) := [(TAtom n_year, TInt y); (TAtom n_month, TInt m); (TAtom n_day, TInt d)].
Definition time_fields (h mi s us prec : Z) :=
  [(TAtom n_hour, TInt h); (TAtom n_minute, TInt mi); (TAtom n_second, TInt s);
   (TAtom n_microsecond, TTuple [TInt us; TInt prec])].
Definition calendar_field := [(TAtom n_calendar, TAtom n_iso)].

Definition wto_term (w : wval) : term :=
  match w with
  | WRange r =>
      mk_map [(TAtom n_struct, TAtom m_range); (TAtom n_first, TInt (rfirst r)); (TAtom n_last, TInt (rlast r));
              (TAtom n_step, TInt (rstep r))]
  | WDate y m d => mk_map ((TAtom n_struct, TAtom m_date) :: date_fields y m d ++ calendar_field)
  | WTime h mi s us prec => mk_map ((TAtom n_struct, TAtom m_time) :: time_fields h mi s us prec ++ calendar_field)
  | WNaive y m d h mi s us prec =>
      mk_map ((TAtom n_struct, TAtom m_naive) :: date_fields y m d ++ time_fields h mi s us prec ++ calendar_field)
  | WDateTime y m d h mi s us prec tz abbr utc std =>
      mk_map ((TAtom n_struct, TAtom m_datetime) :: date_fields y m d ++ time_fields h mi s us prec ++
              [(TAtom n_time_zone, bin_of tz); (TAtom n_zone_abbr, bin_of abbr);
               (TAtom n_utc_offset, TInt utc); (TAtom n_std_offset, TInt std)] ++ calendar_field)
  | WMapSet els =>
      mk_map [(TAtom n_struct, TAtom m_mapset);
              (TAtom n_map, TTuple [TAtom n_set; TInt (Z.of_N (len els));
                                    TMap (map_of_list cmp_owned (map (fun e => (e, TList [])) els))])]
  | WMsgErr kind msg => mk_map (exception_base (msg_module kind) ++ [(TAtom n_message, bin_of msg)])
  | WKeyErr key tm msg =>
      mk_map (exception_base m_key ++ [(TAtom n_key, key); (TAtom n_term, tm); (TAtom n_message, opt_bin msg)])
  | WTermErr kind tm => mk_map (exception_base (term_module kind) ++ [(TAtom n_term, tm)])
  | WUndef module function arity reason =>
      mk_map (exception_base m_undef ++
              [(TAtom n_module, TAtom (add_elixir (estr_bytes module))); (TAtom n_function, TAtom (estr_bytes function));
               (TAtom n_arity, TInt arity); (TAtom n_reason, opt_bin reason)])
  | WFClause module function arity args =>
      mk_map (exception_base m_fclause ++
              [(TAtom n_module, match module with Some m => TAtom (add_elixir (estr_bytes m)) | None => t_nil end);
               (TAtom n_function, match function with Some f => TAtom (estr_bytes f) | None => t_nil end);
               (TAtom n_arity, match arity with Some a => TInt a | None => t_nil end);
               (TAtom n_args, match args with Some a => a | None => t_nil end)])
  | WCond => mk_map (exception_base m_cond)
  end.

(* which wfrom_term is being called *)
Inductive wkind :=
| KRange | KDate | KTime | KNaive | KDateTime | KMapSet | KMsgErr (kind : N) | KKeyErr | KTermErr (kind : N)
| KUndef | KFClause | KCond.

Definition kind_of (w : wval) : wkind :=
  match w with
  | WRange _ => KRange | WDate _ _ _ => KDate | WTime _ _ _ _ _ => KTime | WNaive _ _ _ _ _ _ _ _ => KNaive
  | WDateTime _ _ _ _ _ _ _ _ _ _ _ _ => KDateTime | WMapSet _ => KMapSet | WMsgErr k _ => KMsgErr k
  | WKeyErr _ _ _ => KKeyErr | WTermErr k _ => KTermErr k | WUndef _ _ _ _ => KUndef | WFClause _ _ _ _ => KFClause
  | WCond => KCond
  end.

Definition read_date (m : list (term * term)) : option (Z * Z * Z) :=
  y <~ int_field n_year m ;; y' <~ to_i32 y ;; mo <~ int_field n_month m ;; mo' <~ to_u8 mo ;;
  d <~ int_field n_day m ;; d' <~ to_u8 d ;; Some (y', mo', d').
Definition read_hms (m : list (term * term)) : option (Z * Z * Z) :=
  h <~ int_field n_hour m ;; h' <~ to_u8 h ;; mi <~ int_field n_minute m ;; mi' <~ to_u8 mi ;;
  s <~ int_field n_second m ;; s' <~ to_u8 s ;; Some (h', mi', s').

Definition not_nil (o : option term) : option term :=
  match o with Some t => if is_atom_named n_nil t then None else Some t | None => None end.

Definition wfrom_term (k : wkind) (t : term) : option wval :=
  match k with
  | KRange =>
      m <~ struct_fields m_range t ;;
      f <~ int_field n_first m ;; l <~ int_field n_last m ;; s <~ int_field n_step m ;;
      Some (WRange {| rfirst := f; rlast := l; rstep := s |})
  | KDate =>
      m <~ struct_fields m_date t ;; ymd <~ read_date m ;;
      let '(y, mo, d) := ymd in Some (WDate y mo d)
  | KTime =>
      m <~ struct_fields m_time t ;; hms <~ read_hms m ;; up <~ microsecond_field m ;;
      let '(h, mi, s) := hms in Some (WTime h mi s (fst up) (snd up))
  | KNaive =>
      m <~ struct_fields m_naive t ;; ymd <~ read_date m ;; hms <~ read_hms m ;; up <~ microsecond_field m ;;
      let '(y, mo, d) := ymd in let '(h, mi, s) := hms in Some (WNaive y mo d h mi s (fst up) (snd up))
  | KDateTime =>
      m <~ struct_fields m_datetime t ;; ymd <~ read_date m ;; hms <~ read_hms m ;; up <~ microsecond_field m ;;
      tzt <~ aget n_time_zone m ;; tz <~ as_erlang_string tzt ;;
      abt <~ aget n_zone_abbr m ;; abbr <~ as_erlang_string abt ;;
      utc <~ int_field n_utc_offset m ;; utc' <~ to_i32 utc ;;
      std <~ int_field n_std_offset m ;; std' <~ to_i32 std ;;
      let '(y, mo, d) := ymd in let '(h, mi, s) := hms in
      Some (WDateTime y mo d h mi s (fst up) (snd up) tz abbr utc' std')
  | KMapSet =>
      m <~ struct_fields m_mapset t ;; mv <~ aget n_map m ;;
      match mv with
      | TTuple [tag; _; TMap inner] => if is_atom_named n_set tag then Some (WMapSet (map fst inner)) else None
      | _ => None
      end
  | KMsgErr kind =>
      m <~ struct_fields (msg_module kind) t ;; mt <~ aget n_message m ;; msg <~ as_erlang_string mt ;;
      Some (WMsgErr kind msg)
  | KKeyErr =>
      m <~ struct_fields m_key t ;; key <~ aget n_key m ;; tm <~ aget n_term m ;;
      Some (WKeyErr key tm (obind (aget n_message m) as_erlang_string))
  | KTermErr kind =>
      m <~ struct_fields (term_module kind) t ;; tm <~ aget n_term m ;; Some (WTermErr kind tm)
  | KUndef =>
      m <~ struct_fields m_undef t ;;
      mt <~ aget n_module m ;; mn <~ atom_name mt ;;
      ft <~ aget n_function m ;; fn <~ atom_name ft ;;
      a <~ int_field n_arity m ;; a' <~ to_u8 a ;;
      Some (WUndef (StrOk (strip_elixir mn)) (StrOk fn) a' (obind (aget n_reason m) as_erlang_string))
  | KFClause =>
      m <~ struct_fields m_fclause t ;;
      Some (WFClause (option_map (fun n => StrOk (strip_elixir n)) (obind (not_nil (aget n_module m)) atom_name))
                     (option_map StrOk (obind (not_nil (aget n_function m)) atom_name))
                     (obind (obind (aget n_arity m) as_integer) to_u8)
                     (not_nil (aget n_args m)))
  | KCond => m <~ struct_fields m_cond t ;; Some WCond
  end.

(* ---------- proplist / map helpers (term.rs) ---------- *)
Definition is_proplist_element (t : term) : bool :=
  match t with
  | TTuple [k; _] => match k with TAtom _ | TBin _ | TStr _ => true | _ => false end
  | TAtom _ => true
  | _ => false
  end.
Definition is_proplist (t : term) : bool :=
  match t with TList els => forallb is_proplist_element els | TNil => true | _ => false end.

(* the (key, value) entry a proplist element stands for *)
Definition entry_of (el : term) : option (term * term) :=
  match el with
  | TTuple [k; v] => Some (k, v)
  | TAtom a => Some (TAtom a, t_true)
  | _ => None
  end.
Definition entries_of (els : list term) : list (term * term) :=
  flat_map (fun el => match entry_of el with Some kv => [kv] | None => [] end) els.
Definition tuple_of (kv : term * term) : term := TTuple [fst kv; snd kv].

Definition normalize_proplist (t : term) : option term :=
  match t with
  | TList els => Some (TList (map tuple_of (entries_of els)))
  | TNil => Some (TList [])
  | _ => None
  end.
Definition proplist_to_map (t : term) : option term :=
  match t with
  | TList els => Some (TMap (map_of_list cmp_owned (entries_of els)))
  | TMap _ => Some t
  | TNil => Some (TMap [])
  | _ => None
  end.
Definition map_to_proplist (t : term) : option term :=
  match t with
  | TMap m => Some (TList (map tuple_of m))
  | TList _ | TNil => Some t
  | _ => None
  end.

(* to_map_recursive, on fuel (the nesting depth of the term bounds the recursion) *)
Fixpoint to_map_recursive (fuel : nat) (t : term) : term :=
  match fuel with
  | O => t
  | S f =>
    match t with
    | TList [] => TList []
    | TList els =>
        if forallb is_proplist_element els then
          TMap (map_of_list cmp_owned
                  (map (fun kv => (fst kv, to_map_recursive f (snd kv))) (map_of_list cmp_owned (entries_of els))))
        else TList (map (to_map_recursive f) els)
    | TMap m => TMap (map_of_list cmp_owned (map (fun kv => (fst kv, to_map_recursive f (snd kv))) m))
    | TNil => TList []
    | _ => t
    end
  end.

(* proplist_get_atom_key: first 2-tuple whose key is that atom *)
Fixpoint proplist_get_atom_key (name : bytes) (els : list term) : option term :=
  match els with
  | [] => None
  | TTuple [TAtom a; v] :: r => if eq_bytes a name then Some v else proplist_get_atom_key name r
  | _ :: r => proplist_get_atom_key name r
  end.

(* ---------- builders ---------- *)
Definition kw_build (entries : list (bytes * term)) : term :=
  TList (map (fun kv => TTuple [TAtom (fst kv); snd kv]) entries).
Definition akm_build (entries : list (bytes * term)) : term :=
  TMap (map_of_list cmp_owned (map (fun kv => (TAtom (fst kv), snd kv)) entries)).
