(* Correspondence runner for the extracted model: reads one case per line, prints one result line. *)
open Model

(* ---- conversions between OCaml ints/strings and the extracted binary numbers ---- *)
let rec pos_of_int (i : int) : positive =
  if i = 1 then XH else if i land 1 = 0 then XO (pos_of_int (i lsr 1)) else XI (pos_of_int (i lsr 1))
let n_of_int (i : int) : n = if i = 0 then N0 else Npos (pos_of_int i)
let rec int_of_pos = function XH -> 1 | XO p -> 2 * int_of_pos p | XI p -> 2 * int_of_pos p + 1
let int_of_n = function N0 -> 0 | Npos p -> int_of_pos p

(* arbitrary-size naturals from/to hex strings *)
let hexval c = match c with
  | '0'..'9' -> Char.code c - 48 | 'a'..'f' -> Char.code c - 87 | 'A'..'F' -> Char.code c - 55
  | _ -> failwith "hex"
let n_of_hex (s : string) : n =
  (* build the positive from the least significant bit upwards *)
  let bits = Buffer.create (4 * String.length s) in
  String.iter (fun c -> let v = hexval c in
    for k = 3 downto 0 do Buffer.add_char bits (if (v lsr k) land 1 = 1 then '1' else '0') done) s;
  let b = Buffer.contents bits in
  (* strip leading zeros *)
  let len = String.length b in
  let i = ref 0 in
  while !i < len && b.[!i] = '0' do incr i done;
  if !i = len then N0 else begin
    let p = ref XH in
    for j = !i + 1 to len - 1 do
      p := if b.[j] = '1' then XI !p else XO !p
    done;
    Npos !p end
let hex_of_n (x : n) : string =
  match x with N0 -> "0" | Npos p ->
    let rec bits p acc = match p with XH -> 1 :: acc | XO q -> bits q (0 :: acc) | XI q -> bits q (1 :: acc) in
    let bl = bits p [] in   (* most significant first *)
    let l = List.length bl in
    let pad = (4 - l mod 4) mod 4 in
    let bl = List.init pad (fun _ -> 0) @ bl in
    let buf = Buffer.create 16 in
    let rec go = function
      | a :: b :: c :: d :: r -> Buffer.add_char buf "0123456789abcdef".[a*8+b*4+c*2+d]; go r
      | [] -> () | _ -> failwith "bits" in
    go bl; Buffer.contents buf
let n_of_dec (s : string) : n =
  (* decimal strings of at most 19 digits fit in OCaml's 63-bit int; larger go through hex by caller *)
  if String.length s <= 18 then n_of_int (int_of_string s)
  else begin
    let ten = n_of_int 10 in
    let acc = ref N0 in
    String.iter (fun c -> acc := N.add (N.mul !acc ten) (n_of_int (Char.code c - 48))) s; !acc end
let rec dec_of_n (x : n) : string =
  match x with N0 -> "0" | _ ->
    (* via hex -> only used for small numbers *)
    let h = hex_of_n x in
    if String.length h <= 15 then string_of_int (int_of_string ("0x" ^ h)) else "0x" ^ h

let bytes_of_hex (s : string) : n list =
  if s = "." || s = "-" then [] else
  List.init (String.length s / 2) (fun i -> n_of_int (hexval s.[2*i] * 16 + hexval s.[2*i+1]))
let hex_of_bytes (l : n list) : string =
  if l = [] then "." else begin
    let buf = Buffer.create 64 in
    List.iter (fun b -> Buffer.add_string buf (Printf.sprintf "%02x" (int_of_n b))) l;
    Buffer.contents buf end

let words s = List.filter (fun w -> w <> "") (String.split_on_char ' ' s)

(* ---- domain frag ---- *)
let frag_case (line : string) : string =
  let mode, rest = match String.index_opt line ' ' with
    | Some i -> String.sub line 0 i, String.sub line (i+1) (String.length line - i - 1)
    | None -> line, "" in
  let timeout = match mode with "zero" | "xzero" -> N0 | "big" | "xbig" -> n_of_dec "1000000000" | _ -> n_of_int 30000 in
  let evs = List.filter (fun e -> words e <> []) (String.split_on_char ';' rest) in
  let conv e = match words e with
    | ["S"; seq; fid; c; d] ->
        [EStart (n_of_dec seq, n_of_dec fid, (if c = "-" then None else Some (bytes_of_hex c)), bytes_of_hex d)]
    | ["A"; seq; fid; d] -> [EAdd (n_of_dec seq, n_of_dec fid, bytes_of_hex d)]
    | ["C"] -> [ETick (n_of_int 2); ECleanup timeout]
    | _ -> failwith "bad event" in
  let mevs = List.concat_map conv evs in
  let outs = run ([], N0) mevs in
  (* pair outputs with events; skip ticks; cleanup prints removed = prev - cur *)
  let buf = Buffer.create 64 in
  let prev = ref 0 in
  List.iter2 (fun ev (o, pc) ->
    let pc = int_of_n pc in
    (match ev, o with
     | ETick _, _ -> ()
     | ECleanup _, _ -> Buffer.add_string buf (Printf.sprintf "c%d/%d " (!prev - pc) pc)
     | _, Some None -> Buffer.add_string buf (Printf.sprintf "n/%d " pc)
     | _, Some (Some b) -> Buffer.add_string buf (Printf.sprintf "s%s/%d " (hex_of_bytes b) pc)
     | _, None -> ());
    prev := pc) mevs outs;
  String.trim (Buffer.contents buf)

let () =
  let domain = if Array.length Sys.argv > 1 then Sys.argv.(1) else "" in
  let f = match domain with
    | "frag" -> frag_case
    | _ -> prerr_endline ("unknown domain " ^ domain); exit 2 in
  (try
    while true do
      let line = input_line stdin in
      let line = String.trim line in
      if line = "" || line.[0] = '#' then print_endline line
      else (try print_endline (f line) with
            | Stack_overflow -> print_endline "MODEL-STACK-OVERFLOW"
            | e -> print_endline ("MODEL-ERROR " ^ Printexc.to_string e))
    done
  with End_of_file -> ())
