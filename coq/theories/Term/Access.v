(* Accessors of OwnedTerm that several layers share (term.rs as_integer, types.rs BigInt::to_i64 — fix commit
   10e629c: a big integer that fits an i64 is an integer to every accessor). Definitions only. *)
From EDP Require Import Base.Bytes Term.Term Codec.Encode.

(* BigInt::to_i64: digits little-endian, high zero digits ignored, more than 8 significant digits or a magnitude
   outside the signed range give None *)
Definition big_to_i64 (neg : bool) (d : bytes) : option Z :=
  let s := rev (strip_hi (rev d)) in
  if 8 <? len s then None
  else let mag := Z.of_N (unle s) in
       if neg then (if (mag <=? 9223372036854775808)%Z then Some (- mag)%Z else None)
       else if (mag <=? 9223372036854775807)%Z then Some mag else None.

Definition as_integer (t : term) : option Z :=
  match t with
  | TInt z => Some z
  | TBig neg d => big_to_i64 neg d
  | _ => None
  end.
