"""C11 — comparison is a lawful total preorder consistent with == and hash; borrowed agrees with owned. Domain `ord`."""
import itertools
import etf, ordlib, C12

ID = "C11"
GEN_FILES = ["Ranks.v", "HashFields.v"]
RULE = ("all ordered pairs of the C12 universe (every rank, mixed numeric representations around 2^53/2^63, equal-length bigs, binaries vs "
        "bit-strings, proper vs improper lists, -0.0/0.0, funs differing in arity, containers of those); laws checked on the implementation's "
        "answers: antisymmetry on every pair, transitivity on every triple, == implies Equal, == implies equal hash, BorrowedTerm::cmp = "
        "OwnedTerm::cmp; distinct = distinct pair; non-trivial = the two terms differ")
ASSUMPTIONS = ["equal hash is observed with std DefaultHasher; hasher collisions are ignored"]


def oracle(case, impl):
    if impl.startswith(("PANIC", "CRASH", "TIMEOUT")):
        return ("violation", "comparison did not return: " + impl[:60])
    d = ordlib.parse_out(impl)
    if d["o"] != d["b"]:
        return ("violation", "the zero-copy type orders this pair %s, the owned type %s" % (d["b"], d["o"]))
    if d["eq"] == "t" and d["o"] != "eq":
        return ("violation", "structurally equal terms compare " + d["o"])
    if d["eq"] == "t" and d["heq"] != "t":
        a, b = C12.split_case(case)
        if has_zero_pair(a, b):
            return ("known", "C11-zero-hash")
        return ("violation", "equal terms have different hashes")
    return None


def has_zero_pair(a, b):
    if a[0] == "f" and b[0] == "f":
        return {a[1], b[1]} == {0, 1 << 63}
    if a[0] == b[0] and a[0] in ("t", "l"):
        return any(has_zero_pair(x, y) for x, y in zip(a[1], b[1]))
    if a[0] == b[0] == "L":
        return any(has_zero_pair(x, y) for x, y in zip(a[1], b[1])) or has_zero_pair(a[2], b[2])
    if a[0] == b[0] == "m":
        return any(has_zero_pair(k1, k2) or has_zero_pair(v1, v2) for (k1, v1), (k2, v2) in zip(a[1], b[1]))
    if a[0] == b[0] == "u":
        return any(has_zero_pair(x, y) for x, y in zip(a[9], b[9]))
    return False


def oracle_for(_d):
    return oracle


def run(ctx):
    u, cases = C12.cases_for(ctx)
    n = len(u)

    def nontrivial(c, impl):
        a, b = c[4:].split(" | ")
        return c if a != b else None
    impl, model = ctx.diff_domain("ord", cases, oracle=oracle, nontrivial=nontrivial,
                                  classify=lambda c, i: ["result:" + i.split()[0]])
    # laws over the whole table (implementation's answers)
    sg = [[ordlib.SIGN.get(ordlib.parse_out(impl[i * n + j]).get("o", "eq"), 0) if impl[i * n + j].startswith("o=") else 0 for j in range(n)] for i in range(n)]
    shown = [etf.show(t) for t in u]
    for i in range(n):
        for j in range(n):
            if sg[i][j] != -sg[j][i]:
                ctx.violations.append(("ord", "cmp %s | %s" % (shown[i], shown[j]), impl[i * n + j], "cmp(a,b) is not the reverse of cmp(b,a)"))
    cls_cache = {}

    def known_pair(i, j):
        k = (i, j)
        if k not in cls_cache:
            cls_cache[k] = ordlib.pair_classes(u[i], u[j])
        return cls_cache[k]
    checked = 0
    for i in range(n):
        row = sg[i]
        for j in range(n):
            if row[j] > 0:
                continue
            rj = sg[j]
            for k in range(n):
                if rj[k] <= 0 and row[k] > 0:
                    checked += 1
                    cls = known_pair(i, j) | known_pair(j, k) | known_pair(i, k)
                    if "C12-padded-big" in cls:
                        ctx.known_hits["C11-padded-big"] += 1
                    elif cls:
                        ctx.known_hits["C11-intransitive"] += 1
                    else:
                        ctx.violations.append(("ord", "cmp %s | %s" % (shown[i], shown[k]), impl[i * n + k],
                                               "a<=b and b<=c but a>c with b = %s" % shown[j]))
    ctx.notes.append("law checks: %d pairs for antisymmetry, %d triples for transitivity, %d intransitive triples" % (n * n, n ** 3, checked))
    ctx.hist["triples_checked"] = n ** 3
