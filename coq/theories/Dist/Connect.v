(* Connection::connect once the TCP stream is up: the handshake driven over the socket.  The client writes its name,
   reads the status, writes the complement, reads the challenge, writes its reply, reads the ack — each read is one
   handshake-mode frame (2-byte length), each step is the handshake API's (Dist/Handshake.v).  Definitions only. *)
From EDP Require Import Base.Bytes Dist.Framing Dist.Handshake.

Inductive cerr := CHs (e : herr) | CEof | CTooLarge.

Record cres := { c_err : option cerr; c_hs : hs; c_wrote : bytes; c_rest : list chunk }.

Section Connect.
  Variable md5 : bytes -> bytes.
  Variable c : hcfg.
  Variable gen : N.                     (* the challenge this side will issue *)

  Definition fail (e : cerr) (s : hs) (w : bytes) (cs : list chunk) : cres := {| c_err := Some e; c_hs := s; c_wrote := w; c_rest := cs |}.

  (* a prepare_* step: its bytes are written *)
  Definition wr (s : hs) (o : hop) (w : bytes) (cs : list chunk) (k : hs -> bytes -> cres) : cres :=
    match hstep md5 c s o with
    | (s', OBytes b) => k s' (w ++ b)
    | (s', OErr e) => fail (CHs e) s' w cs
    | (s', OUnit) => k s' w
    end.

  (* a receive_* step: one frame is read and handed to the handshake *)
  Definition rdm (s : hs) (mk : bytes -> hop) (w : bytes) (cs : list chunk) (k : hs -> list chunk -> cres) : cres :=
    match read_framed Handshake cs with
    | (RErr Eof, cs', _) => fail CEof s w cs'
    | (RErr TooLarge, cs', _) => fail CTooLarge s w cs'
    | (ROk d, cs', _) =>
        match hstep md5 c s (mk d) with
        | (s', OErr e) => fail (CHs e) s' w cs'
        | (s', _) => k s' cs'
        end
    end.

  Definition connect (cs : list chunk) : cres :=
    match hstep md5 c hs_init BeginConnect with
    | (s0, OErr e) => fail (CHs e) s0 [] cs
    | (s0, _) =>
      wr s0 PrepareSendName [] cs (fun s1 w1 =>
      rdm s1 HandleStatus w1 cs (fun s2 cs2 =>
      wr s2 PrepareComplement w1 cs2 (fun s3 w3 =>
      rdm s3 (fun d => HandleChallenge d gen) w3 cs2 (fun s4 cs4 =>
      wr s4 PrepareChallengeReply w3 cs4 (fun s5 w5 =>
      rdm s5 HandleChallengeAck w5 cs4 (fun s6 cs6 =>
      {| c_err := None; c_hs := s6; c_wrote := w5; c_rest := cs6 |}))))))
    end.
End Connect.
