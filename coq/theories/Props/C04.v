(* C04 — handshake: connected only after cookie proof; flags are the intersection.
   Connection::connect over the socket is Dist/Connect.v (the API steps in the order the code takes them, each read
   one handshake-mode frame of a transport delivering arbitrary chunks); timeouts are the end of the chunk stream. *)
From EDP Require Import Base.Bytes Term.Term Dist.Framing Dist.Handshake Dist.HandshakeFacts Dist.Connect Dist.ConnectFacts.

(* For EVERY sequence of API calls, in any order, with any arguments, for any hash function:
   the state is Connected only if the spec automaton `gstep` is in `proven`, i.e. only if — after the last successful
   handle_challenge since the last disconnect — an ack carrying MD5(cookie ++ decimal(that challenge)) was presented. *)
Theorem C04_connected_only_after_proof : forall md5 c ops,
  let s := fst (hrun md5 c hs_init ops) in
  let g := grun md5 c ghost0 hs_init ops in
  our s = issued g /\ (st s = Connected -> proven g = true).
Proof. intros md5 c ops. exact (hrun_fst md5 c hs_init ops ghost0 (inv_init)). Qed.

(* `proven` is only ever set by an ack whose 16 bytes equal the digest of an issued challenge *)
Theorem C04_proven_needs_valid_ack : forall md5 c ops, proven (grun md5 c ghost0 hs_init ops) = true ->
  exists pre d post ch, ops = pre ++ HandleChallengeAck d :: post /\ valid_ack md5 c d ch.
Proof.
  intros md5 c ops H. destruct (grun_proven md5 c ops ghost0 hs_init H) as [Hf|Hex]; [discriminate|exact Hex].
Qed.

(* disconnect forgets the challenge: a recorded ack cannot be replayed into a new handshake *)
Theorem C04_disconnect_forgets : forall md5 c s d,
  let s' := fst (hstep md5 c s Disconnect) in
  s' = hs_init /\ fst (hstep md5 c s' (HandleChallengeAck d)) = s' /\ st s' = Disconnected.
Proof.
  intros md5 c s d. cbn [hstep fst]. repeat split.
  destruct (ack_decode d); reflexivity.
Qed.

(* negotiated capability set = bitwise intersection *)
Theorem C04_flags_intersection : forall md5 c s d gen fl ch, challenge_decode d = Some (fl, ch) ->
  nego (fst (hstep md5 c s (HandleChallenge d gen))) = Some (N.land fl (h_flags c)).
Proof. exact nego_intersection. Qed.

(* the reply carries this side's challenge and the digest of the cookie and the PEER's challenge *)
Theorem C04_reply_layout : forall md5 c s oc tc, our s = Some oc -> their s = Some tc ->
  snd (hstep md5 c s PrepareChallengeReply) = OBytes (be 2 21 ++ [114] ++ be 4 oc ++ md5 (h_cookie c ++ decimal tc)).
Proof. intros md5 c s oc tc Ho Ht. cbn [hstep]. rewrite Ho, Ht. reflexivity. Qed.

(* length prefixes equal the number of bytes that follow *)
Theorem C04_send_name_length : forall c b, send_name_old c = Some b ->
  len (h_name c) <= 255 /\
  b = be 2 (len ([110] ++ be 2 5 ++ be 4 (h_flags c mod 4294967296) ++ h_name c))
        ++ [110] ++ be 2 5 ++ be 4 (h_flags c mod 4294967296) ++ h_name c.
Proof.
  intros c b H. unfold send_name_old in H. destruct (255 <? len (h_name c)) eqn:E; [discriminate|]. inversion H; subst.
  apply N.ltb_ge in E. split; [exact E|]. f_equal. f_equal.
  unfold len. rewrite !app_length, !be_length. cbn [length].
  replace (N.of_nat (1 + (2 + (4 + length (h_name c))))) with (1 + 2 + 4 + N.of_nat (length (h_name c))) by lia. reflexivity.
Qed.

Theorem C04_complement_layout : forall c,
  complement c = be 2 9 ++ [99] ++ be 4 (h_flags c / 4294967296) ++ be 4 (h_creation c) /\ length (complement c) = 11%nat.
Proof. intros c. split; [reflexivity|]. unfold complement. rewrite !app_length, !be_length. reflexivity. Qed.

(* every refusal / malformed input is an error and leaves the machine away from Connected *)
Theorem C04_errors_never_connect : forall md5 c s o e, snd (hstep md5 c s o) = OErr e ->
  st (fst (hstep md5 c s o)) = Connected -> st s = Connected.
Proof.
  intros md5 c s o e He Hc. destruct o; cbn [hstep] in *.
  - destruct (st s) eqn:E; cbn [fst snd] in *; try discriminate; congruence.
  - destruct (send_name_old c); cbn [fst snd set_st st] in *; discriminate.
  - destruct (status_ok d) as [[|]|]; cbn [fst snd] in *; try discriminate; assumption.
  - discriminate.
  - destruct (challenge_decode d) as [[fl ch]|]; cbn [fst snd set_st st] in *; discriminate.
  - destruct (our s), (their s); cbn [fst snd set_st st] in *; discriminate.
  - destruct (ack_decode d); [|cbn [fst snd] in *; assumption].
    destruct (our s); [|cbn [fst snd] in *; assumption].
    destruct (bytes_eqb _ _); cbn [fst snd] in *; [discriminate|assumption].
  - discriminate.
Qed.

Example C04_example :
  let c := {| h_name := [97; 64; 98]; h_cookie := [115]; h_flags := 13; h_creation := 1 |} in
  let md5 := fun b => b in     (* any function: here the identity *)
  let chal := [78; 0;0;0;0;0;0;0;5; 0;0;0;9; 0;0;0;1; 0;1; 112] in
  st (fst (hrun md5 c hs_init [BeginConnect; PrepareSendName; HandleStatus [115; 111; 107]; PrepareComplement;
                                HandleChallenge chal 7; PrepareChallengeReply; HandleChallengeAck (97 :: [115; 55] ++ repeat 0 14)])) <> Connected
  /\ nego (fst (hrun md5 c hs_init [HandleChallenge chal 7])) = Some 5.
Proof. split; vm_compute; [discriminate|reflexivity]. Qed.

(* ---- over the socket ----
   whatever byte stream the peer produces and however the transport cuts it: connect succeeds exactly when the three
   frames it reads are an accepting status, a well-formed challenge and the digest of (cookie, the challenge issued in
   this very handshake) *)
Theorem C04_socket_connected_iff : forall md5 c gen cs,
  c_err (connect md5 c gen cs) = None <->
  exists d1 cs1 a1 d2 cs2 a2 d3 cs3 a3 fl ch nm,
    send_name_old c = Some nm /\
    read_framed Handshake cs = (ROk d1, cs1, a1) /\ status_ok d1 = Some true /\
    read_framed Handshake cs1 = (ROk d2, cs2, a2) /\ challenge_decode d2 = Some (fl, ch) /\
    read_framed Handshake cs2 = (ROk d3, cs3, a3) /\ ack_decode d3 = Some (digest md5 gen (h_cookie c)).
Proof. exact connect_connected_iff. Qed.

(* then the state is Connected, the negotiated set is the intersection, and what went on the wire is the name message,
   the complement and 'r' ++ our challenge ++ MD5(cookie ++ the peer's challenge) *)
Theorem C04_socket_success : forall md5 c gen cs, c_err (connect md5 c gen cs) = None ->
  st (c_hs (connect md5 c gen cs)) = Connected /\
  exists nm d1 cs1 a1 d2 cs2 a2 fl ch,
    send_name_old c = Some nm /\ read_framed Handshake cs = (ROk d1, cs1, a1) /\
    read_framed Handshake cs1 = (ROk d2, cs2, a2) /\ challenge_decode d2 = Some (fl, ch) /\
    nego (c_hs (connect md5 c gen cs)) = Some (N.land fl (h_flags c)) /\
    c_wrote (connect md5 c gen cs) = nm ++ complement c ++ challenge_reply md5 gen ch (h_cookie c).
Proof. exact connect_success. Qed.

(* every other peer behaviour — refusal, wrong digest, malformed, truncated, out of order, silence, close — is an
   error that leaves the state machine short of Connected, and nothing beyond the client's three messages is written *)
Theorem C04_socket_failure_not_connected : forall md5 c gen cs e,
  c_err (connect md5 c gen cs) = Some e -> st (c_hs (connect md5 c gen cs)) <> Connected.
Proof. exact connect_failure. Qed.

Theorem C04_socket_wrote_prefix : forall md5 c gen cs, exists k, c_wrote (connect md5 c gen cs) =
  firstn k (match send_name_old c with Some nm => nm | None => [] end ++ complement c ++
            match read_framed Handshake cs with
            | (ROk d1, cs1, _) => match read_framed Handshake cs1 with
                                  | (ROk d2, _, _) => match challenge_decode d2 with Some (_, ch) => challenge_reply md5 gen ch (h_cookie c) | None => [] end
                                  | _ => [] end
            | _ => [] end).
Proof. exact connect_wrote_prefix. Qed.

(* a conforming peer whose bytes arrive cut in the middle of every message connects; the same stream with one bit of
   the digest flipped, or stopping after the length prefix of the ack, does not *)
Example C04_socket_example :
  let c := {| h_name := [97; 64; 98]; h_cookie := [115]; h_flags := 13; h_creation := 1 |} in
  let md5 := fun b => firstn 16 (b ++ repeat 0 16) in     (* any function *)
  let chal := [78; 0;0;0;0;0;0;0;5; 0;0;0;9; 0;0;0;1; 0;1; 112] in
  let ack := 97 :: md5 ([115] ++ decimal 7) in
  let stream := [0; 3; 115; 111; 107] ++ [0; 20] ++ chal ++ [0; 17] ++ ack in
  c_err (connect md5 c 7 [Data (firstn 4 stream); Pending; Data (skipn 4 stream)]) = None /\
  c_err (connect md5 c 7 [Data (firstn 30 stream ++ [98] ++ skipn 31 stream)]) = Some (CHs EAuthFailed) /\
  c_err (connect md5 c 7 [Data (firstn 29 stream)]) = Some CEof.
Proof. vm_compute. repeat split. Qed.

Check C04_connected_only_after_proof.
