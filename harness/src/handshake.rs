//! domain `handshake`: HandshakeStateMachine API call sequences.
//! case: `<namehex> <cookiehex> <flags dec> <creation dec> ; op ; op ...`
//!   ops: BC | PSN | HS <hex> | PC | HC <hex> <gen> | PCR | HCA <hex> | DC
//! output: per op `ok|b:<hex>|e:<kind>` `/<state>`, then `nego=<dec|none>`
use crate::util::{hex, unhex};
use edp_client::errors::Error;
use edp_client::flags::DistributionFlags;
use edp_client::state_machine::HandshakeStateMachine;

fn ekind(e: &Error) -> &'static str {
    match e {
        Error::InvalidStateTransition { .. } => "trans",
        Error::NodeNameTooLong { .. } => "namelen",
        Error::InvalidHandshakeMessage(_) => "invalid",
        Error::ConnectionRefused { .. } => "refused",
        Error::InvalidStateMessage(_) => "nochallenge",
        Error::AuthenticationFailed => "auth",
        _ => "other",
    }
}

pub fn run_case(line: &str) -> String {
    let mut parts = line.split(';');
    let cfg: Vec<&str> = parts.next().unwrap().split_whitespace().collect();
    let name = String::from_utf8(unhex(cfg[0])).unwrap();
    let cookie = String::from_utf8(unhex(cfg[1])).unwrap();
    let flags: u64 = cfg[2].parse().unwrap();
    let creation: u32 = cfg[3].parse().unwrap();
    let mut m = HandshakeStateMachine::new(name, "peer@host".to_string(), cookie, DistributionFlags::new(flags), creation);
    let mut out = Vec::new();
    for op in parts {
        let t: Vec<&str> = op.split_whitespace().collect();
        if t.is_empty() {
            continue;
        }
        let r: Result<Option<Vec<u8>>, Error> = match t[0] {
            "BC" => m.begin_connect().map(|_| None),
            "PSN" => m.prepare_send_name().map(Some),
            "HS" => m.handle_status(&unhex(t[1])).map(|_| None),
            "PC" => m.prepare_complement().map(Some),
            "HC" => {
                edp_client::digest::verif::push_challenge(t[2].parse().unwrap());
                let r = m.handle_challenge(&unhex(t[1])).map(|_| None);
                // drop an unused scripted challenge (decode failed before generate_challenge was reached)
                edp_client::digest::verif::clear_challenges();
                r
            }
            "PCR" => m.prepare_challenge_reply().map(Some),
            "HCA" => m.handle_challenge_ack(&unhex(t[1])).map(|_| None),
            "DC" => {
                m.disconnect();
                Ok(None)
            }
            _ => panic!("bad op"),
        };
        let s = match r {
            Ok(None) => "ok".to_string(),
            Ok(Some(b)) => format!("b:{}", hex(&b)),
            Err(e) => format!("e:{}", ekind(&e)),
        };
        out.push(format!("{}/{}", s, m.state().as_str()));
    }
    out.push(match m.negotiated_flags() {
        Some(f) => format!("nego={}", f.as_u64()),
        None => "nego=none".to_string(),
    });
    out.join(" ")
}
