(* Lemmas about the fragment assembler model (proofs live here, not in Fragment.v). *)
From EDP Require Import Base.Bytes Gen.FragConsts Dist.Fragment.

(* ---------- association lists ---------- *)
Lemma lookup_remove_same {A} k (l : list (N * A)) : lookup k (remove_key k l) = None.
Proof.
  induction l as [|[k' v] l IH]; cbn [remove_key lookup]; [reflexivity|].
  destruct (k' =? k) eqn:E; [exact IH|]. cbn [lookup]. now rewrite E.
Qed.

Lemma lookup_remove_other {A} k k' (l : list (N * A)) : k <> k' -> lookup k (remove_key k' l) = lookup k l.
Proof.
  intros Hne. induction l as [|[k0 v] l IH]; cbn [remove_key lookup]; [reflexivity|].
  destruct (k0 =? k') eqn:E1.
  - apply N.eqb_eq in E1; subst. destruct (k' =? k) eqn:E2; [apply N.eqb_eq in E2; congruence|exact IH].
  - cbn [lookup]. now rewrite IH.
Qed.

Lemma lookup_put_same {A} k (v : A) l : lookup k (put k v l) = Some v.
Proof. unfold put. cbn [lookup]. now rewrite N.eqb_refl. Qed.

Lemma lookup_put_other {A} k k' (v : A) l : k <> k' -> lookup k (put k' v l) = lookup k l.
Proof.
  intros Hne. unfold put. cbn [lookup].
  destruct (k' =? k) eqn:E; [apply N.eqb_eq in E; congruence|]. now apply lookup_remove_other.
Qed.

(* ---------- per-sequence view of the assembler ---------- *)
(* what start_fragment / add_fragment do to the entry of their own sequence *)
Definition seq_start (o : option fmsg) (fid : N) (c : option bytes) (data : bytes) (now : N)
  : option fmsg * option bytes :=
  match count_new fid with
  | None => (o, None)
  | Some cnt =>
      match o with
      | Some m =>
          let m := msg_add (set_cache (msg_set_total m cnt) c) fid data now in
          if msg_complete m then (None, msg_reassemble m) else (Some m, None)
      | None =>
          let m := msg_add (msg_new (Some cnt) c now) fid data now in
          if msg_complete m then (None, msg_reassemble m) else (Some m, None)
      end
  end.

Definition seq_add (o : option fmsg) (fid : N) (data : bytes) (now : N) : option fmsg * option bytes :=
  match o with
  | Some m =>
      let m := msg_add m fid data now in
      if msg_complete m then (None, msg_reassemble m) else (Some m, None)
  | None => (Some (msg_add (msg_new None None now) fid data now), None)
  end.

Lemma msg_new_none_incomplete now fid data : msg_complete (msg_add (msg_new None None now) fid data now) = false.
Proof.
  unfold msg_add, msg_new, touch; cbn [total pend frags received cache last].
  destruct (fid =? 0); [reflexivity|]. cbn [lookup]. reflexivity.
Qed.

Lemma asm_start_own a s fid c d now :
  lookup s (fst (asm_start a s fid c d now)) = fst (seq_start (lookup s a) fid c d now)
  /\ snd (asm_start a s fid c d now) = snd (seq_start (lookup s a) fid c d now).
Proof.
  unfold asm_start, seq_start. destruct (count_new fid) as [cnt|]; [|split; reflexivity].
  destruct (lookup s a) as [m|] eqn:E.
  - destruct (msg_complete _); cbn [fst snd]; split; try reflexivity.
    + apply lookup_remove_same.
    + apply lookup_put_same.
  - destruct (msg_complete _); cbn [fst snd]; split; try reflexivity.
    + exact E.
    + apply lookup_put_same.
Qed.

Lemma asm_add_own a s fid d now :
  lookup s (fst (asm_add a s fid d now)) = fst (seq_add (lookup s a) fid d now)
  /\ snd (asm_add a s fid d now) = snd (seq_add (lookup s a) fid d now).
Proof.
  unfold asm_add, seq_add. destruct (lookup s a) as [m|] eqn:E.
  - destruct (msg_complete _); cbn [fst snd]; split; try reflexivity.
    + apply lookup_remove_same.
    + apply lookup_put_same.
  - cbn [fst snd]. split; [apply lookup_put_same|reflexivity].
Qed.

Lemma asm_start_other a s s' fid c d now :
  s <> s' -> lookup s (fst (asm_start a s' fid c d now)) = lookup s a.
Proof.
  intros Hne. unfold asm_start. destruct (count_new fid); [|reflexivity].
  destruct (lookup s' a); destruct (msg_complete _); cbn [fst];
    first [reflexivity | now apply lookup_remove_other | now apply lookup_put_other].
Qed.

Lemma asm_add_other a s s' fid d now :
  s <> s' -> lookup s (fst (asm_add a s' fid d now)) = lookup s a.
Proof.
  intros Hne. unfold asm_add.
  destruct (lookup s' a); [destruct (msg_complete _)|]; cbn [fst];
    first [now apply lookup_remove_other | now apply lookup_put_other].
Qed.

(* a returned message always removes the entry of its sequence *)
Lemma seq_add_some_removed o fid d now r : snd (seq_add o fid d now) = Some r -> fst (seq_add o fid d now) = None.
Proof. unfold seq_add. destruct o as [m|]; [destruct (msg_complete _)|]; cbn [fst snd]; congruence. Qed.

Lemma seq_start_some_removed o fid c d now r : snd (seq_start o fid c d now) = Some r -> fst (seq_start o fid c d now) = None.
Proof.
  unfold seq_start. destruct (count_new fid); [|cbn [fst snd]; congruence].
  destruct o as [m|]; destruct (msg_complete _); cbn [fst snd]; congruence.
Qed.

(* sequences whose announced count exceeds the vector limit never complete *)
Definition stuck (c : N) (m : fmsg) : Prop := total m = Some c /\ frags m = [] /\ received m = 0.

Lemma stuck_add c m fid d now : 0 < c -> stuck c m ->
  stuck c (msg_add m fid d now) /\ msg_complete (msg_add m fid d now) = false.
Proof.
  intros Hc (Ht & Hf & Hr). unfold msg_add.
  assert (Hinc : forall m', stuck c m' -> msg_complete m' = false).
  { intros m' (Ht' & _ & Hr'). unfold msg_complete. rewrite Ht', Hr'. apply N.eqb_neq. lia. }
  assert (Hs : stuck c (touch m now)) by (repeat split; assumption).
  destruct (fid =? 0); [split; [exact Hs|now apply Hinc]|].
  cbn [total touch]. rewrite Ht. unfold fill_slot. cbn [frags touch]. rewrite Hf.
  destruct ((0 <? fid) && (fid <=? c)); cbn [nth_err]; split; try exact Hs; now apply Hinc.
Qed.

Lemma stuck_start c cache d now : max_fragments_vec < c -> c <= max_fragment_count ->
  exists m, seq_start None c cache d now = (Some m, None) /\ stuck c m.
Proof.
  intros H1 H2. unfold seq_start, count_new.
  assert (E0 : c =? 0 = false) by (apply N.eqb_neq; unfold max_fragments_vec in H1; lia).
  assert (E1 : max_fragment_count <? c = false) by (apply N.ltb_ge; exact H2).
  rewrite E0, E1.
  assert (Hs : stuck c (msg_new (Some c) cache now)).
  { unfold stuck, msg_new, exceeds_vec_limit. cbn [total frags received].
    replace (max_fragments_vec <? c) with true by (symmetry; now apply N.ltb_lt). auto. }
  destruct (stuck_add c _ c d now ltac:(unfold max_fragments_vec in H1; lia) Hs) as (Hs' & Hinc).
  rewrite Hinc. eexists; split; [reflexivity|exact Hs'].
Qed.

Lemma stuck_seq_add c m fid d now : 0 < c -> stuck c m ->
  exists m', seq_add (Some m) fid d now = (Some m', None) /\ stuck c m'.
Proof.
  intros Hc Hs. unfold seq_add. destruct (stuck_add c m fid d now Hc Hs) as (Hs' & Hinc).
  rewrite Hinc. eexists; split; [reflexivity|exact Hs'].
Qed.
