"""C07 — send path of a real Connection against a scripted peer that records the bytes. Domain `conn`."""
import etf, termgen, vlib
import connlib
from connlib import SEP
import C08

ID = "C07"
GEN_FILES = ["Tags.v", "ControlTable.v", "FramingConsts.v", "Limits.v", "LockScope.v"]
RULE = ("scripts of 1..8 send-side operations (send, send to name, link, unlink, monitor, demonitor) with pids and references incl. "
        "node-local form, names incl. non-ASCII, payloads from the C01 term generator, unlink ids over the 64-bit range (0, 2^31, 2^63-1, "
        "2^63, 2^64-1, random), operations that must fail (atom longer than the format allows, more than 255 atoms in header mode) placed "
        "between good ones; flag negotiations: library default (pass-through), header mode granted, header mode requested but not granted, "
        "granted but not requested, nothing in common; the same scripts on a connection that was never connected; the peer records every "
        "byte until the client closes. distinct = distinct script; non-trivial = at least two operations")
ASSUMPTIONS = ["the independent reader of the written bytes is props/etf.py (erl_ext_dist) with the protocol's control tuples from the distribution protocol document",
               "in header mode the atom order of the writer's HashSet is read back from the bytes before the model re-encodes (as in C14)",
               "concurrent senders: the statement for every schedule is the lock theorem (Conc/Interleave.v) plus the translator's check that each "
               "operation holds the connection lock from before its first write to after its last; the scheduler's own interleavings are sampled"]

FLAGSETS = [("default", connlib.LIB_DEFAULT, connlib.OTP26), ("hdr", connlib.LIB_DEFAULT | 0x2000, connlib.OTP26),
            ("hdr-not-granted", connlib.LIB_DEFAULT | 0x2000, connlib.OTP26 & ~0x2000), ("hdr-not-requested", connlib.LIB_DEFAULT, connlib.OTP26),
            ("nothing", 0x2000, 0x4000), ("everything", 2**44 - 1, 2**44 - 1)]
LOCAL_PID = ("p", b"peer@h", 11, 2, 77, bytes(range(8)) + termgen.modern_id_bytes("pid", b"peer@h", 11, 2, 77))
PIDS = [connlib.PID, connlib.PID2, LOCAL_PID, ("p", "nöde@h".encode(), 2**15 - 1, 2**13 - 1, 2**32 - 1, None)]
REFS = [connlib.REF, ("r", b"peer@h", 2**32 - 1, [2**32 - 1, 0, 7, 8, 9], None), ("r", b"n@h", 3, [1], None)]
BAD_ATOM = ("a", b"a" * 70000)
MANY_ATOMS = ("l", [("a", b"atom%03d" % i) for i in range(300)])
IDS = [0, 1, 2**31, 2**32, 2**53, 2**63 - 1, 2**63, 2**64 - 1]


def gen_payload(rng):
    r = rng.random()
    if r < 0.08:
        return BAD_ATOM
    if r < 0.14:
        return MANY_ATOMS
    if r < 0.2:
        return ("b", bytes(rng.randrange(256) for _ in range(rng.choice([0, 1, 300, 70000]))))
    return C08.no_maps(termgen.gen_term(rng, depth=rng.choice([0, 1, 2]), big_ok=False))


def gen_op(rng):
    k = rng.choice(["send", "send", "regsend", "link", "unlink", "monitor", "demonitor"])
    p, q = rng.choice(PIDS), rng.choice(PIDS)
    if k == "send":
        msg = gen_payload(rng)
        return "S send %s %s" % (etf.show(p), etf.show(msg)), (("t", [("i", 2), ("a", b""), p]), msg)
    if k == "regsend":
        name = rng.choice([b"rex", b"net_kernel", "sérvér".encode(), b"x" * 255, b""])
        msg = gen_payload(rng)
        return "S regsend %s %s %s" % (etf.show(p), etf.hx(name), etf.show(msg)), (("t", [("i", 6), p, ("a", b""), ("a", name)]), msg)
    if k == "link":
        return "S link %s %s" % (etf.show(p), etf.show(q)), (("t", [("i", 1), p, q]), None)
    if k == "unlink":
        n = rng.choice(IDS + [rng.randrange(2**64)])
        return "S unlink %s %s %d" % (etf.show(p), etf.show(q), n), (("t", [("i", 35), termgen.int_ast(n), p, q]), None)
    r = rng.choice(REFS)
    tag = 19 if k == "monitor" else 20
    return "S %s %s %s %s" % (k, etf.show(p), etf.show(q), etf.show(r)), (("t", [("i", tag), p, q, r]), None)


def atoms_of(t, acc):
    k = t[0]
    if k == "a":
        acc.add(t[1])
    elif k in ("p", "o", "r"):
        acc.add(t[1])
    elif k in ("l", "t"):
        for x in t[1]:
            atoms_of(x, acc)
    elif k == "L":
        for x in t[1]:
            atoms_of(x, acc)
        atoms_of(t[2], acc)
    elif k == "m":
        for a, b in t[1]:
            atoms_of(a, acc)
            atoms_of(b, acc)
    elif k == "e":
        acc.add(t[1]); acc.add(t[2])
    elif k == "u":
        acc.add(t[5]); acc.add(t[8][0])
        for x in t[9]:
            atoms_of(x, acc)
    return acc


def cannot_carry(ctl, msg, hdr):
    """must the operation fail: a term the format cannot carry"""
    acc = atoms_of(ctl, set())
    if msg is not None:
        atoms_of(msg, acc)
    if any(len(a) > 65535 for a in acc):       # the length field of every atom form is at most two bytes
        return True
    return hdr and len(acc) > 255


EXPECT = {}


def oracle(case, impl):
    if impl.startswith(("PANIC", "CRASH", "TIMEOUT", "connect-err")):
        return ("violation", "did not return: " + impl[:60])
    connected, hdr, ops = EXPECT[case]
    outs = impl.split(SEP)
    wrote = bytes.fromhex(outs[-1][6:].replace(".", ""))
    outs = outs[:-1]
    if not connected:
        if any(o != "err state" for o in outs) or wrote:
            return ("violation", "an operation on a connection that is not connected did not fail cleanly, or wrote %d bytes" % len(wrote))
        return None
    frames = connlib.split_frames(wrote)
    if frames is None:
        return ("violation", "the bytes written do not end on a frame boundary")
    sent = []
    for o, (ctl, msg) in zip(outs, ops):
        must_fail = cannot_carry(ctl, msg, hdr)
        if o == "ok":
            if must_fail:
                return ("violation", "an operation with a term the format cannot carry reported success")
            sent.append((ctl, msg))
        elif not must_fail:
            return ("violation", "an operation failed although its terms can be carried: " + o)
    if len(frames) != len(sent):
        return ("violation", "%d successful operations, %d frames on the wire" % (len(sent), len(frames)))
    cache = {}
    for i, (f, (ctl, msg)) in enumerate(zip(frames, sent)):
        try:
            if hdr:
                if f[:2] != bytes([131, 68]):
                    return ("violation", "frame %d is not in the negotiated framing mode (distribution header expected)" % i)
                c, p = etf.spec_read_dist_message(f, cache)
            else:
                if f[:1] != bytes([112]):
                    return ("violation", "frame %d is not in the negotiated framing mode (pass-through expected)" % i)
                r = etf.Reader(f)
                r.u(1)
                if r.u(1) != 131:
                    raise etf.EtfError("version")
                r.refs = []
                c = etf.spec_read_term(r)
                p = None
                if r.i < len(f):
                    if r.u(1) != 131:
                        raise etf.EtfError("version")
                    p = etf.spec_read_term(r)
                if r.i != len(f):
                    raise etf.EtfError("trailing bytes")
        except (etf.EtfError, UnicodeDecodeError, ValueError, IndexError) as e:
            return ("violation", "frame %d is not readable by an independent implementation of the protocol: %s" % (i, e))
        if c != etf.denote(termgen.strip_loc(ctl)):
            return ("violation", "frame %d does not carry the control tuple the protocol assigns to the operation" % i)
        if (p is None) != (msg is None) or (msg is not None and p != etf.denote(termgen.strip_loc(msg))):
            return ("violation", "frame %d does not carry the payload given" % i)
    return None


def oracle_for(_d):
    return oracle


def run(ctx):
    rng = ctx.rng
    cases = []
    for k in range(ctx.budget(240, 6000)):
        name, cfgf, peerf = FLAGSETS[k % len(FLAGSETS)]
        connected = rng.random() > 0.08
        hdr = bool(cfgf & peerf & 0x2000)
        steps, ops = [], []
        for _ in range(rng.choice([1, 2, 3, 5, 8])):
            s, meaning = gen_op(rng)
            steps.append(s)
            ops.append(meaning)
        case = SEP.join(["conn %d %d %d" % (cfgf, peerf, 1 if connected else 0)] + steps)
        EXPECT[case] = (connected, hdr, ops)
        cases.append(case)

    def compare(c, a, b):
        if EXPECT[c][1]:        # header mode: the writer's atom order is not known to the model; bytes are checked by sendchk below
            return a.rsplit(SEP, 1)[0] == b.rsplit(SEP, 1)[0]
        return a == b

    def classify(c, impl):
        connected, hdr, ops = EXPECT[c]
        out = ["mode:" + ("unconnected" if not connected else "header" if hdr else "pass-through")]
        for o, (ctl, msg) in zip(impl.split(SEP), ops):
            out.append("op:%d:%s" % (ctl[1][0][1], "ok" if o == "ok" else "refused"))
        return out
    impl, _ = ctx.diff_domain("conn", cases, oracle=oracle, nontrivial=lambda c, i: c if len(EXPECT[c][2]) >= 2 else None,
                              classify=classify, compare=compare)
    # send_raw: the given bytes as one frame each, nothing else (pass-through negotiations: the written bytes are compared whole)
    raw_cases, RAW = [], {}
    for k in range(ctx.budget(24, 400)):
        cfgf, peerf = [(connlib.LIB_DEFAULT, connlib.OTP26), (0, 0), (connlib.LIB_DEFAULT | 0x2000, connlib.OTP26 & ~0x2000)][k % 3]
        connected = rng.random() > 0.15
        datas = [bytes(rng.randrange(256) for _ in range(rng.choice([0, 1, 2, 5, 300, 70000]))) for _ in range(rng.choice([1, 2, 4]))]
        case = SEP.join(["conn %d %d %d" % (cfgf, peerf, 1 if connected else 0)] + ["Q " + (d.hex() or ".") for d in datas])
        RAW[case] = (connected, datas)
        raw_cases.append(case)

    def raw_oracle(case, impl):
        if impl.startswith(("PANIC", "CRASH", "TIMEOUT", "connect-err")):
            return ("violation", "did not return: " + impl[:60])
        connected, datas = RAW[case]
        outs = impl.split(SEP)
        wrote = bytes.fromhex(outs[-1][6:].replace(".", ""))
        if not connected:
            return None if all(o == "err state" for o in outs[:-1]) and not wrote else ("violation", "send_raw on a connection that is not connected did not fail cleanly")
        want = b"".join(connlib.frame(d) for d in datas)
        if any(o != "ok" for o in outs[:-1]) or wrote != want:
            return ("violation", "send_raw did not write exactly one frame with the given bytes per call")
        return None
    ctx.diff_domain("conn", raw_cases, oracle=raw_oracle, nontrivial=lambda c, i: c if len(RAW[c][1]) >= 2 else None,
                    classify=lambda c, i: ["api:send_raw", "mode:" + ("raw" if RAW[c][0] else "unconnected")])
    # Node::send / link / unlink / monitor / demonitor toward a process on the connected node: one frame each, with the
    # protocol's control tuple; after the peer has gone they fail and write nothing
    REMOTE = ("p", b"p00000@127.0.0.1", 9, 0, 1, None)
    nscripts, NEXP = [], {}
    for k in range(ctx.budget(24, 500)):
        steps, ops, nref, closed = ["spawn", "spawn"], [], 0, False
        for _ in range(rng.choice([2, 4, 7, 10])):
            r = rng.random()
            a = rng.randrange(2)
            if r < 0.25:
                msg = gen_payload(rng)
                steps.append("rsend " + etf.show(msg)); ops.append(("send", None, msg))
            elif r < 0.45:
                steps.append("rlink $%d" % a); ops.append(("link", a, None))
            elif r < 0.65:
                steps.append("runlink $%d" % a); ops.append(("unlink", a, None))
            elif r < 0.82:
                steps.append("rmonitor $%d" % a); ops.append(("monitor", a, nref)); nref += 1
            elif r < 0.94 and nref:
                j = rng.randrange(nref)
                steps.append("rdemonitor $%d #%d" % (a, j)); ops.append(("demonitor", a, j))
            elif not closed and rng.random() < 0.5:
                steps.append("close"); ops.append(("close", None, None)); closed = True
        case = SEP.join(["node 1"] + steps + ["wrote"])
        NEXP[case] = ops
        nscripts.append(case)

    def node_oracle(case, impl):
        if impl.startswith(("PANIC", "CRASH", "TIMEOUT", "start-err", "connect-err", "peer-handshake")):
            return ("violation", "the node did not survive the script: " + impl[:60])
        outs = impl.split(SEP)
        ops = NEXP[case]
        pids = [etf.parse_term(o[4:]) for o in outs[:2]]
        frames = connlib.split_frames(bytes.fromhex(outs[-1].replace(".", "")))
        if frames is None:
            return ("violation", "the bytes written do not consist of whole frames")
        want, refs, up, last_id = [], [], True, None
        for (kind, a, x), o in zip(ops, outs[2:-1]):
            if kind == "close":
                up = False
                continue
            if kind == "monitor":
                refs.append(etf.parse_term(o[4:]) if o.startswith("ref ") else None)
            carry = not (kind == "send" and cannot_carry(("t", [("i", 2), ("a", b""), REMOTE]), x, False))
            ok = up and carry
            if (o != "err") != ok:
                return ("violation", "%s toward the remote node %s" % (kind, "failed on a live connection" if ok else "did not fail although nothing can be sent"))
            if not ok:
                continue
            frm = pids[a] if a is not None else None
            if kind == "send":
                want.append((("t", [("i", 2), ("a", b""), REMOTE]), x))
            elif kind == "link":
                want.append((("t", [("i", 1), frm, REMOTE]), None))
            elif kind == "unlink":
                want.append((("unlink", frm), None))
            elif kind == "monitor":
                want.append((("t", [("i", 19), frm, REMOTE, refs[-1]]), None))
            else:
                if refs[x] is None:
                    return None
                want.append((("t", [("i", 20), frm, REMOTE, refs[x]]), None))
        if len(frames) != len(want):
            return ("violation", "%d successful operations, %d frames on the wire" % (len(want), len(frames)))
        seen_ids = set()
        for i, (f, (ctl, msg)) in enumerate(zip(frames, want)):
            try:
                r = etf.Reader(f)
                if r.u(1) != 112 or r.u(1) != 131:
                    raise etf.EtfError("marker")
                r.refs = []
                c = etf.spec_read_term(r)
                p = None
                if r.i < len(f):
                    if r.u(1) != 131:
                        raise etf.EtfError("version")
                    p = etf.spec_read_term(r)
                if r.i != len(f):
                    raise etf.EtfError("trailing bytes")
            except (etf.EtfError, UnicodeDecodeError, ValueError, IndexError) as e:
                return ("violation", "frame %d is not readable by an independent implementation of the protocol: %s" % (i, e))
            if ctl[0] == "unlink":
                ok = c[0] == "tuple" and len(c[1]) == 4 and c[1][0] == ("int", 35) and c[1][1][0] == "int" and c[1][2] == etf.denote(ctl[1]) and c[1][3] == etf.denote(REMOTE)
                if not ok:
                    return ("violation", "frame %d is not the UNLINK_ID tuple of the operation" % i)
                if c[1][1][1] in seen_ids:
                    return ("violation", "two unlink operations carry the same id")
                seen_ids.add(c[1][1][1])
            elif c != etf.denote(termgen.strip_loc(ctl)):
                return ("violation", "frame %d does not carry the control tuple the protocol assigns to the operation" % i)
            if (p is None) != (msg is None) or (msg is not None and p != etf.denote(termgen.strip_loc(msg))):
                return ("violation", "frame %d does not carry the payload given" % i)
        return None
    ctx.diff_domain("node", nscripts, oracle=node_oracle, nontrivial=lambda c, i: c if len(NEXP[c]) >= 2 else None,
                    classify=lambda c, i: ["api:node-remote"] + ["nodeop:" + k for k, _, _ in NEXP[c]])
    # concurrent senders through one node: frames of different tasks never interleave, each task's frames arrive in
    # the order it issued them (the theorem for every schedule is Conc/Interleave.v; this samples the scheduler's)
    bursts = [SEP.join(["node 1", "spawn", "burst %d %d %d" % (k, n, size), "wrote"])
              for k, n, size in ([(2, 3, 10), (4, 5, 300000), (8, 4, 100000)] + [(rng.randrange(2, 9), rng.randrange(1, 6), rng.choice([1, 5000, 200000]))
                                                                               for _ in range(ctx.budget(3, 40))])]

    def burst_oracle(case, impl):
        if impl.startswith(("PANIC", "CRASH", "TIMEOUT", "start-err", "connect-err", "peer-handshake")):
            return ("violation", "the node did not survive concurrent senders: " + impl[:60])
        k, n, size = (int(x) for x in case.split(SEP)[2].split()[1:])
        outs = impl.split(SEP)
        if outs[1] != "sent %d" % (k * n):
            return ("violation", "%s of %d concurrent sends succeeded" % (outs[1], k * n))
        frames = connlib.split_frames(bytes.fromhex(outs[2].replace(".", "")))
        if frames is None:
            return ("violation", "the byte stream written by concurrent senders does not consist of whole frames")
        if len(frames) != k * n:
            return ("violation", "%d sends, %d frames" % (k * n, len(frames)))
        nxt = [0] * k
        for f in frames:
            try:
                r = etf.Reader(f)
                if r.u(1) != 112 or r.u(1) != 131:
                    raise etf.EtfError("marker")
                r.refs = []
                ctl = etf.spec_read_term(r)
                if r.u(1) != 131:
                    raise etf.EtfError("version")
                msg = etf.spec_read_term(r)
                if r.i != len(f):
                    raise etf.EtfError("trailing")
            except (etf.EtfError, UnicodeDecodeError, ValueError, IndexError) as e:
                return ("violation", "a frame written under concurrency is not readable: %s" % e)
            if ctl[0] != "tuple" or ctl[1][0] != ("int", 2) or msg[0] != "tuple":
                return ("violation", "a frame written under concurrency is not a SEND with its payload")
            task, seq, blob = msg[1][0][1], msg[1][1][1], msg[1][2]
            if seq != nxt[task]:
                return ("violation", "task %d's messages reach the peer out of order (%d before %d)" % (task, seq, nxt[task]))
            if blob != ("bits", bytes([(task * 16 + seq) % 256]) * size, 8 * size):
                return ("violation", "the payload of task %d message %d is damaged" % (task, seq))
            nxt[task] += 1
        return None
    ctx.diff_domain("node", bursts, oracle=burst_oracle, nontrivial=lambda c, i: c, classify=lambda c, i: ["burst:" + c.split(SEP)[2]],
                    compare=lambda c, a, b: a.rsplit(SEP, 1)[0] == b.rsplit(SEP, 1)[0])
    # header mode: the model must reproduce the written bytes for the atom order they carry
    chk = []
    for c, a in zip(cases, impl):
        if EXPECT[c][0] and EXPECT[c][1] and SEP in a:
            chk.append("sendchk" + c[4:] + SEP + a.rsplit(SEP, 1)[1])
    outs = vlib.run_lines(vlib.MODEL_BIN, "conn", chk) if chk else []
    for c, o in zip(chk, outs):
        ctx.evaluations += 1
        ctx.traces += 1
        ctx.hist["sendchk:" + o.split()[0]] += 1
        if o != "match":
            ctx.disagreements.append(("conn", c, "(bytes written by the implementation)", o))
