(* Model of crates/edp_node/src/gen_server.rs (GenServerProcess: the dispatcher of the gen_server protocol) running in
   the process loop of process.rs (spawn_process).  The user's callbacks are parameters: what handle_call answers for a
   request, and whether handle_cast / handle_info succeed.  Definitions only. *)
From Coq Require Import String.
From EDP Require Import Base.Bytes Term.Term Order.Cmp Elixir.Wrap.
Open Scope N_scope.

Definition n_gen_call := Eval compute in str "$gen_call".
Definition n_gen_cast := Eval compute in str "$gen_cast".
Definition n_normal := Eval compute in str "normal".

(* what arrives in the mailbox: a regular message, an exit signal, or one of the kinds the dispatcher ignores *)
Inductive gin := GReg (body : term) | GExit (reason : term) | GOther.

(* how handle_message reads a regular message *)
Inductive gmsg := GCall (from : pidr) (ref : term) (req : term) | GCast (req : term) | GInfo (body : term).

Definition classify (body : term) : gmsg :=
  match body with
  | TTuple (TAtom tag :: x :: rest) =>
      if eq_bytes tag n_gen_call then
        match x, rest with
        | TTuple [TPid p; TRef n c ids l], [req] => GCall p (TRef n c ids l) req
        | _, _ => GInfo body
        end
      else if eq_bytes tag n_gen_cast then
        match rest with [] => GCast x | _ => GInfo body end
      else GInfo body
  | _ => GInfo body
  end.

(* the callbacks' verdicts *)
Inductive cres := CReply (t : term) | CNoReply | CFail.

(* what the server's callbacks saw, in order *)
Inductive gev := EvCall (req : term) (from : pidr) | EvCast (req : term) | EvInfo (body : term) | EvTerm (reason : term).

Record gst := { g_alive : bool; g_log : list gev; g_sent : list (pidr * term) }.
Definition g_init : gst := {| g_alive := true; g_log := []; g_sent := [] |}.

Section GenServer.
  Variable on_call : term -> pidr -> cres.
  Variable on_cast : term -> bool.
  Variable on_info : term -> bool.
  (* registry.get(from): is the caller a live local process? *)
  Variable live : pidr -> bool.

  (* the process loop ends at the first Err: Process::terminate runs (the server's terminate(normal)) *)
  Definition die (s : gst) (ev : gev) : gst :=
    {| g_alive := false; g_log := g_log s ++ [ev; EvTerm (TAtom n_normal)]; g_sent := g_sent s |}.
  Definition seen (s : gst) (ev : gev) : gst := {| g_alive := true; g_log := g_log s ++ [ev]; g_sent := g_sent s |}.

  Definition gstep (s : gst) (m : gin) : gst :=
    if negb (g_alive s) then s else
    match m with
    | GOther => s
    | GExit reason => seen s (EvTerm reason)
    | GReg body =>
        match classify body with
        | GCall from ref req =>
            match on_call req from with
            | CFail => die s (EvCall req from)
            | CNoReply => seen s (EvCall req from)
            | CReply r =>
                {| g_alive := true; g_log := g_log s ++ [EvCall req from];
                   g_sent := if live from then g_sent s ++ [(from, TTuple [ref; r])] else g_sent s |}
            end
        | GCast req => if on_cast req then seen s (EvCast req) else die s (EvCast req)
        | GInfo b => if on_info b then seen s (EvInfo b) else die s (EvInfo b)
        end
    end.

  Definition grun (ms : list gin) : gst := fold_left gstep ms g_init.
End GenServer.

(* ---- the instrumented server of the correspondence run: the request decides what the callbacks do ---- *)
Definition n_noreply := Eval compute in str "noreply".
Definition n_fail := Eval compute in str "fail".
Definition n_ok := Eval compute in str "ok".
Definition is_atom_named (n : bytes) (t : term) : bool := match t with TAtom a => eq_bytes a n | _ => false end.
Definition demo_call (req : term) (_ : pidr) : cres :=
  if is_atom_named n_noreply req then CNoReply
  else if is_atom_named n_fail req then CFail
  else CReply (TTuple [TAtom n_ok; req]).
Definition demo_ok (t : term) : bool := negb (is_atom_named n_fail t).
Definition demo_run (callers : list pidr) (ms : list gin) : gst :=
  grun demo_call demo_ok demo_ok (fun p => existsb (pid_eqb p) callers) ms.
