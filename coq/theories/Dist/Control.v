(* Model of crates/edp_client/src/control.rs: ControlMessage::from_term / to_term / into_term, generic over the
   table that tools/gen_consts.py extracts from the three match expressions (Gen/ControlTable.v). Definitions only. *)
From EDP Require Import Base.Bytes Term.Term Term.Access.

Definition centry := (N * (N * N * N) * (list N * list N * N) * (N * list N) * (N * list N))%type.
Definition ce_variant (e : centry) : N := let '(v, _, _, _, _) := e in v.
Definition ce_type_tag (e : centry) : N := let '(_, (t, _, _), _, _, _) := e in t.
Definition ce_u8 (e : centry) : N := let '(_, (_, u, _), _, _, _) := e in u.
Definition ce_arity (e : centry) : N := let '(_, (_, _, a), _, _, _) := e in a.
Definition ce_roles (e : centry) : list N := let '(_, _, (r, _, _), _, _) := e in r.
Definition ce_idx (e : centry) : list N := let '(_, _, (_, i, _), _, _) := e in i.
Definition ce_idfield (e : centry) : N := let '(_, _, (_, _, f), _, _) := e in f.
Definition ce_to_tag (e : centry) : N := let '(_, _, _, (t, _), _) := e in t.
Definition ce_to_roles (e : centry) : list N := let '(_, _, _, (_, r), _) := e in r.
Definition ce_into_tag (e : centry) : N := let '(_, _, _, _, (t, _)) := e in t.
Definition ce_into_roles (e : centry) : list N := let '(_, _, _, _, (_, r)) := e in r.

Definition role_id : N := 20.

Inductive cmsg :=
| CMsg (variant : N) (fields : list (N * term))      (* struct fields by role *)
| CGeneric (ty : N) (fields : list term).

Inductive cerr := ENotTuple | EEmpty | ETypeNotInteger | ETypeRange | EUnlinkId.
Inductive cres := COk (m : cmsg) | CErr (e : cerr).

Fixpoint nthN {A} (l : list A) (i : N) (d : A) : A :=
  match l with [] => d | x :: r => if i =? 0 then x else nthN r (N.pred i) d end.

Fixpoint rlookup (r : N) (l : list (N * term)) : term :=
  match l with [] => TNil | (r', v) :: rest => if r' =? r then v else rlookup r rest end.

(* unlink_id_from_term / unlink_id_to_term (fix commit 5d379c3) *)
Definition unlink_id_of (t : term) : option N :=
  match t with
  | TInt z => if (0 <=? z)%Z then Some (Z.to_N z) else None
  | TBig false d => if forallb (fun x => x =? 0) (skipn 8 d) then Some (unle (firstn 8 d)) else None
  | _ => None
  end.
Definition unlink_id_term (id : N) : term :=
  if id <=? 9223372036854775807 then TInt (Z.of_N id) else TBig false (le 8 id).

Fixpoint find_entry (tbl : list centry) (ty arity : N) : option centry :=
  match tbl with
  | [] => None
  | e :: r => if (ce_u8 e =? ty) && (ce_arity e =? arity) then Some e else find_entry r ty arity
  end.

Fixpoint find_variant (tbl : list centry) (v : N) : option centry :=
  match tbl with [] => None | e :: r => if ce_variant e =? v then Some e else find_variant r v end.

(* the struct literal built by a from_term arm: field k is read from element idx[k]; for the unlink operations the
   first field is the id, converted by unlink_id_from_term *)
Definition build_fields (e : centry) (els : list term) : option (list (N * term)) :=
  let vals := map (fun i => nthN els i TNil) (ce_idx e) in
  if ce_idfield e =? 0 then Some (combine (ce_roles e) vals)
  else match vals with
       | _ :: r => match unlink_id_of (nthN els (ce_idfield e) TNil) with
                   | Some id => Some (combine (ce_roles e) (unlink_id_term id :: r))
                   | None => None
                   end
       | [] => None
       end.

(* the body of from_term once the tag element is known to be the plain integer `TInt z` *)
Definition from_term_c (tbl : list centry) (t : term) : cres :=
  match t with
  | TTuple els =>
      match els with
      | [] => CErr EEmpty
      | TInt z :: _ =>
          if ((0 <=? z) && (z <=? 255))%Z then
            let ty := Z.to_N z in
            match find_entry tbl ty (len els) with
            | Some e => match build_fields e els with Some fs => COk (CMsg (ce_variant e) fs) | None => CErr EUnlinkId end
            | None => COk (CGeneric ty (tl els))
            end
          else CErr ETypeRange
      | _ :: _ => CErr ETypeNotInteger
      end
  | _ => CErr ENotTuple
  end.

(* from_term: the tag is read with as_integer, so a big-integer encoding of 0..255 is the same tag *)
Definition from_term (tbl : list centry) (t : term) : cres :=
  match t with
  | TTuple (x :: r) =>
      match as_integer x with
      | Some z => from_term_c tbl (TTuple (TInt z :: r))
      | None => CErr ETypeNotInteger
      end
  | _ => from_term_c tbl t
  end.

Definition ser (tbl : list centry) (tag_of : centry -> N) (roles_of : centry -> list N) (m : cmsg) : term :=
  match m with
  | CMsg v fs =>
      match find_variant tbl v with
      | Some e => TTuple (TInt (Z.of_N (tag_of e)) :: map (fun r => rlookup r fs) (roles_of e))
      | None => TNil
      end
  | CGeneric ty fs => TTuple (TInt (Z.of_N ty) :: fs)
  end.

Definition to_term (tbl : list centry) := ser tbl ce_to_tag ce_to_roles.
Definition into_term (tbl : list centry) := ser tbl ce_into_tag ce_into_roles.
