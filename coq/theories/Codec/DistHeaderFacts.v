(* Facts about the distribution-header writer and reader (DistHeader.v): the reader reads the writer's header back as
   exactly the writer's atom list, for every atom list the writer accepts (any count 1..255, even or odd, short or
   long atoms), and a whole message comes back as the terms that were written. *)
From EDP Require Import Base.Bytes Term.Term Gen.Tags Gen.DecoderArms Codec.Encode Codec.Decode Codec.DecodeFacts Codec.Norm Codec.RoundTrip Codec.DistHeader Codec.RoundTripC.

(* the nibble the reader looks at for position i *)
Definition nibble (flags : bytes) (i : N) : N :=
  let fb := nth (N.to_nat (i / 2)) flags 0 in if N.even i then fb mod 16 else (fb / 16) mod 16.

Definition flags_of (n : nat) (long : bool) : bytes := header_flags n long (if Nat.even n then 1 else 16).

(* finite: for every count 1..255 and both settings of LongAtoms, every position's nibble says "new entry, segment 0"
   and the reader finds the LongAtoms bit where the writer put it *)
Definition flags_ok (n : nat) (long : bool) : bool :=
  let fl := flags_of n long in
  forallb (fun i => nibble fl (N.of_nat i) =? 8) (seq 0 n) &&
  Bool.eqb (long_of_coded (N.of_nat n) fl) long &&
  (length fl =? n / 2 + 1)%nat.

Lemma flags_table : forallb (fun n => flags_ok n true && flags_ok n false) (seq 1 255) = true.
Proof. vm_compute. reflexivity. Qed.

Definition ent (long : bool) (ia : N * bytes) : bytes :=
  (fst ia mod 256) :: (if long then be 2 (len (snd ia)) else [len (snd ia) mod 256]) ++ snd ia.
Definition ents (long : bool) (i0 : nat) (l : list bytes) : bytes :=
  concat (map (ent long) (combine (map N.of_nat (seq i0 (length l))) l)).

Definition atom_fits (long : bool) (a : bytes) : Prop :=
  utf8_valid a = true /\ len a <= 65535 /\ (long = false -> len a <= 255).

Lemma ents_cons long i0 a l : ents long i0 (a :: l) = ent long (N.of_nat i0, a) ++ ents long (S i0) l.
Proof. reflexivity. Qed.

Lemma read_entries_step f i n flags long cache refs idx r :
  read_entries (S f) i n flags long cache refs (idx :: r) =
  if i =? n then (cache, inl (rev refs, idx :: r)) else
  let nib := nibble flags i in
  let slot := (nib mod 8) * 256 + idx in
  let finish (cache' : list (N * bytes)) (r' : bytes) :=
    match assocb slot cache' with
    | Some a => read_entries f (i + 1) n flags long cache' (a :: refs) r'
    | None => (cache', inr KTag)
    end in
  if N.testbit nib 3 then
    match (if long then rd 2 r else rd 1 r) with
    | None => (cache, inr KEof)
    | Some (alen, r1) =>
        match takeN alen r1 with
        | None => (cache, inr KEof)
        | Some (txt, r2) => if utf8_valid txt then finish ((slot, txt) :: cache) r2 else (cache, inr KChar)
        end
    end
  else finish cache r.
Proof. reflexivity. Qed.

Lemma read_ents flags long n : forall l i0 cache refs body fuel,
  N.of_nat (i0 + length l) = n -> n <= 255 ->
  (forall j, (i0 <= j < i0 + length l)%nat -> nibble flags (N.of_nat j) = 8) ->
  Forall (atom_fits long) l -> (length l < fuel)%nat ->
  read_entries fuel (N.of_nat i0) n flags long cache refs (ents long i0 l ++ body) =
    (rev (combine (map N.of_nat (seq i0 (length l))) l) ++ cache, inl (rev refs ++ l, body)).
Proof.
  induction l as [|a l IH]; intros i0 cache refs body fuel Hn Hmax Hnib Hfit Hfuel.
  - cbn [length] in Hn. rewrite Nat.add_0_r in Hn. destruct fuel; cbn [read_entries]; rewrite Hn, N.eqb_refl; cbn; now rewrite app_nil_r.
  - destruct fuel as [|fuel]; [cbn in Hfuel; lia|]. cbn [length] in *. apply Forall_cons_iff in Hfit as [(Hu & Hl & Hs) Hfit'].
    rewrite ents_cons. unfold ent. cbn [fst snd]. rewrite <- !app_assoc. cbn [app].
    rewrite read_entries_step. replace (N.of_nat i0 =? n) with false by (symmetry; apply N.eqb_neq; lia).
    cbv zeta. rewrite (Hnib i0 ltac:(lia)).
    replace (N.of_nat i0 mod 256) with (N.of_nat i0) by (symmetry; apply N.mod_small; lia).
    change (N.testbit 8 3) with true. cbn iota. change (8 mod 8) with 0. rewrite N.mul_0_l, N.add_0_l.
    assert (Hrd : forall tail, (if long then rd 2 ((if long then be 2 (len a) else [len a mod 256]) ++ tail)
                   else rd 1 ((if long then be 2 (len a) else [len a mod 256]) ++ tail)) = Some (len a, tail)).
    { intros tail. destruct long.
      - apply rd_app. cbn. lia.
      - cbn [app]. rewrite rd1. f_equal. f_equal. apply N.mod_small. specialize (Hs eq_refl). lia. }
    rewrite <- (app_assoc _ a). rewrite Hrd, takeN_app, Hu.
    assert (Ha : assocb (N.of_nat i0) ((N.of_nat i0, a) :: cache) = Some a) by (cbn [assocb]; now rewrite N.eqb_refl).
    rewrite Ha. replace (N.of_nat i0 + 1) with (N.of_nat (S i0)) by lia.
    rewrite (IH (S i0) ((N.of_nat i0, a) :: cache) (a :: refs) body fuel); [|lia|exact Hmax|intros j Hj; apply Hnib; lia|exact Hfit'|lia].
    cbn [seq map combine rev]. rewrite <- !app_assoc. reflexivity.
Qed.

Lemma flags_facts n long : (1 <= n <= 255)%nat ->
  (forall i, (i < n)%nat -> nibble (flags_of n long) (N.of_nat i) = 8) /\
  long_of_coded (N.of_nat n) (flags_of n long) = long /\ length (flags_of n long) = (n / 2 + 1)%nat.
Proof.
  intros Hn. pose proof flags_table as T. rewrite forallb_forall in T.
  specialize (T n ltac:(apply in_seq; lia)). apply andb_prop in T as [Tt Tf].
  assert (H : flags_ok n long = true) by (destruct long; assumption). clear Tt Tf.
  unfold flags_ok in H. cbv zeta in H. apply andb_prop in H as [H H3]. apply andb_prop in H as [H1 H2].
  rewrite forallb_forall in H1. split; [|split].
  - intros i Hi. apply N.eqb_eq. apply H1. apply in_seq. lia.
  - now apply Bool.eqb_prop in H2.
  - now apply Nat.eqb_eq in H3.
Qed.

Lemma ents_length long : forall l i0, (length l <= length (ents long i0 l))%nat.
Proof.
  induction l as [|a l IH]; intros i0; [cbn; lia|]. rewrite ents_cons, app_length. unfold ent. cbn [length].
  specialize (IH (S i0)). lia.
Qed.

(* what the reader does once the header has been read *)
Definition after_hdr (cfg : dcfg) (fuel : nat) (cache : list (N * bytes)) (refs : list bytes) (body : bytes) : hdres :=
  let cfg' := cfg_with_cache cfg cache refs in
  match parse cfg' fuel body with
  | PErr k => (HDErr k, cache)
  | POk ctl [] => (HDOk ctl None, cache)
  | POk ctl rest =>
      match parse cfg' fuel rest with
      | PErr k => (HDErr k, cache)
      | POk pl [] => (HDOk ctl (Some pl), cache)
      | POk _ rest' => (HDTrailing (len rest'), cache)
      end
  end.

Definition header_bytes (order : list bytes) : bytes :=
  let n := length order in
  let long := existsb (fun a => 255 <? len a) order in
  N.of_nat n :: flags_of n long ++ ents long 0 order.

Definition new_cache (order : list bytes) (old : list (N * bytes)) : list (N * bytes) :=
  rev (combine (map N.of_nat (seq 0 (length order))) order) ++ old.

Lemma existsb_false_forall {A} (p : A -> bool) l : existsb p l = false -> Forall (fun x => p x = false) l.
Proof. induction l as [|x l IH]; cbn [existsb]; intros H; constructor; apply Bool.orb_false_iff in H as [H1 H2]; auto. Qed.

Theorem header_read_back cfg order body :
  order <> [] -> len order <= 255 -> Forall (fun a => utf8_valid a = true) order ->
  existsb (fun a => 65535 <? len a) order = false ->
  decode_with_atom_cache cfg long_of_coded (tag_version :: tag_dist_header :: header_bytes order ++ body) =
    after_hdr cfg (length (header_bytes order ++ body) + 3 + d_extra_fuel cfg) (new_cache order (d_cache cfg)) order body.
Proof.
  intros Hne Hlen Hutf Hbig. unfold header_bytes. set (n := length order). set (long := existsb (fun a => 255 <? len a) order).
  assert (Hn : (1 <= n <= 255)%nat).
  { subst n. unfold len in Hlen. destruct order; [contradiction|]. cbn [length] in *. lia. }
  destruct (flags_facts n long Hn) as (Hnib & Hlong & Hfl).
  unfold decode_with_atom_cache. change (negb (tag_version =? tag_version)) with false. cbv iota.
  cbn [app]. change (tag_dist_header =? tag_dist_header) with true. cbv iota.
  replace (N.of_nat n =? 0) with false by (symmetry; apply N.eqb_neq; lia).
  replace (N.to_nat (N.of_nat n / 2 + 1)) with (length (flags_of n long)).
  2:{ rewrite Hfl. rewrite N2Nat.inj_add, N2Nat.inj_div, Nat2N.id. reflexivity. }
  rewrite <- app_assoc. rewrite take_app. rewrite Hlong.
  rewrite (read_ents (flags_of n long) long (N.of_nat n) order 0 (d_cache cfg) [] body).
  - cbn [rev app]. reflexivity.
  - reflexivity.
  - lia.
  - intros j Hj. apply Hnib. subst n. lia.
  - apply Forall_forall. intros a Ha. rewrite Forall_forall in Hutf. split; [now apply Hutf|]. split.
    + apply existsb_false_forall in Hbig. rewrite Forall_forall in Hbig. specialize (Hbig a Ha). apply N.ltb_ge in Hbig. exact Hbig.
    + intros Hl. subst long. apply existsb_false_forall in Hl. rewrite Forall_forall in Hl. specialize (Hl a Ha). now apply N.ltb_ge in Hl.
  - rewrite app_length. pose proof (ents_length long order 0). subst n. lia.
Qed.

(* the writer's output is the version byte, tag 68 and these header bytes followed by the terms *)
Lemma encode_multi_shape order ts b : order <> [] -> len order <= 255 ->
  existsb (fun a => 65535 <? len a) order = false -> enc_terms_c order ts = EOk b ->
  encode_multi order ts = HOk (tag_version :: tag_dist_header :: header_bytes order ++ b).
Proof.
  intros Hne Hlen Hbig Hb. unfold encode_multi. destruct order as [|a r]; [contradiction|].
  match goal with |- context [if ?c then HTooManyAtoms _ else _] => destruct c eqn:E end; [apply N.ltb_lt in E; unfold bytes in *; lia|].
  match goal with |- context [if ?c then HErr EAtomTooLarge else _] => replace c with false by (symmetry; exact Hbig) end.
  rewrite Hb. unfold header_bytes, flags_of, ents, ent. cbn [app]. rewrite <- app_assoc. reflexivity.
Qed.

Lemma enc_terms_c_list order ts : enc_terms_c order ts = enc_list_c order ts.
Proof. induction ts as [|t r IH]; [reflexivity|]. cbn [enc_terms_c enc_list_c]. now rewrite IH. Qed.

Section Message.
  Variable cfg : dcfg.
  Hypothesis Harms : d_arms cfg = owned_arms.
  Variable kc : term -> term -> comparison.
  Variable ki : (term -> term -> comparison) -> term -> term -> list (term * term) -> list (term * term).
  Hypothesis Hkc : d_kcmp cfg = kc.
  Hypothesis Hki : d_kinsert cfg = ki.
  Variable order : list bytes.
  Hypothesis Hne : order <> [].
  Hypothesis Hlen : len order <= 255.
  Hypothesis Hutf : Forall (fun a => utf8_valid a = true) order.
  Hypothesis Hbig : existsb (fun a => 65535 <? len a) order = false.

  Let rt (cache : list (N * bytes)) := roundtrip_c (cfg_with_cache cfg cache order) Harms order eq_refl
                                          ltac:(unfold bytes in *; lia) kc ki Hkc Hki.

  (* a control message alone *)
  Theorem message_read_back_1 ctl : wf ctl = true -> rt_ok kc ki ctl ->
    exists bs, encode_multi order [ctl] = HOk bs /\
      decode_with_atom_cache cfg long_of_coded bs = (HDOk (norm ctl) None, new_cache order (d_cache cfg)).
  Proof.
    intros Hw Hok. destruct (rt (new_cache order (d_cache cfg)) ctl Hw Hok) as (bc & Ec & Lc & Pc).
    assert (Eb : enc_terms_c order [ctl] = EOk (bc ++ [])) by (cbn [enc_terms_c]; rewrite Ec; reflexivity).
    eexists. split; [apply (encode_multi_shape order _ _ Hne Hlen Hbig Eb)|].
    rewrite (header_read_back cfg order _ Hne Hlen Hutf Hbig). unfold after_hdr. cbv zeta.
    rewrite Pc; [reflexivity|]. rewrite !app_length. lia.
  Qed.

  (* control message and payload *)
  Theorem message_read_back_2 ctl pl : wf ctl = true -> rt_ok kc ki ctl -> wf pl = true -> rt_ok kc ki pl ->
    exists bs, encode_multi order [ctl; pl] = HOk bs /\
      decode_with_atom_cache cfg long_of_coded bs = (HDOk (norm ctl) (Some (norm pl)), new_cache order (d_cache cfg)).
  Proof.
    intros Hw Hok Hwp Hokp.
    destruct (rt (new_cache order (d_cache cfg)) ctl Hw Hok) as (bc & Ec & Lc & Pc).
    destruct (rt (new_cache order (d_cache cfg)) pl Hwp Hokp) as (bp & Ep & Lp & Pp).
    assert (Eb : enc_terms_c order [ctl; pl] = EOk (bc ++ bp ++ [])) by (cbn [enc_terms_c]; rewrite Ec, Ep; reflexivity).
    eexists. split; [apply (encode_multi_shape order _ _ Hne Hlen Hbig Eb)|].
    rewrite (header_read_back cfg order _ Hne Hlen Hutf Hbig). unfold after_hdr. cbv zeta.
    rewrite Pc by (rewrite !app_length; lia).
    destruct (bp ++ []) as [|x r] eqn:E; [apply (f_equal (@length N)) in E; rewrite app_length in E; cbn in E; lia|].
    rewrite <- E. rewrite Pp; [reflexivity|]. rewrite !app_length. lia.
  Qed.
End Message.
