(* IEEE-754 binary64 as far as the term ordering needs it: decoding a bit pattern into an exact dyadic
   value, exact comparison, round-to-nearest-even of a non-negative dyadic (for `i as f64`, and for the
   iterated additions of bigint_to_f64).  Everything is exact integer arithmetic; no real numbers. *)
From EDP Require Import Base.Bytes.

Inductive f64 :=
| FNaN
| FInf (neg : bool)
| FFin (neg : bool) (m : N) (e : Z).      (* (-1)^neg * m * 2^e *)

Definition two52 : N := 4503599627370496.
Definition two53 : N := 9007199254740992.

Definition f64_of_bits (b : N) : f64 :=
  let sign := N.testbit b 63 in
  let ex := (b / two52) mod 2048 in
  let frac := b mod two52 in
  if ex =? 2047 then (if frac =? 0 then FInf sign else FNaN)
  else if ex =? 0 then FFin sign frac (-1074)
  else FFin sign (two52 + frac) (Z.of_N ex - 1075).

Definition is_nan (x : f64) : bool := match x with FNaN => true | _ => false end.
Definition is_inf (x : f64) : bool := match x with FInf _ => true | _ => false end.

Definition pow2 (k : Z) : N := if (k <? 0)%Z then 1 else 2 ^ Z.to_N k.

(* compare magnitudes m1*2^e1 and m2*2^e2 exactly *)
Definition cmp_mag (m1 : N) (e1 : Z) (m2 : N) (e2 : Z) : comparison :=
  let e := Z.min e1 e2 in
  (m1 * pow2 (e1 - e) ?= m2 * pow2 (e2 - e)).

(* partial_cmp for non-NaN values (−0 = +0) *)
Definition cmp_f64 (x y : f64) : comparison :=
  match x, y with
  | FNaN, _ | _, FNaN => Eq       (* callers handle NaN first; unwrap_or(Equal) *)
  | FInf nx, FInf ny => if Bool.eqb nx ny then Eq else if nx then Lt else Gt
  | FInf nx, FFin _ _ _ => if nx then Lt else Gt
  | FFin _ _ _, FInf ny => if ny then Gt else Lt
  | FFin nx mx ex, FFin ny my ey =>
      if (mx =? 0) && (my =? 0) then Eq
      else if mx =? 0 then (if ny then Gt else Lt)
      else if my =? 0 then (if nx then Lt else Gt)
      else match nx, ny with
           | false, false => cmp_mag mx ex my ey
           | true, true => CompOpp (cmp_mag mx ex my ey)
           | true, false => Lt
           | false, true => Gt
           end
  end.

(* round the non-negative dyadic m*2^e to the nearest binary64, ties to even; overflow gives infinity *)
Definition round_rne (m : N) (e : Z) : f64 :=
  if m =? 0 then FFin false 0 0 else
  let bits := Z.of_N (N.size m) in
  let e' := Z.max (e + bits - 53) (-1074) in
  let shift := (e' - e)%Z in
  let '(q, e2) :=
    if (shift <=? 0)%Z then (m * pow2 (- shift), e')
    else
      let d := pow2 shift in
      let q := m / d in
      let r := m mod d in
      let half := pow2 (shift - 1) in
      let q' := if r <? half then q else if half <? r then q + 1 else (if N.even q then q else q + 1) in
      (q', e') in
  (* q may have reached 2^53: still exact as 2^52 * 2^(e2+1); overflow when the value reaches 2^1024 *)
  if (e2 + Z.of_N (N.size q) >? 1024)%Z then FInf false else FFin false q e2.

Definition f64_neg (x : f64) : f64 :=
  match x with FNaN => FNaN | FInf s => FInf (negb s) | FFin s m e => FFin (negb s) m e end.

(* `i as f64` *)
Definition f64_of_z (z : Z) : f64 :=
  if (z <? 0)%Z then f64_neg (round_rne (Z.to_N (- z)) 0) else round_rne (Z.to_N z) 0.

(* addition of two non-negative finite values, rounded *)
Definition add_nonneg (x y : f64) : f64 :=
  match x, y with
  | FFin _ mx ex, FFin _ my ey =>
      let e := Z.min ex ey in
      round_rne (mx * pow2 (ex - e) + my * pow2 (ey - e)) e
  | FInf s, _ | _, FInf s => FInf s
  | _, _ => FNaN
  end.

(* bigint_to_f64: result += byte * scale; scale *= 256, with the early return on infinity *)
Fixpoint big_to_f64_loop (digits : bytes) (result : f64) (k : Z) : option f64 :=
  (* k = number of digits already consumed; scale = 256^k, infinite once 8k >= 1024.
     None = the loop hit the early `return infinity` *)
  match digits with
  | [] => Some result
  | b :: r =>
      let scale_inf := (1024 <=? 8 * k)%Z in
      (* contribution = b * 2^(8k): infinite iff b * 2^(8k) >= 2^1024 (b has at most 8 bits, so exact below) *)
      let contrib_inf := negb (b =? 0) && (1024 <? 8 * k + Z.of_N (N.size b))%Z in
      if contrib_inf || scale_inf then None
      else big_to_f64_loop r (add_nonneg result (FFin false b (8 * k))) (k + 1)
  end.

Definition big_to_f64 (neg : bool) (digits : bytes) : f64 :=
  match big_to_f64_loop digits (FFin false 0 0) 0 with
  | None => FInf neg
  | Some r => if neg then f64_neg r else r
  end.
