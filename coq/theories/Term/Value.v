(* Erlang values and the value a term denotes ("same Erlang value" in C01/C03/C12 means equality of denote). *)
From EDP Require Import Base.Bytes Term.Term.

Inductive value :=
| VInt (z : Z)
| VFloat (bits : N)
| VAtom (name : bytes)
| VPid (node : bytes) (id serial creation : N)
| VPort (node : bytes) (id creation : N)
| VRef (node : bytes) (creation : N) (ids : list N)
| VBits (b : bytes) (nbits : N)            (* nbits = total number of bits *)
| VNil
| VCons (h t : value)
| VTuple (l : list value)
| VMap (kvs : list (value * value))        (* entries in the order the term holds them *)
| VExtFun (m f : bytes) (arity : N)
| VIntFun (arity : N) (uniq : bytes) (index num_free : N) (m : bytes) (old_index old_uniq : N) (pid : value) (free : list value).

Definition big_value (neg : bool) (d : bytes) : Z := if neg then (- Z.of_N (unle d))%Z else Z.of_N (unle d).

Definition denote_pid (p : pidr) : value := VPid (pnode p) (pnum p) (pserial p) (pcreation p).

Fixpoint denote (t : term) : value :=
  match t with
  | TAtom a => VAtom a
  | TInt z => VInt z
  | TFloat b => VFloat b
  | TPid p => denote_pid p
  | TPort n i c _ => VPort n i c
  | TRef n c ids _ => VRef n c ids
  | TBin b => VBits b (8 * len b)
  | TBitBin b k => VBits b (match b with [] => 0 | _ => 8 * len b - (8 - k) end)
  | TStr s => VBits s (8 * len s)
  | TList l => fold_right VCons VNil (map denote l)
  | TImproper l tl => fold_right VCons (denote tl) (map denote l)
  | TMap kvs => VMap (map (fun kv => (denote (fst kv), denote (snd kv))) kvs)
  | TTuple l => VTuple (map denote l)
  | TBig neg d => VInt (big_value neg d)
  | TExtFun m f a => VExtFun m f a
  | TIntFun a u i nf m oi ou p fr => VIntFun a u i nf m oi ou (denote_pid p) (map denote fr)
  | TNil => VNil
  end.
