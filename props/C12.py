"""C12 — comparison agrees with Erlang's term order. Domain `ord`."""
import itertools
import etf, ordlib

ID = "C12"
GEN_FILES = ["Ranks.v"]
RULE = ("all ordered pairs of a universe with every type rank, numeric neighbours of 2^31, 2^53+-1, 2^63, 2^64, 10^20 in small-integer, "
        "big-integer and float representation, floats adjacent to integers, equal-length big integers, prefixes/extensions of binaries and "
        "bit-strings, improper lists, tuples/lists/maps built from them (plus random pairs in the thorough tier); oracle: exact Erlang order "
        "on the denoted values; distinct = distinct pair; non-trivial = the two terms differ")
ASSUMPTIONS = ["Erlang term order transcribed in props/etf.py (erl_cmp) from the reference manual", "order among identifiers/funs of one kind is not prescribed: only equality-consistency is checked there"]
TRUSTED_EXTRA = ["Python reference of Erlang's term order (props/etf.py erl_cmp), exact rational arithmetic"]
IDENT = {"r", "p", "o", "e", "u"}


_OPEN = []


def open_ids():
    if not _OPEN:
        import vlib
        _OPEN.append({k["id"] for k in vlib.known_findings(ID) if k.get("status", "open") == "open"})
    return _OPEN[0]


def dup_keys(t):
    """does the term hold a map literal two of whose keys are the same Erlang value (==)?"""
    k = t[0]
    if k == "m":
        ks = [etf.denote(x) for x, _ in t[1]]
        if any(etf.erl_cmp(ks[i], ks[j]) == 0 for i in range(len(ks)) for j in range(i + 1, len(ks))):
            return True
        return any(dup_keys(x) or dup_keys(y) for x, y in t[1])
    if k in ("l", "t"):
        return any(dup_keys(x) for x in t[1])
    if k == "L":
        return any(dup_keys(x) for x in t[1]) or dup_keys(t[2])
    if k == "u":
        return any(dup_keys(x) for x in t[9])
    return False


def split_case(case):
    a, b = case[4:].split(" | ")
    return etf.parse_term(a), etf.parse_term(b)


def oracle(case, impl):
    if impl.startswith(("PANIC", "CRASH", "TIMEOUT")):
        return ("violation", "comparison did not return: " + impl[:60])
    a, b = split_case(case)
    d = ordlib.parse_out(impl)
    got = ordlib.SIGN[d["o"]]
    exp = ordlib.expected(a, b)
    if a[0] in IDENT and b[0] in IDENT and etf.RANK[etf.denote(a)[0]] == etf.RANK[etf.denote(b)[0]]:
        ok = (got == 0) == (exp == 0)
    else:
        ok = got == exp
    if ok and "b" in d and d["b"] != d["o"]:
        # the zero-copy representation orders the same two terms differently: one of the two answers is not Erlang's
        return ("violation", "BorrowedTerm::cmp gives %s where OwnedTerm::cmp gives %s (Erlang's order gives %s)" % (d["b"], d["o"], {-1: "lt", 0: "eq", 1: "gt"}[exp]))
    if ok:
        return None
    cls = ordlib.pair_classes(a, b)
    if cls:
        # an open class first: the pair may also have the shape of a class that has been repaired since
        return ("known", sorted(cls, key=lambda c: (c not in open_ids(), c))[0])
    return ("violation", "cmp gives %s, Erlang's order gives %s" % (d["o"], {-1: "lt", 0: "eq", 1: "gt"}[exp]))


def oracle_for(_d):
    return oracle


def cases_for(ctx):
    u = [t for t in ordlib.universe(ctx.tier) if not ordlib.noncanonical(t, padded_ok=t[0] == "g")]
    shown = [etf.show(t) for t in u]
    cases = ["cmp %s | %s" % (x, y) for x in shown for y in shown]
    return u, cases


def run(ctx):
    u, cases = cases_for(ctx)
    rng = ctx.rng
    import termgen
    extra = []
    for _ in range(ctx.budget(1500, 60000)):
        a = termgen.gen_term(rng, depth=rng.choice([0, 1, 2]), big_ok=False)
        b = termgen.gen_term(rng, depth=rng.choice([0, 1, 2]), big_ok=False) if rng.random() < 0.7 else a
        if ordlib.noncanonical(a) or ordlib.noncanonical(b) or etf.has_nan(etf.denote(a)) or etf.has_nan(etf.denote(b)):
            continue
        if dup_keys(a) or dup_keys(b):
            continue        # a map literal with one key twice is not a value
        extra.append("cmp %s | %s" % (etf.show(a), etf.show(b)))

    def nontrivial(c, impl):
        a, b = c[4:].split(" | ")
        return c if a != b else None

    def classify(c, impl):
        a, b = c[4:].split(" | ")
        return ["kinds:%s/%s" % (a[0], b[0]), "result:" + impl.split()[0]]
    ctx.diff_domain("ord", cases + extra, oracle=oracle, nontrivial=nontrivial, classify=classify)
