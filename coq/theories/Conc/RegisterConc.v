(* ProcessRegistry::register / unregister under any schedule.  Both take the write lock of the name table for their
   whole body (register: checked on the source by the translator, Gen/LockScope.v site registry_register); inside it
   register looks the name up and, if it is free, inserts.  Here the lookup and the insertion are separate atomic
   steps, any number of tasks register and unregister any names, and the scheduler is arbitrary: the table always
   holds at most one process per name, and every operation's result is the one the sequential table gives — for EVERY
   schedule. *)
From Coq Require Import List NArith Bool Arith Lia.
From EDP Require Import Conc.Interleave.
Import ListNotations.
Open Scope N_scope.

Definition name := N.          (* names and processes as numbers: only their equality matters *)
Definition pidn := N.

Record rst := { names : list (name * pidn); found : bool; results : list bool }.

Fixpoint mem (nm : name) (l : list (name * pidn)) : bool :=
  match l with [] => false | (k, _) :: r => if k =? nm then true else mem nm r end.
Fixpoint del (nm : name) (l : list (name * pidn)) : list (name * pidn) :=
  match l with [] => [] | (k, v) :: r => if k =? nm then del nm r else (k, v) :: del nm r end.

(* atomic steps *)
Definition look (nm : name) (s : rst) : rst := {| names := names s; found := mem nm (names s); results := results s |}.
Definition ins (nm : name) (p : pidn) (s : rst) : rst :=
  if found s then {| names := names s; found := found s; results := results s ++ [false] |}
  else {| names := names s ++ [(nm, p)]; found := found s; results := results s ++ [true] |}.
Definition rem (nm : name) (s : rst) : rst :=
  {| names := del nm (names s); found := found s; results := results s ++ [mem nm (names s)] |}.

Inductive rop := Reg (nm : name) (p : pidn) | Unreg (nm : name).
Definition steps_of (o : rop) : list (rst -> rst) :=
  match o with Reg nm p => [look nm; ins nm p] | Unreg nm => [rem nm] end.

(* the sequential table *)
Definition seq_step (t : list (name * pidn) * list bool) (o : rop) : list (name * pidn) * list bool :=
  match o with
  | Reg nm p => if mem nm (fst t) then (fst t, snd t ++ [false]) else (fst t ++ [(nm, p)], snd t ++ [true])
  | Unreg nm => (del nm (fst t), snd t ++ [mem nm (fst t)])
  end.

Definition exec (tr : list (rst -> rst)) (s : rst) : rst := fold_left (fun x f => f x) tr s.

Lemma exec_app t1 t2 s : exec (t1 ++ t2) s = exec t2 (exec t1 s).
Proof. unfold exec. apply fold_left_app. Qed.

Lemma exec_op o s : names (exec (steps_of o) s) = fst (seq_step (names s, results s) o) /\
                    results (exec (steps_of o) s) = snd (seq_step (names s, results s) o).
Proof.
  destruct o as [nm p|nm]; cbn [steps_of exec fold_left seq_step fst snd].
  - unfold ins, look. cbn [found names results]. destruct (mem nm (names s)); split; reflexivity.
  - unfold rem. cbn [names results]. split; reflexivity.
Qed.

Lemma exec_ops : forall ops s,
  names (exec (concat (map steps_of ops)) s) = fst (fold_left seq_step ops (names s, results s)) /\
  results (exec (concat (map steps_of ops)) s) = snd (fold_left seq_step ops (names s, results s)).
Proof.
  induction ops as [|o ops IH]; intros s; [split; reflexivity|].
  cbn [map concat fold_left]. rewrite exec_app. destruct (exec_op o s) as [Hn Hr]. destruct (IH (exec (steps_of o) s)) as [IHn IHr].
  rewrite IHn, IHr, Hn, Hr. rewrite <- surjective_pairing. split; reflexivity.
Qed.

(* at most one process per name *)
Definition functional (l : list (name * pidn)) : Prop := NoDup (map fst l).

Lemma mem_in nm l : mem nm l = true <-> In nm (map fst l).
Proof.
  induction l as [|[k v] l IH]; cbn [mem map fst In]; [split; [discriminate|tauto]|].
  destruct (N.eqb_spec k nm) as [->|Hne]; [split; auto|]. rewrite IH. split; [auto|intros [H|H]; [contradiction|exact H]].
Qed.

Lemma del_incl nm l x : In x (map fst (del nm l)) -> In x (map fst l).
Proof.
  induction l as [|[k v] l IH]; cbn [del map fst In]; [tauto|]. destruct (k =? nm); cbn [map fst In]; [auto|intros [H|H]; auto].
Qed.

Lemma del_functional nm l : functional l -> functional (del nm l).
Proof.
  unfold functional. induction l as [|[k v] l IH]; cbn [del map fst]; intros H; [constructor|]. inversion H as [|? ? Hn Hl]; subst.
  destruct (k =? nm); [now apply IH|]. cbn [map fst]. constructor; [intros Hin; apply Hn; eapply del_incl, Hin|now apply IH].
Qed.

Lemma nodup_snoc {A} (l : list A) x : NoDup l -> ~ In x l -> NoDup (l ++ [x]).
Proof.
  induction l as [|a l IH]; intros Hn Hx; cbn [app]; [constructor; [tauto|constructor]|].
  inversion Hn as [|? ? Ha Hl]; subst. constructor.
  - intros Hin. apply in_app_or in Hin as [Hin|[<-|[]]]; [contradiction|apply Hx; now left].
  - apply IH; [exact Hl|intros Hin; apply Hx; now right].
Qed.

Lemma seq_functional : forall ops t, functional (fst t) -> functional (fst (fold_left seq_step ops t)).
Proof.
  induction ops as [|o ops IH]; intros t H; [exact H|]. cbn [fold_left]. apply IH. destruct o as [nm p|nm]; cbn [seq_step].
  - destruct (mem nm (fst t)) eqn:E; cbn [fst]; [exact H|]. unfold functional. rewrite map_app. cbn [map fst].
    apply nodup_snoc; [exact H|]. intros Hin. apply mem_in in Hin. congruence.
  - cbn [fst]. now apply del_functional.
Qed.

Definition all_reg (prog : list (list (list (rst -> rst)))) : Prop :=
  Forall (Forall (fun op => exists o, op = steps_of o)) prog.

Lemma granted_are_ops prog s g : all_reg prog -> Inv _ prog s g -> Forall (fun e => exists o, snd e = steps_of o) g.
Proof.
  intros Hall (_ & Hp & _). apply Forall_forall. intros [i op] Hin. cbn [snd].
  assert (Hi : In op (ops_of _ i g)).
  { unfold ops_of. apply in_map_iff. exists (i, op). split; [reflexivity|]. apply filter_In. split; [exact Hin|]. cbn. apply Nat.eqb_refl. }
  assert (Hnth : In op (nth i prog [])) by (rewrite <- (Hp i); apply in_or_app; now left).
  destruct (Nat.lt_ge_cases i (length prog)) as [Hlt|Hge].
  - unfold all_reg in Hall. rewrite Forall_forall in Hall. specialize (Hall (nth i prog []) (nth_In _ _ Hlt)).
    rewrite Forall_forall in Hall. now apply Hall.
  - rewrite nth_overflow in Hnth by exact Hge. destruct Hnth.
Qed.

Lemma concat_ops : forall (g : list (nat * list (rst -> rst))), Forall (fun e => exists o, snd e = steps_of o) g ->
  exists ops, concat (map snd g) = concat (map steps_of ops) /\ length ops = length g.
Proof.
  induction g as [|e g IH]; intros H; [exists []; split; reflexivity|]. inversion H as [|? ? [o Ho] Hg]; subst.
  destruct (IH Hg) as (ops & E & L). exists (o :: ops). cbn [map concat length]. rewrite Ho, E, L. split; reflexivity.
Qed.

(* a strict prefix of an operation changes neither the table nor the results *)
Lemma exec_partial o done rest s : steps_of o = done ++ rest -> rest <> [] ->
  names (exec done s) = names s /\ results (exec done s) = results s.
Proof.
  intros H Hr. destruct o as [nm p|nm]; cbn [steps_of] in H.
  - destruct done as [|d1 [|d2 done']]; cbn [app] in H.
    + split; reflexivity.
    + inversion H; subst. split; reflexivity.
    + inversion H as [[E1 E2 E3]]. destruct done'; [cbn [app] in E3; symmetry in E3; contradiction|discriminate].
  - destruct done as [|d1 done']; cbn [app] in H; [split; reflexivity|].
    inversion H as [[E1 E2]]. destruct done'; [cbn [app] in E2; symmetry in E2; contradiction|discriminate].
Qed.

(* for every program of register / unregister calls and every schedule: the table and the results handed out are those
   of the sequential table fed the granted operations in grant order; hence at most one process per name at every
   moment *)
Theorem registry_is_sequential prog schedule s0 : all_reg prog ->
  exists ops, (length ops <= length schedule)%nat /\
    names (exec (trace _ (run _ (start _ prog) schedule)) s0) = fst (fold_left seq_step ops (names s0, results s0)) /\
    results (exec (trace _ (run _ (start _ prog) schedule)) s0) = snd (fold_left seq_step ops (names s0, results s0)).
Proof.
  intros Hall. destruct (inv_run_bounded _ prog schedule _ _ (inv_start _ prog)) as (g & HI & Hlen). cbn [length Nat.add] in Hlen.
  pose proof (granted_are_ops _ _ _ Hall HI) as Hg. destruct HI as (_ & _ & Hh).
  destruct (holder _ (run _ (start _ prog) schedule)) as [[j rest]|].
  - destruct Hh as (pre & op & done & Eg & Eop & Etr). rewrite Etr, exec_app.
    rewrite Eg in Hg. apply Forall_app in Hg as [Hpre Hlast]. inversion Hlast as [|? ? [o Hop] _]; subst. cbn [snd] in Hop.
    destruct (concat_ops pre Hpre) as (ops & Ec & Lo). rewrite Ec. destruct (exec_ops ops s0) as [Hn Hr].
    rewrite app_length in Hlen. cbn [length] in Hlen.
    destruct rest as [|r0 rest'].
    + rewrite app_nil_r in Hop. subst done. exists (ops ++ [o]). split; [rewrite app_length; cbn [length]; lia|].
      destruct (exec_op o (exec (concat (map steps_of ops)) s0)) as [Hn2 Hr2]. rewrite Hn2, Hr2, Hn, Hr, <- surjective_pairing.
      rewrite fold_left_app. cbn [fold_left]. split; reflexivity.
    + destruct (exec_partial o done (r0 :: rest') (exec (concat (map steps_of ops)) s0) (eq_sym Hop) ltac:(discriminate)) as [Hn2 Hr2].
      exists ops. split; [lia|]. rewrite Hn2, Hr2. split; assumption.
  - rewrite Hh. destruct (concat_ops g Hg) as (ops & Ec & Lo). rewrite Ec. exists ops. split; [lia|]. apply exec_ops.
Qed.

Corollary registry_functional prog schedule : all_reg prog ->
  functional (names (exec (trace _ (run _ (start _ prog) schedule)) {| names := []; found := false; results := [] |})).
Proof.
  intros Hall. destruct (registry_is_sequential prog schedule {| names := []; found := false; results := [] |} Hall) as (ops & _ & Hn & _).
  rewrite Hn. apply seq_functional. constructor.
Qed.

(* two tasks race for one name, a third unregisters it in between: whatever the schedule, exactly the registrations
   the sequential table accepts succeed *)
Definition race_prog := [[steps_of (Reg 7 1)]; [steps_of (Reg 7 2); steps_of (Reg 7 2)]; [steps_of (Unreg 7)]].
(* two tasks race for one name while a third unregisters it: with this schedule task 0 wins, the name is removed, task 1
   registers it, and task 1's second attempt is refused — the sequential table fed the grants in grant order *)
Example race :
  let s := exec (trace _ (run _ (start _ race_prog) (concat (repeat [0; 1; 2; 1; 0; 2]%nat 12)))) {| names := []; found := false; results := [] |} in
  names s = [(7, 2)] /\ results s = [true; true; true; false].
Proof. vm_compute. split; reflexivity. Qed.
