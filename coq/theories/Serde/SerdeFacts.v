(* The serde round trip: for every type of the family and every value of it, deserialising the serialised term gives
   the value back, in memory and after the representation change of the wire (norm). *)
From Coq Require Import Permutation.
From EDP Require Import Base.Bytes Term.Term Term.Access Term.AccessFacts Order.Cmp Order.CmpFacts Codec.Encode Codec.Norm
  Elixir.Range Elixir.RangeFacts Elixir.Wrap Elixir.WrapFacts Elixir.ProplistFacts Serde.Serde.
Open Scope N_scope.

(* ---------- induction over types (nested through lists of types and of named fields) ---------- *)
Section TyInd.
  Variable P : ty -> Prop.
  Hypothesis HBool : P TyBool.
  Hypothesis HInt : forall k, P (TyInt k).
  Hypothesis HF32 : P TyF32.
  Hypothesis HF64 : P TyF64.
  Hypothesis HChar : P TyChar.
  Hypothesis HString : P TyString.
  Hypothesis HUnit : P TyUnit.
  Hypothesis HOption : forall t, P t -> P (TyOption t).
  Hypothesis HTuple : forall ts, Forall P ts -> P (TyTuple ts).
  Hypothesis HVec : forall t, P t -> P (TyVec t).
  Hypothesis HMap : forall k v, P k -> P v -> P (TyMap k v).
  Hypothesis HStruct : forall fs, Forall (fun f => P (snd f)) fs -> P (TyStruct fs).
  Hypothesis HElixir : forall m fs, Forall (fun f => P (snd f)) fs -> P (TyElixir m fs).
  Hypothesis HEnum : forall vs, Forall (fun f => P (snd f)) vs -> P (TyEnum vs).
  Hypothesis HUnitStruct : forall n, P (TyUnitStruct n).
  Hypothesis HNewtype : forall t, P t -> P (TyNewtype t).
  Hypothesis HTupleStruct : forall ts, Forall P ts -> P (TyTupleStruct ts).
  Hypothesis HBytes : P TyBytes.
  Hypothesis HPUnit : P PUnit.
  Hypothesis HPNewtype : forall t, P t -> P (PNewtype t).
  Hypothesis HPTuple : forall ts, Forall P ts -> P (PTuple ts).
  Hypothesis HPStruct : forall fs, Forall (fun f => P (snd f)) fs -> P (PStruct fs).

  Fixpoint ty_ind' (t : ty) : P t :=
    let list_ind := fix go (l : list ty) : Forall P l :=
      match l with [] => Forall_nil _ | x :: r => Forall_cons x (ty_ind' x) (go r) end in
    let fields_ind := fix go (l : list (bytes * ty)) : Forall (fun f => P (snd f)) l :=
      match l with [] => Forall_nil _ | x :: r => Forall_cons x (ty_ind' (snd x)) (go r) end in
    match t with
    | TyBool => HBool | TyInt k => HInt k | TyF32 => HF32 | TyF64 => HF64 | TyChar => HChar | TyString => HString
    | TyUnit => HUnit
    | TyOption t' => HOption t' (ty_ind' t')
    | TyTuple ts => HTuple ts (list_ind ts)
    | TyVec t' => HVec t' (ty_ind' t')
    | TyMap k v => HMap k v (ty_ind' k) (ty_ind' v)
    | TyStruct fs => HStruct fs (fields_ind fs)
    | TyElixir m fs => HElixir m fs (fields_ind fs)
    | TyEnum vs => HEnum vs (fields_ind vs)
    | TyUnitStruct n => HUnitStruct n
    | TyNewtype t' => HNewtype t' (ty_ind' t')
    | TyTupleStruct ts => HTupleStruct ts (list_ind ts)
    | TyBytes => HBytes
    | PUnit => HPUnit
    | PNewtype t' => HPNewtype t' (ty_ind' t')
    | PTuple ts => HPTuple ts (list_ind ts)
    | PStruct fs => HPStruct fs (fields_ind fs)
    end.
End TyInd.

Section Facts.
  Variable interop : bool.
  Variable f32_round : N -> N.
  Notation ser := (rser interop).
  Notation de := (rde interop f32_round).
  Notation wt := (rwt interop f32_round).

  (* ---------- the local list functions of rser / rde / rwt, named ---------- *)
  Definition ser_list := fix go (ts : list ty) (vs : list rval) {struct vs} : list term :=
    match ts, vs with
    | t' :: ts', v' :: vs' => ser t' v' :: go ts' vs'
    | _, _ => []
    end.
  Definition ser_fields := fix go (key : bytes -> term) (fs : list (bytes * ty)) (vs : list rval) {struct vs} : list (term * term) :=
    match fs, vs with
    | (name, t') :: fs', v' :: vs' => (key name, ser t' v') :: go key fs' vs'
    | _, _ => []
    end.
  Definition ser_seq (t' : ty) := fix go (vs : list rval) : list term := match vs with [] => [] | v' :: r => ser t' v' :: go r end.
  Definition ser_kvs (kt vt : ty) := fix go (kvs : list (rval * rval)) : list (term * term) :=
    match kvs with [] => [] | (k', v') :: r => (ser kt k', ser vt v') :: go r end.

  Definition de_list := fix go (ts : list ty) (l : list term) {struct ts} : option (list rval) :=
    match ts with
    | [] => Some []
    | t' :: ts' =>
        match l with
        | x :: l' => match de t' x, go ts' l' with Some v, Some vs => Some (v :: vs) | _, _ => None end
        | [] => None
        end
    end.
  Definition de_fields := fix go (fs : list (bytes * ty)) (m : list (term * term)) {struct fs} : option (list rval) :=
    match fs with
    | [] => Some []
    | (name, t') :: fs' =>
        match (match field_values name m with
               | [x] => de t' x
               | [] => if is_option t' then Some RNone else None
               | _ => None
               end), go fs' m with
        | Some v, Some vs => Some (v :: vs)
        | _, _ => None
        end
    end.
  Definition de_efields := fix go (fs : list (bytes * ty)) (m : list (term * term)) {struct fs} : option (list rval) :=
    match fs with
    | [] => Some []
    | (name, t') :: fs' =>
        match (match all_some (map (de t') (field_values name m)) with
               | Some (x :: l) => Some (last l x)
               | _ => None
               end), go fs' m with
        | Some v, Some vs => Some (v :: vs)
        | _, _ => None
        end
    end.
  Definition de_payload (i : N) (shape : ty) (rest : list term) : option rval :=
    match shape with
    | PUnit => match rest with [] => Some (RVariant i []) | _ => None end
    | PNewtype t' => match rest with [x] => option_map (fun v => RVariant i [v]) (de t' x) | _ => None end
    | PTuple ts => option_map (RVariant i) (de_list ts rest)
    | PStruct fs =>
        match rest with
        | [TMap m] => if keys_are_strings m then option_map (RVariant i) (de_fields fs m) else None
        | _ => None
        end
    | _ => None
    end.
  Definition find_variant := fix go (vs : list (bytes * ty)) (i : N) (name : bytes) {struct vs} : option (list term -> option rval) :=
    match vs with
    | [] => None
    | (n, shape) :: r => if eq_bytes n name then Some (de_payload i shape) else go r (i + 1) name
    end.

  Definition wt_list := fix go (ts : list ty) (vs : list rval) {struct vs} : bool :=
    match ts, vs with
    | [], [] => true
    | t' :: ts', v' :: vs' => wt t' v' && go ts' vs'
    | _, _ => false
    end.
  Definition wt_fields := fix go (fs : list (bytes * ty)) (vs : list rval) {struct vs} : bool :=
    match fs, vs with
    | [], [] => true
    | (_, t') :: fs', v' :: vs' => wt t' v' && go fs' vs'
    | _, _ => false
    end.
  Definition wt_seq (t' : ty) := fix go (vs : list rval) : bool := match vs with [] => true | v' :: r => wt t' v' && go r end.
  Definition wt_kvs (kt vt : ty) := fix go (kvs : list (rval * rval)) : bool :=
    match kvs with [] => true | (k', v') :: r => wt kt k' && wt vt v' && go r end.

  (* unfolding equations: the named functions are the local ones *)
  Lemma ser_tuple ts vs : ser (TyTuple ts) (RTup vs) = TTuple (ser_list ts vs).  Proof. reflexivity. Qed.
  Lemma ser_tuplestruct ts vs : ser (TyTupleStruct ts) (RTup vs) = TTuple (ser_list ts vs).  Proof. reflexivity. Qed.
  Lemma ser_newtype t v : ser (TyNewtype t) (RTup [v]) = ser t v.  Proof. reflexivity. Qed.
  Lemma ser_vec t vs : ser (TyVec t) (RSeq vs) = TList (ser_seq t vs).  Proof. reflexivity. Qed.
  Lemma ser_map kt vt kvs : ser (TyMap kt vt) (RMap kvs) = TMap (map_of_list cmp_owned (ser_kvs kt vt kvs)).  Proof. reflexivity. Qed.
  Lemma ser_struct fs vs : ser (TyStruct fs) (RRec vs) = TMap (map_of_list cmp_owned (ser_fields TBin fs vs)).  Proof. reflexivity. Qed.
  Lemma ser_elixir m fs vs : ser (TyElixir m fs) (RRec vs) =
    TMap (map_of_list cmp_owned ((TAtom n_struct, TAtom (n_elixir_dot ++ m)) :: ser_fields TAtom fs vs)).  Proof. reflexivity. Qed.
  Lemma ser_enum variants idx vs : ser (TyEnum variants) (RVariant idx vs) =
    match nth_opt variants idx with
    | Some (name, PUnit) => TAtom name
    | Some (name, PNewtype t') => match vs with [v'] => TTuple [TAtom name; ser t' v'] | _ => TNil end
    | Some (name, PTuple ts) => TTuple (TAtom name :: ser_list ts vs)
    | Some (name, PStruct fs) => TTuple [TAtom name; TMap (map_of_list cmp_owned (ser_fields TBin fs vs))]
    | _ => TNil
    end.
  Proof. reflexivity. Qed.

  Lemma de_tuple ts tm : de (TyTuple ts) tm = match tm with TTuple l => option_map RTup (de_list ts l) | _ => None end.
  Proof. reflexivity. Qed.
  Lemma de_tuplestruct ts tm : de (TyTupleStruct ts) tm = match tm with TTuple l => option_map RTup (de_list ts l) | _ => None end.
  Proof. reflexivity. Qed.
  Lemma de_newtype t tm : de (TyNewtype t) tm = option_map (fun v => RTup [v]) (de t tm).
  Proof. reflexivity. Qed.
  Lemma de_vec t tm : de (TyVec t) tm =
    match tm with TList l => option_map RSeq (all_some (map (de t) l)) | TNil => Some (RSeq []) | _ => None end.
  Proof. reflexivity. Qed.
  Lemma de_map kt vt tm : de (TyMap kt vt) tm =
    match tm with
    | TMap m => option_map RMap (all_some (map (fun kv => match de kt (fst kv), de vt (snd kv) with
                                                           | Some k, Some v => Some (k, v) | _, _ => None end) m))
    | _ => None
    end.
  Proof. reflexivity. Qed.
  Lemma de_struct fs tm : de (TyStruct fs) tm =
    match tm with TMap m => if keys_are_strings m then option_map RRec (de_fields fs m) else None | _ => None end.
  Proof. reflexivity. Qed.
  Lemma de_elixir module fs tm : de (TyElixir module fs) tm =
    match tm with
    | TMap m =>
        if keys_are_strings m &&
           forallb (fun x => match key_str x with Some s => eq_bytes s (n_elixir_dot ++ module) | None => false end)
                   (field_values n_struct m)
        then option_map RRec (de_efields fs m) else None
    | _ => None
    end.
  Proof. reflexivity. Qed.
  Lemma de_enum variants tm : de (TyEnum variants) tm =
    match tm with
    | TAtom a => match find_variant variants 0 a with Some k => k [] | None => None end
    | TTuple (tag :: rest) =>
        match key_str tag with
        | Some name => match find_variant variants 0 name with Some k => k rest | None => None end
        | None => None
        end
    | _ => None
    end.
  Proof. reflexivity. Qed.

  Lemma wt_tuple ts vs : wt (TyTuple ts) (RTup vs) = wt_list ts vs.  Proof. reflexivity. Qed.
  Lemma wt_tuplestruct ts vs : wt (TyTupleStruct ts) (RTup vs) = wt_list ts vs.  Proof. reflexivity. Qed.
  Lemma wt_vec t vs : wt (TyVec t) (RSeq vs) = wt_seq t vs.  Proof. reflexivity. Qed.
  Lemma wt_map kt vt kvs : wt (TyMap kt vt) (RMap kvs) = wt_kvs kt vt kvs.  Proof. reflexivity. Qed.
  Lemma wt_struct fs vs : wt (TyStruct fs) (RRec vs) =
    names_distinct (map fst fs) && forallb utf8_valid (map fst fs) && wt_fields fs vs.  Proof. reflexivity. Qed.
  Lemma wt_elixir m fs vs : wt (TyElixir m fs) (RRec vs) =
    names_distinct (n_struct :: map fst fs) && forallb utf8_valid (map fst fs) && wt_fields fs vs.  Proof. reflexivity. Qed.
  Lemma wt_enum variants idx vs : wt (TyEnum variants) (RVariant idx vs) =
    names_distinct (map fst variants) &&
    match nth_opt variants idx with
    | Some (_, PUnit) => match vs with [] => true | _ => false end
    | Some (_, PNewtype t') => match vs with [v'] => wt t' v' | _ => false end
    | Some (_, PTuple ts) => wt_list ts vs
    | Some (_, PStruct fs) => names_distinct (map fst fs) && forallb utf8_valid (map fst fs) && wt_fields fs vs
    | _ => false
    end.
  Proof. reflexivity. Qed.

  (* ---------- maps inside a value are listed in the order the library's own insertion produces ---------- *)
  Fixpoint canon (t : ty) (v : rval) {struct v} : Prop :=
    let c_list := fix go (ts : list ty) (vs : list rval) {struct vs} : Prop :=
      match ts, vs with t' :: ts', v' :: vs' => canon t' v' /\ go ts' vs' | _, _ => True end in
    let c_fields := fix go (fs : list (bytes * ty)) (vs : list rval) {struct vs} : Prop :=
      match fs, vs with (_, t') :: fs', v' :: vs' => canon t' v' /\ go fs' vs' | _, _ => True end in
    match v, t with
    | RSome v', TyOption t' => canon t' v'
    | RTup vs, TyTuple ts => c_list ts vs
    | RTup vs, TyTupleStruct ts => c_list ts vs
    | RTup vs, TyNewtype t' => match vs with [v'] => canon t' v' | _ => True end
    | RSeq vs, TyVec t' => (fix go (vs : list rval) : Prop := match vs with [] => True | v' :: r => canon t' v' /\ go r end) vs
    | RMap kvs, TyMap kt vt =>
        map_of_list cmp_owned (ser_kvs kt vt kvs) = ser_kvs kt vt kvs /\
        (fix go (kvs : list (rval * rval)) : Prop :=
           match kvs with [] => True | (k', v') :: r => canon kt k' /\ canon vt v' /\ go r end) kvs
    | RRec vs, TyStruct fs => c_fields fs vs
    | RRec vs, TyElixir _ fs => c_fields fs vs
    | RVariant idx vs, TyEnum variants =>
        match nth_opt variants idx with
        | Some (_, PNewtype t') => match vs with [v'] => canon t' v' | _ => True end
        | Some (_, PTuple ts) => c_list ts vs
        | Some (_, PStruct fs) => c_fields fs vs
        | _ => True
        end
    | _, _ => True
    end.
  Definition c_list := fix go (ts : list ty) (vs : list rval) {struct vs} : Prop :=
    match ts, vs with t' :: ts', v' :: vs' => canon t' v' /\ go ts' vs' | _, _ => True end.
  Definition c_fields := fix go (fs : list (bytes * ty)) (vs : list rval) {struct vs} : Prop :=
    match fs, vs with (_, t') :: fs', v' :: vs' => canon t' v' /\ go fs' vs' | _, _ => True end.
  Definition c_seq (t' : ty) := fix go (vs : list rval) : Prop := match vs with [] => True | v' :: r => canon t' v' /\ go r end.
  Definition c_kvs (kt vt : ty) := fix go (kvs : list (rval * rval)) : Prop :=
    match kvs with [] => True | (k', v') :: r => canon kt k' /\ canon vt v' /\ go r end.
  Lemma canon_tuple ts vs : canon (TyTuple ts) (RTup vs) = c_list ts vs.  Proof. reflexivity. Qed.
  Lemma canon_tuplestruct ts vs : canon (TyTupleStruct ts) (RTup vs) = c_list ts vs.  Proof. reflexivity. Qed.
  Lemma canon_vec t vs : canon (TyVec t) (RSeq vs) = c_seq t vs.  Proof. reflexivity. Qed.
  Lemma canon_map kt vt kvs : canon (TyMap kt vt) (RMap kvs) =
    (map_of_list cmp_owned (ser_kvs kt vt kvs) = ser_kvs kt vt kvs /\ c_kvs kt vt kvs).  Proof. reflexivity. Qed.
  Lemma canon_struct fs vs : canon (TyStruct fs) (RRec vs) = c_fields fs vs.  Proof. reflexivity. Qed.
  Lemma canon_elixir m fs vs : canon (TyElixir m fs) (RRec vs) = c_fields fs vs.  Proof. reflexivity. Qed.
  Lemma canon_enum variants idx vs : canon (TyEnum variants) (RVariant idx vs) =
    match nth_opt variants idx with
    | Some (_, PNewtype t') => match vs with [v'] => canon t' v' | _ => True end
    | Some (_, PTuple ts) => c_list ts vs
    | Some (_, PStruct fs) => c_fields fs vs
    | _ => True
    end.
  Proof. reflexivity. Qed.

  (* the round-trip statement for one type *)
  Definition RT (t : ty) : Prop := forall v, wt t v = true -> canon t v ->
    de t (ser t v) = Some v /\ de t (norm (ser t v)) = Some v.

  (* ---------- the none test of deserialize_option ---------- *)
  Definition none_test (tm : term) : bool :=
    match tm with TAtom a => eq_bytes a n_undefined || (interop && eq_bytes a n_nil) | _ => false end.
  Lemma de_option t tm : de (TyOption t) tm = if none_test tm then Some RNone else option_map RSome (de t tm).
  Proof. reflexivity. Qed.

  Lemma nth_opt_in {A} (l : list A) : forall i x, nth_opt l i = Some x -> In x l.
  Proof.
    induction l as [|y l IH]; intros i x H; [discriminate|]. cbn [nth_opt] in H.
    destruct (i =? 0); [injection H as <-; left; reflexivity|right; eapply IH; exact H].
  Qed.

  Lemma norm_int_not_atom z : none_test (norm_int z) = false.
  Proof. unfold norm_int. destruct (in_i32 z); reflexivity. Qed.

  Lemma not_none t : forall v, may_none interop t = false -> wt t v = true ->
    none_test (ser t v) = false /\ none_test (norm (ser t v)) = false.
  Proof.
    induction t using ty_ind'; intros v Hm Hw; destruct v; try discriminate Hw; try discriminate Hm.
    - cbn. destruct b, interop; split; reflexivity.
    - cbn [rser]. destruct k; cbn [ser_int norm]; try (split; [reflexivity|apply norm_int_not_atom]).
      destruct (z <=? 9223372036854775807)%Z; cbn [norm]; split; try reflexivity; apply norm_int_not_atom.
    - split; reflexivity.
    - split; reflexivity.
    - split; reflexivity.
    - split; reflexivity.
    - cbn in Hm. cbn [rser norm none_test]. rewrite Hm. split; reflexivity.
    - rewrite ser_tuple. split; reflexivity.
    - rewrite ser_vec. cbn [norm]. split; [reflexivity|]. destruct (ser_seq t vs); reflexivity.
    - rewrite ser_map. split; reflexivity.
    - rewrite ser_struct. split; reflexivity.
    - rewrite ser_elixir. split; reflexivity.
    - rewrite ser_enum. rewrite wt_enum in Hw. apply andb_prop in Hw as [_ Hw].
      destruct (nth_opt vs idx) as [[name shape]|] eqn:En; [|discriminate Hw].
      destruct shape; try discriminate Hw.
      + (* unit variant: its name is not the none atom *)
        cbn [may_none] in Hm. pose proof (nth_opt_in _ _ _ En) as Hin.
        assert (Hx : (eq_bytes name n_undefined || (interop && eq_bytes name n_nil)) = false).
        { destruct (eq_bytes name n_undefined || (interop && eq_bytes name n_nil)) eqn:E; [|reflexivity].
          exfalso. apply not_true_iff_false in Hm. apply Hm. apply existsb_exists.
          exists (name, PUnit). split; [exact Hin|exact E]. }
        cbn [norm none_test]. split; exact Hx.
      + destruct vs0 as [|v' [|? ?]]; try discriminate Hw. split; reflexivity.
      + split; reflexivity.
      + split; reflexivity.
    - (* unit struct: its name is not the none atom *)
      cbn [may_none] in Hm. cbn [rser norm none_test]. split; exact Hm.
    - (* newtype struct: transparent *)
      destruct vs as [|v' [|? ?]]; try discriminate Hw. rewrite ser_newtype. apply IHt; [exact Hm|exact Hw].
    - rewrite ser_tuplestruct. split; reflexivity.
    - split; reflexivity.
  Qed.

  (* ---------- leaves ---------- *)
  Lemma RT_bool : RT TyBool.
  Proof. intros v Hw _. destruct v; try discriminate Hw. destruct b; split; reflexivity. Qed.

  Lemma de_int_small k tm : k <> U64 ->
    de (TyInt k) tm = match as_integer tm with Some z => if in_range k z then Some (RInt z) else None | None => None end.
  Proof. intros Hk. destruct k; try reflexivity. contradiction. Qed.

  Lemma in_range_i64 k z : k <> U64 -> in_range k z = true -> i64_ok z = true.
  Proof.
    intros Hk H. apply i64_ok_intro. unfold i64_min, i64_max. unfold in_range in H.
    destruct k; try contradiction; cbn [int_range] in H; apply andb_prop in H as [H1 H2]; apply Z.leb_le in H1, H2; lia.
  Qed.

  Lemma len_le8 n : len (le 8 n) = 8.
  Proof. unfold len. now rewrite le_length. Qed.

  Lemma RT_int k : RT (TyInt k).
  Proof.
    intros v Hw _. destruct v; try discriminate Hw. cbn [rwt] in Hw.
    destruct (match k with U64 => true | _ => false end) eqn:Ek.
    - destruct k; try discriminate Ek. clear Ek. unfold in_range in Hw. cbn [int_range] in Hw.
      apply andb_prop in Hw as [H1 H2]. apply Z.leb_le in H1, H2.
      cbn [rser ser_int]. destruct (z <=? 9223372036854775807)%Z eqn:E.
      + apply Z.leb_le in E. split.
        * cbn. destruct (0 <=? z)%Z eqn:E0; [reflexivity|apply Z.leb_gt in E0; lia].
        * cbn [norm]. unfold norm_int. destruct (in_i32 z).
          -- cbn. destruct (0 <=? z)%Z eqn:E0; [reflexivity|apply Z.leb_gt in E0; lia].
          -- destruct (z <? 0)%Z eqn:Es; [apply Z.ltb_lt in Es; lia|].
             cbn [rde de_int]. set (d := significant (le 8 (Z.to_N (Z.abs z)))).
             assert (Hlen : len d <= 8).
             { unfold len. pose proof (significant_length (le 8 (Z.to_N (Z.abs z)))) as H. rewrite le_length in H. fold d in H. lia. }
             destruct (len d <=? 8) eqn:El; [|apply N.leb_gt in El; lia].
             unfold d. rewrite unle_significant, unle_le. change (256 ^ N.of_nat 8) with 18446744073709551616.
             rewrite N.mod_small by lia. rewrite Z2N.id by lia. rewrite Z.abs_eq by lia. reflexivity.
      + apply Z.leb_gt in E.
        assert (H : de (TyInt U64) (TBig false (le 8 (Z.to_N z))) = Some (RInt z)).
        { cbn [rde de_int]. rewrite len_le8. cbn [N.leb]. change (8 <=? 8) with true. cbn iota.
          rewrite unle_le. change (256 ^ N.of_nat 8) with 18446744073709551616.
          rewrite N.mod_small by lia. now rewrite Z2N.id by lia. }
        split; [exact H|]. cbn [norm]. exact H.
    - assert (Hk : k <> U64) by (intros ->; discriminate Ek).
      assert (Hs : ser (TyInt k) (RInt z) = TInt z) by (destruct k; try reflexivity; contradiction).
      rewrite Hs, !de_int_small by exact Hk. cbn [norm]. rewrite as_integer_norm_int by (eapply in_range_i64; eassumption).
      cbn [as_integer]. rewrite Hw. split; reflexivity.
  Qed.

  Lemma RT_f32 : RT TyF32.
  Proof. intros v Hw _. destruct v; try discriminate Hw. cbn [rwt] in Hw. apply N.eqb_eq in Hw. cbn. rewrite Hw. split; reflexivity. Qed.
  Lemma RT_f64 : RT TyF64.
  Proof. intros v Hw _. destruct v; try discriminate Hw. split; reflexivity. Qed.
  Lemma RT_char : RT TyChar.
  Proof.
    intros v Hw _. destruct v; try discriminate Hw. cbn [rwt] in Hw. pose proof Hw as Hs. unfold single_char in Hs.
    apply andb_prop in Hs as [_ Hc]. cbn [rser norm rde de_char]. rewrite Hc, Hw. split; reflexivity.
  Qed.
  Lemma RT_string : RT TyString.
  Proof. intros v Hw _. destruct v; try discriminate Hw. cbn [rwt] in Hw. cbn [rser norm rde key_str]. rewrite Hw. split; reflexivity. Qed.
  Lemma RT_unit : RT TyUnit.
  Proof. intros v Hw _. destruct v; try discriminate Hw. split; reflexivity. Qed.

  Lemma RT_unitstruct n : RT (TyUnitStruct n).
  Proof.
    intros v Hw _. destruct v; try discriminate Hw. cbn [rser norm rde].
    rewrite eq_bytes_refl. split; reflexivity.
  Qed.
  Lemma RT_bytes : RT TyBytes.
  Proof. intros v Hw _. destruct v; try discriminate Hw. split; reflexivity. Qed.
  Lemma RT_newtype t : RT t -> RT (TyNewtype t).
  Proof.
    intros IH v Hw Hc. destruct v; try discriminate Hw. destruct vs as [|v' [|? ?]]; try discriminate Hw.
    change (wt (TyNewtype t) (RTup [v'])) with (wt t v') in Hw. change (canon (TyNewtype t) (RTup [v'])) with (canon t v') in Hc.
    destruct (IH v' Hw Hc) as [I1 I2]. rewrite ser_newtype, !de_newtype, I1, I2. split; reflexivity.
  Qed.

  Lemma RT_option t : RT t -> RT (TyOption t).
  Proof.
    intros IH v Hw Hc. destruct v; try discriminate Hw.
    - assert (H : none_test (TAtom (none_atom interop)) = true) by (unfold none_atom, none_test; destruct interop; reflexivity).
      change (ser (TyOption t) RNone) with (TAtom (none_atom interop)). cbn [norm]. rewrite de_option, H. split; reflexivity.
    - cbn [rwt] in Hw. apply andb_prop in Hw as [Hm Hw]. apply negb_true_iff in Hm.
      change (ser (TyOption t) (RSome v)) with (ser t v). change (canon (TyOption t) (RSome v)) with (canon t v) in Hc.
      destruct (not_none t v Hm Hw) as [N1 N2]. destruct (IH v Hw Hc) as [I1 I2].
      rewrite !de_option, N1, N2, I1, I2. split; reflexivity.
  Qed.

  (* ---------- sequences of values ---------- *)
  Lemma de_list_ok ts : Forall RT ts -> forall vs, wt_list ts vs = true -> c_list ts vs ->
    de_list ts (ser_list ts vs) = Some vs /\ de_list ts (map norm (ser_list ts vs)) = Some vs.
  Proof.
    induction 1 as [|t ts Ht _ IH]; intros vs Hw Hc.
    - destruct vs; [split; reflexivity|discriminate Hw].
    - destruct vs as [|v vs]; [discriminate Hw|]. cbn [wt_list] in Hw. apply andb_prop in Hw as [Hw1 Hw2].
      cbn [c_list] in Hc. destruct Hc as [Hc1 Hc2].
      destruct (Ht v Hw1 Hc1) as [A1 A2]. destruct (IH vs Hw2 Hc2) as [B1 B2].
      cbn [ser_list map de_list]. rewrite A1, A2, B1, B2. split; reflexivity.
  Qed.

  Lemma RT_tuple ts : Forall RT ts -> RT (TyTuple ts).
  Proof.
    intros IH v Hw Hc. destruct v; try discriminate Hw. rewrite wt_tuple in Hw. rewrite canon_tuple in Hc.
    destruct (de_list_ok ts IH vs Hw Hc) as [A B]. rewrite ser_tuple. cbn [norm]. rewrite !de_tuple, A, B. split; reflexivity.
  Qed.

  Lemma RT_tuplestruct ts : Forall RT ts -> RT (TyTupleStruct ts).
  Proof.
    intros IH v Hw Hc. destruct v; try discriminate Hw. rewrite wt_tuplestruct in Hw. rewrite canon_tuplestruct in Hc.
    destruct (de_list_ok ts IH vs Hw Hc) as [A B]. rewrite ser_tuplestruct. cbn [norm]. rewrite !de_tuplestruct, A, B. split; reflexivity.
  Qed.

  Lemma de_seq_ok t : RT t -> forall vs, wt_seq t vs = true -> c_seq t vs ->
    all_some (map (de t) (ser_seq t vs)) = Some vs /\ all_some (map (de t) (map norm (ser_seq t vs))) = Some vs.
  Proof.
    intros Ht. induction vs as [|v vs IH]; intros Hw Hc; [split; reflexivity|].
    cbn [wt_seq] in Hw. apply andb_prop in Hw as [Hw1 Hw2]. cbn [c_seq] in Hc. destruct Hc as [Hc1 Hc2].
    destruct (Ht v Hw1 Hc1) as [A1 A2]. destruct (IH Hw2 Hc2) as [B1 B2].
    cbn [ser_seq map all_some]. rewrite A1, A2, B1, B2. split; reflexivity.
  Qed.

  Lemma RT_vec t : RT t -> RT (TyVec t).
  Proof.
    intros IH v Hw Hc. destruct v; try discriminate Hw. rewrite wt_vec in Hw. rewrite canon_vec in Hc.
    destruct (de_seq_ok t IH vs Hw Hc) as [A B]. rewrite ser_vec. split.
    - rewrite de_vec, A. reflexivity.
    - cbn [norm]. destruct (ser_seq t vs) as [|x l] eqn:E.
      + destruct vs; [reflexivity|discriminate E].
      + rewrite de_vec. rewrite B. reflexivity.
  Qed.

  Lemma de_kvs_ok kt vt : RT kt -> RT vt -> forall kvs, wt_kvs kt vt kvs = true -> c_kvs kt vt kvs ->
    let f := fun kv : term * term => match de kt (fst kv), de vt (snd kv) with Some k, Some v => Some (k, v) | _, _ => None end in
    all_some (map f (ser_kvs kt vt kvs)) = Some kvs /\
    all_some (map f (map (fun kv => (norm (fst kv), norm (snd kv))) (ser_kvs kt vt kvs))) = Some kvs.
  Proof.
    intros Hk Hv. induction kvs as [|[k v] kvs IH]; intros Hw Hc; [split; reflexivity|].
    cbn [wt_kvs] in Hw. apply andb_prop in Hw as [Hw Hw3]. apply andb_prop in Hw as [Hw1 Hw2].
    cbn [c_kvs] in Hc. destruct Hc as (Hc1 & Hc2 & Hc3).
    destruct (Hk k Hw1 Hc1) as [A1 A2]. destruct (Hv v Hw2 Hc2) as [B1 B2]. destruct (IH Hw3 Hc3) as [C1 C2].
    cbn zeta in *. cbn [ser_kvs map all_some fst snd]. rewrite A1, A2, B1, B2, C1, C2. split; reflexivity.
  Qed.

  Lemma RT_map kt vt : RT kt -> RT vt -> RT (TyMap kt vt).
  Proof.
    intros Hk Hv v Hw Hc. destruct v; try discriminate Hw. rewrite wt_map in Hw. rewrite canon_map in Hc. destruct Hc as [Hs Hc].
    destruct (de_kvs_ok kt vt Hk Hv kvs Hw Hc) as [A B]. cbn zeta in A, B.
    rewrite ser_map, Hs. cbn [norm]. rewrite !de_map, A, B. split; reflexivity.
  Qed.

  (* ---------- named fields: a map built by insertion holds exactly the entries put, whatever its order ---------- *)
  Lemma cmp_bin a b : cmp_owned (TBin a) (TBin b) = cmp_bytes a b.  Proof. reflexivity. Qed.
  Lemma cmp_atom a b : cmp_owned (TAtom a) (TAtom b) = cmp_bytes a b.  Proof. reflexivity. Qed.

  Lemma eq_bytes_sym a b : eq_bytes a b = eq_bytes b a.
  Proof. unfold eq_bytes. rewrite (cmp_bytes_antisym a b). destruct (cmp_bytes b a); reflexivity. Qed.
  Lemma eq_bytes_true a b : eq_bytes a b = true -> a = b.
  Proof. unfold eq_bytes. destruct (cmp_bytes a b) eqn:E; try discriminate. intros _. now apply cmp_bytes_eq. Qed.

  Definition nkv (kv : term * term) : term * term := (norm (fst kv), norm (snd kv)).
  Lemma norm_map m : norm (TMap m) = TMap (map nkv m).  Proof. reflexivity. Qed.
  Lemma norm_tuple l : norm (TTuple l) = TTuple (map norm l).  Proof. reflexivity. Qed.

  Section Keyed.
    Variable key : bytes -> term.
    Variable okn : bytes -> bool.
    Hypothesis Hcmp : forall a b, cmp_owned (key a) (key b) = cmp_bytes a b.
    Hypothesis Hstr : forall a, okn a = true -> key_str (key a) = Some a.
    Hypothesis Hnorm : forall a, norm (key a) = key a.

    Definition ents (E : list (bytes * term)) : list (term * term) := map (fun e => (key (fst e), snd e)) E.

    Lemma ents_distinct (E : list (bytes * term)) : forall S : list (bytes * term), names_distinct (map fst E) = true ->
      (forall e s : bytes * term, In e E -> In s S -> eq_bytes (fst e) (fst s) = false) ->
      keys_distinct cmp_owned (ents S) (ents E).
    Proof.
      induction E as [|e E IH]; intros S Hd Hs; [exact I|]. cbn [map names_distinct] in Hd.
      apply andb_prop in Hd as [Hd1 Hd2]. apply negb_true_iff in Hd1.
      cbn [ents map keys_distinct fst]. split.
      - intros kv' Hin. apply in_map_iff in Hin as (s & Heq & Hin). subst kv'. cbn [fst]. rewrite Hcmp.
        pose proof (Hs e s (or_introl eq_refl) Hin) as Hes. unfold eq_bytes in Hes.
        intro Hc. apply (f_equal (fun c : comparison => match c with Eq => true | _ => false end)) in Hc.
        exact (eq_true_false_abs _ Hc Hes).
      - apply (IH (e :: S) Hd2). intros e' s He' [<-|Hs'].
        + rewrite eq_bytes_sym. destruct (eq_bytes (fst e) (fst e')) eqn:E1; [|reflexivity].
          exfalso. assert (existsb (eq_bytes (fst e)) (map fst E) = true); [|congruence].
          apply existsb_exists. exists (fst e'). split; [now apply in_map|exact E1].
        + apply Hs; [right; exact He'|exact Hs'].
    Qed.

    Lemma ents_perm E : names_distinct (map fst E) = true -> Permutation (ents E) (map_of_list cmp_owned (ents E)).
    Proof.
      intros Hd. apply (fold_perm cmp_owned (ents E) []). apply (ents_distinct E []); [exact Hd|]. intros e s _ [].
    Qed.

    Lemma fv_perm name l m : Permutation l m -> Permutation (field_values name l) (field_values name m).
    Proof.
      unfold field_values. induction 1 as [|x l m _ IH|x y l|l m n _ IH1 _ IH2]; cbn [filter map].
      - constructor.
      - destruct (match key_str (fst x) with Some s => eq_bytes s name | None => false end); cbn [map]; [now constructor|exact IH].
      - destruct (match key_str (fst x) with Some s => eq_bytes s name | None => false end),
                 (match key_str (fst y) with Some s => eq_bytes s name | None => false end); cbn [map];
          try reflexivity. apply perm_swap.
      - etransitivity; eassumption.
    Qed.

    Lemma fv_absent name E : forallb okn (map fst E) = true -> (forall e, In e E -> eq_bytes (fst e) name = false) ->
      field_values name (ents E) = [].
    Proof.
      induction E as [|e E IH]; intros Hok H; [reflexivity|]. cbn [map forallb] in Hok. apply andb_prop in Hok as [Hok1 Hok2].
      unfold field_values in *. cbn [ents map filter fst]. rewrite (Hstr _ Hok1), (H e (or_introl eq_refl)).
      apply IH; [exact Hok2|]. intros e' He'. apply H. right. exact He'.
    Qed.

    Lemma fv_present E : forall n x, names_distinct (map fst E) = true -> forallb okn (map fst E) = true -> In (n, x) E ->
      field_values n (ents E) = [x].
    Proof.
      induction E as [|e E IH]; intros n x Hd Hok Hin; [destruct Hin|]. cbn [map names_distinct] in Hd.
      apply andb_prop in Hd as [Hd1 Hd2]. apply negb_true_iff in Hd1.
      cbn [map forallb] in Hok. apply andb_prop in Hok as [Hok1 Hok2].
      assert (Hne : forall e', In e' E -> eq_bytes (fst e) (fst e') = false).
      { intros e' He'. destruct (eq_bytes (fst e) (fst e')) eqn:E1; [|reflexivity].
        exfalso. assert (existsb (eq_bytes (fst e)) (map fst E) = true); [|congruence].
        apply existsb_exists. exists (fst e'). split; [now apply in_map|exact E1]. }
      destruct Hin as [->|Hin].
      - change (field_values n (ents ((n, x) :: E))) with
          (map snd (filter (fun kv => match key_str (fst kv) with Some s => eq_bytes s n | None => false end) ((key n, x) :: ents E))).
        cbn [filter fst]. cbn [fst] in Hok1. rewrite (Hstr _ Hok1), eq_bytes_refl. cbn [map snd]. f_equal.
        apply fv_absent; [exact Hok2|]. intros e' He'. rewrite eq_bytes_sym. exact (Hne e' He').
      - change (field_values n (ents (e :: E))) with
          (map snd (filter (fun kv => match key_str (fst kv) with Some s => eq_bytes s n | None => false end) ((key (fst e), snd e) :: ents E))).
        pose proof (Hne (n, x) Hin) as Hx. cbn [fst] in Hx.
        cbn [filter fst]. rewrite (Hstr _ Hok1), Hx. apply IH; assumption.
    Qed.

    Lemma ents_strings E : forallb okn (map fst E) = true -> keys_are_strings (ents E) = true.
    Proof.
      induction E as [|e E IH]; intros Hok; [reflexivity|]. cbn [map forallb] in Hok. apply andb_prop in Hok as [Hok1 Hok2].
      unfold keys_are_strings in *. cbn [ents map forallb fst]. rewrite (Hstr _ Hok1). exact (IH Hok2).
    Qed.

    Lemma strings_perm l m : Permutation l m -> keys_are_strings l = true -> keys_are_strings m = true.
    Proof.
      unfold keys_are_strings. intros Hp H. apply forallb_forall. intros x Hx.
      apply (proj1 (forallb_forall _ l) H). apply (Permutation_in x (Permutation_sym Hp)). exact Hx.
    Qed.

    Lemma ents_nkv E : map nkv (ents E) = ents (map (fun e => (fst e, norm (snd e))) E).
    Proof. unfold ents. rewrite !map_map. apply map_ext. intros e. unfold nkv. cbn [fst snd]. now rewrite Hnorm. Qed.

    (* the map m built from the entries E, and the same map after the wire: both hold exactly one value per name *)
    Lemma built_map E : names_distinct (map fst E) = true -> forallb okn (map fst E) = true ->
      let m := map_of_list cmp_owned (ents E) in
      keys_are_strings m = true /\ keys_are_strings (map nkv m) = true /\
      (forall n x, In (n, x) E -> field_values n m = [x] /\ field_values n (map nkv m) = [norm x]).
    Proof.
      intros Hd Hok m. pose proof (ents_perm E Hd) as Hp. fold m in Hp.
      assert (Hp2 : Permutation (ents (map (fun e => (fst e, norm (snd e))) E)) (map nkv m)).
      { rewrite <- ents_nkv. apply Permutation_map. exact Hp. }
      assert (Hnames : map fst (map (fun e : bytes * term => (fst e, norm (snd e))) E) = map fst E).
      { rewrite map_map. apply map_ext. reflexivity. }
      split; [eapply strings_perm; [exact Hp|apply ents_strings; exact Hok]|].
      split; [eapply strings_perm; [exact Hp2|apply ents_strings; now rewrite Hnames]|].
      intros n x Hin. split.
      - pose proof (fv_perm n _ _ Hp) as H. rewrite (fv_present E n x Hd Hok Hin) in H.
        apply Permutation_length_1_inv in H. exact H.
      - pose proof (fv_perm n _ _ Hp2) as H.
        rewrite (fv_present _ n (norm x)) in H; [| now rewrite Hnames | now rewrite Hnames |].
        + apply Permutation_length_1_inv in H. exact H.
        + apply in_map_iff. exists (n, x). split; [reflexivity|exact Hin].
    Qed.
  End Keyed.

  (* the (name, serialised value) pairs of a struct's fields *)
  Definition sf := fix go (fs : list (bytes * ty)) (vs : list rval) {struct vs} : list (bytes * term) :=
    match fs, vs with
    | (name, t') :: fs', v' :: vs' => (name, ser t' v') :: go fs' vs'
    | _, _ => []
    end.
  Lemma ser_fields_ents key fs : forall vs, ser_fields key fs vs = ents key (sf fs vs).
  Proof.
    induction fs as [|[n t] fs IH]; intros [|v vs]; try reflexivity. cbn [ser_fields sf ents map fst snd]. f_equal. apply IH.
  Qed.
  Lemma sf_names fs : forall vs, wt_fields fs vs = true -> map fst (sf fs vs) = map fst fs.
  Proof.
    induction fs as [|[n t] fs IH]; intros [|v vs] H; try reflexivity; try discriminate H.
    cbn [wt_fields] in H. apply andb_prop in H as [_ H]. cbn [sf map fst]. f_equal. exact (IH vs H).
  Qed.

  Lemma de_fields_ok (g : term -> term) m :
    (forall t v, RT t -> wt t v = true -> canon t v -> de t (g (ser t v)) = Some v) ->
    forall fs vs, (forall n x, In (n, x) (sf fs vs) -> field_values n m = [g x]) ->
    wt_fields fs vs = true -> c_fields fs vs -> Forall (fun f => RT (snd f)) fs -> de_fields fs m = Some vs.
  Proof.
    intros Hg. induction fs as [|[n t] fs IH]; intros [|v vs] Hfv Hw Hc HF; try reflexivity; try discriminate Hw.
    cbn [wt_fields] in Hw. apply andb_prop in Hw as [Hw1 Hw2]. cbn [c_fields] in Hc. destruct Hc as [Hc1 Hc2].
    inversion HF as [|? ? Ht HF']; subst. cbn [snd] in Ht.
    cbn [de_fields]. rewrite (Hfv n (ser t v)) by (left; reflexivity). rewrite (Hg t v Ht Hw1 Hc1).
    rewrite (IH vs); [reflexivity| |exact Hw2|exact Hc2|exact HF']. intros n' x' Hin. apply Hfv. right. exact Hin.
  Qed.

  Lemma de_efields_ok (g : term -> term) m :
    (forall t v, RT t -> wt t v = true -> canon t v -> de t (g (ser t v)) = Some v) ->
    forall fs vs, (forall n x, In (n, x) (sf fs vs) -> field_values n m = [g x]) ->
    wt_fields fs vs = true -> c_fields fs vs -> Forall (fun f => RT (snd f)) fs -> de_efields fs m = Some vs.
  Proof.
    intros Hg. induction fs as [|[n t] fs IH]; intros [|v vs] Hfv Hw Hc HF; try reflexivity; try discriminate Hw.
    cbn [wt_fields] in Hw. apply andb_prop in Hw as [Hw1 Hw2]. cbn [c_fields] in Hc. destruct Hc as [Hc1 Hc2].
    inversion HF as [|? ? Ht HF']; subst. cbn [snd] in Ht.
    cbn [de_efields]. rewrite (Hfv n (ser t v)) by (left; reflexivity). cbn [map all_some]. rewrite (Hg t v Ht Hw1 Hc1). cbn [last].
    rewrite (IH vs); [reflexivity| |exact Hw2|exact Hc2|exact HF']. intros n' x' Hin. apply Hfv. right. exact Hin.
  Qed.

  Lemma key_str_bin a : utf8_valid a = true -> key_str (TBin a) = Some a.
  Proof. intros H. cbn [key_str]. now rewrite H. Qed.

  (* a struct's field map, in memory and after the wire *)
  Lemma struct_ok fs vs : names_distinct (map fst fs) = true -> forallb utf8_valid (map fst fs) = true ->
    wt_fields fs vs = true -> c_fields fs vs -> Forall (fun f => RT (snd f)) fs ->
    let m := map_of_list cmp_owned (ser_fields TBin fs vs) in
    keys_are_strings m = true /\ de_fields fs m = Some vs /\
    keys_are_strings (map nkv m) = true /\ de_fields fs (map nkv m) = Some vs.
  Proof.
    intros Hd Hok Hw Hc HF m. unfold m. rewrite ser_fields_ents.
    destruct (built_map TBin utf8_valid cmp_bin key_str_bin (fun a => eq_refl) (sf fs vs)) as (K1 & K2 & Hfv).
    { now rewrite (sf_names fs vs Hw). } { now rewrite (sf_names fs vs Hw). }
    split; [exact K1|]. split; [|split; [exact K2|]].
    - apply (de_fields_ok (fun x => x)); try assumption.
      + intros t v Ht Hwv Hcv. exact (proj1 (Ht v Hwv Hcv)).
      + intros n x Hin. exact (proj1 (Hfv n x Hin)).
    - apply (de_fields_ok norm); try assumption.
      + intros t v Ht Hwv Hcv. exact (proj2 (Ht v Hwv Hcv)).
      + intros n x Hin. exact (proj2 (Hfv n x Hin)).
  Qed.

  Lemma RT_struct fs : Forall (fun f => RT (snd f)) fs -> RT (TyStruct fs).
  Proof.
    intros HF v Hw Hc. destruct v; try discriminate Hw. rewrite wt_struct in Hw. apply andb_prop in Hw as [Hw Hw3].
    apply andb_prop in Hw as [Hw1 Hw2]. rewrite canon_struct in Hc.
    destruct (struct_ok fs vs Hw1 Hw2 Hw3 Hc HF) as (K1 & D1 & K2 & D2). cbn zeta in *.
    rewrite ser_struct, norm_map, !de_struct, K1, K2, D1, D2. split; reflexivity.
  Qed.

  Lemma forallb_all_true (l : list bytes) : forallb (fun _ => true) l = true.
  Proof. induction l as [|a l IH]; [reflexivity|exact IH]. Qed.

  Lemma RT_elixir module fs : Forall (fun f => RT (snd f)) fs -> RT (TyElixir module fs).
  Proof.
    intros HF v Hw Hc. destruct v; try discriminate Hw. rewrite wt_elixir in Hw. apply andb_prop in Hw as [Hw Hw3].
    apply andb_prop in Hw as [Hw1 Hw2]. rewrite canon_elixir in Hc.
    rewrite ser_elixir, ser_fields_ents.
    change ((TAtom n_struct, TAtom (n_elixir_dot ++ module)) :: ents TAtom (sf fs vs))
      with (ents TAtom ((n_struct, TAtom (n_elixir_dot ++ module)) :: sf fs vs)).
    destruct (built_map TAtom (fun _ => true) cmp_atom (fun a _ => eq_refl) (fun a => eq_refl)
                ((n_struct, TAtom (n_elixir_dot ++ module)) :: sf fs vs)) as (K1 & K2 & Hfv).
    { cbn [map fst]. now rewrite (sf_names fs vs Hw3). }
    { apply forallb_all_true. }
    set (m := map_of_list cmp_owned (ents TAtom ((n_struct, TAtom (n_elixir_dot ++ module)) :: sf fs vs))) in *.
    destruct (Hfv n_struct _ (or_introl eq_refl)) as [S1 S2].
    assert (D1 : de_efields fs m = Some vs).
    { apply (de_efields_ok (fun x => x)); try assumption.
      - intros t v Ht Hwv Hcv. exact (proj1 (Ht v Hwv Hcv)).
      - intros n x Hin. exact (proj1 (Hfv n x (or_intror Hin))). }
    assert (D2 : de_efields fs (map nkv m) = Some vs).
    { apply (de_efields_ok norm); try assumption.
      - intros t v Ht Hwv Hcv. exact (proj2 (Ht v Hwv Hcv)).
      - intros n x Hin. exact (proj2 (Hfv n x (or_intror Hin))). }
    rewrite norm_map, !de_elixir, K1, K2, S1, S2, D1, D2. cbn [norm forallb key_str andb]. rewrite eq_bytes_refl. split; reflexivity.
  Qed.

  (* ---------- enums ---------- *)
  Lemma find_ok variants : forall i idx name shape, names_distinct (map fst variants) = true ->
    nth_opt variants idx = Some (name, shape) -> find_variant variants i name = Some (de_payload (i + idx) shape).
  Proof.
    induction variants as [|[n0 s0] r IH]; intros i idx name shape Hd Hn; [discriminate Hn|].
    cbn [map names_distinct fst] in Hd. apply andb_prop in Hd as [Hd1 Hd2]. apply negb_true_iff in Hd1.
    cbn [nth_opt] in Hn. cbn [find_variant]. destruct (idx =? 0) eqn:E0.
    - apply N.eqb_eq in E0. injection Hn as -> ->. rewrite eq_bytes_refl. subst idx. now rewrite N.add_0_r.
    - apply N.eqb_neq in E0. destruct (eq_bytes n0 name) eqn:En.
      + exfalso. assert (existsb (eq_bytes n0) (map fst r) = true); [|congruence].
        apply existsb_exists. exists name. split; [|exact En].
        change name with (fst (name, shape)). apply in_map. eapply nth_opt_in. exact Hn.
      + rewrite (IH (i + 1) (N.pred idx) name shape Hd2 Hn). do 2 f_equal. lia.
  Qed.

  Definition Q (t : ty) : Prop :=
    RT t /\ match t with
            | PNewtype t' => RT t'
            | PTuple ts => Forall RT ts
            | PStruct fs => Forall (fun f => RT (snd f)) fs
            | _ => True
            end.

  Lemma RT_enum variants : Forall (fun f => Q (snd f)) variants -> RT (TyEnum variants).
  Proof.
    intros HF v Hw Hc. destruct v; try discriminate Hw. rewrite wt_enum in Hw. apply andb_prop in Hw as [Hd Hw].
    rewrite canon_enum in Hc. rewrite ser_enum.
    destruct (nth_opt variants idx) as [[name shape]|] eqn:En; [|discriminate Hw].
    pose proof (find_ok variants 0 idx name shape Hd En) as Hf. rewrite N.add_0_l in Hf.
    assert (HQ : Q shape).
    { apply (proj1 (Forall_forall _ variants) HF (name, shape)). eapply nth_opt_in. exact En. }
    destruct HQ as [_ HQ].
    destruct shape; try discriminate Hw.
    - destruct vs; [|discriminate Hw]. cbn [norm]. rewrite de_enum, Hf. split; reflexivity.
    - destruct vs as [|v' [|? ?]]; try discriminate Hw. destruct (HQ v' Hw Hc) as [A B].
      cbn [norm map]. rewrite !de_enum. cbn [key_str]. rewrite Hf. cbn [de_payload]. rewrite A, B. split; reflexivity.
    - destruct (de_list_ok ts HQ vs Hw Hc) as [A B].
      cbn [norm map]. rewrite !de_enum. cbn [key_str]. rewrite Hf. cbn [de_payload]. rewrite A, B. split; reflexivity.
    - apply andb_prop in Hw as [Hw Hw3]. apply andb_prop in Hw as [Hw1 Hw2].
      destruct (struct_ok fields vs Hw1 Hw2 Hw3 Hc HQ) as (K1 & D1 & K2 & D2). cbn zeta in *.
      rewrite norm_tuple. cbn [map]. change (norm (TAtom name)) with (TAtom name). rewrite norm_map, !de_enum.
      cbn [key_str]. rewrite Hf. cbn [de_payload]. rewrite K1, K2, D1, D2. split; reflexivity.
  Qed.

  Lemma RT_shape t : (forall v, wt t v = false) -> RT t.
  Proof. intros H v Hw. rewrite H in Hw. discriminate Hw. Qed.

  (* ---------- every type of the family round-trips ---------- *)
  Theorem roundtrip_all : forall t, Q t.
  Proof.
    induction t using ty_ind'; unfold Q.
    - split; [exact RT_bool|exact I].
    - split; [apply RT_int|exact I].
    - split; [exact RT_f32|exact I].
    - split; [exact RT_f64|exact I].
    - split; [exact RT_char|exact I].
    - split; [exact RT_string|exact I].
    - split; [exact RT_unit|exact I].
    - split; [apply RT_option; exact (proj1 IHt)|exact I].
    - split; [apply RT_tuple; eapply Forall_impl; [|eassumption]; intros a Ha; exact (proj1 Ha)|exact I].
    - split; [apply RT_vec; exact (proj1 IHt)|exact I].
    - split; [apply RT_map; [exact (proj1 IHt1)|exact (proj1 IHt2)]|exact I].
    - split; [apply RT_struct; eapply Forall_impl; [|eassumption]; intros a Ha; exact (proj1 Ha)|exact I].
    - split; [apply RT_elixir; eapply Forall_impl; [|eassumption]; intros a Ha; exact (proj1 Ha)|exact I].
    - split; [apply RT_enum; assumption|exact I].
    - split; [apply RT_unitstruct|exact I].
    - split; [apply RT_newtype; exact (proj1 IHt)|exact I].
    - split; [apply RT_tuplestruct; eapply Forall_impl; [|eassumption]; intros a Ha; exact (proj1 Ha)|exact I].
    - split; [exact RT_bytes|exact I].
    - split; [apply RT_shape; intros []; reflexivity|exact I].
    - split; [apply RT_shape; intros []; reflexivity|exact (proj1 IHt)].
    - split; [apply RT_shape; intros []; reflexivity|eapply Forall_impl; [|eassumption]; intros a Ha; exact (proj1 Ha)].
    - split; [apply RT_shape; intros []; reflexivity|eapply Forall_impl; [|eassumption]; intros a Ha; exact (proj1 Ha)].
  Qed.

  Theorem roundtrip : forall t v, wt t v = true -> canon t v ->
    de t (ser t v) = Some v /\ de t (norm (ser t v)) = Some v.
  Proof. intros t. exact (proj1 (roundtrip_all t)). Qed.

  (* ---------- nothing is silently altered: an integer is read only if it fits the target type, and it is the
     integer the term holds ---------- *)
  Theorem de_int_exact k tm v : k <> U64 -> de (TyInt k) tm = Some v ->
    exists z, v = RInt z /\ in_range k z = true /\ as_integer tm = Some z.
  Proof.
    intros Hk. rewrite de_int_small by exact Hk. destruct (as_integer tm) as [z|]; [|discriminate].
    destruct (in_range k z) eqn:E; [|discriminate]. intros [= <-]. exists z. auto.
  Qed.

  Theorem de_char_exact tm v : de TyChar tm = Some v ->
    exists s, v = RChar s /\ char_count s = 1 /\ (tm = TStr s \/ tm = TBin s).
  Proof.
    cbn [rde]. unfold de_char. destruct tm; try discriminate.
    - unfold single_char. destruct (utf8_valid b && (char_count b =? 1)) eqn:E; [|discriminate]. intros [= <-].
      apply andb_prop in E as [_ E]. apply N.eqb_eq in E. eauto.
    - destruct (char_count s =? 1) eqn:E; [|discriminate]. intros [= <-]. apply N.eqb_eq in E. eauto.
  Qed.
End Facts.
