(* Model of the distribution-header writer (encoder.rs encode_with_dist_header_multi, encode_term_impl with an atom
   index map) and reader (decoder.rs parse_dist_header_with_cache, decode_with_atom_cache).  Definitions only.
   The HashSet iteration order of the writer is a parameter (`order`: the distinct atoms in header order). *)
From EDP Require Import Base.Bytes Term.Term Gen.Tags Codec.Encode Codec.Decode.

(* ---------- writer ---------- *)
Fixpoint atom_index (a : bytes) (order : list bytes) (i : N) : option N :=
  match order with
  | [] => None
  | x :: r => if list_eq_dec N.eq_dec x a then Some i else atom_index a r (i + 1)
  end.

Definition enc_atom_c (order : list bytes) (a : bytes) : eres :=
  match atom_index a order 0 with
  | Some i => EOk [tag_atom_cache_ref; i mod 256]
  | None => enc_atom a
  end.

Definition enc_pid_c (order : list bytes) (p : pidr) : eres :=
  match ploc p with
  | Some l => EOk (tag_local_ext :: l)
  | None => ebind (enc_atom_c order (pnode p)) (fun a =>
              EOk (tag_new_pid_ext :: a ++ be 4 (pnum p) ++ be 4 (pserial p) ++ be 4 (pcreation p)))
  end.

(* encode_term_impl with Some(atom_index_map): identical to `enc` except that atoms go through the map *)
Fixpoint enc_c (order : list bytes) (t : term) : eres :=
  let enc_all := fix go (l : list term) : eres :=
    match l with
    | [] => EOk []
    | x :: r => ebind (enc_c order x) (fun bx => ebind (go r) (fun br => EOk (bx ++ br)))
    end in
  match t with
  | TAtom a => enc_atom_c order a
  | TInt z => EOk (enc_int z)
  | TFloat b => EOk (enc_float b)
  | TBin b => enc_bin b
  | TBitBin b k => enc_bitbin b k
  | TStr s => enc_bin s
  | TList l =>
      match l with
      | [] => EOk [tag_nil_ext]
      | _ => if 4294967296 <=? len l then EErr EListTooLarge
             else ebind (enc_all l) (fun bl => EOk (tag_list_ext :: be 4 (len l) ++ bl ++ [tag_nil_ext]))
      end
  | TImproper l tl =>
      match l with
      | [] => enc_c order tl
      | _ =>
      if 4294967296 <=? len l then EErr EListTooLarge
      else ebind (enc_all l) (fun bl => ebind (enc_c order tl) (fun bt => EOk (tag_list_ext :: be 4 (len l) ++ bl ++ bt)))
      end
  | TMap kvs =>
      if 4294967296 <=? len kvs then EErr EMapTooLarge
      else ebind ((fix gom (m : list (term * term)) : eres :=
                     match m with
                     | [] => EOk []
                     | kv :: r => ebind (enc_c order (fst kv)) (fun bk => ebind (enc_c order (snd kv)) (fun bv =>
                                   ebind (gom r) (fun br => EOk (bk ++ bv ++ br))))
                     end) kvs)
                 (fun bm => EOk (tag_map_ext :: be 4 (len kvs) ++ bm))
  | TTuple l =>
      if len l <=? 255 then ebind (enc_all l) (fun bl => EOk (tag_small_tuple_ext :: len l :: bl))
      else if 4294967296 <=? len l then EErr ETupleTooLarge
      else ebind (enc_all l) (fun bl => EOk (tag_large_tuple_ext :: be 4 (len l) ++ bl))
  | TPid p => enc_pid_c order p
  | TPort n i c loc =>
      match loc with
      | Some l => EOk (tag_local_ext :: l)
      | None => ebind (enc_atom_c order n) (fun a => EOk (tag_v4_port_ext :: a ++ be 8 i ++ be 4 c))
      end
  | TRef n c ids loc =>
      match loc with
      | Some l => EOk (tag_local_ext :: l)
      | None =>
          if 65536 <=? len ids then EErr EReferenceTooLarge
          else ebind (enc_atom_c order n) (fun a =>
                 EOk (tag_newer_reference_ext :: be 2 (len ids) ++ a ++ be 4 c ++ concat (map (be 4) ids)))
      end
  | TBig neg d => EOk (enc_big neg d)
  | TNil => EOk [tag_nil_ext]
  | TExtFun m f a =>
      ebind (enc_atom_c order m) (fun bm => ebind (enc_atom_c order f) (fun bf => EOk (tag_export_ext :: bm ++ bf ++ enc_int (Z.of_N a))))
  | TIntFun a u i nf m oi ou p fr =>
      ebind (enc_atom_c order m) (fun bm => ebind (enc_pid_c order p) (fun bp => ebind (enc_all fr) (fun bfr =>
        let temp := a :: u ++ be 4 i ++ be 4 nf ++ bm ++ enc_int (Z.of_N oi) ++ enc_int (Z.of_N ou) ++ bp ++ bfr in
        EOk (tag_new_fun_ext :: be 4 (len temp + 4) ++ temp))))
  end.

(* collect_atoms: the atoms the header will carry (as a list with repetitions; the writer de-duplicates) *)
Fixpoint atoms_of (t : term) : list bytes :=
  let all := fix go (l : list term) : list bytes := match l with [] => [] | x :: r => atoms_of x ++ go r end in
  match t with
  | TAtom a => [a]
  | TTuple l | TList l => all l
  | TImproper l tl => all l ++ atoms_of tl
  | TMap kvs => (fix gom (m : list (term * term)) : list bytes :=
                   match m with [] => [] | kv :: r => atoms_of (fst kv) ++ atoms_of (snd kv) ++ gom r end) kvs
  | TPid p => [pnode p]
  | TPort n _ _ _ => [n]
  | TRef n _ _ _ => [n]
  | TExtFun m f _ => [m; f]
  | TIntFun _ _ _ _ m _ _ p fr => m :: pnode p :: all fr
  | _ => []
  end.

Inductive hres := HOk (b : bytes) | HErr (e : eerr) | HTooManyAtoms (n : N).

Fixpoint set_nthb (i : nat) (f : N -> N) (l : bytes) : bytes :=
  match l with [] => [] | x :: r => match i with O => f x :: r | S i' => x :: set_nthb i' f r end end.

Fixpoint enc_terms_c (order : list bytes) (ts : list term) : eres :=
  match ts with
  | [] => EOk []
  | t :: r => ebind (enc_c order t) (fun b => ebind (enc_terms_c order r) (fun br => EOk (b ++ br)))
  end.

(* the flag bytes: new-entry flag (8) in nibble `index`, long-atoms bit where the code puts it *)
Definition header_flags (n : nat) (long : bool) (long_mask : N) : bytes :=
  let flags_len := (n / 2 + 1)%nat in
  let z := repeat 0 flags_len in
  let z := if long then set_nthb (flags_len - 1) (fun x => N.lor x long_mask) z else z in
  fold_left (fun fl idx => set_nthb (idx / 2) (fun x => N.lor x (if Nat.even idx then 8 else 128)) fl) (seq 0 n) z.

Definition encode_multi (order : list bytes) (ts : list term) : hres :=
  match order with
  | [] => match enc_terms_c [] ts with EOk b => HOk (tag_version :: b) | EErr e => HErr e end
  | _ =>
    if 255 <? len order then HTooManyAtoms (len order) else
    (* an entry's length field is one byte, or two with LongAtoms (fix commit 3fde240: a longer atom is an error) *)
    if existsb (fun a => 65535 <? len a) order then HErr EAtomTooLarge else
    let n := length order in
    let long := existsb (fun a => 255 <? len a) order in
    let entries := concat (map (fun ia => (fst ia mod 256) ::
                                           (if long then be 2 (len (snd ia)) else [len (snd ia) mod 256]) ++ snd ia)
                               (combine (map N.of_nat (seq 0 n)) order)) in
    match enc_terms_c order ts with
    | EOk b => HOk (tag_version :: tag_dist_header :: N.of_nat n :: header_flags n long (if Nat.even n then 1 else 16) ++ entries ++ b)
    | EErr e => HErr e
    end
  end.

(* ---------- reader ---------- *)
(* parse_dist_header_with_cache: returns the updated cache and the remaining input *)
(* entries inserted before an error stay in the connection's cache: the cache is returned in every case.
   Slots are addressed by segment*256 + internal index; every reference (new or not) must name a filled slot and
   contributes, in order, to the reference list that ATOM_CACHE_REF terms index (fix commit: cache addressing). *)
Fixpoint read_entries (fuel : nat) (i n : N) (flags : bytes) (long : bool) (cache : list (N * bytes)) (refs : list bytes) (bs : bytes)
  : list (N * bytes) * (list bytes * bytes + dkind) :=
  if i =? n then (cache, inl (rev refs, bs)) else
  match fuel with
  | O => (cache, inr KFuel)
  | S f =>
    match bs with
    | [] => (cache, inr KEof)
    | idx :: r =>
        let fb := nth (N.to_nat (i / 2)) flags 0 in
        let nib := if N.even i then fb mod 16 else (fb / 16) mod 16 in
        let slot := (nib mod 8) * 256 + idx in
        let finish (cache' : list (N * bytes)) (r' : bytes) :=
          match assocb slot cache' with
          | Some a => read_entries f (i + 1) n flags long cache' (a :: refs) r'
          | None => (cache', inr KTag)
          end in
        if N.testbit nib 3 then
          match (if long then rd 2 r else rd 1 r) with
          | None => (cache, inr KEof)
          | Some (alen, r1) =>
              match takeN alen r1 with
              | None => (cache, inr KEof)
              | Some (txt, r2) => if utf8_valid txt then finish ((slot, txt) :: cache) r2 else (cache, inr KChar)
              end
          end
        else finish cache r
    end
  end.

Inductive hdout := HDOk (control : term) (payload : option term) | HDErr (k : dkind) | HDTrailing (n : N).
Definition hdres := (hdout * list (N * bytes))%type.      (* outcome, and the cache the connection is left with *)

Definition cfg_with_cache (cfg : dcfg) (c : list (N * bytes)) (refs : list bytes) : dcfg :=
  {| d_arms := d_arms cfg; d_cache := c; d_refs := refs; d_inflate := d_inflate cfg; d_float_text := d_float_text cfg;
     d_kcmp := d_kcmp cfg; d_kinsert := d_kinsert cfg; d_extra_fuel := d_extra_fuel cfg |}.

(* decode_with_atom_cache (long_of = which bit the reader takes as the long-atoms flag) *)
Definition decode_with_atom_cache (cfg : dcfg) (long_of : N -> bytes -> bool) (data : bytes) : hdres :=
  let c0 := d_cache cfg in
  match data with
  | [] => (HDErr KEof, c0)
  | v :: r0 =>
    if negb (v =? tag_version) then (HDErr KTag, c0) else
    match r0 with
    | [] => (HDErr KEof, c0)
    | tag :: r1 =>
      let fuel := (length r1 + 3 + d_extra_fuel cfg)%nat in
      let after_header (cache : list (N * bytes)) (refs : list bytes) (body : bytes) : hdres :=
        let cfg' := cfg_with_cache cfg cache refs in
        match parse cfg' fuel body with
        | PErr k => (HDErr k, cache)
        | POk ctl [] => (HDOk ctl None, cache)
        | POk ctl rest =>
            match parse cfg' fuel rest with
            | PErr k => (HDErr k, cache)
            | POk pl [] => (HDOk ctl (Some pl), cache)
            | POk _ rest' => (HDTrailing (len rest'), cache)
            end
        end in
      if tag =? tag_dist_header then
        match r1 with
        | [] => (HDErr KEof, c0)
        | n :: r2 =>
            if n =? 0 then after_header c0 [] r2 else
            let flags_len := N.to_nat (n / 2 + 1) in
            match take flags_len r2 with
            | None => (HDErr KEof, c0)
            | Some (flags, r3) =>
                match read_entries (S (length r3)) 0 n flags (long_of n flags) c0 [] r3 with
                | (cache', inr k) => (HDErr k, cache')
                | (cache', inl (refs, body)) => after_header cache' refs body
                end
            end
        end
      else after_header c0 [] r0
    end
  end.

(* the LongAtoms bit: low half of the last flag byte for an even count, high half for an odd count *)
Definition long_of_coded (n : N) (flags : bytes) : bool := N.testbit (last flags 0) (if N.even n then 0 else 4).
