(* C01 — placeholder until the round-trip lemmas are in place; the file is extended as proofs land. *)
From EDP Require Import Base.Bytes Term.Term Codec.Encode Codec.Decode.
