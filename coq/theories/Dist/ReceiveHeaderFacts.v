(* The receive path when distribution headers are negotiated: frames of a conforming sender with an atom cache,
   mixed with ticks and pass-through frames of any content, are delivered as the messages the sender meant. *)
From EDP Require Import Base.Bytes Term.Term Gen.Tags Gen.FragConsts Gen.ControlTable Gen.DecoderArms Codec.Encode Codec.Decode Codec.Norm
  Codec.DistHeader Codec.AtomCache Codec.AtomCacheFacts Dist.Fragment Dist.Control Dist.Framing Dist.Receive Dist.ReceiveFacts.

Definition res_of (o : outcome) : list rresult :=
  match o with ODeliver m pl => [RMsg m pl] | OError => [RFail] | OContinue => [] end.

Lemma outcomes_cons cfg st f r :
  fst (outcomes cfg st (f :: r)) = res_of (snd (handle_frame cfg st f)) ++ fst (outcomes cfg (fst (handle_frame cfg st f)) r).
Proof.
  cbn [outcomes]. destruct (handle_frame cfg st f) as [st' o]. cbn [fst snd].
  destruct (outcomes cfg st' r) as [rs st'']. destruct o; reflexivity.
Qed.

Lemma sender_bytes_shape sc m d : sender_bytes sc m = Some d -> exists x, d = tag_version :: tag_dist_header :: x.
Proof.
  unfold sender_bytes. destruct (meant sc (m_es m)); [|discriminate]. destruct (enc_terms_c _ _); [|discriminate].
  intros H. inversion H. eauto.
Qed.

(* what a connection may be sent between the handshake and the end of the stream *)
Inductive item := IMsg (m : smsg) | ITick | IPass (rest : bytes).

Section HeaderMode.
  Variable cfg : dcfg.
  Hypothesis Harms : d_arms cfg = owned_arms.
  Variable kc : term -> term -> comparison.
  Variable ki : (term -> term -> comparison) -> term -> term -> list (term * term) -> list (term * term).
  Hypothesis Hkc : d_kcmp cfg = kc.
  Hypothesis Hki : d_kinsert cfg = ki.

  Theorem header_frame st sc m : agree (r_cache st) sc -> conform kc ki sc m ->
    exists d, sender_bytes sc m = Some d /\
      handle_frame cfg st d = (with_cache st (fold_left push (m_es m) (r_cache st)),
                               to_outcome (norm (m_ctl m)) (option_map norm (m_pl m))).
  Proof.
    intros Hag Hc. destruct (one_message cfg Harms kc ki Hkc Hki (r_cache st) sc m Hag Hc) as (d & Ed & Dd).
    exists d. split; [exact Ed|]. destruct (sender_bytes_shape _ _ _ Ed) as (x & ->).
    unfold handle_frame.
    replace (is_tagged dist_frag_header (tag_version :: tag_dist_header :: x)) with false by reflexivity.
    replace (is_tagged dist_frag_cont (tag_version :: tag_dist_header :: x)) with false by reflexivity.
    replace (tag_version =? pass_through) with false by reflexivity.
    replace (is_tagged tag_dist_header (tag_version :: tag_dist_header :: x)) with true by reflexivity.
    cbv iota. unfold decode_dist. rewrite Dd. reflexivity.
  Qed.

  Fixpoint wire (sc : list (N * bytes)) (items : list item) : option (list bytes) :=
    match items with
    | [] => Some []
    | IMsg m :: r => match sender_bytes sc m, wire (fold_left push (m_es m) sc) r with
                     | Some d, Some fr => Some (d :: fr) | _, _ => None end
    | ITick :: r => match wire sc r with Some fr => Some ([] :: fr) | None => None end
    | IPass rest :: r => match wire sc r with Some fr => Some ((pass_through :: rest) :: fr) | None => None end
    end.

  Fixpoint items_ok (sc : list (N * bytes)) (items : list item) : Prop :=
    match items with
    | [] => True
    | IMsg m :: r => conform kc ki sc m /\ items_ok (fold_left push (m_es m) sc) r
    | _ :: r => items_ok sc r
    end.

  (* what must come out: every message as meant; a tick nothing; a pass-through frame whatever it is worth on a
     fresh connection (its outcome does not depend on the connection's state) *)
  Fixpoint expected (items : list item) : list rresult :=
    match items with
    | [] => []
    | IMsg m :: r => res_of (to_outcome (norm (m_ctl m)) (option_map norm (m_pl m))) ++ expected r
    | ITick :: r => expected r
    | IPass rest :: r => res_of (snd (handle_frame cfg rstate_init (pass_through :: rest))) ++ expected r
    end.

  Theorem header_mode_stream : forall items st sc, agree (r_cache st) sc -> items_ok sc items ->
    exists frames, wire sc items = Some frames /\ fst (outcomes cfg st frames) = expected items.
  Proof.
    induction items as [|it items IH]; intros st sc Hag Hok.
    - exists []. split; reflexivity.
    - destruct it as [m| |rest]; cbn [items_ok] in Hok.
      + destruct Hok as [Hc Hok]. destruct (header_frame st sc m Hag Hc) as (d & Ed & Hd).
        destruct (IH (with_cache st (fold_left push (m_es m) (r_cache st))) (fold_left push (m_es m) sc)) as (fr & Ef & Of).
        { cbn [with_cache r_cache]. now apply agree_fold. }
        { exact Hok. }
        exists (d :: fr). cbn [wire]. rewrite Ed, Ef. split; [reflexivity|].
        rewrite outcomes_cons, Hd. cbn [fst snd expected]. now rewrite Of.
      + destruct (IH st sc Hag Hok) as (fr & Ef & Of). exists ([] :: fr). cbn [wire]. rewrite Ef. split; [reflexivity|].
        rewrite outcomes_cons, handle_tick. cbn [fst snd res_of app expected]. exact Of.
      + destruct (IH st sc Hag Hok) as (fr & Ef & Of). exists ((pass_through :: rest) :: fr). cbn [wire]. rewrite Ef. split; [reflexivity|].
        rewrite outcomes_cons. destruct (pass_through_state_free cfg st rstate_init rest) as [Hs Hf].
        rewrite Hs, Hf. cbn [expected]. now rewrite Of.
  Qed.
End HeaderMode.
