(* Round trip: for every well-formed term within the decoder's limits,
     parse fuel (enc t ++ rest) = POk (norm t) rest      (fuel > length (enc t))
   by nested induction on the term.  Leaves first, then sequences, then the main theorem. *)
From EDP Require Import Base.Bytes Term.Term Gen.Tags Gen.Limits Gen.DecoderArms.
From EDP Require Import Codec.Encode Codec.Decode Codec.DecodeFacts Codec.Norm.

(* ---------- the arms the encoder's output relies on (recomputed from the generated table on every build) ---------- *)
Lemma arm_small_integer : assoc tag_small_integer_ext owned_arms = Some 1. Proof. vm_compute; reflexivity. Qed.
Lemma arm_integer : assoc tag_integer_ext owned_arms = Some 2. Proof. vm_compute; reflexivity. Qed.
Lemma arm_new_float : assoc tag_new_float_ext owned_arms = Some 4. Proof. vm_compute; reflexivity. Qed.
Lemma arm_atom_utf8 : assoc tag_atom_utf8_ext owned_arms = Some 6. Proof. vm_compute; reflexivity. Qed.
Lemma arm_small_atom_utf8 : assoc tag_small_atom_utf8_ext owned_arms = Some 7. Proof. vm_compute; reflexivity. Qed.
Lemma arm_small_tuple : assoc tag_small_tuple_ext owned_arms = Some 9. Proof. vm_compute; reflexivity. Qed.
Lemma arm_large_tuple : assoc tag_large_tuple_ext owned_arms = Some 10. Proof. vm_compute; reflexivity. Qed.
Lemma arm_nil : assoc tag_nil_ext owned_arms = Some 11. Proof. vm_compute; reflexivity. Qed.
Lemma arm_list : assoc tag_list_ext owned_arms = Some 13. Proof. vm_compute; reflexivity. Qed.
Lemma arm_binary : assoc tag_binary_ext owned_arms = Some 14. Proof. vm_compute; reflexivity. Qed.
Lemma arm_bit_binary : assoc tag_bit_binary_ext owned_arms = Some 15. Proof. vm_compute; reflexivity. Qed.
Lemma arm_small_big : assoc tag_small_big_ext owned_arms = Some 16. Proof. vm_compute; reflexivity. Qed.
Lemma arm_large_big : assoc tag_large_big_ext owned_arms = Some 17. Proof. vm_compute; reflexivity. Qed.
Lemma arm_map : assoc tag_map_ext owned_arms = Some 18. Proof. vm_compute; reflexivity. Qed.
Lemma arm_new_pid : assoc tag_new_pid_ext owned_arms = Some 19. Proof. vm_compute; reflexivity. Qed.
Lemma arm_newer_reference : assoc tag_newer_reference_ext owned_arms = Some 20. Proof. vm_compute; reflexivity. Qed.
Lemma arm_v4_port : assoc tag_v4_port_ext owned_arms = Some 21. Proof. vm_compute; reflexivity. Qed.
Lemma arm_export : assoc tag_export_ext owned_arms = Some 22. Proof. vm_compute; reflexivity. Qed.
Lemma arm_new_fun : assoc tag_new_fun_ext owned_arms = Some 23. Proof. vm_compute; reflexivity. Qed.
Lemma arm_local : assoc tag_local_ext owned_arms = Some 30. Proof. vm_compute; reflexivity. Qed.

(* ---------- byte-level helpers ---------- *)
Lemma rd1 v rest : rd 1 (v :: rest) = Some (v, rest).
Proof. reflexivity. Qed.

Lemma rd_app k n rest : n < 256 ^ N.of_nat k -> rd k (be k n ++ rest) = Some (n, rest).
Proof. intros H. unfold rd. rewrite rd_be_be. now rewrite N.mod_small. Qed.

Lemma len_lt_pow k l : len l < 256 ^ N.of_nat k -> @len N l < 256 ^ N.of_nat k.
Proof. auto. Qed.

Global Opaque be le.

Section RT.
  Variable cfg : dcfg.
  Hypothesis Harms : d_arms cfg = owned_arms.

  Lemma parse_S f tag r0 :
    parse cfg (S f) (tag :: r0) =
      match assoc tag owned_arms with None => PErr KTag | Some pid => parse_body cfg (parse cfg f) pid r0 end.
  Proof. cbn [parse]. now rewrite Harms. Qed.

  (* ----- leaves, at the level of parse ----- *)
  Lemma p_small_int f v rest : v < 256 ->
    parse cfg (S f) (tag_small_integer_ext :: v :: rest) = POk (TInt (Z.of_N v)) rest.
  Proof. intros Hv. rewrite parse_S, arm_small_integer. unfold parse_body. now rewrite rd1. Qed.

  Lemma p_integer f n rest : n < 4294967296 ->
    parse cfg (S f) (tag_integer_ext :: be 4 n ++ rest) = POk (TInt (to_i32 n)) rest.
  Proof. intros Hn. rewrite parse_S, arm_integer. unfold parse_body. rewrite rd_app; [reflexivity|exact Hn]. Qed.

  Lemma p_float f b rest : b < 18446744073709551616 ->
    parse cfg (S f) (tag_new_float_ext :: be 8 b ++ rest) = POk (TFloat b) rest.
  Proof. intros Hb. rewrite parse_S, arm_new_float. unfold parse_body. rewrite rd_app; [reflexivity|exact Hb]. Qed.

  Lemma p_atom f a rest b : wf_atom a = true -> enc_atom a = EOk b ->
    parse cfg (S f) (b ++ rest) = POk (TAtom a) rest.
  Proof.
    unfold wf_atom, enc_atom. intros Hwf He. apply andb_prop in Hwf as [_ Hu].
    destruct (65535 <? len a) eqn:E1; [discriminate|]. apply N.ltb_ge in E1.
    destruct (255 <? len a) eqn:E2; inversion He; subst; clear He; cbn [app].
    - rewrite parse_S, arm_atom_utf8. unfold parse_body, parse_atom_bytes.
      rewrite <- app_assoc. rewrite rd_app by (cbn; lia).
      replace (max_atom_size <? len a) with false by (symmetry; apply N.ltb_ge; unfold max_atom_size; lia).
      now rewrite takeN_app, Hu.
    - apply N.ltb_ge in E2.
      rewrite parse_S, arm_small_atom_utf8. unfold parse_body, parse_atom_bytes.
      rewrite rd1.
      replace (max_atom_size <? len a) with false by (symmetry; apply N.ltb_ge; unfold max_atom_size; lia).
      now rewrite takeN_app, Hu.
  Qed.

  Lemma enc_atom_len a b : enc_atom a = EOk b -> (0 < length b)%nat.
  Proof.
    unfold enc_atom. destruct (65535 <? len a); [discriminate|].
    destruct (255 <? len a); intros H; inversion H; subst; cbn [length]; lia.
  Qed.

  (* ----- fuel bookkeeping: every lemma below takes "fuel exceeds the encoding's length" ----- *)
  Lemma fuel_S (n f : nat) : (n < f)%nat -> exists f', f = S f' /\ (n - 1 < f')%nat \/ (n = 0%nat /\ f = S f').
  Proof. intros H. destruct f as [|f']; [lia|]. exists f'. destruct n; [right; auto|left; split; [reflexivity|lia]]. Qed.

  Ltac need_fuel f Hf :=
    let f' := fresh "f'" in
    destruct f as [|f']; [exfalso; revert Hf; clear; cbn [length]; intros; lia|].

  (* ----- integers ----- *)
  Lemma to_i32_mod z : (-2147483648 <= z <= 2147483647)%Z -> to_i32 (Z.to_N (z mod 4294967296)) = z.
  Proof.
    intros Hz. unfold to_i32.
    destruct (Z.to_N (z mod 4294967296) <? 2147483648) eqn:E.
    - apply N.ltb_lt in E. assert (0 <= z mod 4294967296 < 4294967296)%Z by (apply Z.mod_pos_bound; lia).
      rewrite Z2N.id by lia.
      assert (z mod 4294967296 < 2147483648)%Z by lia.
      destruct (Z_lt_le_dec z 0) as [Hn|Hp].
      + assert (z mod 4294967296 = z + 4294967296)%Z.
        { symmetry. apply (Z.mod_unique z 4294967296 (-1) (z + 4294967296)); lia. }
        lia.
      + rewrite Z.mod_small by lia. reflexivity.
    - apply N.ltb_ge in E. assert (0 <= z mod 4294967296 < 4294967296)%Z by (apply Z.mod_pos_bound; lia).
      rewrite Z2N.id by lia.
      destruct (Z_lt_le_dec z 0) as [Hn|Hp].
      + assert (z mod 4294967296 = z + 4294967296)%Z.
        { symmetry. apply (Z.mod_unique z 4294967296 (-1) (z + 4294967296)); lia. }
        lia.
      + rewrite Z.mod_small in * by lia. lia.
  Qed.

  Lemma strip_hi_len l : (length (strip_hi l) <= length l)%nat.
  Proof. induction l as [|x l IH]; cbn [strip_hi length]; [lia|]. destruct (x =? 0); cbn [length]; lia. Qed.

  Lemma significant_len l : (length (significant l) <= Nat.max 1 (length l))%nat.
  Proof.
    unfold significant. destruct (rev (strip_hi (rev l))) as [|y r] eqn:E.
    - rewrite firstn_length. lia.
    - rewrite <- E, rev_length. pose proof (strip_hi_len (rev l)). rewrite rev_length in *. lia.
  Qed.

  Lemma p_small_big f (d : bytes) (sign : N) rest : len d < 256 ->
    parse cfg (S f) (tag_small_big_ext :: len d :: sign :: d ++ rest) = POk (TBig (negb (sign =? 0)) d) rest.
  Proof.
    intros Hd. rewrite parse_S, arm_small_big. unfold parse_body. rewrite rd1, rd1. now rewrite takeN_app.
  Qed.

  Lemma p_int z f rest : (- 9223372036854775808 <= z < 9223372036854775808)%Z -> (length (enc_int z) < f)%nat ->
    parse cfg f (enc_int z ++ rest) = POk (norm_int z) rest.
  Proof.
    intros Hz Hf. unfold enc_int, norm_int, in_i32 in *.
    destruct ((0 <=? z) && (z <=? 255))%Z eqn:E1.
    - need_fuel f Hf. apply andb_prop in E1 as [Ea Eb]. apply Z.leb_le in Ea, Eb.
      replace ((-2147483648 <=? z) && (z <=? 2147483647))%Z with true by (symmetry; apply andb_true_intro; split; apply Z.leb_le; lia).
      cbn [app]. rewrite p_small_int by lia. now rewrite Z2N.id by lia.
    - destruct ((-2147483648 <=? z) && (z <=? 2147483647))%Z eqn:E2.
      + need_fuel f Hf. apply andb_prop in E2 as [Ea Eb]. apply Z.leb_le in Ea, Eb.
        cbn [app]. rewrite p_integer.
        * now rewrite to_i32_mod by lia.
        * assert (0 <= z mod 4294967296 < 4294967296)%Z by (apply Z.mod_pos_bound; lia). lia.
      + need_fuel f Hf. set (digits := significant (le 8 (Z.to_N (Z.abs z)))).
        assert (Hl : len digits < 256).
        { pose proof (significant_len (le 8 (Z.to_N (Z.abs z)))) as H. rewrite le_length in H. fold digits in H. unfold len. lia. }
        cbn [app]. rewrite p_small_big by exact Hl. f_equal. f_equal.
        destruct (0 <=? z)%Z eqn:E3.
        * apply Z.leb_le in E3. cbn. symmetry. apply Z.ltb_ge. lia.
        * apply Z.leb_gt in E3. cbn. symmetry. apply Z.ltb_lt. lia.
  Qed.

  Lemma enc_int_len z : (0 < length (enc_int z))%nat.
  Proof. unfold enc_int. destruct (_ && _)%bool; [cbn; lia|]. destruct (_ && _)%bool; cbn [length]; lia. Qed.

  (* ----- binaries, bit-strings, big integers, nil ----- *)
  Lemma p_bin f b rest : len b <= max_binary_size ->
    parse cfg (S f) (tag_binary_ext :: be 4 (len b) ++ b ++ rest) = POk (TBin b) rest.
  Proof.
    intros Hb. rewrite parse_S, arm_binary. unfold parse_body.
    rewrite rd_app by (unfold max_binary_size in Hb; cbn; lia).
    replace (max_binary_size <? len b) with false by (symmetry; now apply N.ltb_ge).
    now rewrite takeN_app.
  Qed.

  Lemma p_bitbin f b k rest : len b <= max_binary_size -> 1 <= k -> k <= 8 -> (b = [] -> k = 8) ->
    parse cfg (S f) (tag_bit_binary_ext :: be 4 (len b) ++ k :: b ++ rest) = POk (TBitBin b k) rest.
  Proof.
    intros Hb Hk1 Hk8 He. rewrite parse_S, arm_bit_binary. unfold parse_body.
    rewrite rd_app by (unfold max_binary_size in Hb; cbn; lia).
    replace (max_binary_size <? len b) with false by (symmetry; now apply N.ltb_ge).
    rewrite rd1.
    replace ((k =? 0) || (8 <? k)) with false by (symmetry; apply orb_false_intro; [apply N.eqb_neq|apply N.ltb_ge]; lia).
    replace ((len b =? 0) && negb (k =? 8)) with false.
    - now rewrite takeN_app.
    - symmetry. destruct (len b =? 0) eqn:E; [|reflexivity]. apply N.eqb_eq in E.
      assert (b = []) by (destruct b; [reflexivity|unfold len in E; cbn [length] in E; lia]).
      rewrite (He H), N.eqb_refl. reflexivity.
  Qed.

  Lemma p_big f neg d rest : len d < 4294967296 -> (length (enc_big neg d) < S f)%nat ->
    parse cfg (S f) (enc_big neg d ++ rest) = POk (TBig neg d) rest.
  Proof.
    intros Hd _. unfold enc_big. destruct (len d <=? 255) eqn:E.
    - apply N.leb_le in E. cbn [app]. rewrite p_small_big by lia. destruct neg; reflexivity.
    - rewrite <- app_assoc. cbn [app]. rewrite parse_S, arm_large_big. unfold parse_body.
      rewrite rd_app by (cbn; lia). rewrite rd1. rewrite takeN_app. destruct neg; reflexivity.
  Qed.

  Lemma p_nil f rest : parse cfg (S f) (tag_nil_ext :: rest) = POk TNil rest.
  Proof. rewrite parse_S, arm_nil. reflexivity. Qed.

  (* ----- identifiers ----- *)
  Lemma app_cons_assoc {A} (x : A) (l r : list A) : (x :: l) ++ r = x :: l ++ r.
  Proof. reflexivity. Qed.

  Lemma p_pid_plain f node id ser cr ba rest :
    wf_atom node = true -> id < 4294967296 -> ser < 4294967296 -> cr < 4294967296 -> enc_atom node = EOk ba ->
    parse cfg (S (S f)) (tag_new_pid_ext :: ba ++ be 4 id ++ be 4 ser ++ be 4 cr ++ rest)
      = POk (TPid {| pnode := node; pnum := id; pserial := ser; pcreation := cr; ploc := None |}) rest.
  Proof.
    intros Hw Hi Hs Hc Ha. rewrite parse_S, arm_new_pid. unfold parse_body, atom_of.
    rewrite (p_atom f node _ ba Hw Ha).
    rewrite rd_app by (cbn; lia). rewrite rd_app by (cbn; lia). rewrite rd_app by (cbn; lia). reflexivity.
  Qed.

  Lemma p_port_plain f node id cr ba rest :
    wf_atom node = true -> id < 18446744073709551616 -> cr < 4294967296 -> enc_atom node = EOk ba ->
    parse cfg (S (S f)) (tag_v4_port_ext :: ba ++ be 8 id ++ be 4 cr ++ rest) = POk (TPort node id cr None) rest.
  Proof.
    intros Hw Hi Hc Ha. rewrite parse_S, arm_v4_port. unfold parse_body, atom_of.
    rewrite (p_atom f node _ ba Hw Ha).
    rewrite rd_app by (change (256 ^ N.of_nat 8) with 18446744073709551616; lia). rewrite rd_app by (cbn; lia). reflexivity.
  Qed.

  Lemma rd_ids_ok ids : forall k rest, forallb (fun i => i <? 4294967296) ids = true -> (length ids < k)%nat ->
    rd_ids k (len ids) (concat (map (be 4) ids) ++ rest) = Some (ids, rest).
  Proof.
    induction ids as [|i ids IH]; intros k rest Hall Hk.
    - destruct k; reflexivity.
    - destruct k as [|k]; [cbn [length] in Hk; lia|]. cbn [forallb] in Hall. apply andb_prop in Hall as [Hi Hall].
      apply N.ltb_lt in Hi. cbn [rd_ids map concat].
      assert (E : len (i :: ids) =? 0 = false) by (apply N.eqb_neq; unfold len; cbn [length]; lia).
      rewrite E. rewrite <- app_assoc. rewrite rd_app by (cbn; lia).
      replace (N.pred (len (i :: ids))) with (len ids) by (unfold len; cbn [length]; lia).
      rewrite IH; [reflexivity|exact Hall|cbn [length] in Hk; lia].
  Qed.

  Lemma concat_be4_len ids : length (concat (map (be 4) ids)) = (4 * length ids)%nat.
  Proof. induction ids as [|i ids IH]; [reflexivity|]. cbn [map concat length]. rewrite app_length, be_length, IH. lia. Qed.

  Lemma p_ref_plain f node cr ids ba rest :
    wf_atom node = true -> cr < 4294967296 -> forallb (fun i => i <? 4294967296) ids = true -> len ids <= 65535 ->
    enc_atom node = EOk ba ->
    parse cfg (S (S f)) (tag_newer_reference_ext :: be 2 (len ids) ++ ba ++ be 4 cr ++ concat (map (be 4) ids) ++ rest)
      = POk (TRef node cr ids None) rest.
  Proof.
    intros Hw Hc Hall Hl Ha. rewrite parse_S, arm_newer_reference. unfold parse_body, atom_of.
    rewrite rd_app by (cbn; lia). rewrite (p_atom f node _ ba Hw Ha).
    rewrite rd_app by (cbn; lia). rewrite rd_ids_ok; [reflexivity|exact Hall|].
    rewrite app_length, concat_be4_len. lia.
  Qed.

  (* LOCAL_EXT around an identifier: the raw bytes are captured verbatim *)
  Lemma rd8 h t : length h = 8%nat -> rd 8 (h ++ t) = Some (unbe h, t).
  Proof. intros Hh. unfold rd, rd_be. rewrite <- Hh, take_app. reflexivity. Qed.

  Lemma firstn_captured {A} (h nb rest : list A) :
    firstn (length (h ++ nb ++ rest) - length rest) (h ++ nb ++ rest) = h ++ nb.
  Proof.
    rewrite !app_length. replace (length h + (length nb + length rest) - length rest)%nat with (length (h ++ nb)) by (rewrite app_length; lia).
    rewrite app_assoc. rewrite firstn_app, Nat.sub_diag, firstn_all. cbn [firstn]. apply app_nil_r.
  Qed.

  Lemma p_local f h nb rest t :
    length h = 8%nat -> parse cfg f (nb ++ rest) = POk t rest ->
    parse cfg (S f) (tag_local_ext :: h ++ nb ++ rest) =
      match t with
      | TPid p => POk (TPid {| pnode := pnode p; pnum := pnum p; pserial := pserial p; pcreation := pcreation p; ploc := Some (h ++ nb) |}) rest
      | TPort n i c _ => POk (TPort n i c (Some (h ++ nb))) rest
      | TRef n c ids _ => POk (TRef n c ids (Some (h ++ nb))) rest
      | _ => POk t rest
      end.
  Proof.
    intros Hh Hp. rewrite parse_S, arm_local. unfold parse_body. rewrite (rd8 h _ Hh). rewrite Hp.
    rewrite firstn_captured. reflexivity.
  Qed.

  (* ----- external funs ----- *)
  Lemma p_extfun f m fn a bm bf rest :
    wf_atom m = true -> wf_atom fn = true -> a < 256 -> enc_atom m = EOk bm -> enc_atom fn = EOk bf ->
    parse cfg (S (S f)) (tag_export_ext :: bm ++ bf ++ enc_int (Z.of_N a) ++ rest) = POk (TExtFun m fn a) rest.
  Proof.
    intros Hm Hf Ha Em Ef. rewrite parse_S, arm_export. unfold parse_body, atom_of.
    rewrite (p_atom f m _ bm Hm Em). rewrite (p_atom f fn _ bf Hf Ef).
    assert (Hi : enc_int (Z.of_N a) = [tag_small_integer_ext; a]).
    { unfold enc_int. replace ((0 <=? Z.of_N a) && (Z.of_N a <=? 255))%Z with true by (symmetry; apply andb_true_intro; split; apply Z.leb_le; lia).
      now rewrite N2Z.id. }
    rewrite Hi. cbn [app]. rewrite p_small_int by exact Ha.
    replace ((0 <=? Z.of_N a) && (Z.of_N a <=? 255))%Z with true by (symmetry; apply andb_true_intro; split; apply Z.leb_le; lia).
    now rewrite N2Z.id.
  Qed.

  (* ----- sequences ----- *)
  Fixpoint enc_list (l : list term) : eres :=
    match l with
    | [] => EOk []
    | x :: r => ebind (enc x) (fun bx => ebind (enc_list r) (fun br => EOk (bx ++ br)))
    end.

  Fixpoint enc_pairs (m : list (term * term)) : eres :=
    match m with
    | [] => EOk []
    | kv :: r => ebind (enc (fst kv)) (fun bk => ebind (enc (snd kv)) (fun bv => ebind (enc_pairs r) (fun br => EOk (bk ++ bv ++ br))))
    end.

  Variable kc : term -> term -> comparison.
  Variable ki : (term -> term -> comparison) -> term -> term -> list (term * term) -> list (term * term).
  Hypothesis Hkc : d_kcmp cfg = kc.
  Hypothesis Hki : d_kinsert cfg = ki.

  Definition P (t : term) : Prop :=
    wf t = true -> rt_ok kc ki t ->
    exists b, enc t = EOk b /\ (0 < length b)%nat /\
      forall f rest, (length b < f)%nat -> parse cfg f (b ++ rest) = POk (norm t) rest.

  Definition all_ok := fix all (l : list term) : Prop := match l with [] => True | x :: r => rt_ok kc ki x /\ all r end.

  Lemma seq_ok l : Forall P l -> forallb wf l = true -> all_ok l ->
    exists bl, enc_list l = EOk bl /\ (length l <= length bl)%nat /\
      forall f k rest, (length bl < f)%nat -> (length l < k)%nat ->
        seq_with (parse cfg f) k (len l) (bl ++ rest) = SOk (map norm l) rest.
  Proof.
    induction l as [|x l IH]; intros HP Hwf Hok.
    - exists []. split; [reflexivity|]. split; [cbn; lia|]. intros f k rest _ Hk. destruct k; reflexivity.
    - inversion HP as [|? ? Hx Hl]; subst. cbn [forallb] in Hwf. apply andb_prop in Hwf as [Hwx Hwl].
      destruct Hok as [Hox Hol].
      destruct (Hx Hwx Hox) as (bx & Ex & Lx & Px).
      destruct (IH Hl Hwl Hol) as (bl & El & Ll & Pl).
      exists (bx ++ bl). cbn [enc_list]. rewrite Ex, El. cbn [ebind]. split; [reflexivity|].
      split; [rewrite app_length; cbn [length]; lia|].
      intros f k rest Hf Hk. rewrite app_length in Hf. destruct k as [|k]; [cbn [length] in Hk; lia|].
      cbn [seq_with].
      assert (E : len (x :: l) =? 0 = false) by (apply N.eqb_neq; unfold len; cbn [length]; lia).
      rewrite E. rewrite <- app_assoc. rewrite Px by lia.
      replace (N.pred (len (x :: l))) with (len l) by (unfold len; cbn [length]; lia).
      rewrite Pl by (cbn [length] in Hk; lia). reflexivity.
  Qed.

  Definition flat (kvs : list (term * term)) : list term := concat (map (fun kv => [fst kv; snd kv]) kvs).

  Lemma enc_pairs_flat kvs : enc_pairs kvs = enc_list (flat kvs).
  Proof.
    induction kvs as [|kv kvs IH]; [reflexivity|]. cbn [enc_pairs flat map concat app enc_list].
    fold (flat kvs). rewrite IH.
    destruct (enc (fst kv)) as [bk|]; [|reflexivity]. cbn [ebind].
    destruct (enc (snd kv)) as [bv|]; [|reflexivity]. cbn [ebind].
    destruct (enc_list (flat kvs)) as [br|]; reflexivity.
  Qed.

  Lemma pair_up_flat kvs : pair_up (flat kvs) = kvs.
  Proof. induction kvs as [|[k v] kvs IH]; [reflexivity|]. cbn [flat map concat app pair_up fst snd]. fold (flat kvs). now rewrite IH. Qed.

  Lemma map_norm_flat kvs : map norm (flat kvs) = flat (map (fun kv => (norm (fst kv), norm (snd kv))) kvs).
  Proof. induction kvs as [|kv kvs IH]; [reflexivity|]. cbn [flat map concat app fst snd]. fold (flat kvs). rewrite IH. reflexivity. Qed.

  Lemma len_flat kvs : len (flat kvs) = 2 * len kvs.
  Proof. unfold len. induction kvs as [|kv kvs IH]; [reflexivity|]. cbn [flat map concat app length]. fold (flat kvs). lia. Qed.

  (* ----- unfolding equations of the encoder on containers ----- *)
  Lemma enc_tuple_eq l : enc (TTuple l) =
    if len l <=? 255 then ebind (enc_list l) (fun bl => EOk (tag_small_tuple_ext :: len l :: bl))
    else if 4294967296 <=? len l then EErr ETupleTooLarge
    else ebind (enc_list l) (fun bl => EOk (tag_large_tuple_ext :: be 4 (len l) ++ bl)).
  Proof. reflexivity. Qed.

  Lemma enc_list_eq l : enc (TList l) =
    match l with
    | [] => EOk [tag_nil_ext]
    | _ => if 4294967296 <=? len l then EErr EListTooLarge
           else ebind (enc_list l) (fun bl => EOk (tag_list_ext :: be 4 (len l) ++ bl ++ [tag_nil_ext]))
    end.
  Proof. destruct l; reflexivity. Qed.

  Lemma enc_improper_eq l tl : enc (TImproper l tl) =
    match l with
    | [] => enc tl
    | _ => if 4294967296 <=? len l then EErr EListTooLarge
           else ebind (enc_list l) (fun bl => ebind (enc tl) (fun bt => EOk (tag_list_ext :: be 4 (len l) ++ bl ++ bt)))
    end.
  Proof. destruct l; reflexivity. Qed.

  Lemma enc_map_eq kvs : enc (TMap kvs) =
    if 4294967296 <=? len kvs then EErr EMapTooLarge
    else ebind (enc_pairs kvs) (fun bm => EOk (tag_map_ext :: be 4 (len kvs) ++ bm)).
  Proof. reflexivity. Qed.

  Lemma enc_fun_eq a u i nf m oi ou p fr : enc (TIntFun a u i nf m oi ou p fr) =
    ebind (enc_atom m) (fun bm => ebind (enc_pid p) (fun bp => ebind (enc_list fr) (fun bfr =>
      let temp := a :: u ++ be 4 i ++ be 4 nf ++ bm ++ enc_int (Z.of_N oi) ++ enc_int (Z.of_N ou) ++ bp ++ bfr in
      EOk (tag_new_fun_ext :: be 4 (len temp + 4) ++ temp)))).
  Proof. reflexivity. Qed.

  (* ----- per-constructor round trips ----- *)
  Lemma enc_atom_ok a : atom_ok a -> exists b, enc_atom a = EOk b /\ (2 <= length b)%nat.
  Proof.
    unfold atom_ok, enc_atom. intros H. replace (65535 <? len a) with false by (symmetry; apply N.ltb_ge; exact H).
    destruct (255 <? len a); eexists; (split; [reflexivity|]); cbn [length]; try rewrite app_length, be_length; lia.
  Qed.

  Ltac fuel2 f Hf :=
    let f1 := fresh "f" in let f2 := fresh "f" in
    destruct f as [|f1]; [exfalso; revert Hf; clear; cbn [length]; intros; lia|];
    destruct f1 as [|f2]; [exfalso; revert Hf; clear; cbn [length]; intros; try rewrite !app_length in *; cbn [length] in *; lia|].

  Lemma pid_plain_ok node id ser cr :
    wf_atom node = true -> id < 4294967296 -> ser < 4294967296 -> cr < 4294967296 -> atom_ok node ->
    exists b, enc_pid {| pnode := node; pnum := id; pserial := ser; pcreation := cr; ploc := None |} = EOk b /\ (0 < length b)%nat /\
      forall f rest, (length b < f)%nat ->
        parse cfg f (b ++ rest) = POk (TPid {| pnode := node; pnum := id; pserial := ser; pcreation := cr; ploc := None |}) rest.
  Proof.
    intros Hw Hi Hs Hc Ha. destruct (enc_atom_ok node Ha) as (ba & Ea & La).
    unfold enc_pid. cbn [ploc pnode pnum pserial pcreation]. rewrite Ea. cbn [ebind].
    eexists. split; [reflexivity|]. split; [cbn [length]; lia|].
    intros f rest Hf. cbn [length] in Hf. rewrite app_length in Hf.
    destruct f as [|f]; [lia|]. destruct f as [|f]; [lia|].
    cbn [app]. rewrite <- !app_assoc. apply p_pid_plain; assumption.
  Qed.

  Lemma P_pid p : P (TPid p).
  Proof.
    intros Hwf Hok. destruct p as [node id ser cr loc]. cbn [wf wf_pid pnode pnum pserial pcreation ploc] in Hwf.
    do 4 (apply andb_prop in Hwf as [Hwf ?]).
    repeat match goal with H : (_ <? _) = true |- _ => apply N.ltb_lt in H end.
    destruct Hok as [Ha Hloc]. cbn [pnode pnum pserial pcreation ploc] in *.
    destruct (pid_plain_ok node id ser cr Hwf ltac:(assumption) ltac:(assumption) ltac:(assumption) Ha) as (b & Eb & Lb & Pb).
    destruct loc as [raw|].
    - destruct Hloc as (h & nb & -> & Hh & Enb). rewrite Eb in Enb. inversion Enb; subst nb.
      exists (tag_local_ext :: h ++ b). split; [reflexivity|]. split; [cbn [length]; lia|].
      intros f rest Hf. cbn [length] in Hf. rewrite app_length in Hf.
      destruct f as [|f]; [lia|]. cbn [app]. rewrite <- app_assoc.
      rewrite (p_local f h b rest _ Hh (Pb f rest ltac:(lia))). reflexivity.
    - exists b. split; [exact Eb|]. split; [exact Lb|]. exact Pb.
  Qed.

  Lemma P_port n i c loc : P (TPort n i c loc).
  Proof.
    intros Hwf Hok. cbn [wf] in Hwf. do 3 (apply andb_prop in Hwf as [Hwf ?]).
    repeat match goal with H : (_ <? _) = true |- _ => apply N.ltb_lt in H end.
    destruct Hok as [Ha Hloc]. destruct (enc_atom_ok n Ha) as (ba & Ea & La).
    assert (Hplain : exists b, enc (TPort n i c None) = EOk b /\ (0 < length b)%nat /\
              forall f rest, (length b < f)%nat -> parse cfg f (b ++ rest) = POk (TPort n i c None) rest).
    { cbn [enc]. rewrite Ea. cbn [ebind]. eexists. split; [reflexivity|]. split; [cbn [length]; lia|].
      intros f rest Hf. cbn [length] in Hf. rewrite app_length in Hf.
      destruct f as [|f]; [lia|]. destruct f as [|f]; [lia|].
      cbn [app]. rewrite <- !app_assoc. apply p_port_plain; assumption. }
    destruct Hplain as (b & Eb & Lb & Pb).
    destruct loc as [raw|].
    - destruct Hloc as (h & nb & -> & Hh & Enb). rewrite Eb in Enb. inversion Enb; subst nb.
      exists (tag_local_ext :: h ++ b). split; [reflexivity|]. split; [cbn [length]; lia|].
      intros f rest Hf. cbn [length] in Hf. rewrite app_length in Hf.
      destruct f as [|f]; [lia|]. cbn [app]. rewrite <- app_assoc.
      rewrite (p_local f h b rest _ Hh (Pb f rest ltac:(lia))). reflexivity.
    - exists b. split; [exact Eb|]. split; [exact Lb|]. exact Pb.
  Qed.

  Lemma P_ref n c ids loc : P (TRef n c ids loc).
  Proof.
    intros Hwf Hok. cbn [wf] in Hwf. do 3 (apply andb_prop in Hwf as [Hwf ?]).
    repeat match goal with H : (_ <? _) = true |- _ => apply N.ltb_lt in H end.
    destruct Hok as (Ha & Hl & Hloc). destruct (enc_atom_ok n Ha) as (ba & Ea & La).
    assert (Hplain : exists b, enc (TRef n c ids None) = EOk b /\ (0 < length b)%nat /\
              forall f rest, (length b < f)%nat -> parse cfg f (b ++ rest) = POk (TRef n c ids None) rest).
    { cbn [enc]. replace (65536 <=? len ids) with false by (symmetry; apply N.leb_gt; lia).
      rewrite Ea. cbn [ebind]. eexists. split; [reflexivity|]. split; [cbn [length]; lia|].
      intros f rest Hf. cbn [length] in Hf. rewrite !app_length in Hf. rewrite be_length in Hf.
      destruct f as [|f]; [lia|]. destruct f as [|f]; [lia|].
      cbn [app]. rewrite <- !app_assoc. apply p_ref_plain; assumption. }
    destruct Hplain as (b & Eb & Lb & Pb).
    destruct loc as [raw|].
    - destruct Hloc as (h & nb & -> & Hh & Enb). rewrite Eb in Enb. inversion Enb; subst nb.
      exists (tag_local_ext :: h ++ b). split; [reflexivity|]. split; [cbn [length]; lia|].
      intros f rest Hf. cbn [length] in Hf. rewrite app_length in Hf.
      destruct f as [|f]; [lia|]. cbn [app]. rewrite <- app_assoc.
      rewrite (p_local f h b rest _ Hh (Pb f rest ltac:(lia))). reflexivity.
    - exists b. split; [exact Eb|]. split; [exact Lb|]. exact Pb.
  Qed.

  Lemma all_ok_in l : all_ok l -> forall x, In x l -> rt_ok kc ki x.
  Proof. induction l as [|y l IH]; intros H x Hin; [destruct Hin|]. destruct H as [Hy Hl]. destruct Hin as [<-|Hin]; auto. Qed.

  Lemma P_tuple l : Forall P l -> P (TTuple l).
  Proof.
    intros HP Hwf Hok. cbn [wf] in Hwf. destruct Hok as [Hlen Hall].
    destruct (seq_ok l HP Hwf Hall) as (bl & El & Ll & Pl).
    rewrite enc_tuple_eq. cbn [norm]. rewrite El. cbn [ebind].
    destruct (len l <=? 255) eqn:E.
    - apply N.leb_le in E. eexists. split; [reflexivity|]. split; [cbn [length]; lia|].
      intros f rest Hf. cbn [length] in Hf. destruct f as [|f]; [lia|]. cbn [app].
      rewrite parse_S, arm_small_tuple. unfold parse_body. rewrite rd1.
      replace (max_tuple_size <? len l) with false by (symmetry; apply N.ltb_ge; unfold max_tuple_size; lia).
      rewrite Pl; [reflexivity|lia|rewrite app_length; lia].
    - apply N.leb_gt in E.
      replace (4294967296 <=? len l) with false by (symmetry; apply N.leb_gt; unfold max_tuple_size in Hlen; lia).
      eexists. split; [reflexivity|]. split; [cbn [length]; lia|].
      intros f rest Hf. cbn [length] in Hf. rewrite app_length, be_length in Hf. destruct f as [|f]; [lia|].
      cbn [app]. rewrite <- app_assoc.
      rewrite parse_S, arm_large_tuple. unfold parse_body.
      rewrite rd_app by (unfold max_tuple_size in Hlen; cbn; lia).
      replace (max_tuple_size <? len l) with false by (symmetry; apply N.ltb_ge; exact Hlen).
      rewrite Pl; [reflexivity|lia|rewrite app_length; lia].
  Qed.

  Lemma P_list l : Forall P l -> P (TList l).
  Proof.
    intros HP Hwf Hok. cbn [wf] in Hwf. destruct Hok as [Hlen Hall].
    destruct l as [|x l'].
    - exists [tag_nil_ext]. split; [reflexivity|]. split; [cbn; lia|].
      intros f rest Hf. destruct f as [|f]; [cbn in Hf; lia|]. cbn [app norm]. apply p_nil.
    - set (l := x :: l') in *.
      destruct (seq_ok l HP Hwf Hall) as (bl & El & Ll & Pl).
      rewrite enc_list_eq. unfold l at 1. fold l.
      replace (4294967296 <=? len l) with false by (symmetry; apply N.leb_gt; unfold max_list_size in Hlen; lia).
      rewrite El. cbn [ebind].
      eexists. split; [reflexivity|]. split; [cbn [length]; lia|].
      intros f rest Hf. cbn [length] in Hf. rewrite !app_length, be_length in Hf. cbn [length] in Hf. destruct f as [|f]; [lia|].
      cbn [app]. rewrite <- !app_assoc.
      rewrite parse_S, arm_list. unfold parse_body.
      rewrite rd_app by (unfold max_list_size in Hlen; cbn; lia).
      replace (max_list_size <? len l) with false by (symmetry; apply N.ltb_ge; exact Hlen).
      rewrite Pl; [|lia|rewrite !app_length; cbn [length]; lia].
      cbn [app]. destruct f as [|f]; [lia|]. rewrite p_nil. reflexivity.
  Qed.

  Lemma P_improper l tl : Forall P l -> P tl -> P (TImproper l tl).
  Proof.
    intros HP HPt Hwf Hok. cbn [wf] in Hwf. apply andb_prop in Hwf as [Hwl Hwt]. destruct Hok as (Hlen & Hot & Hall).
    destruct (HPt Hwt Hot) as (bt & Et & Lt & Pt).
    destruct l as [|x l'].
    - exists bt. rewrite enc_improper_eq. split; [exact Et|]. split; [exact Lt|]. exact Pt.
    - set (l := x :: l') in *.
      destruct (seq_ok l HP Hwl Hall) as (bl & El & Ll & Pl).
      rewrite enc_improper_eq. unfold l at 1. fold l.
      replace (4294967296 <=? len l) with false by (symmetry; apply N.leb_gt; unfold max_list_size in Hlen; lia).
      rewrite El, Et. cbn [ebind].
      eexists. split; [reflexivity|]. split; [cbn [length]; lia|].
      intros f rest Hf. cbn [length] in Hf. rewrite !app_length, be_length in Hf. destruct f as [|f]; [lia|].
      cbn [app]. rewrite <- !app_assoc.
      rewrite parse_S, arm_list. unfold parse_body.
      rewrite rd_app by (unfold max_list_size in Hlen; cbn; lia).
      replace (max_list_size <? len l) with false by (symmetry; apply N.ltb_ge; exact Hlen).
      rewrite Pl; [|lia|rewrite !app_length; lia].
      rewrite Pt by lia. cbn [norm]. unfold l at 2. fold l.
      destruct (norm tl); reflexivity.
  Qed.

  Lemma P_map kvs : Forall (fun kv => P (fst kv) /\ P (snd kv)) kvs -> P (TMap kvs).
  Proof.
    intros HP Hwf Hok. cbn [wf] in Hwf. destruct Hok as (Hlen & Hstable & Hall).
    assert (HPf : Forall P (flat kvs)).
    { clear -HP. induction HP as [|kv kvs [Hk Hv] _ IH]; [constructor|]. cbn [flat map concat app]. repeat constructor; assumption. }
    assert (Hwff : forallb wf (flat kvs) = true).
    { clear -Hwf. induction kvs as [|kv kvs IH]; [reflexivity|]. cbn [forallb] in Hwf. apply andb_prop in Hwf as [Hkv Hr].
      apply andb_prop in Hkv as [Hk Hv]. cbn [flat map concat app forallb]. rewrite Hk, Hv. cbn [andb]. now apply IH. }
    assert (Hallf : all_ok (flat kvs)).
    { clear -Hall. induction kvs as [|kv kvs IH]; [exact I|]. destruct Hall as (Hk & Hv & Hr). cbn [flat map concat app all_ok]. auto. }
    destruct (seq_ok (flat kvs) HPf Hwff Hallf) as (bl & El & Ll & Pl).
    rewrite enc_map_eq, enc_pairs_flat.
    replace (4294967296 <=? len kvs) with false by (symmetry; apply N.leb_gt; unfold max_map_size in Hlen; lia).
    rewrite El. cbn [ebind].
    eexists. split; [reflexivity|]. split; [cbn [length]; lia|].
    intros f rest Hf. cbn [length] in Hf. rewrite !app_length, be_length in Hf. destruct f as [|f]; [lia|].
    cbn [app]. rewrite <- !app_assoc.
    rewrite parse_S, arm_map. unfold parse_body.
    rewrite rd_app by (unfold max_map_size in Hlen; cbn; lia).
    replace (max_map_size <? len kvs) with false by (symmetry; apply N.ltb_ge; exact Hlen).
    rewrite <- len_flat. rewrite Pl; [|lia|rewrite !app_length; lia].
    rewrite map_norm_flat, pair_up_flat, Hkc, Hki, Hstable. reflexivity.
  Qed.

  Lemma P_fun a u i nf m oi ou p fr : Forall P fr -> P (TIntFun a u i nf m oi ou p fr).
  Proof.
    intros HP Hwf Hok. cbn [wf] in Hwf.
    do 9 (apply andb_prop in Hwf as [Hwf ?]).
    repeat match goal with H : (_ <? _) = true |- _ => apply N.ltb_lt in H end.
    match goal with H : (len u =? 16) = true |- _ => apply N.eqb_eq in H; rename H into Hu end.
    unfold two8, two32 in *.
    destruct Hok as (Ham & Hoi & Hou & Hpid & Hnf & Hall).
    destruct (enc_atom_ok m Ham) as (bm & Em & Lm).
    destruct (P_pid p ltac:(assumption) Hpid) as (bp & Ep & Lp & Pp).
    destruct (seq_ok fr HP ltac:(assumption) Hall) as (bf & Ef & Lf & Pf).
    rewrite enc_fun_eq. cbn [enc] in Ep. rewrite Em, Ep, Ef. cbn [ebind]. cbv zeta.
    eexists. split; [reflexivity|]. split; [cbn [length]; lia|].
    intros f rest Hf. cbn [length] in Hf. rewrite !app_length, !be_length in Hf. cbn [length] in Hf.
    rewrite !app_length, !be_length in Hf.
    destruct f as [|f]; [lia|]. destruct f as [|f]; [lia|].
    cbn [app]. rewrite <- !app_assoc. cbn [app]. rewrite <- !app_assoc.
    rewrite parse_S, arm_new_fun. unfold parse_body, atom_of.
    rewrite rd_be_be. cbv beta iota. rewrite rd1.
    assert (Hu16 : takeN 16 (u ++ be 4 i ++ be 4 nf ++ bm ++ enc_int (Z.of_N oi) ++ enc_int (Z.of_N ou) ++ bp ++ bf ++ rest)
                   = Some (u, be 4 i ++ be 4 nf ++ bm ++ enc_int (Z.of_N oi) ++ enc_int (Z.of_N ou) ++ bp ++ bf ++ rest)).
    { rewrite <- Hu. apply takeN_app. }
    rewrite Hu16. rewrite rd_app by (cbn; lia). rewrite rd_app by (cbn; lia).
    rewrite (p_atom f m _ bm ltac:(assumption) Em).
    pose proof (enc_int_len (Z.of_N oi)) as Loi. pose proof (enc_int_len (Z.of_N ou)) as Lou.
    rewrite (p_int (Z.of_N oi) (S f)) by lia.
    unfold norm_int. replace (in_i32 (Z.of_N oi)) with true by (symmetry; unfold in_i32; apply andb_true_intro; split; apply Z.leb_le; lia).
    replace (Z.of_N oi <? 0)%Z with false by (symmetry; apply Z.ltb_ge; lia).
    rewrite (p_int (Z.of_N ou) (S f)) by lia.
    unfold norm_int. replace (in_i32 (Z.of_N ou)) with true by (symmetry; unfold in_i32; apply andb_true_intro; split; apply Z.leb_le; lia).
    replace (Z.of_N ou <? 0)%Z with false by (symmetry; apply Z.ltb_ge; lia).
    rewrite Pp by lia. cbn [norm]. rewrite Hnf. rewrite Pf; [|lia|rewrite app_length; lia].
    rewrite !N2Z.id. rewrite !N.mod_small by lia. reflexivity.
  Qed.

  (* ----- the round-trip theorem ----- *)
  Theorem roundtrip : forall t, P t.
  Proof.
    induction t using term_ind'.
    - (* atom *) intros Hwf Hok. cbn [wf] in Hwf. destruct (enc_atom_ok a Hok) as (b & Eb & Lb).
      exists b. split; [exact Eb|]. split; [lia|]. intros f rest Hf. destruct f as [|f]; [lia|]. now apply p_atom.
    - (* int *) intros Hwf _. cbn [wf] in Hwf. apply andb_prop in Hwf as [H1 H2]. apply Z.leb_le in H1. apply Z.ltb_lt in H2.
      exists (enc_int z). split; [reflexivity|]. split; [apply enc_int_len|].
      intros f rest Hf. apply p_int; [unfold two63 in *; lia|exact Hf].
    - (* float *) intros Hwf _. cbn [wf] in Hwf. unfold float_finite in Hwf. apply andb_prop in Hwf as [H1 _]. apply N.ltb_lt in H1.
      eexists. split; [reflexivity|]. split; [cbn [enc_float length]; lia|].
      intros f rest Hf. destruct f as [|f]; [cbn in Hf; lia|]. unfold enc_float. cbn [app]. apply p_float. exact H1.
    - apply P_pid.
    - apply P_port.
    - apply P_ref.
    - (* binary *) intros _ Hok. cbn [rt_ok] in Hok. cbn [enc]. unfold enc_bin.
      replace (4294967296 <=? len b) with false by (symmetry; apply N.leb_gt; unfold max_binary_size in Hok; lia).
      eexists. split; [reflexivity|]. split; [cbn [length]; lia|].
      intros f rest Hf. destruct f as [|f]; [cbn in Hf; lia|]. cbn [app]. rewrite <- app_assoc. now apply p_bin.
    - (* bit-string *) intros Hwf Hok. cbn [wf] in Hwf. do 3 (apply andb_prop in Hwf as [Hwf ?]).
      cbn [rt_ok] in Hok. cbn [enc]. unfold enc_bitbin.
      replace (4294967296 <=? len b) with false by (symmetry; apply N.leb_gt; unfold max_binary_size in Hok; lia).
      eexists. split; [reflexivity|]. split; [cbn [length]; lia|].
      intros f rest Hf. destruct f as [|f]; [cbn in Hf; lia|]. cbn [app]. rewrite <- app_assoc. cbn [app].
      apply p_bitbin; try assumption; try (apply N.leb_le; assumption).
      intros ->. match goal with H : (k =? 8) = true |- _ => now apply N.eqb_eq in H end.
    - (* string *) intros _ Hok. cbn [rt_ok] in Hok. cbn [enc norm]. unfold enc_bin.
      replace (4294967296 <=? len s) with false by (symmetry; apply N.leb_gt; unfold max_binary_size in Hok; lia).
      eexists. split; [reflexivity|]. split; [cbn [length]; lia|].
      intros f rest Hf. destruct f as [|f]; [cbn in Hf; lia|]. cbn [app]. rewrite <- app_assoc. now apply p_bin.
    - now apply P_list.
    - now apply P_improper.
    - now apply P_map.
    - now apply P_tuple.
    - (* big integer *) intros _ Hok. cbn [rt_ok] in Hok. exists (enc_big s d). split; [reflexivity|].
      split; [unfold enc_big; rewrite app_length; cbn [length]; lia|].
      intros f rest Hf. destruct f as [|f]; [lia|]. now apply p_big.
    - (* external fun *) intros Hwf Hok. cbn [wf] in Hwf. do 2 (apply andb_prop in Hwf as [Hwf ?]).
      destruct Hok as [Hm Hf0]. destruct (enc_atom_ok m Hm) as (bm & Em & Lm). destruct (enc_atom_ok f Hf0) as (bf & Ef & Lf).
      cbn [enc]. rewrite Em, Ef. cbn [ebind].
      eexists. split; [reflexivity|]. split; [cbn [length]; lia|].
      intros f1 rest Hf. cbn [length] in Hf. rewrite !app_length in Hf. destruct f1 as [|f1]; [lia|]. destruct f1 as [|f1]; [lia|].
      cbn [app]. rewrite <- !app_assoc. apply p_extfun; try assumption.
      match goal with H : (a <? two8) = true |- _ => apply N.ltb_lt in H; exact H end.
    - now apply P_fun.
    - (* nil *) intros _ _. exists [tag_nil_ext]. split; [reflexivity|]. split; [cbn; lia|].
      intros f rest Hf. destruct f as [|f]; [cbn in Hf; lia|]. apply p_nil.
  Qed.
End RT.
