"""Generators: well-formed library terms (text-format ASTs) over every encoding boundary the properties
quantify over, and spec-side encoders producing every admissible encoding of a value (for C03/C13)."""
import struct, zlib
import etf

ATOM_POOL = [b"", b"a", b"ok", b"error", b"true", b"nil", b"node@host", "é".encode(), "ключ".encode(), "😀".encode(),
             b"a" + "é".encode() * 40, "日本語".encode() * 30, b"ab" + "😀".encode() * 20, b"x" * 255, b"y" * 256, "é".encode() * 127 + b"z", "é".encode() * 128, "é".encode() * 200]
INT_POOL = [0, 1, 255, 256, -1, -255, -256, 2**31 - 1, 2**31, -2**31, -2**31 - 1, 2**32, 2**32 + 2, 2**32 + 256, 2**53 - 1, 2**53, 2**53 + 1,
            2**63 - 1, -2**63, -2**63 + 1, 65535, 65536, 10**18]
BIG_POOL = [2**63, 2**64 - 1, 2**64, 2**64 + 1, -2**63 - 1, -2**64, 10**20, -10**20, 2**(8 * 255) - 1, 2**(8 * 255), 2**(8 * 256) - 1, 2**(8 * 300) - 1,
            256**255 + 1, -(256**256)]
FLOAT_POOL = [0.0, -0.0, 1.0, -1.0, 0.5, 1.5, 2.0**53, 2.0**53 + 2, 2.0**63, -2.0**63, 2.0**64, 1e20, 1e300, -1e300, 5e-324, 2.2250738585072014e-308,
              1.7976931348623157e308, 3.141592653589793, 123456789.125, 9007199254740993.0, 255.0, 256.0, 2147483648.0]


def fbits(x):
    return struct.unpack(">Q", struct.pack(">d", x))[0]


def big_ast(n):
    neg = n < 0
    m = -n if neg else n
    d = m.to_bytes(max(1, (m.bit_length() + 7) // 8), "little")
    return ("g", neg, d)


def int_ast(n):
    return ("i", n) if -2**63 <= n < 2**63 else big_ast(n)


def gen_atom(rng, small=True):
    r = rng.random()
    if r < 0.7:
        return rng.choice(ATOM_POOL[:13])
    if r < 0.95 or small:
        return rng.choice(ATOM_POOL)
    return rng.choice([b"q" * 65535, b"w" * 300, "я".encode() * 1000])


def modern_id_bytes(kind, node, *f):
    """canonical modern encoding of an identifier (used inside generated LOCAL_EXT payloads)"""
    a = enc_atom_utf8(node)
    if kind == "pid":
        return bytes([88]) + a + struct.pack(">III", *f)
    if kind == "port":
        return bytes([120]) + a + struct.pack(">QI", *f)
    cr, ids = f
    return bytes([90]) + struct.pack(">H", len(ids)) + a + struct.pack(">I", cr) + b"".join(struct.pack(">I", i) for i in ids)


def enc_atom_utf8(b):
    return (bytes([119, len(b)]) if len(b) <= 255 else bytes([118]) + struct.pack(">H", len(b))) + b


def gen_pid(rng, allow_loc=True):
    node = gen_atom(rng)
    i, s, c = (rng.choice([0, 1, 2**15, 2**28 - 1, 2**32 - 1, rng.randrange(2**32)]) for _ in range(3))
    loc = None
    if allow_loc and rng.random() < 0.3:
        loc = bytes(rng.randrange(256) for _ in range(8)) + modern_id_bytes("pid", node, i, s, c)
    return (node, i, s, c, loc)


def gen_leaf(rng, big_ok=True):
    r = rng.randrange(14)
    if r == 0:
        return ("a", gen_atom(rng, small=not big_ok))
    if r == 1:
        return ("i", rng.choice(INT_POOL + [rng.randrange(-2**63, 2**63), rng.randrange(-300, 300)]))
    if r == 2:
        n = rng.choice(BIG_POOL + [rng.randrange(2**63, 2**200), -rng.randrange(2**63, 2**200)])
        return big_ast(n)
    if r == 3:
        return ("f", fbits(rng.choice(FLOAT_POOL + [rng.uniform(-1e6, 1e6), rng.random() * 10 ** rng.randrange(-300, 300)])))
    if r == 4:
        return ("p",) + gen_pid(rng)
    if r == 5:
        node = gen_atom(rng)
        i, c = rng.choice([0, 1, 2**32 - 1, 2**32, 2**64 - 1, rng.randrange(2**64)]), rng.choice([0, 3, 2**32 - 1, rng.randrange(2**32)])
        loc = bytes(rng.randrange(256) for _ in range(8)) + modern_id_bytes("port", node, i, c) if rng.random() < 0.3 else None
        return ("o", node, i, c, loc)
    if r == 6:
        node = gen_atom(rng)
        c = rng.choice([0, 3, 2**32 - 1, rng.randrange(2**32)])
        ids = [rng.choice([0, 2**32 - 1, rng.randrange(2**32)]) for _ in range(rng.choice([0, 1, 2, 3, 3, 5]))]
        loc = bytes(rng.randrange(256) for _ in range(8)) + modern_id_bytes("ref", node, c, ids) if rng.random() < 0.3 else None
        return ("r", node, c, ids, loc)
    if r == 7:
        return ("b", bytes(rng.randrange(256) for _ in range(rng.choice([0, 1, 3, 17, 255, 256]))))
    if r == 8:
        n = rng.choice([0, 1, 2, 9])
        bits = 8 if n == 0 else rng.randrange(1, 9)
        b = bytearray(rng.randrange(256) for _ in range(n))
        if n:
            b[-1] &= (0xff << (8 - bits)) & 0xff
        return ("B", bytes(b), bits)
    if r == 9:
        return ("s", rng.choice([b"", b"hello", "héllo wörld".encode(), "日本".encode(), b"a" * 300]))
    if r == 10:
        return ("e", gen_atom(rng), gen_atom(rng), rng.choice([0, 1, 255, rng.randrange(256)]))
    if r == 11:
        return ("n",)
    if r == 12:
        return ("l", [])
    return ("i", rng.randrange(0, 256))


def gen_term(rng, depth=3, big_ok=True):
    if depth <= 0 or rng.random() < 0.35:
        return gen_leaf(rng, big_ok)
    r = rng.randrange(7)
    n = rng.choice([0, 1, 2, 3, 4])
    sub = lambda: gen_term(rng, depth - 1, big_ok)  # noqa
    if r == 0:
        return ("l", [sub() for _ in range(n)])
    if r == 1:
        return ("L", [sub() for _ in range(n)], sub())
    if r == 2:
        return ("t", [sub() for _ in range(n)])
    if r == 3:
        return ("m", [(sub(), sub()) for _ in range(n)])
    if r == 4:
        return ("t", [sub() for _ in range(rng.choice([1, 2, 5]))])
    if r == 5:
        nf = rng.choice([0, 1, 2])
        return ("u", rng.randrange(256), bytes(rng.randrange(256) for _ in range(16)), rng.choice([0, 7, 2**32 - 1]), nf, gen_atom(rng),
                rng.choice([0, 5, 255, 256, 2**31 - 1]), rng.choice([0, 200, 2**31 - 1, rng.randrange(2**31)]), gen_pid(rng), [sub() for _ in range(nf)])
    return gen_leaf(rng, big_ok)


def boundary_terms():
    """fixed corpus: one term per encoding boundary named in the C01 quantifier"""
    ts = []
    for n in INT_POOL:
        ts.append(("i", n))
    for n in BIG_POOL:
        ts.append(big_ast(n))
    for x in FLOAT_POOL:
        ts.append(("f", fbits(x)))
    for a in ATOM_POOL + [b"q" * 65535, b"q" * 65536, "é".encode() * 32767 + b"z", "é".encode() * 32768]:
        ts.append(("a", a))
    for n in (0, 1, 255, 256, 257):
        ts.append(("t", [("i", k % 7) for k in range(n)]))
        ts.append(("l", [("i", 300 + k) for k in range(n)]))
        ts.append(("b", bytes(k % 256 for k in range(n))))
    for bits in range(1, 9):
        ts.append(("B", bytes([0xab, (0xff << (8 - bits)) & 0xff]), bits))
    ts.append(("B", b"", 8))
    ts.append(("L", [], ("a", b"t")))
    ts.append(("L", [("i", 1)], ("n",)))
    ts.append(("L", [("i", 1)], ("l", [("i", 2)])))
    ts.append(("L", [("i", 1), ("i", 2)], ("i", 3)))
    ts.append(("l", []))
    ts.append(("n",))
    ts.append(("s", b""))
    ts.append(("s", "héllo".encode()))
    ts.append(("m", []))
    ts.append(("m", [(("i", 1), ("a", b"x")), (("f", fbits(1.5)), ("a", b"y")), (("a", b"k"), ("l", [])), (("t", []), ("n",)), (("b", b"k"), ("i", 2))]))
    ts.append(("m", [(int_ast(2**32 + 2), ("a", b"x")), (int_ast(2**32 + 256), ("a", b"y"))]))   # recorded C01 finding
    ts.append(("m", [(("i", 1), ("i", 10)), (("f", fbits(1.0)), ("i", 20))]))
    ts.append(("m", [(("L", [], ("a", b"a")), ("i", 1)), (("t", []), ("i", 2))]))                       # recorded: improper-empty key
    ts.append(("m", [(("L", [("i", 1)], ("l", [])), ("i", 1)), (("L", [("i", 1)], ("i", 2)), ("i", 2))]))  # recorded: list vs improper keys
    for nids in (0, 1, 2, 3, 5, 65535):
        ts.append(("r", b"n@h", 3, [(7 * k) % 2**32 for k in range(nids)], None))
    ts.append(("r", b"n@h", 3, [0] * 65536, None))
    ts.append(("p", b"n@h", 1, 2, 3, None))
    ts.append(("p", b"n@h", 2**32 - 1, 2**32 - 1, 2**32 - 1, None))
    ts.append(("o", b"n@h", 2**64 - 1, 2**32 - 1, None))
    ts.append(("e", b"mod", b"fun", 255))
    p = (b"n@h", 1, 2, 3, None)
    ts.append(("u", 2, bytes(range(16)), 5, 1, b"mod", 7, 9, p, [("a", b"free")]))
    ts.append(("u", 0, bytes(16), 0, 0, b"m", 2**31 - 1, 2**31 - 1, p, []))
    ts.append(("u", 0, bytes(16), 0, 0, b"m", 2**31, 5, p, []))                      # recorded C01 finding (old_index >= 2^31)
    ts.append(("u", 255, bytes([255] * 16), 2**32 - 1, 2, b"m", 255, 256, p, [("i", 1), ("t", [("a", b"x")])]))
    ts += sibling_maps()
    return ts


# ------------------------------------------------------------------------------------------
# spec-side encoders: every admissible encoding of a value, chosen by rng (C03)

def enc_int(n, rng, canonical=False):
    forms = []
    if 0 <= n <= 255:
        forms.append(bytes([97, n]))
    if -2**31 <= n < 2**31:
        forms.append(bytes([98]) + struct.pack(">i", n))
    m = -n if n < 0 else n
    d = m.to_bytes(max(1, (m.bit_length() + 7) // 8), "little")
    sign = 1 if n < 0 else 0
    if len(d) <= 255:
        forms.append(bytes([110, len(d), sign]) + d)
    forms.append(bytes([111]) + struct.pack(">I", len(d)) + bytes([sign]) + d)
    if canonical:
        return forms[0]
    f = rng.choice(forms)
    if rng.random() < 0.1 and f[0] in (110, 111):          # non-minimal digits (leading zero digit)
        d2 = d + b"\0"
        f = (bytes([110, len(d2), sign]) if len(d2) <= 255 else bytes([111]) + struct.pack(">I", len(d2)) + bytes([sign])) + d2
    return f


def enc_atom(b, rng, canonical=False):
    forms = [enc_atom_utf8(b)]
    if not canonical:
        forms.append(bytes([118]) + struct.pack(">H", len(b)) + b)
        try:
            l1 = b.decode("utf-8").encode("latin-1")
            forms.append(bytes([100]) + struct.pack(">H", len(l1)) + l1)
            if len(l1) <= 255:
                forms.append(bytes([115, len(l1)]) + l1)
        except UnicodeEncodeError:
            pass
    return rng.choice(forms)


def enc_value(v, rng, canonical=False, local=True, ids_any=False):
    k = v[0]
    E = lambda x: enc_value(x, rng, canonical, local, ids_any)  # noqa
    legacy = ids_any or not canonical     # identifiers may use their older layouts
    if k == "int":
        return enc_int(v[1], rng, canonical)
    if k == "float":
        new = bytes([70]) + struct.pack(">Q", v[1])
        if canonical or rng.random() < 0.7:
            return new
        x = struct.unpack(">d", struct.pack(">Q", v[1]))[0]
        txt = ("%.20e" % x).encode()
        if struct.unpack(">Q", struct.pack(">d", float(txt)))[0] != v[1]:
            return new
        return bytes([99]) + txt.ljust(31, b"\0")
    if k == "atom":
        return enc_atom(v[1], rng, canonical)
    if k == "nil":
        return bytes([106])
    if k == "bits":
        b, n = v[1], v[2]
        if n == 8 * len(b):
            return bytes([109]) + struct.pack(">I", len(b)) + b
        return bytes([77]) + struct.pack(">I", len(b)) + bytes([n - 8 * (len(b) - 1)]) + b
    if k == "tuple":
        n = len(v[1])
        hdr = bytes([104, n]) if n <= 255 and (canonical or rng.random() < 0.8) else bytes([105]) + struct.pack(">I", n)
        return hdr + b"".join(E(x) for x in v[1])
    if k == "list":
        el, tail = v[1], v[2]
        if tail == etf.NIL and len(el) < 65536 and all(x[0] == "int" and 0 <= x[1] <= 255 for x in el) and (not canonical) and rng.random() < 0.6:
            return bytes([107]) + struct.pack(">H", len(el)) + bytes(x[1] for x in el)
        return bytes([108]) + struct.pack(">I", len(el)) + b"".join(E(x) for x in el) + E(tail)
    if k == "map":
        kvs = list(v[1])
        rng.shuffle(kvs)
        return bytes([116]) + struct.pack(">I", len(kvs)) + b"".join(E(a) + E(b) for a, b in kvs)
    if k == "pid":
        _, node, i, s, c = v
        forms = [bytes([88]) + enc_atom(node, rng, canonical) + struct.pack(">III", i, s, c)]
        if legacy and c < 256:
            forms.append(bytes([103]) + enc_atom(node, rng) + struct.pack(">II", i, s) + bytes([c]))
        f = rng.choice(forms)
        return wrap_local(f, rng) if local and not canonical and rng.random() < 0.25 else f
    if k == "port":
        _, node, i, c = v
        forms = [bytes([120]) + enc_atom(node, rng, canonical) + struct.pack(">QI", i, c)]
        if legacy and i < 2**32:
            forms.append(bytes([89]) + enc_atom(node, rng) + struct.pack(">II", i, c))
            if c < 256:
                forms.append(bytes([102]) + enc_atom(node, rng) + struct.pack(">I", i) + bytes([c]))
        f = rng.choice(forms)
        return wrap_local(f, rng) if local and not canonical and rng.random() < 0.25 else f
    if k == "ref":
        _, node, c, ids = v
        forms = [bytes([90]) + struct.pack(">H", len(ids)) + enc_atom(node, rng, canonical) + struct.pack(">I", c) + b"".join(struct.pack(">I", i) for i in ids)]
        if legacy and c < 256:
            forms.append(bytes([114]) + struct.pack(">H", len(ids)) + enc_atom(node, rng) + bytes([c]) + b"".join(struct.pack(">I", i) for i in ids))
            if len(ids) == 1:
                forms.append(bytes([101]) + enc_atom(node, rng) + struct.pack(">I", ids[0]) + bytes([c]))
        f = rng.choice(forms)
        return wrap_local(f, rng) if local and not canonical and rng.random() < 0.25 else f
    if k == "extfun":
        return bytes([113]) + enc_atom(v[1], rng, canonical) + enc_atom(v[2], rng, canonical) + enc_int(v[3], rng, True)
    if k == "intfun":
        _, ar, uniq, idx, nf, m, oi, ou, p, free = v
        body = bytes([ar]) + uniq + struct.pack(">II", idx, nf) + enc_atom(m, rng, canonical) + enc_int(oi, rng, True) + enc_int(ou, rng, True) + E(p) + b"".join(E(x) for x in free)
        return bytes([112]) + struct.pack(">I", len(body) + 4) + body
    raise ValueError(k)


def wrap_local(enc, rng):
    return bytes([121]) + bytes(rng.randrange(256) for _ in range(8)) + enc


def encode_value(v, rng, canonical=False, compress=False):
    body = enc_value(v, rng, canonical)
    if compress:
        return bytes([131, 80]) + struct.pack(">I", len(body)) + zlib.compress(body), body
    return bytes([131]) + body, None


def gen_value(rng, depth=3):
    """values incl. maps with keys that are distinct in Erlang but numerically equal (1 and 1.0)"""
    t = gen_term(rng, depth, big_ok=False)
    v = etf.denote(strip_loc(t))
    return v


def strip_loc(t):
    k = t[0]
    if k == "p":
        return t[:5] + (None,)
    if k == "o":
        return t[:4] + (None,)
    if k == "r":
        return t[:4] + (None,)
    if k in ("l", "t"):
        return (k, [strip_loc(x) for x in t[1]])
    if k == "L":
        return (k, [strip_loc(x) for x in t[1]], strip_loc(t[2]))
    if k == "m":
        return (k, [(strip_loc(a), strip_loc(b)) for a, b in t[1]])
    if k == "u":
        return t[:8] + (t[8][:4] + (None,), [strip_loc(x) for x in t[9]])
    return t


def sibling_groups():
    """groups of terms that differ in exactly one fine field: a comparison that forgets the field merges them as map keys"""
    P = lambda node=b"n@h", i=1, s=2, c=3: ("p", node, i, s, c, None)  # noqa
    O = lambda node=b"n@h", i=1, c=3: ("o", node, i, c, None)  # noqa
    R = lambda node=b"n@h", c=3, ids=(1, 2, 3): ("r", node, c, list(ids), None)  # noqa
    U = lambda ar=1, uniq=bytes(16), idx=1, m=b"m", oi=1, ou=1, p=None, fr=(): ("u", ar, uniq, idx, len(fr), m, oi, ou, (p or P())[1:], list(fr))  # noqa
    ints = lambda *ns: [int_ast(n) for n in ns]  # noqa
    return [
        ints(-5000000000, -5000000001, -6000000000), ints(-2**63, -2**63 + 1, -2**63 + 2), ints(2**40, 2**40 + 1), ints(-2**31 - 1, -2**31 - 2),
        ints(2**63 - 1, 2**63 - 2), ints(2**56, 2**56 + 1, 2**62), ints(2**64 + 1, 2**64 + 2), ints(-(2**64) - 1, -(2**64) - 2), ints(2**70, 2**70 + 256),
        ints(-(2**70), -(2**70) - 256), ints(255, 256), ints(-1, -2),
        [P(), P(i=2), P(s=3), P(c=4), P(node=b"m@h")], [P(s=0), P(s=1)], [P(c=0), P(c=2**32 - 1)],
        [O(), O(i=2), O(c=4), O(i=2**32), O(i=2**32 + 1)], [R(), R(c=4), R(ids=(1, 2, 4)), R(ids=(1, 2)), R(ids=(2, 2, 3))],
        [U(), U(p=P(c=4)), U(p=P(s=3)), U(ou=2), U(oi=2), U(idx=2), U(ar=2), U(uniq=bytes(15) + b"\x01"), U(m=b"n")],
        [U(fr=[("i", 1)]), U(fr=[("i", 2)])],
        [("e", b"m", b"f", 1), ("e", b"m", b"f", 2), ("e", b"m", b"g", 1), ("e", b"n", b"f", 1)],
        [("a", b"aa"), ("a", b"ab"), ("a", b"a")], [("b", b"\x00"), ("b", b"\x01"), ("b", b"\x00\x00")], [("B", b"\x80", 1), ("B", b"\x80", 2), ("B", b"\xc0", 2)],
        [("f", fbits(1.0)), ("f", fbits(1.0) + 1)], [("f", fbits(-1.0)), ("f", fbits(-1.0) + 1)],
        [("t", [P()]), ("t", [P(s=3)])], [("l", [O()]), ("l", [O(c=4)])], [("t", [int_ast(-5000000000)]), ("t", [int_ast(-5000000001)])],
    ]


def sibling_maps():
    """maps whose keys are siblings, in both insertion orders, plus a tuple holding the siblings side by side"""
    out = []
    for g in sibling_groups():
        kvs = [(k, ("i", i)) for i, k in enumerate(g)]
        out.append(("m", kvs))
        out.append(("m", list(reversed(kvs))))
        for a in range(len(g)):
            for b in range(a + 1, len(g)):
                out.append(("m", [(g[a], ("a", b"x")), (g[b], ("a", b"y"))]))
        out.append(("t", list(g)))
    return out
