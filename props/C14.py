"""C14 — distribution headers and the atom cache. Domain `codec` (ops hdr, hdrdec) + model-only op hdrchk."""
import struct
import etf, termgen, vlib

ID = "C14"
GEN_FILES = ["Tags.v", "DecoderArms.v"]
RULE = ("writer: control/payload term pairs with 0..255 and more distinct atoms, atom lengths 0..255 and >255, even and odd counts, atoms "
        "inside pids/ports/refs/funs; each encoded with a distribution header, read by an independent header reader and by the library's own "
        "reader; the model re-encodes with the atom order found in the bytes and must reproduce them; reader: message histories from a "
        "spec sender with a 2048-slot cache (new entries, references to earlier entries, overwrites, all segment indices, header position "
        "different from cache slot) decoded with one AtomCache; distinct = distinct case; non-trivial = at least one atom")
ASSUMPTIONS = ["HashSet iteration order of the writer is a parameter of the model, read back from the produced bytes",
               "header layout transcribed from erl_ext_dist (props/etf.py spec_read_dist_message)"]


def atoms_in(t, acc):
    k = t[0]
    if k == "a":
        acc.add(t[1])
    elif k in ("p", "o", "r"):
        acc.add(t[1])          # collect_atoms takes the node atom even when the identifier is replayed from LOCAL_EXT bytes
    elif k == "e":
        acc.add(t[1]); acc.add(t[2])
    elif k == "u":
        acc.add(t[5])
        acc.add(t[8][0])
        for x in t[9]:
            atoms_in(x, acc)
    elif k in ("l", "t"):
        for x in t[1]:
            atoms_in(x, acc)
    elif k == "L":
        for x in t[1]:
            atoms_in(x, acc)
        atoms_in(t[2], acc)
    elif k == "m":
        for a, b in t[1]:
            atoms_in(a, acc); atoms_in(b, acc)
    return acc


def no_maps(t):
    import C08
    return C08.no_maps(t)


def writer_oracle(case, impl):
    if impl.startswith(("PANIC", "CRASH", "TIMEOUT")):
        return ("violation", "did not return: " + impl[:60])
    terms = [etf.parse_term(p) for p in case[4:].split(" | ")]
    atoms = set()
    for t in terms:
        atoms_in(t, atoms)
    if impl.startswith("enc=err:"):
        if impl == "enc=err:TooManyAtoms" and len(atoms) > 255:
            return None
        if any(len(a) > 65535 for a in atoms):
            return None
        return ("violation", "header encoding refused (%s) with %d distinct atoms" % (impl[8:], len(atoms)))
    if len(atoms) > 255:
        return ("violation", "more than 255 distinct atoms were accepted")
    if " wrapper:" in impl:
        return ("violation", "a wrapper entry point disagrees with the one it wraps:" + impl.split(" wrapper:", 1)[1][:60])
    enc, selfdec = impl.split(" ; self=")
    data = bytes.fromhex(enc[4:])
    want = [etf.denote(t) for t in terms]
    known = None
    try:
        ctl, pl = etf.spec_read_dist_message(data, {})
        got = [ctl] + ([pl] if pl is not None else [])
        if got != want:
            raise etf.EtfError("values differ")
    except Exception as ex:  # noqa
        return ("violation", "an independent reader of the header does not see the same terms: %s" % ex)
    if selfdec.startswith("err"):
        return ("violation", "the library's own reader rejects the header it wrote: " + selfdec)
    sd = [etf.denote(etf.parse_term(p)) for p in selfdec.split(" | ") if p != "-"]
    if sd != want:
        return ("violation", "the library's own reader decodes its header to different terms")
    return ("known", known) if known else None


class Sender:
    """spec-conforming sender with an atom cache (2048 slots = 8 segments x 256)"""
    def __init__(self, rng, mode):
        self.rng, self.mode, self.cache = rng, mode, {}

    def slot_for(self, atom):
        if self.mode == "sweep":        # every slot of the cache once, in order; an atom already cached is referred to
            for s, a in self.cache.items():
                if a == atom:
                    return s, False
            self.next_slot = getattr(self, "next_slot", -1) + 1
            return self.next_slot, True
        if self.mode == "lib":          # what this library's own writer does: every atom a new entry, segment 0, slot = header position
            return None, True
        for s, a in self.cache.items():
            if a == atom:
                return s, False
        if self.cache and self.rng.random() < 0.3:
            return self.rng.choice(sorted(self.cache)), True      # overwrite an occupied slot (atom cache collision)
        seg = 0 if self.mode == "seg0" else self.rng.randrange(8)
        s = seg * 256 + self.rng.randrange(256)
        return s, True

    def message(self, terms):
        atoms = []
        for t in terms:
            for a in sorted(atoms_in(t, set())):
                if a not in atoms:
                    atoms.append(a)
        self.rng.shuffle(atoms)
        atoms = atoms[:255]
        n = len(atoms)
        if n == 0:
            self.last = "0 || 00 || -"
            return bytes([131, 68, 0]) + b"".join(termgen.enc_value(etf.denote(t), self.rng, canonical=True) for t in terms)
        long_atoms = any(len(a) > 255 for a in atoms)
        nibbles, entries, toks = [], b"", []
        for pos, a in enumerate(atoms):
            s, new = self.slot_for(a)
            if s is None:
                s = pos
            if new:
                # an overwritten slot must not be referenced by an earlier position of the same header
                if s in self.cache and self.cache[s] in atoms[:pos] and self.cache[s] != a:
                    s = max(list(self.cache) + [0]) + 1 if max(list(self.cache) + [0]) < 2047 else s
                self.cache[s] = a
            nibbles.append((8 if new else 0) | (s >> 8))
            toks.append("N:%d:%d:%s" % (s >> 8, s & 0xff, a.hex() or "_") if new else "O:%d:%d" % (s >> 8, s & 0xff))
            entries += bytes([s & 0xff])
            if new:
                entries += (struct.pack(">H", len(a)) if long_atoms else bytes([len(a)])) + a
        nibbles.append(1 if long_atoms else 0)
        if len(nibbles) % 2:
            nibbles.append(0)
        flags = bytes(nibbles[i] | (nibbles[i + 1] << 4) for i in range(0, len(nibbles), 2))
        index = {a: i for i, a in enumerate(atoms)}
        # what the sender did, for the comparison with the Coq sender model (model-only op sndchk)
        self.last = "%d %s || %s || %s" % (1 if long_atoms else 0, " ".join(toks), (bytes([n]) + flags + entries).hex(),
                                        ",".join(a.hex() or "_" for a in atoms))
        body = b"".join(self.enc(etf.denote(termgen.strip_loc(t)), index) for t in terms)
        return bytes([131, 68, n]) + flags + entries + body

    def enc(self, v, index):
        # canonical encoding with atoms replaced by ATOM_CACHE_REF(header position)
        orig = termgen.enc_atom

        def enc_atom(b, rng, canonical=False):
            return bytes([82, index[b]]) if b in index else orig(b, rng, True)
        termgen.enc_atom = enc_atom
        try:
            return termgen.enc_value(v, self.rng, canonical=True, local=False, ids_any=self.rng.random() < 0.6)
        finally:
            termgen.enc_atom = orig


def reader_oracle(meant):
    def oracle(case, impl):
        if impl.startswith(("PANIC", "CRASH", "TIMEOUT")):
            return ("violation", "did not return: " + impl[:60])
        want, mode, odd_long = meant[case]
        outs = impl.split(" ;; ")
        for i, (o, w) in enumerate(zip(outs, want)):
            ok = False
            if o.startswith("ok "):
                parts = o[3:].split(" | ")
                got = [etf.denote(etf.parse_term(p)) for p in parts if p != "-"]
                ok = got == w
            if not ok:
                return ("violation", "message %d of the history is decoded to different terms (%s)" % (i, o[:60]))
        return None
    return oracle


def gen_terms(rng, natoms=None):
    pool = [b"ok", b"error", b"", "é".encode(), b"x" * 255, b"n@h", b"undefined", b"reply"] + [b"atom%d" % i for i in range(300)]
    long_pool = [b"L" * 256, b"M" * 300]
    k = natoms if natoms is not None else rng.choice([0, 1, 2, 3, 4, 5, 8, 9, 16, 17])
    atoms = rng.sample(pool, min(k, len(pool)))
    if rng.random() < 0.25 and atoms:
        atoms[rng.randrange(len(atoms))] = rng.choice(long_pool)
    els = [("a", a) for a in atoms]
    if els and rng.random() < 0.5:
        els.append(("p", atoms[0], 1, 2, 3, None))
    if els and rng.random() < 0.3:
        els.append(("r", atoms[-1], 1, rng.choice([[1, 2], [7], [1, 2, 3]]), None))
    if els and rng.random() < 0.3:
        els.append(("o", atoms[len(atoms) // 2], rng.choice([5, 2**32 - 1, 2**40]), rng.choice([0, 3, 255, 256, 2**32 - 1]), None))
    if rng.random() < 0.4:
        els.append(no_maps(termgen.gen_term(rng, depth=1, big_ok=False)))
    rng.shuffle(els)
    half = len(els) // 2
    ctl = ("t", [("i", 2)] + els[:half])
    payload = ("l", els[half:]) if els[half:] else ("n",)
    return [ctl, payload] if rng.random() < 0.8 else [ctl]


def run(ctx):
    rng = ctx.rng
    # ---- writer ----
    wcases = []
    for n in (0, 1, 2, 3, 254, 255, 256, 300):
        for _ in range(2):
            wcases.append("hdr " + " | ".join(etf.show(t) for t in gen_terms(rng, n)))
    wcases.append("hdr t 1 a " + (b"L" * 300).hex())                       # one long atom, odd count: recorded finding
    wcases.append("hdr t 2 a " + (b"L" * 300).hex() + " a 6f6b")           # long atom, even count
    for _ in range(ctx.budget(800, 20000)):
        wcases.append("hdr " + " | ".join(etf.show(t) for t in gen_terms(rng)))
    impl, _ = ctx.diff_domain("codec", wcases, oracle=writer_oracle, nontrivial=lambda c, i: c if " a " in c else None,
                              classify=lambda c, i: ["op:hdr", "result:" + ("err" if i.startswith("enc=err") else "ok")], compare=lambda c, a, b: True)
    # histories of writer calls on one thread: what a refused message (too many atoms, an atom too long) leaves behind must
    # not reach the next message
    hh = []
    refused = ["t 1 " + " ".join(["l 300"] + ["a " + (b"atom%03d" % i).hex() for i in range(300)]), "t 2 a 6f6b a " + (b"x" * 65536).hex()]
    for _ in range(ctx.budget(40, 600)):
        parts = [" | ".join(etf.show(t) for t in gen_terms(rng)) for _p in range(rng.choice([2, 3, 4]))]
        parts.insert(rng.randrange(len(parts)), rng.choice(refused))
        hh.append("hdrh " + " || ".join(parts))

    def hist_oracle(case, impl):
        if impl.startswith(("PANIC", "CRASH", "TIMEOUT")):
            return ("violation", "did not return: " + impl[:60])
        for part, o in zip(case[5:].split(" || "), impl.split(" ;; ")):
            r = writer_oracle("hdr " + part, o)
            if r is not None and r[0] == "violation":
                return ("violation", "in a history of header-writer calls on one thread: " + r[1])
        return None
    ctx.diff_domain("codec", hh, oracle=hist_oracle, nontrivial=lambda c, i: c, classify=lambda c, i: ["op:hdrh"], compare=lambda c, a, b: True)
    # the model must reproduce the writer's bytes for the atom order found in them
    chk = []
    for c, a in zip(wcases, impl):
        if a.startswith("enc=") and not a.startswith("enc=err"):
            chk.append("hdrchk %s || %s" % (c[4:], a.split(" ; self=")[0][4:]))
    outs = vlib.run_lines(vlib.MODEL_BIN, "codec", chk)
    for c, o in zip(chk, outs):
        ctx.evaluations += 1
        ctx.traces += 1
        ctx.hist["op:hdrchk:" + o.split()[0]] += 1
        if o != "match":
            ctx.disagreements.append(("codec", c, "(bytes produced by the implementation)", o))
    # ---- reader ----
    rcases, meant, schk = [], {}, []
    for _ in range(ctx.budget(900, 20000)):
        mode = rng.choice(["lib", "seg0", "any", "any"])
        snd = Sender(rng, mode)
        msgs, want, odd_long, did = [], [], False, []
        for _m in range(rng.choice([1, 2, 3, 5])):
            ts = gen_terms(rng)
            atoms = set()
            for t in ts:
                atoms_in(t, atoms)
            if len(atoms) % 2 == 1 and any(len(a) > 255 for a in atoms):
                odd_long = True
            data = snd.message(ts)
            msgs.append(data.hex())
            did.append(snd.last)
            want.append([etf.denote(termgen.strip_loc(t)) for t in ts])
        case = "hdrdec " + ",".join(msgs)
        # the spec reader must agree with the sender (self-check of the oracle)
        cache = {}
        for d, w in zip(msgs, want):
            c, p = etf.spec_read_dist_message(bytes.fromhex(d), cache)
            assert [c] + ([p] if p is not None else []) == w, "spec sender/reader disagree"
        rcases.append(case)
        schk.append("sndchk " + " ;; ".join(did))
        meant[case] = (want, mode, odd_long)
    # every one of the 8 x 256 slots: created in nine headers of up to 255 entries, then referred to from nine more
    snd = Sender(rng, "sweep")
    names = [b"s%d" % k for k in range(2048)]
    msgs, want, did = [], [], []
    for rnd in range(2):
        for lo in range(0, 2048, 255):
            ts = [("t", [("a", a) for a in names[lo:lo + 255]])]
            msgs.append(snd.message(ts).hex())
            did.append(snd.last)
            want.append([etf.denote(t) for t in ts])
    if snd.next_slot == 2047:
        case = "hdrdec " + ",".join(msgs)
        rcases.append(case)
        schk.append("sndchk " + " ;; ".join(did))
        meant[case] = (want, "sweep", False)
    ctx.diff_domain("codec", rcases, oracle=reader_oracle(meant), nontrivial=lambda c, i: c if c.count(",") >= 1 else None,
                    classify=lambda c, i: ["op:hdrdec", "msgs:%d" % (c.count(",") + 1), "sender:" + meant[c][1]])
    # the sender of the theorems (Codec/AtomCache.v) is the sender of these histories: same header bytes, same atoms meant
    outs = vlib.run_lines(vlib.MODEL_BIN, "codec", schk)
    for c, o in zip(schk, outs):
        ctx.evaluations += 1
        ctx.traces += 1
        ctx.hist["op:sndchk:" + o.split()[0]] += 1
        if o != "match":
            ctx.disagreements.append(("codec", c[:400], "(header bytes and atoms of the spec sender)", o))
