(* Facts about the wrapper conversions: in memory and after the representation change of the wire (norm), and the
   proplist / map helpers. *)
From Coq Require Import Permutation.
From EDP Require Import Base.Bytes Term.Term Term.Access Term.AccessFacts Order.Cmp Order.CmpFacts Codec.Encode Codec.Norm
  Elixir.Range Elixir.RangeFacts Elixir.Wrap.
Open Scope Z_scope.

(* ---------- integers across the wire: as_integer undoes norm_int on every i64 ---------- *)
Lemma strip_hi_length r : (length (strip_hi r) <= length r)%nat.
Proof. induction r as [|x r IH]; [apply le_n|]. cbn [strip_hi]. destruct (x =? 0)%N; cbn [length]; lia. Qed.

Lemma all_zero_firstn n l : forallb (fun x => x =? 0)%N l = true -> forallb (fun x => x =? 0)%N (firstn n l) = true.
Proof.
  revert n. induction l as [|x l IH]; intros [|n] H; try reflexivity. cbn [firstn forallb] in *.
  apply andb_prop in H as [H1 H2]. now rewrite H1, IH.
Qed.

Lemma unle_significant l : unle (significant l) = unle l.
Proof.
  unfold significant. destruct (rev (strip_hi (rev l))) as [|x s] eqn:E.
  - destruct (strip_hi_split (rev l)) as (zs & Hz & Hall).
    assert (Hs : strip_hi (rev l) = []).
    { apply (f_equal (@rev N)) in E. rewrite rev_involutive in E. exact E. }
    rewrite Hs, app_nil_r in Hz. assert (Hl : forallb (fun x => x =? 0)%N l = true).
    { rewrite <- (rev_involutive l), Hz, forallb_rev. exact Hall. }
    rewrite (unle_zeros _ Hl). apply unle_zeros. apply all_zero_firstn. exact Hl.
  - rewrite <- E. apply unle_strip.
Qed.

Lemma significant_length l : (length (significant l) <= length l)%nat.
Proof.
  unfold significant. destruct (rev (strip_hi (rev l))) as [|x s] eqn:E.
  - rewrite firstn_length. lia.
  - rewrite <- E, rev_length. etransitivity; [apply strip_hi_length|]. now rewrite rev_length.
Qed.

Lemma as_integer_norm_int z : i64_ok z = true -> as_integer (norm_int z) = Some z.
Proof.
  intros Hz. apply i64_ok_bounds in Hz. unfold i64_min, i64_max in Hz. unfold norm_int.
  destruct (in_i32 z); [reflexivity|]. cbn [as_integer]. unfold big_to_i64.
  set (d := significant (le 8 (Z.to_N (Z.abs z)))).
  assert (Hlen : (len (rev (strip_hi (rev d))) <= 8)%N).
  { unfold len. rewrite rev_length. pose proof (strip_hi_length (rev d)) as H1. rewrite rev_length in H1.
    pose proof (significant_length (le 8 (Z.to_N (Z.abs z)))) as H2. rewrite le_length in H2. fold d in H2. lia. }
  destruct (8 <? len (rev (strip_hi (rev d))))%N eqn:E; [apply N.ltb_lt in E; lia|].
  rewrite unle_strip. unfold d. rewrite unle_significant, unle_le.
  change (256 ^ N.of_nat 8)%N with 18446744073709551616%N.
  rewrite N.mod_small by lia. rewrite Z2N.id by lia.
  destruct (z <? 0) eqn:Es.
  - apply Z.ltb_lt in Es. destruct (Z.abs z <=? 9223372036854775808) eqn:E2; [|apply Z.leb_gt in E2; lia].
    f_equal. lia.
  - apply Z.ltb_ge in Es. destruct (Z.abs z <=? 9223372036854775807) eqn:E2; [|apply Z.leb_gt in E2; lia].
    f_equal. lia.
Qed.

Lemma as_integer_int z : as_integer (TInt z) = Some z.
Proof. reflexivity. Qed.

(* ---------- field casts ---------- *)
Definition is_u8 (z : Z) : Prop := 0 <= z <= 255.
Definition is_u32 (z : Z) : Prop := 0 <= z <= 4294967295.
Definition is_i32 (z : Z) : Prop := -2147483648 <= z <= 2147483647.

Lemma to_u8_ok z : is_u8 z -> to_u8 z = Some z.
Proof. unfold is_u8, to_u8. intros H. destruct (0 <=? z) eqn:E1; [|apply Z.leb_gt in E1; lia].
  destruct (z <=? 255) eqn:E2; [reflexivity|apply Z.leb_gt in E2; lia]. Qed.
Lemma to_u32_ok z : is_u32 z -> to_u32 z = Some z.
Proof. unfold is_u32, to_u32. intros H. destruct (0 <=? z) eqn:E1; [|apply Z.leb_gt in E1; lia].
  destruct (z <=? 4294967295) eqn:E2; [reflexivity|apply Z.leb_gt in E2; lia]. Qed.
Lemma to_i32_ok z : is_i32 z -> to_i32 z = Some z.
Proof. unfold is_i32, to_i32. intros H. destruct (-2147483648 <=? z) eqn:E1; [|apply Z.leb_gt in E1; lia].
  destruct (z <=? 2147483647) eqn:E2; [reflexivity|apply Z.leb_gt in E2; lia]. Qed.

(* the casts reject what does not fit: nothing outside the field's range is ever produced *)
Lemma to_u8_range z v : to_u8 z = Some v -> v = z /\ is_u8 z.
Proof. unfold to_u8, is_u8. destruct (0 <=? z) eqn:E1; [|discriminate]. destruct (z <=? 255) eqn:E2; [|discriminate].
  apply Z.leb_le in E1, E2. intros [= <-]. lia. Qed.
Lemma to_u32_range z v : to_u32 z = Some v -> v = z /\ is_u32 z.
Proof. unfold to_u32, is_u32. destruct (0 <=? z) eqn:E1; [|discriminate]. destruct (z <=? 4294967295) eqn:E2; [|discriminate].
  apply Z.leb_le in E1, E2. intros [= <-]. lia. Qed.
Lemma to_i32_range z v : to_i32 z = Some v -> v = z /\ is_i32 z.
Proof. unfold to_i32, is_i32. destruct (-2147483648 <=? z) eqn:E1; [|discriminate]. destruct (z <=? 2147483647) eqn:E2; [|discriminate].
  apply Z.leb_le in E1, E2. intros [= <-]. lia. Qed.

(* ---------- well-formed wrapper values: what a value of the Rust type can hold, minus recorded findings ---------- *)
Definition sok (s : estr) : Prop := exists b, s = StrOk b /\ utf8_valid b = true.
Definition osok (o : option estr) : Prop := match o with Some s => sok s | None => True end.
Definition no_prefix (s : estr) : Prop := starts_with n_elixir_dot (estr_bytes s) = false.

Definition wf_wval (w : wval) : Prop :=
  match w with
  | WRange r => range_ok r
  | WDate y m d => is_i32 y /\ is_u8 m /\ is_u8 d
  | WTime h mi s us prec => is_u8 h /\ is_u8 mi /\ is_u8 s /\ is_u32 us /\ is_u8 prec
  | WNaive y m d h mi s us prec => is_i32 y /\ is_u8 m /\ is_u8 d /\ is_u8 h /\ is_u8 mi /\ is_u8 s /\ is_u32 us /\ is_u8 prec
  | WDateTime y m d h mi s us prec tz abbr utc std =>
      is_i32 y /\ is_u8 m /\ is_u8 d /\ is_u8 h /\ is_u8 mi /\ is_u8 s /\ is_u32 us /\ is_u8 prec /\
      sok tz /\ sok abbr /\ is_i32 utc /\ is_i32 std
  | WMapSet els => map_of_list cmp_owned (map (fun e => (e, TList [])) els) = map (fun e => (e, TList [])) els
  | WMsgErr _ msg => sok msg
  | WKeyErr _ _ msg => osok msg
  | WTermErr _ _ => True
  (* a module name that already carries the Elixir. prefix loses it on the way back: recorded finding
     C20-exception-module-prefix; a function called nil and an argument list that is the atom nil are
     indistinguishable from an absent field by construction of the term *)
  | WUndef mo fn a reason => (exists b, mo = StrOk b) /\ (exists b, fn = StrOk b) /\ no_prefix mo /\ is_u8 a /\ osok reason
  | WFClause mo fn a args =>
      match mo with Some s => (exists b, s = StrOk b) /\ no_prefix s | None => True end /\
      match fn with Some s => (exists b, s = StrOk b) /\ eq_bytes (estr_bytes s) n_nil = false | None => True end /\
      match a with Some z => is_u8 z | None => True end /\
      match args with Some t => is_atom_named n_nil t = false | None => True end
  | WCond => True
  end.

(* what the wire does to a wrapper: embedded terms change representation (norm), typed fields do not *)
Definition wnorm (w : wval) : wval :=
  match w with
  | WMapSet els => WMapSet (map norm els)
  | WKeyErr key tm msg => WKeyErr (norm key) (norm tm) msg
  | WTermErr k tm => WTermErr k (norm tm)
  | WFClause mo fn a args => WFClause mo fn a (option_map norm args)
  | _ => w
  end.
Definition wf_wire (w : wval) : Prop :=
  match w with
  | WFClause _ _ _ (Some t) => is_atom_named n_nil (norm t) = false
  | _ => True
  end.

Lemma strip_add s : starts_with n_elixir_dot s = false -> strip_elixir (add_elixir s) = s.
Proof.
  intros H. unfold add_elixir. rewrite H. unfold strip_elixir.
  assert (Hs : starts_with n_elixir_dot (n_elixir_dot ++ s) = true).
  { unfold starts_with. rewrite firstn_app, firstn_all, Nat.sub_diag. cbn [firstn]. rewrite app_nil_r. reflexivity. }
  rewrite Hs. now rewrite skipn_app, skipn_all, Nat.sub_diag.
Qed.

Lemma eq_add_elixir_nil mb : eq_bytes (add_elixir mb) n_nil = false.
Proof.
  unfold add_elixir. destruct (starts_with n_elixir_dot mb) eqn:E; [|reflexivity].
  unfold starts_with in E. destruct mb as [|x r]; [discriminate E|].
  unfold eq_bytes in E. destruct (cmp_bytes (firstn (length n_elixir_dot) (x :: r)) n_elixir_dot) eqn:Ec; try discriminate E.
  apply cmp_bytes_eq in Ec. cbn [length n_elixir_dot firstn] in Ec. injection Ec as Ex _. subst x. reflexivity.
Qed.

Ltac field_casts :=
  repeat match goal with
  | H : is_u8 ?z |- context [to_u8 ?z] => rewrite (to_u8_ok z H)
  | H : is_u32 ?z |- context [to_u32 ?z] => rewrite (to_u32_ok z H)
  | H : is_i32 ?z |- context [to_i32 ?z] => rewrite (to_i32_ok z H)
  end.

Ltac wcbv := cbv -[norm_int utf8_valid to_u8 to_u32 to_i32 rfirst rlast rstep strip_elixir add_elixir
                   Z.leb Z.le Z.lt N.leb len is_atom_named].
Ltac wcbv_in H := cbv -[norm_int utf8_valid to_u8 to_u32 to_i32 rfirst rlast rstep strip_elixir add_elixir
                         Z.leb Z.le Z.lt N.leb len is_atom_named] in H.
Ltac wcbv_wire_in H := cbv -[norm_int as_integer utf8_valid to_u8 to_u32 to_i32 rfirst rlast rstep strip_elixir add_elixir
                        Z.leb Z.le Z.lt N.leb len is_atom_named] in H.
Ltac wcbv_wire := cbv -[norm_int as_integer utf8_valid to_u8 to_u32 to_i32 rfirst rlast rstep strip_elixir add_elixir
                        Z.leb Z.le Z.lt N.leb len is_atom_named].

Lemma msg_module_cases kind : msg_module kind = m_argument \/ msg_module kind = m_runtime \/ msg_module kind = m_arithmetic.
Proof. unfold msg_module. destruct kind as [|[p|p|]]; auto. Qed.
Lemma term_module_cases kind : term_module kind = m_match \/ term_module kind = m_badmap \/ term_module kind = m_badfun \/
  term_module kind = m_caseclause \/ term_module kind = m_withclause.
Proof. unfold term_module. destruct kind as [|[[p|p|]|[p|p|]|]]; auto 6. Qed.

Lemma eq_bytes_refl a : eq_bytes a a = true.
Proof. unfold eq_bytes. now rewrite cmp_bytes_refl. Qed.

Lemma mapset_keys els : map fst (map (fun e : term => (e, TList [])) els) = els.
Proof. rewrite map_map. cbn [fst]. apply map_id. Qed.

Lemma mapset_from inner sz :
  wfrom_term KMapSet (mk_map [(TAtom n_struct, TAtom m_mapset); (TAtom n_map, TTuple [TAtom n_set; sz; TMap inner])])
  = Some (WMapSet (map fst inner)).
Proof. reflexivity. Qed.

(* ---------- every wrapper converts to a term and back to an equal value ---------- *)
Theorem roundtrip_memory w : wf_wval w -> wfrom_term (kind_of w) (wto_term w) = Some w.
Proof.
  destruct w as [r|y m d|h mi s us prec|y m d h mi s us prec|y m d h mi s us prec tz abbr utc std|els|kind msg|key tm msg
                 |kind tm|mo fn a reason|mo fn a args|]; cbn [wf_wval kind_of].
  - intros _. destruct r. reflexivity.
  - intros (Hy & Hm & Hd). wcbv. field_casts. reflexivity.
  - intros (Hh & Hmi & Hs & Hus & Hp). wcbv. field_casts. reflexivity.
  - intros (Hy & Hm & Hd & Hh & Hmi & Hs & Hus & Hp). wcbv. field_casts. reflexivity.
  - intros (Hy & Hm & Hd & Hh & Hmi & Hs & Hus & Hp & (tzb & -> & Htz) & (abb & -> & Hab) & Hutc & Hstd).
    wcbv. field_casts. rewrite Htz, Hab. reflexivity.
  - intros Hst. cbn [wto_term]. rewrite Hst, mapset_from. now rewrite mapset_keys.
  - intros (b & -> & Hb). cbn [wto_term wfrom_term].
    destruct (msg_module_cases kind) as [E|[E|E]]; rewrite E; wcbv; rewrite Hb; reflexivity.
  - intros Hm. destruct msg as [s|]; [destruct Hm as (b & -> & Hb); wcbv; rewrite Hb|wcbv]; reflexivity.
  - intros _. cbn [wto_term wfrom_term].
    destruct (term_module_cases kind) as [E|[E|[E|[E|E]]]]; rewrite E; reflexivity.
  - intros ((mb & ->) & (fb & ->) & Hnp & Ha & Hr). unfold no_prefix in Hnp. cbn [estr_bytes] in Hnp.
    destruct reason as [s|]; [destruct Hr as (b & -> & Hb)|]; wcbv; field_casts;
      rewrite (strip_add mb Hnp), ?Hb; reflexivity.
  - intros (Hmo & Hfn & Ha & Hargs).
    destruct mo as [s|]; [destruct Hmo as ((mb & ->) & Hnp); unfold no_prefix in Hnp; cbn [estr_bytes] in Hnp|];
    (destruct fn as [s|]; [destruct Hfn as ((fb & ->) & Hfn); cbn [estr_bytes] in Hfn|]);
    (destruct a as [z|]); (destruct args as [t|]);
    try (change n_nil with [110; 105; 108]%N in Hfn); try (change n_nil with [110; 105; 108]%N in Hargs);
    wcbv; cbn [is_atom_named]; rewrite ?eq_add_elixir_nil, ?Hfn, ?Hargs; wcbv; field_casts;
    rewrite ?(strip_add _ Hnp); reflexivity.
  - intros _. reflexivity.
Qed.

(* ---------- ... and also after the term has been through the wire encoding ---------- *)
(* decode (encode t) = norm t is C01's theorem; here: reading the normalised term gives the wrapper back, with
   embedded terms in their wire representation (wnorm) and every typed field unchanged *)
Theorem roundtrip_wire w : wf_wval w -> wf_wire w -> wfrom_term (kind_of w) (norm (wto_term w)) = Some (wnorm w).
Proof.
  destruct w as [r|y m d|h mi s us prec|y m d h mi s us prec|y m d h mi s us prec tz abbr utc std|els|kind msg|key tm msg
                 |kind tm|mo fn a reason|mo fn a args|]; cbn [wf_wval wf_wire kind_of wnorm]; intros Hwf Hw.
  - destruct Hwf as (Hf & Hl & Hs). destruct r as [f l s]. cbn [rfirst rlast rstep] in *. wcbv_wire.
    rewrite !as_integer_norm_int by assumption. reflexivity.
  - destruct Hwf as (Hy & Hm & Hd). wcbv_wire.
    rewrite !as_integer_norm_int by (apply i64_ok_intro; unfold is_i32, is_u8, i64_min, i64_max in *; lia).
    field_casts. reflexivity.
  - destruct Hwf as (Hh & Hmi & Hs & Hus & Hp). wcbv_wire.
    rewrite !as_integer_norm_int by (apply i64_ok_intro; unfold is_i32, is_u8, is_u32, i64_min, i64_max in *; lia).
    field_casts. reflexivity.
  - destruct Hwf as (Hy & Hm & Hd & Hh & Hmi & Hs & Hus & Hp). wcbv_wire.
    rewrite !as_integer_norm_int by (apply i64_ok_intro; unfold is_i32, is_u8, is_u32, i64_min, i64_max in *; lia).
    field_casts. reflexivity.
  - destruct Hwf as (Hy & Hm & Hd & Hh & Hmi & Hs & Hus & Hp & (tzb & -> & Htz) & (abb & -> & Hab) & Hutc & Hstd).
    wcbv_wire.
    rewrite !as_integer_norm_int by (apply i64_ok_intro; unfold is_i32, is_u8, is_u32, i64_min, i64_max in *; lia).
    field_casts. rewrite Htz, Hab. reflexivity.
  - cbn [wto_term]. rewrite Hwf.
    change (norm (mk_map [(TAtom n_struct, TAtom m_mapset);
              (TAtom n_map, TTuple [TAtom n_set; TInt (Z.of_N (len els)); TMap (map (fun e => (e, TList [])) els)])]))
      with (mk_map [(TAtom n_struct, TAtom m_mapset);
              (TAtom n_map, TTuple [TAtom n_set; norm_int (Z.of_N (len els));
                                    TMap (map (fun kv => (norm (fst kv), norm (snd kv))) (map (fun e => (e, TList [])) els))])]).
    rewrite mapset_from. f_equal. f_equal. rewrite !map_map. cbn [fst]. reflexivity.
  - destruct Hwf as (b & -> & Hb). cbn [wto_term wfrom_term].
    destruct (msg_module_cases kind) as [E|[E|E]]; rewrite E; wcbv_wire; rewrite Hb; reflexivity.
  - destruct msg as [s|]; [destruct Hwf as (b & -> & Hb); wcbv_wire; rewrite Hb|wcbv_wire]; reflexivity.
  - cbn [wto_term wfrom_term]. destruct (term_module_cases kind) as [E|[E|[E|[E|E]]]]; rewrite E; reflexivity.
  - destruct Hwf as ((mb & ->) & (fb & ->) & Hnp & Ha & Hr). unfold no_prefix in Hnp. cbn [estr_bytes] in Hnp.
    destruct reason as [s|]; [destruct Hr as (b & -> & Hb)|]; wcbv_wire;
      rewrite as_integer_norm_int by (apply i64_ok_intro; unfold is_u8, i64_min, i64_max in *; lia); field_casts;
      rewrite (strip_add mb Hnp), ?Hb; reflexivity.
  - destruct Hwf as (Hmo & Hfn & Ha & Hargs).
    destruct mo as [s|]; [destruct Hmo as ((mb & ->) & Hnp); unfold no_prefix in Hnp; cbn [estr_bytes] in Hnp|];
    (destruct fn as [s|]; [destruct Hfn as ((fb & ->) & Hfn); cbn [estr_bytes] in Hfn|]);
    (destruct a as [z|]); (destruct args as [t|]); cbn [option_map];
    try (change n_nil with [110; 105; 108]%N in Hfn); try (wcbv_wire_in Hw);
    wcbv_wire; cbn [is_atom_named]; rewrite ?eq_add_elixir_nil, ?Hfn, ?Hw; wcbv_wire;
    rewrite ?as_integer_norm_int by (apply i64_ok_intro; unfold is_u8, i64_min, i64_max in *; lia);
    wcbv_wire; field_casts; rewrite ?(strip_add _ Hnp); reflexivity.
  - reflexivity.
Qed.

(* ---------- a term of the wrong shape or with out-of-range fields is rejected, never turned into a value ---------- *)
(* whatever a wfrom_term returns satisfies the field ranges of its type *)
Definition in_type (w : wval) : Prop :=
  match w with
  | WDate y m d => is_i32 y /\ is_u8 m /\ is_u8 d
  | WTime h mi s us prec => is_u8 h /\ is_u8 mi /\ is_u8 s /\ is_u32 us /\ is_u8 prec
  | WNaive y m d h mi s us prec => is_i32 y /\ is_u8 m /\ is_u8 d /\ is_u8 h /\ is_u8 mi /\ is_u8 s /\ is_u32 us /\ is_u8 prec
  | WDateTime y m d h mi s us prec _ _ utc std =>
      is_i32 y /\ is_u8 m /\ is_u8 d /\ is_u8 h /\ is_u8 mi /\ is_u8 s /\ is_u32 us /\ is_u8 prec /\ is_i32 utc /\ is_i32 std
  | WUndef _ _ a _ => is_u8 a
  | WFClause _ _ (Some a) _ => is_u8 a
  | _ => True
  end.

Lemma read_date_spec m y mo d : read_date m = Some (y, mo, d) ->
  int_field n_year m = Some y /\ int_field n_month m = Some mo /\ int_field n_day m = Some d /\ is_i32 y /\ is_u8 mo /\ is_u8 d.
Proof.
  unfold read_date, obind. destruct (int_field n_year m) as [y0|]; [|discriminate].
  destruct (to_i32 y0) as [y1|] eqn:E1; [|discriminate]. destruct (int_field n_month m) as [m0|]; [|discriminate].
  destruct (to_u8 m0) as [m1|] eqn:E2; [|discriminate]. destruct (int_field n_day m) as [d0|]; [|discriminate].
  destruct (to_u8 d0) as [d1|] eqn:E3; [|discriminate]. intros [= <- <- <-].
  destruct (to_i32_range _ _ E1) as [-> ?], (to_u8_range _ _ E2) as [-> ?], (to_u8_range _ _ E3) as [-> ?]. auto 7.
Qed.

Lemma read_hms_spec m h mi s : read_hms m = Some (h, mi, s) ->
  int_field n_hour m = Some h /\ int_field n_minute m = Some mi /\ int_field n_second m = Some s /\ is_u8 h /\ is_u8 mi /\ is_u8 s.
Proof.
  unfold read_hms, obind. destruct (int_field n_hour m) as [y0|]; [|discriminate].
  destruct (to_u8 y0) as [y1|] eqn:E1; [|discriminate]. destruct (int_field n_minute m) as [m0|]; [|discriminate].
  destruct (to_u8 m0) as [m1|] eqn:E2; [|discriminate]. destruct (int_field n_second m) as [d0|]; [|discriminate].
  destruct (to_u8 d0) as [d1|] eqn:E3; [|discriminate]. intros [= <- <- <-].
  destruct (to_u8_range _ _ E1) as [-> ?], (to_u8_range _ _ E2) as [-> ?], (to_u8_range _ _ E3) as [-> ?]. auto 7.
Qed.

Lemma microsecond_spec m us p : microsecond_field m = Some (us, p) -> is_u32 us /\ is_u8 p.
Proof.
  unfold microsecond_field. destruct (aget n_microsecond m) as [t|]; [|intros [= <- <-]; unfold is_u32, is_u8; lia].
  destruct t; try (intros [= <- <-]; unfold is_u32, is_u8; lia).
  destruct l as [|v [|pr [|x r]]]; try (intros [= <- <-]; unfold is_u32, is_u8; lia).
  unfold obind. destruct (as_integer v) as [v0|]; [|discriminate]. destruct (to_u32 v0) as [v1|] eqn:E1; [|discriminate].
  destruct (as_integer pr) as [p0|]; [|discriminate]. destruct (to_u8 p0) as [p1|] eqn:E2; [|discriminate].
  intros [= <- <-]. destruct (to_u32_range _ _ E1) as [-> ?], (to_u8_range _ _ E2) as [-> ?]. auto.
Qed.

Theorem from_term_in_type k t w : wfrom_term k t = Some w -> in_type w.
Proof.
  destruct k; cbn [wfrom_term]; unfold obind.
  - destruct (struct_fields m_range t); [|discriminate]. repeat (match goal with |- context [int_field ?n ?m] => destruct (int_field n m) end; [|discriminate]).
    intros [= <-]. exact I.
  - destruct (struct_fields m_date t) as [m|]; [|discriminate]. destruct (read_date m) as [[[y mo] d]|] eqn:E; [|discriminate].
    intros [= <-]. destruct (read_date_spec _ _ _ _ E) as (_ & _ & _ & ? & ? & ?). cbn [in_type]. auto.
  - destruct (struct_fields m_time t) as [m|]; [|discriminate]. destruct (read_hms m) as [[[h mi] s]|] eqn:E; [|discriminate].
    destruct (microsecond_field m) as [[us p]|] eqn:E2; [|discriminate]. intros [= <-].
    destruct (read_hms_spec _ _ _ _ E) as (_ & _ & _ & ? & ? & ?). destruct (microsecond_spec _ _ _ E2). cbn [in_type fst snd]. auto 7.
  - destruct (struct_fields m_naive t) as [m|]; [|discriminate]. destruct (read_date m) as [[[y mo] d]|] eqn:E0; [|discriminate].
    destruct (read_hms m) as [[[h mi] s]|] eqn:E; [|discriminate].
    destruct (microsecond_field m) as [[us p]|] eqn:E2; [|discriminate]. intros [= <-].
    destruct (read_date_spec _ _ _ _ E0) as (_ & _ & _ & ? & ? & ?).
    destruct (read_hms_spec _ _ _ _ E) as (_ & _ & _ & ? & ? & ?). destruct (microsecond_spec _ _ _ E2). cbn [in_type fst snd]. auto 10.
  - destruct (struct_fields m_datetime t) as [m|]; [|discriminate]. destruct (read_date m) as [[[y mo] d]|] eqn:E0; [|discriminate].
    destruct (read_hms m) as [[[h mi] s]|] eqn:E; [|discriminate].
    destruct (microsecond_field m) as [[us p]|] eqn:E2; [|discriminate].
    destruct (aget n_time_zone m) as [tzt|]; [|discriminate]. destruct (as_erlang_string tzt); [|discriminate].
    destruct (aget n_zone_abbr m) as [abt|]; [|discriminate]. destruct (as_erlang_string abt); [|discriminate].
    destruct (int_field n_utc_offset m) as [u0|]; [|discriminate]. destruct (to_i32 u0) as [u1|] eqn:E3; [|discriminate].
    destruct (int_field n_std_offset m) as [s0|]; [|discriminate]. destruct (to_i32 s0) as [s1|] eqn:E4; [|discriminate].
    intros [= <-].
    destruct (read_date_spec _ _ _ _ E0) as (_ & _ & _ & ? & ? & ?).
    destruct (read_hms_spec _ _ _ _ E) as (_ & _ & _ & ? & ? & ?). destruct (microsecond_spec _ _ _ E2).
    destruct (to_i32_range _ _ E3) as [-> ?], (to_i32_range _ _ E4) as [-> ?]. cbn [in_type fst snd]. auto 12.
  - destruct (struct_fields m_mapset t) as [m|]; [|discriminate]. destruct (aget n_map m) as [mv|]; [|discriminate].
    repeat (match goal with |- (match ?x with _ => _ end = _) -> _ => destruct x end; try discriminate).
    intros [= <-]. exact I.
  - destruct (struct_fields (msg_module kind) t) as [m|]; [|discriminate]. destruct (aget n_message m) as [mt|]; [|discriminate].
    destruct (as_erlang_string mt); [|discriminate]. intros [= <-]. exact I.
  - destruct (struct_fields m_key t) as [m|]; [|discriminate]. destruct (aget n_key m); [|discriminate].
    destruct (aget n_term m); [|discriminate]. intros [= <-]. exact I.
  - destruct (struct_fields (term_module kind) t) as [m|]; [|discriminate]. destruct (aget n_term m); [|discriminate].
    intros [= <-]. exact I.
  - destruct (struct_fields m_undef t) as [m|]; [|discriminate]. destruct (aget n_module m) as [mt|]; [|discriminate].
    destruct (atom_name mt); [|discriminate]. destruct (aget n_function m) as [ft|]; [|discriminate].
    destruct (atom_name ft); [|discriminate]. destruct (int_field n_arity m) as [a0|]; [|discriminate].
    destruct (to_u8 a0) as [a1|] eqn:E; [|discriminate]. intros [= <-]. destruct (to_u8_range _ _ E) as [-> ?]. exact H.
  - destruct (struct_fields m_fclause t) as [m|]; [|discriminate]. intros [= <-]. cbn [in_type].
    destruct (aget n_arity m) as [at_|]; [|exact I]. cbn [obind]. destruct (as_integer at_) as [a0|]; [|exact I].
    cbn [obind]. destruct (to_u8 a0) as [a1|] eqn:E; [|exact I]. destruct (to_u8_range _ _ E) as [-> ?]. exact H.
  - destruct (struct_fields m_cond t); [|discriminate]. intros [= <-]. exact I.
Qed.

(* a term that is not a map carrying the wrapper's own __struct__ atom is rejected *)
Definition module_of (k : wkind) : bytes :=
  match k with
  | KRange => m_range | KDate => m_date | KTime => m_time | KNaive => m_naive | KDateTime => m_datetime
  | KMapSet => m_mapset | KMsgErr kind => msg_module kind | KKeyErr => m_key | KTermErr kind => term_module kind
  | KUndef => m_undef | KFClause => m_fclause | KCond => m_cond
  end.

Theorem from_term_wrong_struct k t : struct_fields (module_of k) t = None -> wfrom_term k t = None.
Proof. intros H. destruct k; cbn [wfrom_term module_of] in *; rewrite H; reflexivity. Qed.

Lemma struct_fields_spec name t m : struct_fields name t = Some m ->
  t = TMap m /\ exists a, aget n_struct m = Some (TAtom a) /\ a = name.
Proof.
  unfold struct_fields, struct_module. destruct t; try discriminate. unfold obind.
  destruct (aget n_struct kvs) as [v|] eqn:E; [|discriminate]. destruct v; try discriminate. cbn [atom_name].
  match goal with |- context [eq_bytes ?x name] => rename x into a end.
  destruct (eq_bytes a name) eqn:Ea; [|discriminate]. intros [= <-]. split; [reflexivity|]. exists a. split; [exact E|].
  unfold eq_bytes in Ea. destruct (cmp_bytes a name) eqn:Ec; try discriminate. now apply cmp_bytes_eq.
Qed.
