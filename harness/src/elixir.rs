//! Elixir wrappers, range arithmetic, proplist helpers and builders (C20).
use crate::termio::{Toks, read_term, term_str};
use crate::util::{hex, unhex};
use edp_elixir_terms::*;
use erltf::OwnedTerm;

fn s_in(t: &mut Toks) -> String {
    String::from_utf8(unhex(t.next())).expect("utf8 string")
}
fn s_opt_in(t: &mut Toks) -> Option<String> {
    let s = t.next();
    if s == "-" { None } else { Some(String::from_utf8(unhex(s)).expect("utf8 string")) }
}
fn s_out(s: &str) -> String {
    if s.contains('\u{fffd}') { "LOSSY".to_string() } else { hex(s.as_bytes()) }
}
fn s_opt_out(s: &Option<String>) -> String {
    match s {
        None => "-".to_string(),
        Some(s) => s_out(s),
    }
}

enum W {
    Range(ElixirRange),
    Date(ElixirDate),
    Time(ElixirTime),
    Naive(ElixirNaiveDateTime),
    DateTime(ElixirDateTime),
    MapSet(ElixirMapSet),
    Argument(ArgumentError),
    Runtime(RuntimeError),
    Arithmetic(ArithmeticError),
    Key(KeyError),
    Match(MatchError),
    BadMap(BadMapError),
    BadFunction(BadFunctionError),
    CaseClause(CaseClauseError),
    WithClause(WithClauseError),
    Undef(UndefinedFunctionError),
    FClause(FunctionClauseError),
    Cond(CondClauseError),
}

fn read_w(t: &mut Toks) -> W {
    match t.next() {
        "range" => W::Range(ElixirRange { first: t.num(), last: t.num(), step: t.num() }),
        "date" => W::Date(ElixirDate { year: t.num(), month: t.num(), day: t.num() }),
        "time" => W::Time(ElixirTime {
            hour: t.num(),
            minute: t.num(),
            second: t.num(),
            microsecond_value: t.num(),
            microsecond_precision: t.num(),
        }),
        "naive" => W::Naive(ElixirNaiveDateTime {
            year: t.num(),
            month: t.num(),
            day: t.num(),
            hour: t.num(),
            minute: t.num(),
            second: t.num(),
            microsecond_value: t.num(),
            microsecond_precision: t.num(),
        }),
        "datetime" => W::DateTime(ElixirDateTime {
            year: t.num(),
            month: t.num(),
            day: t.num(),
            hour: t.num(),
            minute: t.num(),
            second: t.num(),
            microsecond_value: t.num(),
            microsecond_precision: t.num(),
            time_zone: s_in(t),
            zone_abbr: s_in(t),
            utc_offset: t.num(),
            std_offset: t.num(),
        }),
        "mapset" => {
            let n: usize = t.num();
            let els: Vec<OwnedTerm> = (0..n).map(|_| read_term(t)).collect();
            // every public way of building the set from these members must give the same set
            let a = ElixirMapSet::from_values(els.clone());
            let b: ElixirMapSet = els.clone().into_iter().collect();
            let mut c = ElixirMapSet::new();
            for e in els.clone() {
                c.insert(e);
            }
            let half = els.len() / 2;
            let d = ElixirMapSet::from_values(els[..half].to_vec()).union(&ElixirMapSet::from_values(els[half..].to_vec()));
            if a != b || a != c || a != d {
                NOTES.with(|n| {
                    n.borrow_mut().push(format!("mapset-constructors from_values={} collect={} insert={} union={}", a.len(), b.len(), c.len(), d.len()))
                });
            }
            W::MapSet(a)
        }
        "msgerr" => {
            let kind: u32 = t.num();
            let msg = s_in(t);
            match kind {
                0 => W::Argument(ArgumentError { message: msg }),
                1 => W::Runtime(RuntimeError { message: msg }),
                _ => W::Arithmetic(ArithmeticError { message: msg }),
            }
        }
        "keyerr" => {
            let key = read_term(t);
            let term = read_term(t);
            W::Key(KeyError { key, term, message: s_opt_in(t) })
        }
        "termerr" => {
            let kind: u32 = t.num();
            let term = read_term(t);
            match kind {
                0 => W::Match(MatchError { term }),
                1 => W::BadMap(BadMapError { term }),
                2 => W::BadFunction(BadFunctionError { term }),
                3 => W::CaseClause(CaseClauseError { term }),
                _ => W::WithClause(WithClauseError { term }),
            }
        }
        "undef" => W::Undef(UndefinedFunctionError {
            module: s_in(t),
            function: s_in(t),
            arity: t.num(),
            reason: s_opt_in(t),
        }),
        "fclause" => {
            let module = s_opt_in(t);
            let function = s_opt_in(t);
            let a = t.next();
            let arity = if a == "-" { None } else { Some(a.parse::<u8>().expect("arity")) };
            let args = if t.next() == "-" { None } else { Some(read_term(t)) };
            W::FClause(FunctionClauseError { module, function, arity, args })
        }
        "cond" => W::Cond(CondClauseError),
        other => panic!("bad wrapper {other}"),
    }
}

fn to_term(w: W) -> OwnedTerm {
    match w {
        W::Range(x) => x.into(),
        W::Date(x) => x.into(),
        W::Time(x) => x.into(),
        W::Naive(x) => x.into(),
        W::DateTime(x) => x.into(),
        W::MapSet(x) => x.into(),
        W::Argument(x) => x.into(),
        W::Runtime(x) => x.into(),
        W::Arithmetic(x) => x.into(),
        W::Key(x) => x.into(),
        W::Match(x) => x.into(),
        W::BadMap(x) => x.into(),
        W::BadFunction(x) => x.into(),
        W::CaseClause(x) => x.into(),
        W::WithClause(x) => x.into(),
        W::Undef(x) => x.into(),
        W::FClause(x) => x.into(),
        W::Cond(x) => x.into(),
    }
}

fn kind_of(w: &W) -> String {
    match w {
        W::Range(_) => "range",
        W::Date(_) => "date",
        W::Time(_) => "time",
        W::Naive(_) => "naive",
        W::DateTime(_) => "datetime",
        W::MapSet(_) => "mapset",
        W::Argument(_) => "msgerr:0",
        W::Runtime(_) => "msgerr:1",
        W::Arithmetic(_) => "msgerr:2",
        W::Key(_) => "keyerr",
        W::Match(_) => "termerr:0",
        W::BadMap(_) => "termerr:1",
        W::BadFunction(_) => "termerr:2",
        W::CaseClause(_) => "termerr:3",
        W::WithClause(_) => "termerr:4",
        W::Undef(_) => "undef",
        W::FClause(_) => "fclause",
        W::Cond(_) => "cond",
    }
    .to_string()
}

fn from_term(kind: &str, t: &OwnedTerm) -> Option<W> {
    Some(match kind {
        "range" => W::Range(ElixirRange::from_term(t)?),
        "date" => W::Date(ElixirDate::from_term(t)?),
        "time" => W::Time(ElixirTime::from_term(t)?),
        "naive" => W::Naive(ElixirNaiveDateTime::from_term(t)?),
        "datetime" => W::DateTime(ElixirDateTime::from_term(t)?),
        "mapset" => W::MapSet(ElixirMapSet::from_term(t)?),
        "msgerr:0" => W::Argument(ArgumentError::from_term(t)?),
        "msgerr:1" => W::Runtime(RuntimeError::from_term(t)?),
        "msgerr:2" => W::Arithmetic(ArithmeticError::from_term(t)?),
        "keyerr" => W::Key(KeyError::from_term(t)?),
        "termerr:0" => W::Match(MatchError::from_term(t)?),
        "termerr:1" => W::BadMap(BadMapError::from_term(t)?),
        "termerr:2" => W::BadFunction(BadFunctionError::from_term(t)?),
        "termerr:3" => W::CaseClause(CaseClauseError::from_term(t)?),
        "termerr:4" => W::WithClause(WithClauseError::from_term(t)?),
        "undef" => W::Undef(UndefinedFunctionError::from_term(t)?),
        "fclause" => W::FClause(FunctionClauseError::from_term(t)?),
        "cond" => W::Cond(CondClauseError::from_term(t)?),
        other => panic!("bad kind {other}"),
    })
}

fn show_w(w: &W) -> String {
    match w {
        W::Range(r) => format!("range {} {} {}", r.first, r.last, r.step),
        W::Date(d) => format!("date {} {} {}", d.year, d.month, d.day),
        W::Time(x) => format!(
            "time {} {} {} {} {}",
            x.hour, x.minute, x.second, x.microsecond_value, x.microsecond_precision
        ),
        W::Naive(x) => format!(
            "naive {} {} {} {} {} {} {} {}",
            x.year, x.month, x.day, x.hour, x.minute, x.second, x.microsecond_value, x.microsecond_precision
        ),
        W::DateTime(x) => format!(
            "datetime {} {} {} {} {} {} {} {} {} {} {} {}",
            x.year,
            x.month,
            x.day,
            x.hour,
            x.minute,
            x.second,
            x.microsecond_value,
            x.microsecond_precision,
            s_out(&x.time_zone),
            s_out(&x.zone_abbr),
            x.utc_offset,
            x.std_offset
        ),
        W::MapSet(s) => {
            let mut out = format!("mapset {}", s.len());
            for e in s.iter() {
                out.push(' ');
                out.push_str(&term_str(e));
            }
            out
        }
        W::Argument(e) => format!("msgerr 0 {}", s_out(&e.message)),
        W::Runtime(e) => format!("msgerr 1 {}", s_out(&e.message)),
        W::Arithmetic(e) => format!("msgerr 2 {}", s_out(&e.message)),
        W::Key(e) => format!("keyerr {} {} {}", term_str(&e.key), term_str(&e.term), s_opt_out(&e.message)),
        W::Match(e) => format!("termerr 0 {}", term_str(&e.term)),
        W::BadMap(e) => format!("termerr 1 {}", term_str(&e.term)),
        W::BadFunction(e) => format!("termerr 2 {}", term_str(&e.term)),
        W::CaseClause(e) => format!("termerr 3 {}", term_str(&e.term)),
        W::WithClause(e) => format!("termerr 4 {}", term_str(&e.term)),
        W::Undef(e) => format!("undef {} {} {} {}", s_out(&e.module), s_out(&e.function), e.arity, s_opt_out(&e.reason)),
        W::FClause(e) => format!(
            "fclause {} {} {} {}",
            s_opt_out(&e.module),
            s_opt_out(&e.function),
            e.arity.map_or("-".to_string(), |a| a.to_string()),
            e.args.as_ref().map_or("-".to_string(), |a| format!("T {}", term_str(a)))
        ),
        W::Cond(_) => "cond".to_string(),
    }
}

fn show_opt(w: Option<W>) -> String {
    w.map_or("None".to_string(), |w| show_w(&w))
}

fn res_term(r: Result<OwnedTerm, erltf::errors::TermConversionError>) -> String {
    match r {
        Ok(t) => term_str(&t),
        Err(_) => "ERR".to_string(),
    }
}

fn entries(t: &mut Toks) -> Vec<(String, OwnedTerm)> {
    let n: usize = t.num();
    (0..n).map(|_| (s_in(t), read_term(t))).collect()
}

thread_local! {
    static NOTES: std::cell::RefCell<Vec<String>> = const { std::cell::RefCell::new(Vec::new()) };
}

pub fn run_case(line: &str) -> String {
    NOTES.with(|n| n.borrow_mut().clear());
    let out = run_case_inner(line);
    let notes = NOTES.with(|n| n.borrow().join("; "));
    if notes.is_empty() { out } else { format!("{out} ;; NOTE {notes}") }
}

fn run_case_inner(line: &str) -> String {
    let mut t = Toks::new(line);
    match t.next() {
        "range" => {
            let r = ElixirRange { first: t.num(), last: t.num(), step: t.num() };
            let k: usize = t.num();
            let mut probes: Vec<i64> = Vec::new();
            while !t.peek_done() {
                probes.push(t.num());
            }
            let mut out = format!("len={} empty={}", r.len(), r.is_empty() as u8);
            out.push_str(" contains=");
            for p in &probes {
                out.push(if r.contains(*p) { '1' } else { '0' });
            }
            out.push_str(" iter=");
            let mut it = r.into_iter();
            for i in 0..k {
                let (lo, hi) = it.size_hint();
                assert_eq!(Some(lo), hi);
                if i > 0 {
                    out.push(',');
                }
                match it.next() {
                    Some(v) => out.push_str(&format!("{lo}:{v}")),
                    None => out.push_str(&format!("{lo}:-")),
                }
            }
            out
        }
        "to" => term_str(&to_term(read_w(&mut t))),
        "from" => {
            let kind = t.next();
            let term = read_term(&mut t);
            show_opt(from_term(kind, &term))
        }
        "rt" => {
            let w = read_w(&mut t);
            let kind = kind_of(&w);
            let term = to_term(w);
            let mem = show_opt(from_term(&kind, &term));
            let wire = match erltf::encode(&term) {
                Err(_) => "ENCERR".to_string(),
                Ok(b) => match erltf::decode(&b) {
                    Err(_) => "DECERR".to_string(),
                    Ok(t2) => show_opt(from_term(&kind, &t2)),
                },
            };
            format!("mem={mem} wire={wire}")
        }
        "pl" => {
            let op = t.next();
            let term = read_term(&mut t);
            match op {
                "norm" => res_term(term.normalize_proplist()),
                "tomap" => res_term(term.proplist_to_map()),
                "toplist" => res_term(term.map_to_proplist()),
                "rec" => res_term(term.to_map_recursive()),
                "isprop" => (term.is_proplist() as u8).to_string(),
                "there" => match term.proplist_to_map() {
                    Err(_) => "ERR".to_string(),
                    Ok(m) => res_term(m.map_to_proplist()),
                },
                "back" => match term.map_to_proplist() {
                    Err(_) => "ERR".to_string(),
                    Ok(l) => res_term(l.proplist_to_map()),
                },
                other => panic!("bad pl op {other}"),
            }
        }
        "kw" => {
            let mut b = KeywordListBuilder::new();
            for (k, v) in entries(&mut t) {
                b = b.put_term(&k, v);
            }
            term_str(&b.build())
        }
        "akm" => {
            let mut b = AtomKeyMapBuilder::new();
            for (k, v) in entries(&mut t) {
                b = b.insert_term(&k, v);
            }
            term_str(&b.build())
        }
        "kwget" => {
            let name = s_in(&mut t);
            let mut b = KeywordListBuilder::new();
            for (k, v) in entries(&mut t) {
                b = b.put_term(&k, v);
            }
            b.build().proplist_get_atom_key(&name).map_or("None".to_string(), term_str)
        }
        other => panic!("bad elixir op {other}"),
    }
}
