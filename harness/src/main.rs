//! Correspondence harness: runs the real edp-rs code on the cases read from stdin (one per line)
//! and prints one canonical result line per case.  Usage: harness <domain>
use std::io::{BufRead, Write};
use std::panic::{AssertUnwindSafe, catch_unwind};

mod util;
mod alloc;
mod codec;
mod control;
mod ord;
mod termio;
mod frag;
mod handshake;
mod framing;
mod pid;
mod elixir;
mod serde_dom;
mod conn;
mod node;
mod gsrv;
mod gevt;
pub fn conn_flags() -> u64 {
    0xdf7fbd | (1 << 32) | (1 << 34) | (1 << 35)
}

#[global_allocator]
static GLOBAL: alloc::Counting = alloc::Counting;

fn main() {
    let domain = std::env::args().nth(1).unwrap_or_default();
    // silence panic messages: a panic is an outcome we print ourselves
    if std::env::var_os("HARNESS_DEBUG").is_none() {
        std::panic::set_hook(Box::new(|_| {}));
    }
    let f: fn(&str) -> String = match domain.as_str() {
        "frag" => frag::run_case,
        "handshake" => handshake::run_case,
        "codec" => codec::run_case,
        "control" => control::run_case,
        "ord" => ord::run_case,
        "framing" => framing::run_case,
        "pid" => pid::run_case,
        "elixir" => elixir::run_case,
        "serde" => serde_dom::run_case,
        "conn" => conn::run_case,
        "hsk" => conn::run_hsk,
        "node" => node::run_case,
        "gsrv" => gsrv::run_case,
        "gevt" => gevt::run_case,
        _ => {
            eprintln!("unknown domain {domain}");
            std::process::exit(2);
        }
    };
    let stdin = std::io::stdin();
    let stdout = std::io::stdout();
    let mut out = std::io::BufWriter::new(stdout.lock());
    for line in stdin.lock().lines() {
        let line = line.unwrap();
        let line = line.trim_end();
        if line.is_empty() || line.starts_with('#') {
            writeln!(out, "{line}").unwrap();
            continue;
        }
        let res = catch_unwind(AssertUnwindSafe(|| f(line)));
        match res {
            Ok(s) => writeln!(out, "{s}").unwrap(),
            Err(_) => writeln!(out, "PANIC").unwrap(),
        }
    }
    out.flush().unwrap();
}
