(* ElixirRange (crates/edp_elixir_terms/src/range.rs, after fix commit d6fecb7): emptiness, length, membership and
   the iterator, with the machine arithmetic made explicit.  Every operation that could leave its integer type in the
   Rust code (abs_diff, unsigned_abs, division, remainder) is a checked operation here that returns None when the
   mathematical result does not fit, so "no arithmetic overflow" is the statement that these functions never return
   None on 64-bit inputs.  Definitions only. *)
From Coq Require Import ZArith List Bool Lia.
Import ListNotations.
Open Scope Z_scope.

Record range := { rfirst : Z; rlast : Z; rstep : Z }.

Definition i64_min : Z := -9223372036854775808.
Definition i64_max : Z := 9223372036854775807.
Definition u64_max : Z := 18446744073709551615.

Definition i64_ok (z : Z) : bool := (i64_min <=? z) && (z <=? i64_max).
Definition range_ok (r : range) : Prop :=
  i64_ok (rfirst r) = true /\ i64_ok (rlast r) = true /\ i64_ok (rstep r) = true.

Definition bind {A B} (o : option A) (f : A -> option B) : option B := match o with Some a => f a | None => None end.
Notation "x <- e ;; k" := (bind e (fun x => k)) (at level 61, e at next level, right associativity).

(* u64 results: None when the mathematical value is not a u64 (an overflow panic in a debug build, a wrapped value
   in a release build) *)
Definition chk_u64 (z : Z) : option Z := if (0 <=? z) && (z <=? u64_max) then Some z else None.
Definition abs_diff (a b : Z) : option Z := chk_u64 (Z.abs (a - b)).
Definition unsigned_abs (a : Z) : option Z := chk_u64 (Z.abs a).
Definition udiv (a b : Z) : option Z := if b =? 0 then None else Some (a / b).
Definition urem (a b : Z) : option Z := if b =? 0 then None else Some (a mod b).
(* u64::saturating_add(1), then `as usize` on a 64-bit target *)
Definition sat_inc (q : Z) : Z := Z.min (q + 1) u64_max.
(* i64::checked_add: None is an ordinary result here *)
Definition checked_add (a b : Z) : option Z := if i64_ok (a + b) then Some (a + b) else None.

Definition r_empty (r : range) : bool :=
  if 0 <? rstep r then rlast r <? rfirst r
  else if rstep r <? 0 then rfirst r <? rlast r
  else true.

Definition r_len (r : range) : option Z :=
  if r_empty r then Some 0
  else d <- abs_diff (rlast r) (rfirst r) ;; s <- unsigned_abs (rstep r) ;; q <- udiv d s ;; Some (sat_inc q).

Definition r_contains (r : range) (v : Z) : option bool :=
  if r_empty r then Some false
  else if 0 <? rstep r then
    if (rfirst r <=? v) && (v <=? rlast r) then
      d <- abs_diff v (rfirst r) ;; s <- unsigned_abs (rstep r) ;; m <- urem d s ;; Some (m =? 0)
    else Some false
  else
    if (v <=? rfirst r) && (rlast r <=? v) then
      d <- abs_diff (rfirst r) v ;; s <- unsigned_abs (rstep r) ;; m <- urem d s ;; Some (m =? 0)
    else Some false.

(* RangeIterator: (current, done) *)
Definition istate := (Z * bool)%type.
Definition it_init (r : range) : istate := (rfirst r, false).

Definition it_advance (r : range) (cur : Z) : istate :=
  match checked_add cur (rstep r) with Some n => (n, false) | None => (cur, true) end.

Definition it_next (r : range) (st : istate) : option Z * istate :=
  let (cur, done) := st in
  if done || r_empty r then (None, st)
  else if 0 <? rstep r then
    if rlast r <? cur then (None, (cur, true))
    else if cur =? rlast r then (Some cur, (cur, true))
    else (Some cur, it_advance r cur)
  else
    if cur <? rlast r then (None, (cur, true))
    else if cur =? rlast r then (Some cur, (cur, true))
    else (Some cur, it_advance r cur).

Definition it_size_hint (r : range) (st : istate) : option Z :=
  let (cur, done) := st in
  if done || r_empty r then Some 0
  else if 0 <? rstep r then
    if rlast r <? cur then Some 0
    else d <- abs_diff (rlast r) cur ;; s <- unsigned_abs (rstep r) ;; q <- udiv d s ;; Some (sat_inc q)
  else if cur <? rlast r then Some 0
  else d <- abs_diff cur (rlast r) ;; s <- unsigned_abs (rstep r) ;; q <- udiv d s ;; Some (sat_inc q).

(* the state after k calls of next, and the k-th (0-based) result *)
Fixpoint it_after (r : range) (k : nat) : istate :=
  match k with O => it_init r | S k' => snd (it_next r (it_after r k')) end.
Definition it_nth (r : range) (k : nat) : option Z := fst (it_next r (it_after r k)).

(* the first n results, with the size hint read before each call (what the harness prints) *)
Fixpoint it_take (r : range) (n : nat) (st : istate) : list (option Z * option Z) :=
  match n with
  | O => []
  | S n' => let (o, st') := it_next r st in (it_size_hint r st, o) :: it_take r n' st'
  end.

(* ---------- specification: the mathematical range ---------- *)
(* number of members *)
Definition r_count (r : range) : Z :=
  if r_empty r then 0 else Z.abs (rlast r - rfirst r) / Z.abs (rstep r) + 1.
(* the k-th member *)
Definition r_member (r : range) (k : Z) : Z := rfirst r + k * rstep r.
