(* Model of crates/edp_client/src/state_machine.rs (HandshakeStateMachine) and the message layouts of handshake.rs,
   exactly as coded: state assignments before decoding, no state guard on most methods.
   md5 is a parameter; generate_challenge's result is an operation argument. Definitions only. *)
From EDP Require Import Base.Bytes Term.Term.

Inductive hstate := Disconnected | Connecting | SendingName | AwaitingStatus | AwaitingChallenge
                  | SendingChallengeReply | AwaitingChallengeAck | Connected | Failed.

Record hcfg := { h_name : bytes; h_cookie : bytes; h_flags : N; h_creation : N }.
Record hs := { st : hstate; our : option N; their : option N; nego : option N }.

Definition hs_init : hs := {| st := Disconnected; our := None; their := None; nego := None |}.

Inductive herr := EStateTransition | ENameTooLong | EInvalidMessage | ERefused | ENoChallenge | EAuthFailed.
Inductive hout := OUnit | OBytes (b : bytes) | OErr (e : herr).

(* decimal digits of a number, as ASCII (u32::to_string) *)
Fixpoint dec_digits (fuel : nat) (n : N) (acc : bytes) : bytes :=
  match fuel with
  | O => acc
  | S f => let acc' := (48 + n mod 10) :: acc in if n <? 10 then acc' else dec_digits f (n / 10) acc'
  end.
Definition decimal (n : N) : bytes := dec_digits 20 n [].

Section WithMd5.
  Variable md5 : bytes -> bytes.

  Definition digest (challenge : N) (cookie : bytes) : bytes := md5 (cookie ++ decimal challenge).

  (* SendName::encode_old: 'n' V5 Flags32 Name, 2-byte length prefix *)
  Definition send_name_old (c : hcfg) : option bytes :=
    if 255 <? len (h_name c) then None
    else Some (be 2 (1 + 2 + 4 + len (h_name c)) ++ [110] ++ be 2 5 ++ be 4 (h_flags c mod 4294967296) ++ h_name c).

  Definition complement (c : hcfg) : bytes :=
    be 2 9 ++ [99] ++ be 4 (h_flags c / 4294967296) ++ be 4 (h_creation c).

  Definition challenge_reply (ourc theirc : N) (cookie : bytes) : bytes :=
    be 2 21 ++ [114] ++ be 4 ourc ++ digest theirc cookie.

  (* StatusMessage::decode: 's' then the status text *)
  Definition status_ok (data : bytes) : option bool :=
    match data with
    | 115 :: txt =>
        if utf8_valid txt then
          if list_eq_dec N.eq_dec txt [111; 107] then Some true                                         (* ok *)
          else if list_eq_dec N.eq_dec txt [111; 107; 95; 115; 105; 109; 117; 108; 116; 97; 110; 101; 111; 117; 115] then Some true  (* ok_simultaneous *)
          else if list_eq_dec N.eq_dec txt [110; 111; 107] then Some false                              (* nok *)
          else if list_eq_dec N.eq_dec txt [110; 111; 116; 95; 97; 108; 108; 111; 119; 101; 100] then Some false   (* not_allowed *)
          else if list_eq_dec N.eq_dec txt [97; 108; 105; 118; 101] then Some false                     (* alive *)
          else None
        else None
    | _ => None
    end.

  (* Challenge::decode: 'N' Flags64 Challenge32 Creation32 Nlen16 Name -> (flags, challenge) *)
  Definition challenge_decode (data : bytes) : option (N * N) :=
    match data with
    | 78 :: r =>
        match rd_be 8 r with
        | Some (fl, r1) => match rd_be 4 r1 with
          | Some (ch, r2) => match rd_be 4 r2 with
            | Some (_, r3) => match rd_be 2 r3 with
              | Some (nlen, r4) => match take (N.to_nat nlen) r4 with
                                   | Some (nm, _) => if utf8_valid nm then Some (fl, ch) else None
                                   | None => None
                                   end
              | None => None end
            | None => None end
          | None => None end
        | None => None
        end
    | _ => None
    end.

  (* ChallengeAck::decode: 'a' Digest16 (anything after the digest is ignored) *)
  Definition ack_decode (data : bytes) : option bytes :=
    match data with
    | 97 :: r => match take 16 r with Some (d, _) => Some d | None => None end
    | _ => None
    end.

  Inductive hop :=
  | BeginConnect | PrepareSendName | HandleStatus (d : bytes) | PrepareComplement
  | HandleChallenge (d : bytes) (gen : N) | PrepareChallengeReply | HandleChallengeAck (d : bytes) | Disconnect.

  Definition set_st (s : hs) (x : hstate) : hs := {| st := x; our := our s; their := their s; nego := nego s |}.

  Definition bytes_eqb (a b : bytes) : bool := if list_eq_dec N.eq_dec a b then true else false.

  Definition hstep (c : hcfg) (s : hs) (o : hop) : hs * hout :=
    match o with
    | BeginConnect =>
        match st s with Disconnected => (set_st s Connecting, OUnit) | _ => (s, OErr EStateTransition) end
    | PrepareSendName =>
        match send_name_old c with
        | Some b => (set_st s AwaitingStatus, OBytes b)
        | None => (set_st s SendingName, OErr ENameTooLong)
        end
    | HandleStatus d =>
        match status_ok d with
        | Some true => (s, OUnit)
        | Some false => (s, OErr ERefused)
        | None => (s, OErr EInvalidMessage)
        end
    | PrepareComplement => (s, OBytes (complement c))
    | HandleChallenge d gen =>
        let s1 := set_st s AwaitingChallenge in
        match challenge_decode d with
        | None => (s1, OErr EInvalidMessage)
        | Some (fl, ch) =>
            ({| st := AwaitingChallenge; our := Some gen; their := Some ch; nego := Some (N.land fl (h_flags c)) |}, OUnit)
        end
    | PrepareChallengeReply =>
        let s1 := set_st s SendingChallengeReply in
        match our s, their s with
        | Some oc, Some tc => (set_st s AwaitingChallengeAck, OBytes (challenge_reply oc tc (h_cookie c)))
        | _, _ => (s1, OErr ENoChallenge)
        end
    | HandleChallengeAck d =>
        match ack_decode d with
        | None => (s, OErr EInvalidMessage)
        | Some dg =>
            match our s with
            | None => (s, OErr ENoChallenge)
            | Some oc => if bytes_eqb dg (digest oc (h_cookie c)) then (set_st s Connected, OUnit) else (s, OErr EAuthFailed)
            end
        end
    | Disconnect => (hs_init, OUnit)
    end.

  Fixpoint hrun (c : hcfg) (s : hs) (ops : list hop) : hs * list hout :=
    match ops with
    | [] => (s, [])
    | o :: r => let '(s1, out) := hstep c s o in let '(s2, outs) := hrun c s1 r in (s2, out :: outs)
    end.
End WithMd5.
