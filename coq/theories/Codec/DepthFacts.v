(* Nesting depth: the decoders recurse once per level.  The depth of what is returned is bounded by the input length
   (each level costs a byte), and that bound is reached up to a factor of two: the recorded finding C02-recursion is
   a property of the reader as written, for inputs of every size. *)
From EDP Require Import Base.Bytes Term.Term Order.Cmp Gen.Tags Gen.Limits Gen.DecoderArms Codec.Decode Codec.DecodeFacts Codec.RoundTrip Codec.OffsetFacts Codec.SizeFacts.
Local Open Scope nat_scope.

Fixpoint depth (t : term) : nat :=
  let dmax := fix go (l : list term) : nat := match l with [] => 0 | x :: r => Nat.max (depth x) (go r) end in
  match t with
  | TList l => S (dmax l)
  | TImproper l tl => S (Nat.max (dmax l) (depth tl))
  | TTuple l => S (dmax l)
  | TMap kvs => S ((fix gom (m : list (term * term)) : nat := match m with [] => 0 | kv :: r => Nat.max (Nat.max (depth (fst kv)) (depth (snd kv))) (gom r) end) kvs)
  | TIntFun _ _ _ _ _ _ _ _ fr => S (dmax fr)
  | _ => 1
  end.
Definition depth_all := fix go (l : list term) : nat := match l with [] => 0 | x :: r => Nat.max (depth x) (go r) end.
Definition depth_kvs := fix gom (m : list (term * term)) : nat := match m with [] => 0 | kv :: r => Nat.max (Nat.max (depth (fst kv)) (depth (snd kv))) (gom r) end.

Lemma depth_all_le l : Forall (fun t => depth t <= nodes t) l -> depth_all l <= nodes_all l.
Proof. induction 1 as [|x l Hx _ IH]; [apply le_n|]. cbn [depth_all nodes_all]. lia. Qed.

Lemma depth_kvs_le m : Forall (fun kv => depth (fst kv) <= nodes (fst kv) /\ depth (snd kv) <= nodes (snd kv)) m -> depth_kvs m <= nodes_kvs m.
Proof. induction 1 as [|kv m [Hk Hv] _ IH]; [apply le_n|]. cbn [depth_kvs nodes_kvs]. lia. Qed.

Theorem depth_le_nodes : forall t, depth t <= nodes t.
Proof.
  induction t using term_ind'; try (cbn [depth nodes]; lia).
  - change (S (depth_all l) <= S (nodes_all l)). pose proof (depth_all_le l H). lia.
  - change (S (Nat.max (depth_all l) (depth t)) <= S (nodes_all l + nodes t)). pose proof (depth_all_le l H). lia.
  - change (S (depth_kvs kvs) <= S (nodes_kvs kvs)). pose proof (depth_kvs_le kvs H). lia.
  - change (S (depth_all l) <= S (nodes_all l)). pose proof (depth_all_le l H). lia.
  - change (S (depth_all fr) <= S (nodes_all fr)). pose proof (depth_all_le fr H). lia.
Qed.

(* n SMALL_TUPLE_EXT headers of arity 1 around NIL: 2n+1 bytes *)
Fixpoint nest_bytes (n : nat) : bytes := match n with O => [106%N] | S k => 104%N :: 1%N :: nest_bytes k end.
Fixpoint nest_term (n : nat) : term := match n with O => TNil | S k => TTuple [nest_term k] end.

Lemma nest_depth n : depth (nest_term n) = S n.
Proof. induction n as [|n IH]; [reflexivity|]. cbn [nest_term]. change (S (Nat.max (depth (nest_term n)) 0) = S (S n)). rewrite IH. lia. Qed.

Lemma nest_length n : length (nest_bytes n) = 2 * n + 1.
Proof. induction n as [|n IH]; [reflexivity|]. cbn [nest_bytes length]. rewrite IH. lia. Qed.

Lemma seq_with_zero p k bs : seq_with p k 0%N bs = SOk [] bs.
Proof. destruct k; reflexivity. Qed.

Section Witness.
  Variable cfg : dcfg.
  Hypothesis Harms : d_arms cfg = owned_arms.

  (* the reader accepts the nest at every size: the depth of the result is half the input length *)
  Theorem nest_parses n : forall f rest, 2 * n + 1 < f -> parse cfg f (nest_bytes n ++ rest) = POk (nest_term n) rest.
  Proof.
    induction n as [|n IH]; intros f rest Hf.
    - destruct f as [|f]; [lia|]. cbn [nest_bytes app]. rewrite (parse_S cfg Harms).
      change (assoc 106%N owned_arms) with (Some 11%N). reflexivity.
    - destruct f as [|f]; [lia|]. cbn [nest_bytes app]. rewrite (parse_S cfg Harms).
      change (assoc 104%N owned_arms) with (Some 9%N). cbv iota. unfold parse_body.
      change (rd 1 (1%N :: nest_bytes n ++ rest)) with (Some (1%N, nest_bytes n ++ rest)). cbv iota.
      change (max_tuple_size <? 1)%N with false. cbv iota.
      cbn [seq_with]. change (1 =? 0)%N with false. cbv iota.
      rewrite (IH f rest ltac:(lia)). change (N.pred 1) with 0%N. rewrite seq_with_zero. reflexivity.
  Qed.
End Witness.

(* depth is bounded by the bytes consumed ... *)
Corollary depth_bounded_by_input cfg : d_kinsert cfg = map_insert -> no_compressed (d_arms cfg) = true ->
  forall f bs t r, parse cfg f bs = POk t r -> depth t + length r <= length bs.
Proof. intros Hi Hn f bs t r H. apply (parse_sized cfg Hi Hn f) in H. pose proof (depth_le_nodes t). lia. Qed.

(* ... and the bound is reached up to the factor two: for every n there is an input of 2n+1 bytes whose decoding nests
   n+1 deep (one stack frame of the recursive reader per level) *)
Corollary depth_grows_with_input cfg : d_arms cfg = owned_arms -> forall n,
  exists bs t, length bs = 2 * n + 1 /\ parse cfg (2 * n + 2) bs = POk t [] /\ depth t = S n.
Proof.
  intros Ha n. exists (nest_bytes n), (nest_term n). split; [apply nest_length|]. split; [|apply nest_depth].
  rewrite <- (app_nil_r (nest_bytes n)). apply (nest_parses cfg Ha). lia.
Qed.
