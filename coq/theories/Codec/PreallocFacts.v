(* The decoder's up-front allocations, as the translator found them in the source (Gen/Prealloc.v): each is a constant or
   the announced count capped by what is left of the input; each frame buffer is allocated after the announced length
   has been compared with the size limit. *)
From Coq Require Import List Bool.
From EDP Require Import Gen.Prealloc.

Lemma preallocations_capped : forallb (fun s => snd s) prealloc_sites = true.
Proof. reflexivity. Qed.

Lemma preallocations_listed : (8 <= length prealloc_sites)%nat.
Proof. unfold prealloc_sites. cbn [length]. repeat constructor. Qed.

Lemma cap_checked_before_allocation : forallb snd cap_before_alloc_sites = true /\ length cap_before_alloc_sites = 2%nat.
Proof. split; reflexivity. Qed.
