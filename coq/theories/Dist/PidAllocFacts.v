(* Sequential uniqueness of allocated pids and references, by an explicit position function. *)
From EDP Require Import Base.Bytes Gen.PidConsts Dist.PidAlloc.
From Coq Require Import ZifyBool ZifyN ZifyNat.
Ltac Zify.zify_post_hook ::= Z.div_mod_to_equations.

Definition M : N := max_processes_per_node.

(* position of the allocator in its (id, serial) space *)
Definition pos (st : pstate) : N := next_serial st * M + (next_id st - 1).

Definition wf (st : pstate) : Prop := 1 <= next_id st <= M /\ next_serial st < 9223372036854775808.

(* the pid handed out at position p *)
Definition pid_at (cr p : N) : pid :=
  let s := p / M in let i := p mod M + 1 in
  {| p_id := i; p_serial := (if i <? M then s else s + 1) mod two32; p_creation := cr |}.

Lemma allocate_pos st : 1 <= next_id st <= M -> next_serial st + 1 < two64 ->
  fst (allocate st) = pid_at (creation st) (pos st)
  /\ pos (snd (allocate st)) = pos st + 1
  /\ 1 <= next_id (snd (allocate st)) <= M
  /\ creation (snd (allocate st)) = creation st
  /\ next_serial (snd (allocate st)) <= next_serial st + 1.
Proof.
  unfold allocate, pid_at, pos, M, two64, two32, max_processes_per_node.
  destruct st as [i s cr]; cbn [next_id next_serial creation]. intros Hi Hs.
  destruct (1048576 <=? i) eqn:E; cbn [fst snd next_id next_serial creation p_id p_serial p_creation].
  - assert (i = 1048576) by lia. subst i.
    assert (H1 : (s * 1048576 + (1048576 - 1)) / 1048576 = s) by lia.
    assert (H2 : (s * 1048576 + (1048576 - 1)) mod 1048576 = 1048575) by lia.
    rewrite H1, H2. replace (1048575 + 1 <? 1048576) with false by lia.
    repeat split; try lia.
  - assert (H1 : (s * 1048576 + (i - 1)) / 1048576 = s) by lia.
    assert (H2 : (s * 1048576 + (i - 1)) mod 1048576 = i - 1) by lia.
    rewrite H1, H2. replace (i - 1 + 1) with i by lia. replace (i <? 1048576) with true by lia.
    repeat split; try lia.
Qed.

Lemma allocs_pos k : forall st, 1 <= next_id st <= M -> next_serial st + N.of_nat k < two64 ->
  allocs k st = map (fun j => pid_at (creation st) (pos st + N.of_nat j)) (seq 0 k).
Proof.
  induction k as [|k IH]; intros st Hi Hs; [reflexivity|].
  cbn [allocs seq map].
  destruct (allocate_pos st Hi ltac:(lia)) as (H1 & H2 & H3 & H4 & H5).
  destruct (allocate st) as [p st'] eqn:E. cbn [fst snd] in *.
  rewrite H1. replace (pos st + N.of_nat 0) with (pos st) by lia. f_equal.
  rewrite IH by (auto; lia). rewrite <- seq_shift, map_map. apply map_ext.
  intros j. rewrite H4, H2. f_equal. lia.
Qed.

Lemma pid_at_inj cr p q : p < q -> q < p + M * two32 -> pid_at cr p <> pid_at cr q.
Proof.
  unfold pid_at, M, two32, max_processes_per_node. intros H1 H2 Heq.
  injection Heq as Hid Hser.
  assert (Hr : p mod 1048576 = q mod 1048576) by lia.
  rewrite Hr in Hser.
  destruct (q mod 1048576 + 1 <? 1048576); lia.
Qed.

Lemma NoDup_map_inj_in {A B} (f : A -> B) l :
  (forall x y, In x l -> In y l -> f x = f y -> x = y) -> NoDup l -> NoDup (map f l).
Proof.
  intros Hinj Hnd. induction Hnd as [|a l Hni Hnd IH]; cbn [map]; constructor.
  - intros Hin. apply in_map_iff in Hin as (y & Hy & Hyl).
    assert (y = a) by (apply Hinj; [now right|now left|exact Hy]). subst. contradiction.
  - apply IH. intros x y Hx Hy. apply Hinj; now right.
Qed.

Lemma allocs_nodup k st : wf st -> N.of_nat k <= M * two32 -> NoDup (allocs k st).
Proof.
  intros (Hi & Hs) Hk. rewrite allocs_pos; auto.
  - apply NoDup_map_inj_in; [|apply seq_NoDup].
    intros x y Hx Hy Heq. apply in_seq in Hx, Hy.
    destruct (Nat.lt_trichotomy x y) as [Hlt|[->|Hgt]]; [|reflexivity|]; exfalso.
    + revert Heq. apply pid_at_inj; unfold M, two32, max_processes_per_node in *; lia.
    + symmetry in Heq. revert Heq. apply pid_at_inj; unfold M, two32, max_processes_per_node in *; lia.
  - unfold M, two32, two64, max_processes_per_node in *. lia.
Qed.

Lemma allocs_creation k : forall st p, In p (allocs k st) -> p_creation p = creation st.
Proof.
  induction k as [|k IH]; intros st p Hin; [destruct Hin|]. cbn [allocs] in Hin.
  destruct (allocate st) as [p0 st'] eqn:E. destruct Hin as [<-|Hin].
  - unfold allocate in E. destruct (_ <=? _); inversion E; reflexivity.
  - rewrite (IH st' p Hin). unfold allocate in E. destruct (_ <=? _); inversion E; reflexivity.
Qed.

(* at the wrap point the serial advances and the id restarts at 1 *)
Lemma wrap_advances st : next_id st = M -> next_serial st + 1 < two64 ->
  p_serial (fst (allocate st)) = (next_serial st + 1) mod two32
  /\ next_id (snd (allocate st)) = 1 /\ next_serial (snd (allocate st)) = next_serial st + 1.
Proof.
  intros Hi Hs. unfold allocate, M in *. rewrite Hi, N.leb_refl. cbn [fst snd p_serial next_id next_serial].
  repeat split. unfold two64 in *. lia.
Qed.

(* references *)
Lemma refs_pos k : forall c, c < two32 ->
  refs k c = map (fun j => [ (c + 3 * N.of_nat j) mod two32; (c + 3 * N.of_nat j + 1) mod two32;
                             (c + 3 * N.of_nat j + 2) mod two32 ]) (seq 0 k).
Proof.
  unfold two32. induction k as [|k IH]; intros c Hc; [reflexivity|].
  cbn [refs make_ref fetch_add seq map]. unfold two32. rewrite IH by lia.
  f_equal.
  - f_equal; [|f_equal; [|f_equal]]; lia.
  - rewrite <- seq_shift, map_map. apply map_ext. intros j.
    f_equal; [|f_equal; [|f_equal]]; lia.
Qed.

Lemma refs_nodup k c : c < two32 -> 3 * N.of_nat k <= two32 -> NoDup (refs k c).
Proof.
  intros Hc Hk. rewrite refs_pos by assumption.
  apply NoDup_map_inj_in; [|apply seq_NoDup].
  intros x y Hx Hy Heq. apply in_seq in Hx, Hy. injection Heq as H1 _ _.
  unfold two32 in *. lia.
Qed.
