"""C06 — receive path of a real Connection against a scripted, conforming peer. Domain `conn`."""
import struct
import etf, termgen, vlib
import connlib
from connlib import SEP, frame, be32
import C08
import C14

ID = "C06"
GEN_FILES = ["Tags.v", "DecoderArms.v", "ControlTable.v", "FragConsts.v", "FramingConsts.v", "Limits.v", "Ranks.v"]
RULE = ("histories of frames a conforming peer may send after the handshake, for five flag negotiations (library default; with "
        "DIST_HDR_ATOM_CACHE; with DIST_HDR_ATOM_CACHE and FRAGMENTS; minimal; everything): every control message kind of the protocol with "
        "role-typed fields and payloads from the C01 term generator (a few bytes to 70 KB), as pass-through frames or with a distribution "
        "header from a spec sender with an atom cache (new entries, cached references, overwrites), fragmented per erl_ext_dist where "
        "negotiated; ticks at random positions; malformed frames at random positions (random bytes, truncated terms, wrong markers, "
        "truncated fragment headers, fragment header announcing more atom-cache bytes than follow, orphan continuations); the byte stream "
        "is cut at random points into TCP writes; the client calls receive_message until end of stream. distinct = distinct script; "
        "non-trivial = at least two frames")
ASSUMPTIONS = ["the peer side of the handshake and of the framing is written from the protocol description (harness/src/conn.rs, props/connlib.py)",
               "a malformed frame may be reported as an error or, where the library is lenient, as some message; what is demanded is one "
               "outcome for it, no crash, and the following frames unaffected",
               "malformed distribution-header frames in the generated histories repeat the atom-cache entries of the message they damage, "
               "so the peer's view of the cache stays the protocol's"]

FLAGSETS = [(connlib.LIB_DEFAULT, connlib.OTP26), (connlib.LIB_DEFAULT | 0x2000, connlib.OTP26),
            (connlib.LIB_DEFAULT | 0x2000 | connlib.DFLAG_FRAGMENTS, connlib.OTP26), (0, 0), (2**44 - 1, 2**44 - 1)]


def gen_any(rng):
    return C08.no_maps(termgen.gen_term(rng, depth=rng.choice([0, 1, 1, 2]), big_ok=False))


def gen_message(rng):
    """(control tuple AST, payload AST or None) of a protocol operation"""
    tag = rng.choice(list(C08.PROTOCOL))
    arity, roles = C08.PROTOCOL[tag]
    ctl = ("t", [("i", tag)] + [connlib.field_for_role(r, rng, lambda: gen_any(rng)) for r in roles])
    has_payload = tag in (2, 6, 12, 16, 22, 23, 24, 25, 26, 27, 33, 34, 30, 32) or (tag == 29)
    payload = None
    if has_payload:
        payload = gen_any(rng) if rng.random() < 0.92 else ("b", bytes(rng.randrange(256) for _ in range(rng.choice([4096, 70000]))))
    return ctl, payload


def fragment(rng, msg, seq):
    """split a distribution-header message [131,68,N,flags,refs..,terms] into fragment frames per erl_ext_dist"""
    n = msg[2]
    # header section length: N, flags, refs
    r = etf.Reader(msg)
    r.u(3)
    if n:
        flags = r.take(n // 2 + 1)
        nib = lambda k: (flags[k // 2] >> (4 if k % 2 else 0)) & 0xf  # noqa
        long_atoms = bool(nib(n) & 1)
        for i in range(n):
            f = nib(i)
            r.u(1)
            if f & 8:
                ln = r.u(2 if long_atoms else 1)
                r.take(ln)
    head, data = msg[2:r.i], msg[r.i:]
    k = rng.choice([2, 2, 3, 5])
    cuts = sorted(set(rng.randrange(0, len(data) + 1) for _ in range(k - 1)))
    parts, prev = [], 0
    for c in cuts + [len(data)]:
        parts.append(data[prev:c])
        prev = c
    k = len(parts)
    frames = [bytes([131, 69]) + struct.pack(">QQ", seq, k) + head + parts[0]]
    for i, p in enumerate(parts[1:]):
        frames.append(bytes([131, 70]) + struct.pack(">QQ", seq, k - 1 - i) + p)
    return frames


def junk_frames(rng, valid):
    """malformed frame bodies with the number of outcomes each must produce (1, or 0 for an orphan continuation)"""
    r = rng.randrange(9)
    if r == 0:
        return bytes(rng.randrange(1, 256) for _ in range(rng.choice([1, 2, 5, 40]))), 1, "random"
    if r == 1 and len(valid) > 3:
        return valid[:rng.randrange(2, len(valid))], 1, "truncated"
    if r == 2:
        return bytes([113]) + valid[1:], 1, "marker"
    if r == 3:
        return bytes([131, 69]) + bytes(rng.randrange(256) for _ in range(rng.randrange(0, 17))), 1, "fraghdr-short"
    if r == 4:
        return bytes([131, 69]) + struct.pack(">QQ", rng.randrange(2**64), rng.choice([1, 2])) + bytes([rng.randrange(3, 256)]) + bytes(rng.randrange(0, 3)), 1, "fraghdr-cache-overrun"
    if r == 5:
        return bytes([131, 70]) + bytes(rng.randrange(256) for _ in range(rng.randrange(0, 16))), 1, "fragcont-short"
    if r == 6:
        return bytes([131, 70]) + struct.pack(">QQ", rng.getrandbits(64) | (1 << 63), rng.randrange(1, 5)) + b"orphan", 0, "fragcont-orphan"
    if r == 7:
        return bytes([112, 131, 104, 2, 97]), 1, "truncated"
    return bytes([112, 131, 77]), 1, "bad-tag"


WANT = {}


def build_history(rng, cfgf, peerf, half=False):
    negotiated = cfgf & peerf
    hdr = bool(negotiated & connlib.DFLAG_DIST_HDR_ATOM_CACHE)
    frag_ok = hdr and bool(negotiated & connlib.DFLAG_FRAGMENTS)
    sender = C14.Sender(rng, "any") if hdr else None
    cache = {}
    stream, want, has_frag = b"", [], False
    seq = rng.randrange(1, 2**40)
    for _ in range(rng.choice([1, 2, 3, 5, 8])):
        r = rng.random()
        if r < 0.15:
            stream += be32(0)
            continue
        ctl, payload = gen_message(rng)
        terms = [ctl] + ([payload] if payload is not None else [])
        replay_safe = False
        if hdr and rng.random() < 0.85:
            body = sender.message(terms)
            before = dict(cache)
            c, p = etf.spec_read_dist_message(body, cache)
            exp = ("msg", c, p)
            # a damaged copy may precede the message only if reading the header twice gives the same atoms (a header that
            # refers to a slot and overwrites it further on is not idempotent; a real peer never repeats a header)
            try:
                etf.spec_read_dist_message(body, before)
                replay_safe = etf.spec_read_dist_message(body, before) == (c, p)
            except Exception:
                replay_safe = False
        else:
            body = connlib.pass_through(ctl, payload, rng)
            exp = ("msg", etf.denote(termgen.strip_loc(ctl)), None if payload is None else etf.denote(termgen.strip_loc(payload)))
        if rng.random() < 0.2:
            if body[:2] == bytes([131, 68]) and body[2] > 0 and replay_safe:
                # a damaged copy first; it carries the same cache entries as the message it damages
                stream += frame(body[:len(body) - rng.randrange(1, 4)])
                want.append(("junk", 1, "truncated-hdr"))
            elif body[0] == 112:
                j, n, kind = junk_frames(rng, body)
                if half:
                    n = 1        # the read-half path knows pass-through frames only: anything else is one error
                stream += frame(j)
                want.append(("junk", n, kind))
        if frag_ok and body[:2] == bytes([131, 68]) and rng.random() < 0.5:
            for f in fragment(rng, body, seq):
                stream += frame(f)
            seq += 1
            has_frag = True
            want.append(exp + ("fragmented",))
        else:
            stream += frame(body)
            want.append(exp)
    if rng.random() < 0.3:
        stream += be32(0)
    return stream, want, has_frag


def oracle(case, impl):
    if impl.startswith(("PANIC", "CRASH", "TIMEOUT", "connect-err")):
        return ("violation", "the receiving task did not survive: " + impl[:60])
    want, has_frag = WANT[case]
    outs = impl.split(SEP)
    assert outs[-1].startswith("wrote=")
    outs = outs[:-1]
    i = 0
    for w in want:
        if w[0] == "junk":
            if w[1] == 0:
                continue
            if i >= len(outs) or outs[i] in ("eof", "timeout", "toolarge"):
                return ("violation", "a malformed frame (%s) ended the stream of deliveries: %s" % (w[2], outs[i] if i < len(outs) else "nothing"))
            i += 1
            continue
        got = connlib.parse_recv(outs[i]) if i < len(outs) else ("nothing",)
        ok = got[0] == "ok" and etf.denote(got[1]) == w[1] and (None if got[2] is None else etf.denote(got[2])) == w[2]
        if not ok:
            if has_frag:
                return ("known", "C06-fragmented-messages")
            return ("violation", "message %d of the history is not delivered as sent: %s" % (i, outs[i][:80] if i < len(outs) else "nothing"))
        i += 1
    if any(o != "eof" for o in outs[i:]):
        if has_frag:
            return ("known", "C06-fragmented-messages")
        return ("violation", "something is delivered that the peer did not send: " + str(outs[i:])[:80])
    return None


def oracle_for(_d):
    return oracle


def run(ctx):
    rng = ctx.rng
    cases = []
    for k in range(ctx.budget(260, 6000)):
        cfgf, peerf = FLAGSETS[k % len(FLAGSETS)]
        # pass-through negotiations: a share of the histories is read through the connection's read half
        # (receive_message_from_read_half, the node's receiver path)
        half = not (cfgf & peerf & connlib.DFLAG_DIST_HDR_ATOM_CACHE) and rng.random() < 0.4
        stream, want, has_frag = build_history(rng, cfgf, peerf, half)
        n_out = sum(1 if w[0] != "junk" else w[1] for w in want)
        # a peer may start talking at once: a share of the histories has its first bytes in the very write that carries
        # the handshake ack
        cut = rng.choice([0, 0, 1, 4, 5, len(stream) // 2, len(stream)]) if stream and rng.random() < 0.35 else 0
        early, stream_rest = stream[:cut], stream[cut:]
        chunks = connlib.chunked(rng, stream_rest)
        case = SEP.join(["conn %d %d 1%s" % (cfgf, peerf, " E" + early.hex() if early else ""),
                         "P " + ",".join(c.hex() for c in chunks) if stream_rest else "X", "X"] + ["H" if half else "R"] * (n_out + 2))
        WANT[case] = (want, has_frag)
        cases.append(case)
    # the frame that used to crash the task, followed by a message that must still arrive
    ctl, payload = ("t", [("i", 2), ("a", b""), connlib.PID]), ("a", b"hello")
    good = connlib.pass_through(ctl, payload, rng)
    bad = bytes([131, 69]) + struct.pack(">QQ", 1, 1) + bytes([9, 0, 0])
    case = SEP.join(["conn %d %d 1" % FLAGSETS[0], "P " + (frame(bad) + frame(good)).hex(), "X", "R", "R", "R"])
    WANT[case] = ([("junk", 1, "fraghdr-cache-overrun"), ("msg", etf.denote(ctl), etf.denote(payload))], False)
    cases.append(case)

    # paced histories: the peer sends one message at a time and the caller polls in between — a receive that times out on
    # an idle connection consumes nothing and forgets nothing (the atom cache the peer filled before the pause is still
    # what later headers refer to); short timeout so the idle polls are cheap
    paced, PACED = [], {}
    for k in range(ctx.budget(6, 60)):
        hdr_sets = [fs for fs in FLAGSETS if fs[0] & fs[1] & connlib.DFLAG_DIST_HDR_ATOM_CACHE] or FLAGSETS
        cfgf, peerf = hdr_sets[k % len(hdr_sets)] if k % 3 else FLAGSETS[k % len(FLAGSETS)]
        hdr = bool(cfgf & peerf & connlib.DFLAG_DIST_HDR_ATOM_CACHE)
        half = not hdr and k % 2 == 1
        sender = C14.Sender(rng, "any") if hdr else None
        cache, steps, want = {}, [], []
        n_msgs = rng.choice([3, 4, 5])
        idle_after = set(rng.sample(range(n_msgs - 1), rng.choice([1, 2])))
        for j in range(n_msgs):
            ctl, payload = gen_message(rng)
            if hdr:
                body = sender.message([ctl] + ([payload] if payload is not None else []))
                c, pl = etf.spec_read_dist_message(body, cache)
            else:
                body = connlib.pass_through(ctl, payload, rng)
                c, pl = etf.denote(termgen.strip_loc(ctl)), None if payload is None else etf.denote(termgen.strip_loc(payload))
            steps += ["P " + frame(body).hex(), "H" if half else "R"]
            want.append(("msg", c, pl))
            if j in idle_after:
                steps.append("H" if half else "R")
                want.append(("idle",))
        case = SEP.join(["conn %d %d 1 T400" % (cfgf, peerf)] + steps + ["X", "H" if half else "R"])
        PACED[case] = want + [("eof",)]
        paced.append(case)

    def paced_oracle(case, impl):
        if impl.startswith(("PANIC", "CRASH", "TIMEOUT", "connect-err")):
            return ("violation", "the receiving task did not survive: " + impl[:60])
        outs = impl.split(SEP)[:-1]
        want = PACED[case]
        for i, w in enumerate(want):
            o = outs[i] if i < len(outs) else "nothing"
            if w[0] == "idle":
                if o != "timeout":
                    return ("violation", "poll %d of an idle connection does not time out: %s" % (i, o[:60]))
            elif w[0] == "eof":
                if o != "eof":
                    return ("violation", "the peer's close is not reported after the last message: %s" % o[:60])
            else:
                got = connlib.parse_recv(o) if o.startswith("ok ") else ("nothing",)
                if not (got[0] == "ok" and etf.denote(got[1]) == w[1] and (None if got[2] is None else etf.denote(got[2])) == w[2]):
                    return ("violation", "message at step %d, sent after the connection had been idle for a receive timeout, is not delivered as sent: %s" % (i, o[:80]))
        return None
    ctx.diff_domain("conn", paced, oracle=paced_oracle, nontrivial=lambda c, i: c,
                    classify=lambda c, i: ["api:" + ("receive_message_from_read_half" if SEP + "H" in c else "receive_message"), "paced:idle-polls"] +
                                          ["frame:message" if w[0] == "msg" else "poll:" + w[0] for w in PACED[c]])

    # a frame whose bytes arrive with a pause longer than the receive timeout inside it: the receive that was waiting
    # returns Timeout — and has thrown away the part of the frame it had read (the read is cancelled inside read_exact), so
    # the next receive starts in the middle of the frame: recorded as C06-timeout-mid-frame
    stalled, STALL = [], {}
    import random
    srng = random.Random(20261001)      # the same three histories under every seed
    for k, cut in enumerate([2, -1, -3]):
        ctl, payload = gen_message(srng)
        f1 = frame(connlib.pass_through(ctl, payload, srng))
        ctl2, payload2 = gen_message(srng)
        f2 = frame(connlib.pass_through(ctl2, payload2, srng))
        c = cut if cut > 0 else len(f1) + cut
        half = k == 1
        r = "H" if half else "R"
        case = SEP.join(["conn %d %d 1 T300" % FLAGSETS[0], "P " + f1[:c].hex(), r, "P " + f1[c:].hex(), r, "P " + f2.hex(), r, "X", r])
        STALL[case] = [("idle",)] + [("msg", etf.denote(termgen.strip_loc(a)), None if b is None else etf.denote(termgen.strip_loc(b))) for a, b in ((ctl, payload), (ctl2, payload2))] + [("eof",)]
        stalled.append(case)

    def stalled_oracle(case, impl):
        if impl.startswith(("PANIC", "CRASH", "TIMEOUT", "connect-err")):
            return ("violation", "the receiving task did not survive: " + impl[:60])
        outs = impl.split(SEP)[:-1]
        want = STALL[case]
        if not outs or outs[0] != "timeout":
            return ("violation", "a receive with half a frame to read does not time out: %s" % (outs[0] if outs else "nothing")[:60])
        for i, w in enumerate(want[1:], 1):
            o = outs[i] if i < len(outs) else "nothing"
            if w[0] == "eof":
                ok = o == "eof"
            else:
                got = connlib.parse_recv(o) if o.startswith("ok ") else ("nothing",)
                ok = got[0] == "ok" and etf.denote(got[1]) == w[1] and (None if got[2] is None else etf.denote(got[2])) == w[2]
            if not ok:
                return ("known", "C06-timeout-mid-frame")
        return None
    ctx.diff_domain("conn", stalled, oracle=stalled_oracle, nontrivial=lambda c, i: c,
                    classify=lambda c, i: ["api:" + ("receive_message_from_read_half" if SEP + "H" in c else "receive_message"), "paced:stall-inside-a-frame"])

    # receive_raw: the frames themselves, ticks included, whatever they contain
    raw_cases, RAW = [], {}
    for k in range(ctx.budget(30, 600)):
        cfgf, peerf = FLAGSETS[k % len(FLAGSETS)]
        frames = []
        for _ in range(rng.choice([1, 2, 4, 7])):
            r = rng.random()
            frames.append(b"" if r < 0.2 else bytes(rng.randrange(256) for _ in range(rng.choice([1, 2, 5, 300, 70000]))) if r < 0.6
                          else connlib.pass_through(*gen_message(rng), rng))
        stream = b"".join(frame(f) for f in frames)
        case = SEP.join(["conn %d %d 1" % (cfgf, peerf), "P " + ",".join(c.hex() for c in connlib.chunked(rng, stream)), "X"] + ["W"] * (len(frames) + 1))
        RAW[case] = frames
        raw_cases.append(case)

    def raw_oracle(case, impl):
        if impl.startswith(("PANIC", "CRASH", "TIMEOUT", "connect-err")):
            return ("violation", "the receiving task did not survive: " + impl[:60])
        outs = impl.split(SEP)[:-1]
        want = ["raw " + (f.hex() if f else ".") for f in RAW[case]] + ["eof"]
        if outs != want:
            k = next((i for i, (a, b) in enumerate(zip(outs, want)) if a != b), min(len(outs), len(want)))
            return ("violation", "receive_raw call %d does not return the frame the peer sent: %s" % (k, (outs[k] if k < len(outs) else "nothing")[:60]))
        return None
    ctx.diff_domain("conn", raw_cases, oracle=raw_oracle, nontrivial=lambda c, i: c if len(RAW[c]) >= 2 else None,
                    classify=lambda c, i: ["api:receive_raw"] + ["frame:raw"] * len(RAW[c]))

    def classify(c, impl):
        want, has_frag = WANT[c]
        out = ["early-bytes:" + ("yes" if " E" in c.split(SEP)[0] else "no"), "negotiated:" + ("hdr+frag" if has_frag else "hdr" if int(c.split()[1]) & int(c.split()[2]) & 0x2000 else "pass-through"),
               "api:" + ("receive_message_from_read_half" if SEP + "H" in c else "receive_message")]
        for w in want:
            out.append("frame:" + (w[2] if w[0] == "junk" else "fragmented" if len(w) > 3 else "message"))
        return out
    ctx.diff_domain("conn", cases, oracle=oracle, nontrivial=lambda c, i: c if len(WANT[c][0]) >= 2 else None, classify=classify)
