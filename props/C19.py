"""C19 — inbound routing and the receiver's fate on a real Node against a scripted peer. Domain `node`."""
import etf
import nodelib
from nodelib import SEP, hx, pid_k
import connlib

ID = "C19"
GEN_FILES = ["PidConsts.v", "ControlTable.v", "Tags.v", "FramingConsts.v"]
RULE = ("scripts on a connected node with 1..5 instrumented processes (some registered, some terminated before the traffic): inbound "
        "pass-through frames of every routed kind (SEND, SEND_TT, REG_SEND, REG_SEND_TT, EXIT, EXIT_TT, EXIT2, EXIT2_TT, MONITOR_P_EXIT, "
        "replies to outstanding calls) addressed to live, terminated and never-existing processes and names, other control kinds (LINK, "
        "UNLINK_ID, unknown tags), ticks, undecodable bodies, frames with a foreign first byte, control terms that are no control tuple, "
        "then optionally an over-long length prefix or a premature close followed by more traffic and calls; interleaved with local sends; "
        "observations: events of every process, connection table, call results. distinct = distinct script; non-trivial = at least three "
        "inbound frames")
ASSUMPTIONS = ["one script per run holds the connection quiet for 11 s of wall clock with a tick every second (the idle timeout is 10 s)",
               "the node negotiates its default flags: a conforming peer then sends pass-through frames only",
               "the identifiers of local processes in inbound frames are predicted from the allocation order (ids from 1, serial 0, creation "
               "assigned by the EPMD stand-in); a wrong prediction would show as a routing violation",
               "longer or irregular quiet periods are not sampled"]
PEER_PID = ("p", b"peer@h", 7, 0, 1, None)
PEER_REF = ("r", b"peer@h", 1, [5, 6, 7], None)
NAMES = [b"alice", b"bob"]


def pt(ctl, payload, rng):
    return connlib.pass_through(ctl, payload, rng).hex()


def gen_script(rng):
    n = rng.choice([1, 2, 3, 5])
    steps = ["spawn"] * n
    alloc = n
    sp = nodelib.Spec(True)
    for i in range(n):
        sp.pids.append(pid_k(i))
        sp.live[i], sp.events[i], sp.links[i], sp.mons[i] = True, [], set(), []
    expect = []          # per step expectation for the oracle: None or text
    for i in range(n):
        expect.append(None)
    # registrations and early deaths
    for nm in NAMES:
        if rng.random() < 0.7:
            i = rng.randrange(n)
            steps.append("register %s $%d" % (hx(nm), i))
            expect.append("ok" if nm not in sp.names else "err")
            sp.names.setdefault(nm, i)
    if n > 1 and rng.random() < 0.4:
        i = rng.randrange(1, n)
        owned = [nm for nm, j in sp.names.items() if j == i]
        steps.append("send $%d a 6372617368" % i)
        expect.append("ok")
        sp.deliver(i, ("R", ("a", b"crash")))
        # a name whose owner has ended is free: it is given to a process that is alive, and inbound messages for the
        # name go there from now on
        for nm in owned:
            if rng.random() < 0.8:
                j = rng.choice([k for k in range(n) if sp.live.get(k)])
                steps.append("register %s $%d" % (hx(nm), j))
                expect.append("ok")
                sp.names[nm] = j
    connected = True
    nframes = 0
    calls = []
    for _ in range(rng.choice([3, 6, 12, 20])):
        r = rng.random()
        body = nodelib.gen_body(rng)
        target = rng.choice(list(range(n)) + [None])
        tpid = pid_k(target) if target is not None else ("p", nodelib.NODE, rng.choice([500, 2**20]), 0, nodelib.CREATION, None)
        if r < 0.3:
            tag = rng.choice([2, 2, 12])
            ctl = ("t", [("i", tag), ("a", b""), tpid] + ([("a", b"tok")] if tag == 12 else []))
            steps.append("frame " + pt(ctl, body, rng))
            if connected:
                sp.deliver(target, ("R", body))
        elif r < 0.42:
            nm = rng.choice(NAMES + [b"nobody"])
            tag = rng.choice([6, 6, 16])
            ctl = ("t", [("i", tag), PEER_PID, ("a", b""), ("a", nm)] + ([("a", b"tok")] if tag == 16 else []))
            steps.append("frame " + pt(ctl, body, rng))
            if connected and nm in sp.names:
                sp.deliver(sp.names[nm], ("R", body))
        elif r < 0.52:
            tag = rng.choice([3, 8, 13, 18])
            reason = rng.choice([("a", b"normal"), ("a", b"kill"), ("t", [("a", b"shutdown"), ("i", 1)])])
            ctl = ("t", [("i", tag), PEER_PID, tpid] + ([("a", b"tok")] if tag in (13, 18) else []) + [reason])
            steps.append("frame " + pt(ctl, None, rng))
            if connected:
                sp.deliver(target, ("X", PEER_PID, reason))
        elif r < 0.6:
            reason = rng.choice([("a", b"noproc"), ("a", b"normal")])
            ctl = ("t", [("i", 21), PEER_PID, tpid, PEER_REF, reason])
            steps.append("frame " + pt(ctl, None, rng))
            if connected:
                sp.deliver(target, ("M", PEER_PID, PEER_REF, reason))
        elif r < 0.68:
            ctl = rng.choice([("t", [("i", 1), PEER_PID, tpid]), ("t", [("i", 35), ("i", 5), PEER_PID, tpid]), ("t", [("i", 99), tpid]),
                              ("t", [("i", 4), PEER_PID, tpid]), ("t", [("i", 19), PEER_PID, tpid, PEER_REF])])
            steps.append("frame " + pt(ctl, body if rng.random() < 0.3 else None, rng))
        elif r < 0.78:
            steps.append(rng.choice(["tick", "frame 70836400", "frame 8344", "frame 7083ff", "frame 708364000161", "frame 70",
                                     "frame 70836802", "frame 7083680261026a83", "frame ffffffff"]))
        elif r < 0.84:
            steps.append("send $%d %s" % (rng.randrange(n), etf.show(body)))
            j = int(steps[-1].split()[1][1:])
            expect.append("ok" if sp.deliver(j, ("R", body)) else "err")
            continue
        elif r < 0.9:
            steps.append("rpc L 6d 66 0")
            expect.append("ok" if connected else "err")
            calls.append({"state": "pending" if connected else "notconnected", "alloc": alloc})
            alloc += 1
            if connected and rng.random() < 0.7:
                steps.append("replyto %s %s" % (etf.show(pid_k(calls[-1]["alloc"])), etf.show(("t", [("a", b"rex"), body]))))
                expect.append(None)
                calls[-1]["state"] = ("reply", etf.denote(("t", [("a", b"rex"), body])))
            continue
        elif r < 0.93 and calls and connected:
            pend = [k for k, c in enumerate(calls) if c["state"] == "pending"]
            if pend:
                # only calls whose request was sent are numbered by the peer: all of them here (connected)
                sent_idx = [k for k, c in enumerate(calls) if c["state"] != "notconnected"]
                steps.append("replystale @%d %s %s" % (sent_idx.index(pend[0]), rng.choice(["creation", "serial"]), etf.show(("t", [("a", b"rex"), ("a", b"stale")]))))
            else:
                steps.append("tick")
        elif r < 0.95 and connected and rng.random() < 0.5:
            steps.append(rng.choice(["overlong", "close"]))
            connected = False
        else:
            steps.append("conns")
            expect.append("1" if connected else "0")
            continue
        expect.append(None)
        nframes += 1
        if True:            # inbound frames are routed asynchronously: a marker frame orders them before the next local step
            steps.append("sync")
            expect.append(None)
            if connected:
                sp.deliver(0, ("R", ("a", b"sync")))
    steps.append("sync")
    expect.append(None)
    if connected:
        sp.deliver(0, ("R", ("a", b"sync")))
    for i in range(n):
        steps.append("events $%d" % i)
        expect.append(("events", nodelib.norm_events(nodelib.show_events(sp.events[i]))))
    steps += ["conns", "results", "pending"]
    expect.append("1" if connected else "0")
    expect.append(("results", [c["state"] for c in calls]))
    expect.append(str(sum(1 for c in calls if c["state"] == "pending")))
    return SEP.join(["node 1"] + steps), expect, nframes


EXPECT = {}


def oracle(case, impl):
    if impl.startswith(("PANIC", "CRASH", "TIMEOUT", "start-err", "connect-err", "peer-handshake")):
        return ("violation", "the node did not survive the script: " + impl[:60])
    steps = case.split(SEP)[1:]
    outs = impl.split(SEP)
    expect = EXPECT[case]
    if len(outs) != len(steps):
        return ("violation", "%d steps, %d results" % (len(steps), len(outs)))
    for k, (s, o, w) in enumerate(zip(steps, outs, expect)):
        if w is None:
            continue
        if isinstance(w, tuple) and w[0] == "events":
            if nodelib.norm_events(o) != w[1]:
                return ("violation", "step %d (%s): the process was not handed exactly the inbound messages addressed to it: %s" % (k, s, o[:100]))
        elif isinstance(w, tuple) and w[0] == "results":
            got = [] if o == "-" else o.split(" , ")
            if len(got) != len(w[1]):
                return ("violation", "step %d: %d calls, %d results" % (k, len(w[1]), len(got)))
            for g, st in zip(got, w[1]):
                if isinstance(st, tuple):
                    if not g.startswith("reply ") or etf.denote(etf.parse_term(g[6:])) != st[1]:
                        return ("violation", "a call did not get the reply addressed to it: " + g[:80])
                elif g != st:
                    return ("violation", "a call returned %s, expected %s" % (g[:40], st))
        elif o != w:
            what = "the connection table" if s == "conns" else s[:40]
            return ("violation", "step %d (%s): got %s, expected %s" % (k, what, o[:60], w))
    return None


def oracle_for(_d):
    return oracle


def run(ctx):
    rng = ctx.rng
    cases = []
    for _ in range(ctx.budget(150, 4000)):
        c, e, nf = gen_script(rng)
        EXPECT[c] = e
        cases.append(c)

    # a quiet period longer than the connection's idle timeout (10 s), filled with ticks: the connection must survive it
    pid0 = pid_k(0)
    c = SEP.join(["node 1", "spawn", "quiet 11", "frame " + pt(("t", [("i", 2), ("a", b""), pid0]), ("a", b"after"), rng), "sync", "events $0", "conns"])
    EXPECT[c] = [None, None, None, None, ("events", nodelib.norm_events("R a 6166746572 , R a 73796e63")), "1"]
    cases.append(c)

    # a process that is busy while more messages arrive for it than its mailbox holds (capacity 1000): the receiver waits
    # for room, nothing addressed to it is lost, and the connection keeps routing for the others
    for n in (1000, 1001, 1500):
        c = SEP.join(["node 1", "spawn", "spawn", "send $1 a " + hx(b"park"), "pflood $1 %d i 1" % n, "expire", "open", "sync", "expire",
                      "events $1", "events $0", "conns"])
        EXPECT[c] = [None, None, "ok", None, None, None, None, None,
                     ("events", nodelib.norm_events(" , ".join(["R a " + hx(b"park")] + ["R i 1"] * n))),
                     ("events", nodelib.norm_events("R a 73796e63")), "1"]
        cases.append(c)

    def classify(c, impl):
        out = []
        for s in c.split(SEP)[1:]:
            p = s.split()
            out.append("op:" + p[0])
        return out
    ctx.diff_domain("node", cases, oracle=oracle, nontrivial=lambda c, i: c if c.count("frame ") >= 3 else None, classify=classify)
