#!/bin/sh
# usage: try_mutant.sh <patch.diff> <Cxx> [tier]  — applies the patch to /repo, runs the check, reverts.
set -u
P="$1"; ID="$2"; TIER="${3:-quick}"
git -C /repo apply "$P" || { echo "patch does not apply"; exit 2; }
cd /verif && ./check "$ID" --tier "$TIER"; RC=$?
git -C /repo checkout -- .
echo "check exit=$RC"
exit 0
