(* C09 — Fragment reassembly.  Only property theorems here, each closed by `exact`. *)
From EDP Require Import Base.Bytes Gen.FragConsts Dist.Fragment Dist.FragmentFacts.

(* Sequences are isolated: an operation on sequence s' never changes what the assembler holds for s <> s',
   and what an operation on s returns / leaves behind depends only on the entry of s. *)
Theorem C09_isolation_start : forall a s s' fid c d now,
  s <> s' -> lookup s (fst (asm_start a s' fid c d now)) = lookup s a.
Proof. exact asm_start_other. Qed.

Theorem C09_isolation_add : forall a s s' fid d now,
  s <> s' -> lookup s (fst (asm_add a s' fid d now)) = lookup s a.
Proof. exact asm_add_other. Qed.

Theorem C09_own_entry_only_start : forall a s fid c d now,
  lookup s (fst (asm_start a s fid c d now)) = fst (seq_start (lookup s a) fid c d now)
  /\ snd (asm_start a s fid c d now) = snd (seq_start (lookup s a) fid c d now).
Proof. exact asm_start_own. Qed.

Theorem C09_own_entry_only_add : forall a s fid d now,
  lookup s (fst (asm_add a s fid d now)) = fst (seq_add (lookup s a) fid d now)
  /\ snd (asm_add a s fid d now) = snd (seq_add (lookup s a) fid d now).
Proof. exact asm_add_own. Qed.
