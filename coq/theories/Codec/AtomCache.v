(* A conforming sender with an atom cache, from the protocol description (erl_ext_dist, distribution header): what it
   puts in a header and which atoms its references stand for.  Definitions only; the reader it is compared with is
   DistHeader.read_entries. *)
From EDP Require Import Base.Bytes Codec.Decode Codec.DistHeader.

(* ---------- the sender, from the protocol description ---------- *)
Inductive entry := ENew (seg idx : N) (a : bytes) | EOld (seg idx : N).

Definition slot_of (seg idx : N) : N := seg * 256 + idx.
Definition e_nib (e : entry) : N := match e with ENew s _ _ => 8 + s | EOld s _ => s end.
Definition e_bytes (long : bool) (e : entry) : bytes :=
  match e with
  | ENew _ i a => i :: (if long then be 2 (len a) else [len a]) ++ a
  | EOld _ i => [i]
  end.
(* the sender's table after a header, and the atoms its references stand for (None: it refers to an empty slot,
   which a conforming sender never does) *)
Definition push (c : list (N * bytes)) (e : entry) : list (N * bytes) :=
  match e with ENew s i a => (slot_of s i, a) :: c | EOld _ _ => c end.

Fixpoint meant (sc : list (N * bytes)) (es : list entry) : option (list bytes) :=
  match es with
  | [] => Some []
  | e :: r =>
      match assocb (match e with ENew s i _ | EOld s i => slot_of s i end) (push sc e) with
      | Some a => match meant (push sc e) r with Some l => Some (a :: l) | None => None end
      | None => None
      end
  end.

(* two nibbles per byte, low half first *)
Fixpoint pack (l : list N) : bytes :=
  match l with
  | a :: b :: r => (a + 16 * b) :: pack r
  | [a] => [a]
  | [] => []
  end.

Definition sender_header (es : list entry) (long : bool) : bytes :=
  match es with
  | [] => [0]
  | _ => N.of_nat (length es) :: pack (map e_nib es ++ [if long then 1 else 0]) ++ concat (map (e_bytes long) es)
  end.

