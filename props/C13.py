"""C13 — zero-copy decoder agrees with the owned decoder. Domain `codec` (op decb)."""
import struct
import etf, termgen, bytesgen

ID = "C13"
GEN_FILES = ["DecoderArms.v", "Tags.v", "Limits.v"]
RULE = ("byte strings: library encodings of generated terms (modern tags), spec encodings with legacy/alternative tags, their "
        "truncations and mutations, count-field boundary strings, random bytes; both decoders run on each; oracle: borrowed accepts => "
        "owned accepts with the same term; only-modern-tags and owned accepts => borrowed accepts; reported offset inside the input; "
        "distinct = distinct byte string; non-trivial = longer than 3 bytes")
ASSUMPTIONS = ["'modern tag set' = tags OTP 26+ emits on distribution: " + str(sorted(bytesgen.MODERN))]


def oracle(case, impl):
    if impl.startswith(("PANIC", "CRASH", "TIMEOUT")):
        return ("violation", "decoder did not return: " + impl[:60])
    b, o = impl.split(" ; ")
    b, o = b[2:], o[2:]
    if "@OUT" in b:
        return ("violation", "the zero-copy decoder reports an offset outside the input: " + b)
    if b.startswith("ok"):
        if b != o:
            return ("violation", "zero-copy result differs from the owned decoder's: %s vs %s" % (b[:80], o[:80]))
        return None
    if o.startswith("ok"):
        data = bytes.fromhex(case.split()[1].replace(".", ""))
        tags = bytesgen.tags_used(data)
        if tags is not None and tags <= bytesgen.MODERN:
            return ("violation", "input uses only modern tags and the owned decoder accepts it, but the zero-copy decoder rejects it: " + b)
    return None


def oracle_for(_d):
    return oracle


def special_cases():
    """shapes that only matter for agreement between the two families"""
    out = []
    a = lambda s: bytes([119, len(s)]) + s  # noqa
    pid = lambda i, s, c: bytes([88]) + a(b"n@h") + struct.pack(">III", i, s, c)  # noqa
    i1 = bytes([97, 1])
    # every validity check of a leaf is made twice, once per family: the fields at, below and above each bound
    for n, body in ((0, b""), (1, b"\x80"), (2, b"\xab\xc0")):
        for bits in range(0, 11):
            bb = bytes([77]) + struct.pack(">I", n) + bytes([bits]) + body
            out += [bytes([131]) + bb, bytes([131, 104, 2]) + bb + i1, bytes([131, 116, 0, 0, 0, 1]) + i1 + bb, bytes([131, 108, 0, 0, 0, 1]) + bb + bytes([106])]
    for sign in (0, 1, 2, 255):
        out += [bytes([131, 110, 1, sign, 5]), bytes([131, 111, 0, 0, 0, 1, sign, 5]), bytes([131, 110, 0, sign])]
    for arity in (0, 1, 255):
        out.append(bytes([131, 113]) + a(b"m") + a(b"f") + bytes([97, arity]))
    out += [bytes([131, 113]) + a(b"m") + a(b"f") + bytes([98, 0, 0, 1, 0]), bytes([131, 113]) + a(b"m") + a(b"f") + bytes([98, 255, 255, 255, 255]),
            bytes([131, 113]) + a(b"m") + i1 + i1, bytes([131, 119, 2, 0xc3, 0x28]), bytes([131, 118, 0, 2, 0xff, 0xfe]), bytes([131, 119, 0])]
    for tail in (bytes([109, 0, 0, 0, 0]), bytes([104, 0]), bytes([116, 0, 0, 0, 0]), bytes([107, 0, 0]), bytes([106]), bytes([108, 0, 0, 0, 0, 106]), a(b"")):
        out.append(bytes([131, 108, 0, 0, 0, 1]) + i1 + tail)
        out.append(bytes([131, 104, 2, 108, 0, 0, 0, 2]) + i1 + i1 + tail + i1)
    keys = [(pid(1, 1, 1), pid(1, 2, 1)), (pid(1, 1, 1), pid(1, 1, 2)), (pid(1, 1, 1), pid(2, 1, 1)),
            (bytes([120]) + a(b"n") + struct.pack(">QI", 1, 1), bytes([120]) + a(b"n") + struct.pack(">QI", 1, 2)),
            (bytes([90, 0, 2]) + a(b"n") + struct.pack(">III", 1, 5, 6), bytes([90, 0, 2]) + a(b"n") + struct.pack(">III", 1, 5, 7)),
            (bytes([97, 1]), bytes([70]) + struct.pack(">d", 1.0)), (bytes([110, 8, 0]) + bytes(7) + b"\x80", bytes([110, 8, 0, 1]) + bytes(6) + b"\x80"),
            (bytes([109, 0, 0, 0, 1, 1]), bytes([77, 0, 0, 0, 1, 1, 0x80])), (bytes([106]), bytes([108, 0, 0, 0, 1]) + i1 + i1),
            # keys that differ only in what the map's key order has to look at last: the bit count of equal bytes, the
            # float / integer representation, the tail of equal elements
            (bytes([109, 0, 0, 0, 1, 128]), bytes([77, 0, 0, 0, 1, 1, 128])), (bytes([109, 0, 0, 0, 2, 0xab, 0xe0]), bytes([77, 0, 0, 0, 2, 3, 0xab, 0xe0])),
            (bytes([77, 0, 0, 0, 2, 3, 0xab, 0xe0]), bytes([77, 0, 0, 0, 2, 4, 0xab, 0xe0])), (bytes([77, 0, 0, 0, 1, 1, 128]), bytes([77, 0, 0, 0, 1, 2, 128])),
            (bytes([107, 0, 1, 128]), bytes([77, 0, 0, 0, 1, 1, 128])),
            (bytes([108, 0, 0, 0, 1]) + i1 + bytes([106]), bytes([108, 0, 0, 0, 1]) + i1 + bytes([97, 2])),
            (bytes([108, 0, 0, 0, 1]) + i1 + bytes([97, 2]), bytes([108, 0, 0, 0, 1]) + i1 + bytes([97, 3])),
            (bytes([104, 1]) + i1, bytes([104, 2]) + i1 + i1), (a(b"a"), a(b"ab")), (bytes([97, 255]), bytes([98, 0, 0, 1, 0])),
            (bytes([110, 9, 0]) + bytes(8) + b"\x01", bytes([110, 9, 0, 1]) + bytes(7) + b"\x01"),
            (bytes([113]) + a(b"m") + a(b"f") + bytes([97, 1]), bytes([113]) + a(b"m") + a(b"f") + bytes([97, 2])),
            # keys a comparison may or may not tell apart: the two zeros, inside a tuple too; the same number as float and big integer
            (bytes([70]) + struct.pack(">d", 0.0), bytes([70]) + struct.pack(">d", -0.0)),
            (bytes([104, 1, 70]) + struct.pack(">d", 0.0), bytes([104, 1, 70]) + struct.pack(">d", -0.0)),
            (bytes([70]) + struct.pack(">d", 2.0**63), bytes([110, 8, 0]) + bytes(7) + b"\x80"),
            (bytes([97, 0]), bytes([70]) + struct.pack(">d", -0.0))]
    # legacy Latin-1 atom tags whose bytes happen to be well-formed UTF-8, are plain ASCII, or are neither
    for nm in (b"\xc3\xa9", b"caf\xc3\xa9", b"abc", b"\xe9", b"\xc3", b"\xe2\x82\xac", b""):
        out.append(bytes([131, 100]) + struct.pack(">H", len(nm)) + nm)
        out.append(bytes([131, 115, len(nm)]) + nm)
        out.append(bytes([131, 104, 2, 115, len(nm)]) + nm + bytes([119, len(nm)]) + nm)
        out.append(bytes([131, 103, 115, len(nm)]) + nm + struct.pack(">IIB", 1, 2, 3))
    for k1, k2 in keys:
        out.append(bytes([131, 116, 0, 0, 0, 2]) + k1 + i1 + k2 + bytes([97, 2]))
        out.append(bytes([131, 116, 0, 0, 0, 2]) + k2 + i1 + k1 + bytes([97, 2]))
    return out


def run(ctx):
    rng = ctx.rng
    datas = special_cases()
    for t in termgen.boundary_terms():
        # library-style canonical encoding via the spec encoder
        try:
            v = etf.denote(termgen.strip_loc(t))
            if etf.has_nan(v):
                continue
            d, _ = termgen.encode_value(v, rng, canonical=True)
            if len(d) < 70000:
                datas.append(d)
        except Exception:  # noqa
            pass
    for v, d in bytesgen.valid_encodings(rng, ctx.budget(1500, 40000), canonical_share=0.6):
        datas.append(d)
        if rng.random() < 0.6:
            datas += bytesgen.mutations(rng, d, 2)
    # compressed terms with a long deflated stream (both decoders inflate them with their own code)
    for n, alphabet in ((60000, 40), (200000, 16)):
        blob = bytes(rng.randrange(alphabet) for _ in range(n))
        datas.append(termgen.encode_value(("bits", blob, 8 * n), rng, compress=True)[0])
        datas.append(termgen.encode_value(("tuple", (("int", 1), ("bits", blob, 8 * n))), rng, canonical=True)[0][:1]
                     + bytes([104, 2, 97, 1]) + termgen.encode_value(("bits", blob, 8 * n), rng, compress=True)[0][1:])
    datas += [d for d in bytesgen.count_bombs() if True][::3]
    for _ in range(ctx.budget(300, 5000)):
        datas.append(bytes([131]) + bytes(rng.randrange(256) for _ in range(rng.randrange(0, 12))))
    cases = bytesgen.attach_ztabs("decb", datas)

    def nontrivial(c, impl):
        return c if len(c) > 11 else None

    def classify(c, impl):
        b, o = impl.split(" ; ") if " ; " in impl else (impl, "")
        return ["borrowed:" + b[2:].split()[0] + ("" if b[2:].startswith("ok") else ":" + b[2:].split()[1].split("@")[0] if len(b[2:].split()) > 1 else ""),
                "owned:" + o[2:].split()[0]]
    ctx.diff_domain("codec", cases, oracle=oracle, nontrivial=nontrivial, classify=classify)
    # histories on one thread: each input through the zero-copy decoder and through the owned one, in a run of calls some of
    # which fail — the two must keep agreeing whatever the earlier calls left behind
    small = [d for d in datas if 3 < len(d) < 2000]
    hcases, HEL = [], {}
    for _ in range(ctx.budget(150, 3000)):
        elems = [rng.choice(small) for _e in range(rng.choice([2, 3, 5]))]
        one_by_one = bytesgen.attach_ztabs("dec", elems)
        ents = {}
        for x in one_by_one:
            w = x.split()[2:]
            for i in range(0, len(w) - 3, 4):
                ents[w[i + 1]] = " ".join(w[i:i + 4])
        ztail = " ".join(ents[k] for k in sorted(ents, key=len, reverse=True))
        seq = []
        for d in elems:
            seq += ["B" + d.hex(), d.hex()]
        case = "dech " + ",".join(seq) + ((" " + ztail) if ztail else "")
        HEL[case] = elems
        hcases.append(case)

    def hist_oracle(case, impl):
        if impl.startswith(("PANIC", "CRASH", "TIMEOUT")):
            return ("violation", "decoder did not return: " + impl[:60])
        outs = impl.split(" ;; ")
        for k, d in enumerate(HEL[case]):
            b, o = outs[2 * k], outs[2 * k + 1]
            if b.startswith("ok") and b != o:
                return ("violation", "in a history of calls the zero-copy result differs from the owned decoder's: %s vs %s" % (b[:60], o[:60]))
            if o.startswith("ok") and not b.startswith("ok"):
                tags = bytesgen.tags_used(d)
                if tags is not None and tags <= bytesgen.MODERN:
                    return ("violation", "in a history of calls the zero-copy decoder rejects a modern input the owned decoder accepts")
        return None
    ctx.diff_domain("codec", hcases, oracle=hist_oracle, nontrivial=lambda c, i: c, classify=lambda c, i: ["op:dech-pairs"])
