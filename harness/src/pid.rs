//! domain `pid`: PidAllocator and Node::make_reference.
//! cases: `seq next_id next_serial creation k` | `par threads per next_id next_serial creation`
//!        `ref k` | `refpar threads per`
use edp_client::PidAllocator;
use erltf::types::Atom;
use std::collections::HashSet;
use std::sync::atomic::Ordering;
use std::sync::{Arc, Barrier};

const P: u64 = (1u64 << 61) - 1;

fn summarize(mut pids: Vec<(u32, u32, u32)>, detail: bool) -> String {
    if detail && pids.len() <= 40 {
        return pids
            .iter()
            .map(|(i, s, c)| format!("{i}.{s}.{c}"))
            .collect::<Vec<_>>()
            .join(" ");
    }
    let n = pids.len();
    let first = pids.first().cloned();
    let last = pids.last().cloned();
    let mut sum: u64 = 0;
    for (i, s, c) in &pids {
        sum = (sum + (*i as u64) * 1_000_003 + (*s as u64) * 7 + (*c as u64)) % P;
    }
    let set: HashSet<_> = pids.drain(..).collect();
    let dups = n - set.len();
    if detail {
        format!("n={n} dups={dups} sum={sum} first={:?} last={:?}", first.unwrap(), last.unwrap())
    } else {
        format!("n={n} dups={dups} sum={sum}")
    }
}

pub fn run_case(line: &str) -> String {
    let t: Vec<&str> = line.split_whitespace().collect();
    match t[0] {
        "seq" => {
            let (id, ser, cr, k): (u32, u64, u32, usize) =
                (t[1].parse().unwrap(), t[2].parse().unwrap(), t[3].parse().unwrap(), t[4].parse().unwrap());
            let a = PidAllocator::new(Atom::new("n@h"), cr);
            a.next_id_test_only().store(id, Ordering::SeqCst);
            a.next_serial_test_only().store(ser, Ordering::SeqCst);
            let mut v = Vec::with_capacity(k);
            for _ in 0..k {
                let p = a.allocate().unwrap();
                assert_eq!(p.node, Atom::new("n@h"));
                v.push((p.id, p.serial, p.creation));
            }
            summarize(v, true)
        }
        "mix" => {
            // allocations interleaved with set_creation: `mix <id> <serial> <creation> a|c<creation> ...`
            let (id, ser, cr): (u32, u64, u32) = (t[1].parse().unwrap(), t[2].parse().unwrap(), t[3].parse().unwrap());
            let a = PidAllocator::new(Atom::new("n@h"), cr);
            a.next_id_test_only().store(id, Ordering::SeqCst);
            a.next_serial_test_only().store(ser, Ordering::SeqCst);
            let mut out = Vec::new();
            for op in &t[4..] {
                if let Some(c) = op.strip_prefix('c') {
                    a.set_creation(c.parse::<u32>().unwrap());
                } else {
                    let p = a.allocate().unwrap();
                    out.push(format!("{}.{}.{}", p.id, p.serial, p.creation));
                }
            }
            out.join(" ")
        }
        "par" => {
            let (th, per, id, ser, cr): (usize, usize, u32, u64, u32) = (
                t[1].parse().unwrap(), t[2].parse().unwrap(), t[3].parse().unwrap(), t[4].parse().unwrap(), t[5].parse().unwrap());
            let a = Arc::new(PidAllocator::new(Atom::new("n@h"), cr));
            a.next_id_test_only().store(id, Ordering::SeqCst);
            a.next_serial_test_only().store(ser, Ordering::SeqCst);
            let bar = Arc::new(Barrier::new(th));
            let hs: Vec<_> = (0..th)
                .map(|_| {
                    let a = a.clone();
                    let bar = bar.clone();
                    std::thread::spawn(move || {
                        bar.wait();
                        let mut v = Vec::with_capacity(per);
                        for _ in 0..per {
                            let p = a.allocate().unwrap();
                            v.push((p.id, p.serial, p.creation));
                        }
                        v
                    })
                })
                .collect();
            let mut all = Vec::new();
            for h in hs {
                all.extend(h.join().unwrap());
            }
            summarize(all, false)
        }
        "ref" => {
            let k: usize = t[1].parse().unwrap();
            let node = edp_node::Node::new("n@h", "c");
            let mut out = Vec::new();
            for _ in 0..k {
                let r = node.make_reference();
                out.push(format!("{:?}/{}", r.ids, r.creation));
            }
            out.join(" ").replace(", ", ",")
        }
        "refpar" => {
            let (th, per): (usize, usize) = (t[1].parse().unwrap(), t[2].parse().unwrap());
            let node = Arc::new(edp_node::Node::new("n@h", "c"));
            let bar = Arc::new(Barrier::new(th));
            let hs: Vec<_> = (0..th)
                .map(|_| {
                    let node = node.clone();
                    let bar = bar.clone();
                    std::thread::spawn(move || {
                        bar.wait();
                        (0..per).map(|_| node.make_reference().ids).collect::<Vec<_>>()
                    })
                })
                .collect();
            let mut words: Vec<u32> = Vec::new();
            let mut refs = Vec::new();
            for h in hs {
                for ids in h.join().unwrap() {
                    words.extend(ids.iter().cloned());
                    refs.push(ids);
                }
            }
            let n = refs.len();
            let set: HashSet<_> = refs.into_iter().collect();
            let wn = words.len();
            let wset: HashSet<_> = words.iter().cloned().collect();
            let sum: u64 = words.iter().map(|w| *w as u64).sum();
            format!("n={n} dups={} worddups={} wordsum={sum}", n - set.len(), wn - wset.len())
        }
        _ => panic!("bad case"),
    }
}
