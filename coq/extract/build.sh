#!/bin/sh
# builds model_runner from the compiled theories (run after `make` in coq/)
set -e
cd "$(dirname "$0")"
timeout 600 coqc -Q ../theories EDP Extract.v >/dev/null
rm -f Extract.vo Extract.vok Extract.vos Extract.glob .Extract.aux
ocamlfind ocamlopt -O2 -w -a -package str -linkpkg model.mli model.ml driver.ml -o model_runner 2>/dev/null \
  || ocamlfind ocamlopt -w -a -package str -linkpkg model.mli model.ml driver.ml -o model_runner
