//! Serde layer (C15): a family of representative Rust types, each with a type descriptor, a reader and a printer
//! for values in the text format shared with the model runner.
use crate::termio::{Toks, read_term, term_str};
use crate::util::{hex, unhex};
use erltf_serde::ElixirStruct;
use serde::{Deserialize, Serialize};
use std::collections::{BTreeMap, HashMap};

pub trait G: Sized + Serialize + for<'a> Deserialize<'a> + PartialEq {
    fn ty(out: &mut String);
    fn read(t: &mut Toks) -> Self;
    fn show(&self, out: &mut String);
}

fn expect(t: &mut Toks, tag: &str) {
    let got = t.next();
    assert!(got == tag, "expected {tag}, got {got}");
}

macro_rules! g_int {
    ($($t:ty => $d:expr),*) => {$(
        impl G for $t {
            fn ty(out: &mut String) { out.push_str($d); }
            fn read(t: &mut Toks) -> Self { expect(t, "z"); t.num() }
            fn show(&self, out: &mut String) { out.push_str(&format!("z {}", self)); }
        }
    )*};
}
g_int!(i8 => "I8", i16 => "I16", i32 => "I32", i64 => "I64", u8 => "U8", u16 => "U16", u32 => "U32", u64 => "U64");

impl G for bool {
    fn ty(out: &mut String) {
        out.push('B');
    }
    fn read(t: &mut Toks) -> Self {
        expect(t, "b");
        t.next() == "1"
    }
    fn show(&self, out: &mut String) {
        out.push_str(if *self { "b 1" } else { "b 0" });
    }
}
impl G for f64 {
    fn ty(out: &mut String) {
        out.push_str("F64");
    }
    fn read(t: &mut Toks) -> Self {
        expect(t, "f");
        f64::from_bits(u64::from_str_radix(t.next(), 16).expect("bits"))
    }
    fn show(&self, out: &mut String) {
        out.push_str(&format!("f {:016x}", self.to_bits()));
    }
}
impl G for f32 {
    fn ty(out: &mut String) {
        out.push_str("F32");
    }
    fn read(t: &mut Toks) -> Self {
        expect(t, "f");
        f64::from_bits(u64::from_str_radix(t.next(), 16).expect("bits")) as f32
    }
    fn show(&self, out: &mut String) {
        out.push_str(&format!("f {:016x}", (*self as f64).to_bits()));
    }
}
impl G for char {
    fn ty(out: &mut String) {
        out.push('C');
    }
    fn read(t: &mut Toks) -> Self {
        expect(t, "c");
        let s = String::from_utf8(unhex(t.next())).expect("utf8");
        let mut it = s.chars();
        let c = it.next().expect("char");
        assert!(it.next().is_none());
        c
    }
    fn show(&self, out: &mut String) {
        out.push_str(&format!("c {}", hex(self.to_string().as_bytes())));
    }
}
impl G for String {
    fn ty(out: &mut String) {
        out.push_str("Str");
    }
    fn read(t: &mut Toks) -> Self {
        expect(t, "s");
        String::from_utf8(unhex(t.next())).expect("utf8")
    }
    fn show(&self, out: &mut String) {
        out.push_str(&format!("s {}", hex(self.as_bytes())));
    }
}
impl G for () {
    fn ty(out: &mut String) {
        out.push_str("Unit");
    }
    fn read(t: &mut Toks) -> Self {
        expect(t, "u");
    }
    fn show(&self, out: &mut String) {
        out.push('u');
    }
}
impl<T: G> G for Option<T> {
    fn ty(out: &mut String) {
        out.push_str("O ");
        T::ty(out);
    }
    fn read(t: &mut Toks) -> Self {
        match t.next() {
            "N" => None,
            "S" => Some(T::read(t)),
            other => panic!("bad option {other}"),
        }
    }
    fn show(&self, out: &mut String) {
        match self {
            None => out.push('N'),
            Some(v) => {
                out.push_str("S ");
                v.show(out);
            }
        }
    }
}
impl<T: G> G for Vec<T> {
    fn ty(out: &mut String) {
        out.push_str("V ");
        T::ty(out);
    }
    fn read(t: &mut Toks) -> Self {
        expect(t, "Q");
        let n: usize = t.num();
        (0..n).map(|_| T::read(t)).collect()
    }
    fn show(&self, out: &mut String) {
        out.push_str(&format!("Q {}", self.len()));
        for v in self {
            out.push(' ');
            v.show(out);
        }
    }
}
impl<A: G, B: G> G for (A, B) {
    fn ty(out: &mut String) {
        out.push_str("T 2 ");
        A::ty(out);
        out.push(' ');
        B::ty(out);
    }
    fn read(t: &mut Toks) -> Self {
        expect(t, "T");
        expect(t, "2");
        let a = A::read(t);
        let b = B::read(t);
        (a, b)
    }
    fn show(&self, out: &mut String) {
        out.push_str("T 2 ");
        self.0.show(out);
        out.push(' ');
        self.1.show(out);
    }
}
impl<A: G, B: G, C: G> G for (A, B, C) {
    fn ty(out: &mut String) {
        out.push_str("T 3 ");
        A::ty(out);
        out.push(' ');
        B::ty(out);
        out.push(' ');
        C::ty(out);
    }
    fn read(t: &mut Toks) -> Self {
        expect(t, "T");
        expect(t, "3");
        let a = A::read(t);
        let b = B::read(t);
        let c = C::read(t);
        (a, b, c)
    }
    fn show(&self, out: &mut String) {
        out.push_str("T 3 ");
        self.0.show(out);
        out.push(' ');
        self.1.show(out);
        out.push(' ');
        self.2.show(out);
    }
}
fn show_entries(mut es: Vec<(String, String)>, out: &mut String) {
    es.sort();
    out.push_str(&format!("M {}", es.len()));
    for (k, v) in es {
        out.push(' ');
        out.push_str(&k);
        out.push(' ');
        out.push_str(&v);
    }
}
fn sh<T: G>(v: &T) -> String {
    let mut s = String::new();
    v.show(&mut s);
    s
}
impl<K: G + std::hash::Hash + Eq, V: G> G for HashMap<K, V> {
    fn ty(out: &mut String) {
        out.push_str("M ");
        K::ty(out);
        out.push(' ');
        V::ty(out);
    }
    fn read(t: &mut Toks) -> Self {
        expect(t, "M");
        let n: usize = t.num();
        (0..n)
            .map(|_| {
                let k = K::read(t);
                let v = V::read(t);
                (k, v)
            })
            .collect()
    }
    fn show(&self, out: &mut String) {
        show_entries(self.iter().map(|(k, v)| (sh(k), sh(v))).collect(), out);
    }
}
impl<K: G + Ord, V: G> G for BTreeMap<K, V> {
    fn ty(out: &mut String) {
        out.push_str("M ");
        K::ty(out);
        out.push(' ');
        V::ty(out);
    }
    fn read(t: &mut Toks) -> Self {
        expect(t, "M");
        let n: usize = t.num();
        (0..n)
            .map(|_| {
                let k = K::read(t);
                let v = V::read(t);
                (k, v)
            })
            .collect()
    }
    fn show(&self, out: &mut String) {
        show_entries(self.iter().map(|(k, v)| (sh(k), sh(v))).collect(), out);
    }
}

macro_rules! g_struct {
    ($name:ident, $tag:expr, $($f:ident : $ft:ty),*) => {
        impl G for $name {
            fn ty(out: &mut String) {
                let n = [$(stringify!($f)),*].len();
                out.push_str(&format!("{} {}", $tag, n));
                $( out.push_str(&format!(" {} ", hex(stringify!($f).as_bytes()))); <$ft as G>::ty(out); )*
            }
            fn read(t: &mut Toks) -> Self {
                expect(t, "R");
                let _n: usize = t.num();
                $( let $f = <$ft as G>::read(t); )*
                $name { $($f),* }
            }
            fn show(&self, out: &mut String) {
                let n = [$(stringify!($f)),*].len();
                out.push_str(&format!("R {}", n));
                $( out.push(' '); self.$f.show(out); )*
            }
        }
    };
}

#[derive(Debug, Clone, PartialEq, Serialize, Deserialize)]
pub struct Plain {
    a: i64,
    b: String,
    c: Option<u32>,
    d: Vec<i8>,
    e: (u16, f64),
    f: char,
}
g_struct!(Plain, "R", a: i64, b: String, c: Option<u32>, d: Vec<i8>, e: (u16, f64), f: char);

#[derive(Debug, Clone, PartialEq, Serialize, Deserialize)]
pub struct Nested {
    id: u64,
    inner: Plain,
    tags: Vec<String>,
    m: BTreeMap<String, i32>,
    flag: bool,
}
g_struct!(Nested, "R", id: u64, inner: Plain, tags: Vec<String>, m: BTreeMap<String, i32>, flag: bool);

#[derive(Debug, Clone, PartialEq, ElixirStruct)]
#[elixir_module = "MyApp.User"]
pub struct User {
    name: String,
    age: u32,
    email: Option<String>,
    score: i64,
}
g_struct!(User, format!("X {}", hex(b"MyApp.User")), name: String, age: u32, email: Option<String>, score: i64);

#[derive(Debug, Clone, PartialEq, ElixirStruct)]
#[elixir_module = "MyApp.Team"]
pub struct Team {
    lead: User,
    ids: Vec<u64>,
    size: u8,
}
g_struct!(Team, format!("X {}", hex(b"MyApp.Team")), lead: User, ids: Vec<u64>, size: u8);

#[derive(Debug, Clone, PartialEq, Serialize, Deserialize)]
pub enum E {
    Unit,
    Other,
    Newtype(i64),
    Text(String),
    Pair(i32, String),
    Triple(u8, char, Option<u64>),
    Rec { x: u64, y: char },
    Deep { inner: Plain, opt: Option<i16> },
}
impl G for E {
    fn ty(out: &mut String) {
        let h = |s: &str| hex(s.as_bytes());
        out.push_str(&format!("E 8 {} pu {} pu {} pn I64 {} pn Str {} pt 2 I32 Str {} pt 3 U8 C O U64 ", h("Unit"), h("Other"), h("Newtype"), h("Text"), h("Pair"), h("Triple")));
        out.push_str(&format!("{} ps 2 {} U64 {} C {} ps 2 {} ", h("Rec"), h("x"), h("y"), h("Deep"), h("inner")));
        Plain::ty(out);
        out.push_str(&format!(" {} O I16", h("opt")));
    }
    fn read(t: &mut Toks) -> Self {
        expect(t, "E");
        let idx: usize = t.num();
        let _n: usize = t.num();
        match idx {
            0 => E::Unit,
            1 => E::Other,
            2 => E::Newtype(G::read(t)),
            3 => E::Text(G::read(t)),
            4 => {
                let a = G::read(t);
                let b = G::read(t);
                E::Pair(a, b)
            }
            5 => {
                let a = G::read(t);
                let b = G::read(t);
                let c = G::read(t);
                E::Triple(a, b, c)
            }
            6 => {
                let x = G::read(t);
                let y = G::read(t);
                E::Rec { x, y }
            }
            7 => {
                let inner = G::read(t);
                let opt = G::read(t);
                E::Deep { inner, opt }
            }
            _ => panic!("bad variant"),
        }
    }
    fn show(&self, out: &mut String) {
        match self {
            E::Unit => out.push_str("E 0 0"),
            E::Other => out.push_str("E 1 0"),
            E::Newtype(a) => {
                out.push_str("E 2 1 ");
                a.show(out);
            }
            E::Text(a) => {
                out.push_str("E 3 1 ");
                a.show(out);
            }
            E::Pair(a, b) => {
                out.push_str("E 4 2 ");
                a.show(out);
                out.push(' ');
                b.show(out);
            }
            E::Triple(a, b, c) => {
                out.push_str("E 5 3 ");
                a.show(out);
                out.push(' ');
                b.show(out);
                out.push(' ');
                c.show(out);
            }
            E::Rec { x, y } => {
                out.push_str("E 6 2 ");
                x.show(out);
                out.push(' ');
                y.show(out);
            }
            E::Deep { inner, opt } => {
                out.push_str("E 7 2 ");
                inner.show(out);
                out.push(' ');
                opt.show(out);
            }
        }
    }
}

/// variants whose wire names are the atoms the data model gives a meaning of their own
#[derive(Debug, Clone, PartialEq, Serialize, Deserialize)]
pub enum Kw {
    #[serde(rename = "true")]
    True,
    #[serde(rename = "false")]
    False,
    #[serde(rename = "nil")]
    Nil,
    #[serde(rename = "undefined")]
    Undefined,
    #[serde(rename = "ok")]
    Ok(u8),
    #[serde(rename = "error")]
    Error { nil: i16, undefined: bool },
}
impl G for Kw {
    fn ty(out: &mut String) {
        let h = |s: &str| hex(s.as_bytes());
        out.push_str(&format!("E 6 {} pu {} pu {} pu {} pu {} pn U8 {} ps 2 {} I16 {} B", h("true"), h("false"), h("nil"), h("undefined"), h("ok"), h("error"), h("nil"), h("undefined")));
    }
    fn read(t: &mut Toks) -> Self {
        expect(t, "E");
        let idx: usize = t.num();
        let _n: usize = t.num();
        match idx {
            0 => Kw::True,
            1 => Kw::False,
            2 => Kw::Nil,
            3 => Kw::Undefined,
            4 => Kw::Ok(G::read(t)),
            5 => {
                let nil = G::read(t);
                let undefined = G::read(t);
                Kw::Error { nil, undefined }
            }
            _ => panic!("bad variant"),
        }
    }
    fn show(&self, out: &mut String) {
        match self {
            Kw::True => out.push_str("E 0 0"),
            Kw::False => out.push_str("E 1 0"),
            Kw::Nil => out.push_str("E 2 0"),
            Kw::Undefined => out.push_str("E 3 0"),
            Kw::Ok(a) => {
                out.push_str("E 4 1 ");
                a.show(out);
            }
            Kw::Error { nil, undefined } => {
                out.push_str("E 5 2 ");
                nil.show(out);
                out.push(' ');
                undefined.show(out);
            }
        }
    }
}

// ---- the other kinds of struct, and a byte buffer ----
#[derive(Debug, Clone, PartialEq, Serialize, Deserialize)]
pub struct Marker;
#[derive(Debug, Clone, PartialEq, Serialize, Deserialize)]
#[serde(rename = "nil")]
pub struct NilMark;
macro_rules! g_unit_struct {
    ($name:ident, $wire:expr) => {
        impl G for $name {
            fn ty(out: &mut String) {
                out.push_str(&format!("US {}", hex($wire.as_bytes())));
            }
            fn read(t: &mut Toks) -> Self {
                expect(t, "u");
                $name
            }
            fn show(&self, out: &mut String) {
                out.push('u');
            }
        }
    };
}
g_unit_struct!(Marker, "Marker");
g_unit_struct!(NilMark, "nil");

#[derive(Debug, Clone, PartialEq, Serialize, Deserialize)]
pub struct Meters(i64);
impl G for Meters {
    fn ty(out: &mut String) {
        out.push_str("NT I64");
    }
    fn read(t: &mut Toks) -> Self {
        expect(t, "T");
        expect(t, "1");
        Meters(G::read(t))
    }
    fn show(&self, out: &mut String) {
        out.push_str("T 1 ");
        self.0.show(out);
    }
}
#[derive(Debug, Clone, PartialEq, Serialize, Deserialize)]
pub struct Wrapped<T>(T);
impl<T: G> G for Wrapped<T> {
    fn ty(out: &mut String) {
        out.push_str("NT ");
        T::ty(out);
    }
    fn read(t: &mut Toks) -> Self {
        expect(t, "T");
        expect(t, "1");
        Wrapped(T::read(t))
    }
    fn show(&self, out: &mut String) {
        out.push_str("T 1 ");
        self.0.show(out);
    }
}
#[derive(Debug, Clone, PartialEq, Serialize, Deserialize)]
pub struct Pair(i32, String);
impl G for Pair {
    fn ty(out: &mut String) {
        out.push_str("TS 2 I32 Str");
    }
    fn read(t: &mut Toks) -> Self {
        expect(t, "T");
        expect(t, "2");
        let a = G::read(t);
        let b = G::read(t);
        Pair(a, b)
    }
    fn show(&self, out: &mut String) {
        out.push_str("T 2 ");
        self.0.show(out);
        out.push(' ');
        self.1.show(out);
    }
}
#[derive(Debug, Clone, PartialEq, Serialize, Deserialize)]
pub struct Trip(u64, Marker, Option<char>);
impl G for Trip {
    fn ty(out: &mut String) {
        out.push_str("TS 3 U64 ");
        Marker::ty(out);
        out.push_str(" O C");
    }
    fn read(t: &mut Toks) -> Self {
        expect(t, "T");
        expect(t, "3");
        let a = G::read(t);
        let b = G::read(t);
        let c = G::read(t);
        Trip(a, b, c)
    }
    fn show(&self, out: &mut String) {
        out.push_str("T 3 ");
        self.0.show(out);
        out.push(' ');
        self.1.show(out);
        out.push(' ');
        self.2.show(out);
    }
}
/// a byte buffer that goes through serialize_bytes / deserialize_byte_buf (what serde_bytes::ByteBuf does)
#[derive(Debug, Clone, PartialEq)]
pub struct Blob(Vec<u8>);
impl Serialize for Blob {
    fn serialize<S: serde::Serializer>(&self, s: S) -> Result<S::Ok, S::Error> {
        s.serialize_bytes(&self.0)
    }
}
impl<'de> Deserialize<'de> for Blob {
    fn deserialize<D: serde::Deserializer<'de>>(d: D) -> Result<Self, D::Error> {
        struct V;
        impl<'de> serde::de::Visitor<'de> for V {
            type Value = Blob;
            fn expecting(&self, f: &mut std::fmt::Formatter) -> std::fmt::Result {
                f.write_str("bytes")
            }
            fn visit_bytes<E: serde::de::Error>(self, v: &[u8]) -> Result<Blob, E> {
                Ok(Blob(v.to_vec()))
            }
            fn visit_byte_buf<E: serde::de::Error>(self, v: Vec<u8>) -> Result<Blob, E> {
                Ok(Blob(v))
            }
        }
        d.deserialize_byte_buf(V)
    }
}
impl G for Blob {
    fn ty(out: &mut String) {
        out.push_str("By");
    }
    fn read(t: &mut Toks) -> Self {
        expect(t, "s");
        Blob(unhex(t.next()))
    }
    fn show(&self, out: &mut String) {
        out.push_str(&format!("s {}", hex(&self.0)));
    }
}
#[derive(Debug, Clone, PartialEq, Serialize, Deserialize)]
pub struct Holder {
    m: Marker,
    d: Meters,
    p: Pair,
    b: Blob,
    o: Option<Wrapped<i16>>,
}
g_struct!(Holder, "R", m: Marker, d: Meters, p: Pair, b: Blob, o: Option<Wrapped<i16>>);

fn run<T: G>(op: &str, rest: &str) -> String {
    match op {
        "rt" => {
            let v = T::read(&mut Toks::new(rest));
            let term = match erltf_serde::to_term(&v) {
                Ok(t) => t,
                Err(_) => return "term=SERERR".to_string(),
            };
            let mem = match erltf_serde::from_term::<T>(&term) {
                Ok(v2) => sh(&v2),
                Err(_) => "ERR".to_string(),
            };
            let wire = match erltf_serde::to_bytes(&v) {
                Err(_) => "ENCERR".to_string(),
                Ok(b) => match erltf_serde::from_bytes::<T>(&b) {
                    Ok(v2) => sh(&v2),
                    Err(_) => "ERR".to_string(),
                },
            };
            format!("term={} ; mem={} ; wire={}", term_str(&term), mem, wire)
        }
        "de" => {
            let term = read_term(&mut Toks::new(rest));
            match erltf_serde::from_term::<T>(&term) {
                Ok(v) => sh(&v),
                Err(_) => "ERR".to_string(),
            }
        }
        other => panic!("bad serde op {other}"),
    }
}

type Runner = fn(&str, &str) -> String;
fn registry() -> &'static Vec<(String, Runner)> {
    static REG: std::sync::OnceLock<Vec<(String, Runner)>> = std::sync::OnceLock::new();
    REG.get_or_init(|| {
        let mut v: Vec<(String, Runner)> = Vec::new();
        macro_rules! reg {
            ($($t:ty),* $(,)?) => {$(
                let mut s = String::new();
                <$t as G>::ty(&mut s);
                v.push((s, run::<$t> as Runner));
            )*};
        }
        reg!(
            bool, i8, i16, i32, i64, u8, u16, u32, u64, f32, f64, char, String, (),
            Option<i64>, Option<u64>, Option<String>, Option<Vec<i32>>, Option<()>, Option<char>, Option<E>,
            (i64, String), (u8, char, bool), (i32, (u64, String)), (E, Plain),
            Vec<u32>, Vec<i64>, Vec<u64>, Vec<String>, Vec<Option<i16>>, Vec<Vec<u8>>, Vec<(i64, f64)>, Vec<char>, Vec<E>, Vec<()>,
            HashMap<String, i64>, BTreeMap<i64, String>, BTreeMap<u64, Vec<char>>, HashMap<String, Option<f32>>, BTreeMap<String, E>,
            HashMap<u32, (i8, String)>, BTreeMap<char, bool>,
            Plain, Nested, User, Team, E, Vec<Plain>, Option<User>, BTreeMap<String, Vec<(u8, E)>>,
            Kw, Vec<Kw>, (Kw, bool), BTreeMap<String, Kw>,
            Marker, NilMark, Meters, Wrapped<u64>, Wrapped<Vec<Option<u8>>>, Wrapped<Wrapped<char>>, Pair, Trip, Blob, Holder,
            Vec<Marker>, Option<Marker>, Option<Meters>, Option<Wrapped<String>>, (Marker, Meters, Pair), BTreeMap<String, Trip>,
            Vec<Blob>, Option<Blob>, BTreeMap<i64, Wrapped<E>>, Vec<Holder>, Option<NilMark>,
        );
        v
    })
}

pub fn types() -> String {
    registry().iter().map(|(d, _)| d.clone()).collect::<Vec<_>>().join("\n")
}

pub fn run_case(line: &str) -> String {
    if line == "types" {
        return registry().iter().map(|(d, _)| d.clone()).collect::<Vec<_>>().join(" ;; ");
    }
    let mut parts = line.splitn(3, " | ");
    let op = parts.next().expect("op");
    let tyd = parts.next().expect("type");
    let rest = parts.next().unwrap_or("");
    match registry().iter().find(|(d, _)| d == tyd) {
        Some((_, f)) => f(op, rest),
        None => format!("NOTYPE {tyd}"),
    }
}
