//! A real `Node` with instrumented processes, a scripted peer and an EPMD stand-in (C17, C18, C19).
//! `Node::start` and `Node::connect` talk to EPMD on localhost:4369 (fixed in the library): the stand-in answers
//! ALIVE2_REQ with a creation and PORT_PLEASE2_REQ with the port written in the node name ("p<port>"), so it keeps
//! no state and whichever harness process owns the port can serve all of them.
use crate::conn::{COOKIE, peer_handshake, runtime};
use crate::termio::{Toks, read_term, term_str};
use crate::util::{hex, unhex};
use edp_node::{Message, Node, Process};
use erltf::OwnedTerm;
use erltf::types::{Atom, ExternalPid, ExternalReference};
use std::sync::{Arc, Mutex};
use std::time::Duration;
use tokio::io::{AsyncReadExt, AsyncWriteExt};
use tokio::net::{TcpListener, TcpStream};

const CREATION: u32 = 7;
const NODE_NAME: &str = "verif@127.0.0.1";

async fn epmd_conn(mut s: TcpStream) {
    let Ok(len) = s.read_u16().await else { return };
    let mut req = vec![0u8; len as usize];
    if s.read_exact(&mut req).await.is_err() || req.is_empty() {
        return;
    }
    match req[0] {
        120 => {
            // ALIVE2_REQ -> ALIVE2_X_RESP, result 0, creation
            let mut resp = vec![118u8, 0];
            // a node named verifc<N> is given creation N (late-start scripts), every other node CREATION
            let creation = (req.len() > 11)
                .then(|| String::from_utf8_lossy(&req[11..]).to_string())
                .and_then(|n| n.strip_prefix("verifc").map(|r| r.chars().take_while(|c| c.is_ascii_digit()).collect::<String>()))
                .and_then(|d| d.parse::<u32>().ok())
                .unwrap_or(CREATION);
            resp.extend_from_slice(&creation.to_be_bytes());
            let _ = s.write_all(&resp).await;
            let _ = s.flush().await;
            // a registration lives as long as its connection
            let mut b = [0u8; 1];
            let _ = s.read(&mut b).await;
        }
        122 => {
            let name = &req[1..];
            let port: u16 = String::from_utf8_lossy(name).trim_start_matches('p').parse().unwrap_or(0);
            let mut resp = vec![119u8, if port == 0 { 1 } else { 0 }];
            if port != 0 {
                resp.extend_from_slice(&port.to_be_bytes());
                resp.extend_from_slice(&[77, 0, 0, 6, 0, 5]);
                resp.extend_from_slice(&(name.len() as u16).to_be_bytes());
                resp.extend_from_slice(name);
                resp.extend_from_slice(&[0, 0]);
            }
            let _ = s.write_all(&resp).await;
            let _ = s.flush().await;
        }
        _ => {}
    }
}

/// serve EPMD on localhost:4369 if nobody does (called before every case: takes over when the previous owner exits)
fn ensure_epmd() {
    thread_local! { static SERVING: std::cell::Cell<bool> = const { std::cell::Cell::new(false) }; }
    if SERVING.with(|s| s.get()) {
        return;
    }
    let rt = runtime();
    for addr in ["127.0.0.1:4369", "[::1]:4369"] {
        if let Ok(l) = rt.block_on(TcpListener::bind(addr)) {
            SERVING.with(|s| s.set(true));
            rt.spawn(async move {
                loop {
                    if let Ok((s, _)) = l.accept().await {
                        tokio::spawn(epmd_conn(s));
                    }
                }
            });
        }
    }
}

#[derive(Clone)]
enum Ev {
    Regular(OwnedTerm),
    Exit(ExternalPid, OwnedTerm),
    MonitorExit(ExternalPid, ExternalReference, OwnedTerm),
}

struct Recorder {
    events: Arc<Mutex<Vec<Ev>>>,
    /// a message `park` makes the handler wait here until the script says `open`: everything sent meanwhile queues up
    gate: Arc<tokio::sync::Semaphore>,
}

impl Process for Recorder {
    async fn handle_message(&mut self, msg: Message) -> edp_node::Result<()> {
        match msg {
            Message::Regular { body, .. } => {
                let crash = body.is_atom_with_name("crash");
                let park = body.is_atom_with_name("park");
                self.events.lock().unwrap().push(Ev::Regular(body));
                if park && let Ok(p) = self.gate.acquire().await {
                    p.forget();
                }
                if crash {
                    return Err(edp_node::Error::MailboxClosed);
                }
            }
            Message::Exit { from, reason } => self.events.lock().unwrap().push(Ev::Exit(from, reason)),
            Message::MonitorExit { monitored, reference, reason } => {
                self.events.lock().unwrap().push(Ev::MonitorExit(monitored, reference, reason))
            }
            _ => {}
        }
        Ok(())
    }
}

fn pid_text(p: &ExternalPid) -> String {
    term_str(&OwnedTerm::Pid(p.clone()))
}

fn show_events(evs: &[Ev]) -> String {
    let mut items: Vec<(String, String)> = Vec::new(); // (run key, text)
    for e in evs {
        match e {
            Ev::Regular(b) => items.push((String::new(), format!("R {}", term_str(b)))),
            Ev::Exit(f, r) => items.push((String::new(), format!("X {} {}", pid_text(f), term_str(r)))),
            Ev::MonitorExit(m, rf, r) => items.push((
                pid_text(m),
                format!("M {} {} {}", pid_text(m), term_str(&OwnedTerm::Reference(rf.clone())), term_str(r)),
            )),
        }
    }
    // monitor notices of one terminated process arrive in the iteration order of a hash set: canonical order
    let mut i = 0;
    while i < items.len() {
        let mut j = i;
        while j < items.len() && !items[i].0.is_empty() && items[j].0 == items[i].0 {
            j += 1;
        }
        if j > i + 1 {
            items[i..j].sort();
        }
        i = j.max(i + 1);
    }
    if items.is_empty() { "-".to_string() } else { items.into_iter().map(|x| x.1).collect::<Vec<_>>().join(" , ") }
}

async fn settle() {
    for _ in 0..20 {
        tokio::task::yield_now().await;
    }
}

struct Peer {
    wr: tokio::net::tcp::OwnedWriteHalf,
    got: Arc<Mutex<Vec<u8>>>,
}

fn frames_of(data: &[u8]) -> Vec<Vec<u8>> {
    let mut out = Vec::new();
    let mut i = 0;
    while i + 4 <= data.len() {
        let n = u32::from_be_bytes([data[i], data[i + 1], data[i + 2], data[i + 3]]) as usize;
        if i + 4 + n > data.len() {
            break;
        }
        out.push(data[i + 4..i + 4 + n].to_vec());
        i += 4 + n;
    }
    out
}

/// the reply pid of the i-th remote call the peer has received (REG_SEND {6, From, '', rex})
async fn reply_pid(peer: &Peer, i: usize) -> Option<ExternalPid> {
    for _ in 0..200 {
        let frames = frames_of(&peer.got.lock().unwrap());
        let mut calls = Vec::new();
        for f in &frames {
            if f.first() == Some(&112)
                && let Ok((OwnedTerm::Tuple(els), _)) = erltf::decoder::decode_with_trailing(&f[1..])
                && els.len() == 4
                && els[0] == OwnedTerm::Integer(6)
                && let OwnedTerm::Pid(p) = &els[1]
            {
                calls.push(p.clone());
            }
        }
        if let Some(p) = calls.get(i) {
            return Some(p.clone());
        }
        tokio::time::sleep(Duration::from_millis(1)).await;
    }
    None
}

fn send_frame_bytes(to: &ExternalPid, body: &OwnedTerm) -> Vec<u8> {
    let ctl = OwnedTerm::Tuple(vec![OwnedTerm::Integer(2), OwnedTerm::Atom(Atom::new("")), OwnedTerm::Pid(to.clone())]);
    let mut b = vec![112u8];
    b.extend_from_slice(&erltf::encode(&ctl).expect("encode"));
    b.extend_from_slice(&erltf::encode(body).expect("encode"));
    let mut f = (b.len() as u32).to_be_bytes().to_vec();
    f.extend_from_slice(&b);
    f
}

async fn run_script(connect: bool, early: Vec<u8>, steps: Vec<String>) -> String {
    let mut out: Vec<String> = Vec::new();
    let mut node = Node::new(NODE_NAME, COOKIE);
    if let Err(e) = node.start(0).await {
        return format!("start-err {e}");
    }
    let node = Arc::new(node);
    let mut peer: Option<Peer> = None;
    let mut remote = String::new();
    if connect {
        let listener = TcpListener::bind("127.0.0.1:0").await.expect("bind peer");
        let port = listener.local_addr().unwrap().port();
        remote = format!("p{port}@127.0.0.1");
        let remote2 = remote.clone();
        let early2 = early.clone();
        let acc = tokio::spawn(async move {
            let (mut s, _) = listener.accept().await.expect("accept");
            peer_handshake(&mut s, crate::conn_flags(), &remote2, &early2).await.map(|_| s)
        });
        if let Err(e) = node.connect(remote.clone()).await {
            return format!("connect-err {e}");
        }
        let Ok(Ok(s)) = acc.await else { return "peer-handshake-failed".to_string() };
        let (mut rd, wr) = s.into_split();
        let got = Arc::new(Mutex::new(Vec::new()));
        let got2 = got.clone();
        tokio::spawn(async move {
            let mut buf = vec![0u8; 65536];
            loop {
                match rd.read(&mut buf).await {
                    Ok(0) | Err(_) => break,
                    Ok(n) => got2.lock().unwrap().extend_from_slice(&buf[..n]),
                }
            }
        });
        peer = Some(Peer { wr, got });
    }
    let mut pids: Vec<ExternalPid> = Vec::new();
    let mut logs: Vec<Arc<Mutex<Vec<Ev>>>> = Vec::new();
    let mut gates: Vec<Arc<tokio::sync::Semaphore>> = Vec::new();
    let mut refs: Vec<ExternalReference> = Vec::new();
    type Call = tokio::task::JoinHandle<std::result::Result<OwnedTerm, String>>;
    let mut calls: Vec<Call> = Vec::new();
    let mut sync_no = 0usize;
    let pid_arg = |t: &mut Toks, pids: &Vec<ExternalPid>| -> ExternalPid {
        let tok = t.next();
        if let Some(k) = tok.strip_prefix('$') {
            pids[k.parse::<usize>().expect("index")].clone()
        } else {
            assert_eq!(tok, "p");
            ExternalPid::new(Atom::new(String::from_utf8(unhex(t.next())).unwrap()), t.num(), t.num(), { let c: u32 = t.num(); let _ = t.next(); c })
        }
    };
    for step in &steps {
        let mut t = Toks::new(step);
        let res = |r: edp_node::Result<()>| if r.is_ok() { "ok".to_string() } else { "err".to_string() };
        let step_name = t.next().to_string();
        match step_name.as_str() {
            "spawn" => {
                let log = Arc::new(Mutex::new(Vec::new()));
                let gate = Arc::new(tokio::sync::Semaphore::new(0));
                gates.push(gate.clone());
                match node.spawn(Recorder { events: log.clone(), gate }).await {
                    Ok(p) => {
                        out.push(format!("pid {}", pid_text(&p)));
                        pids.push(p);
                        logs.push(log);
                    }
                    Err(_) => out.push("err".to_string()),
                }
            }
            "register" => {
                let name = Atom::new(String::from_utf8(unhex(t.next())).unwrap());
                let p = pid_arg(&mut t, &pids);
                out.push(res(node.register(name, p).await));
            }
            "unregister" => {
                let name = Atom::new(String::from_utf8(unhex(t.next())).unwrap());
                out.push(res(node.unregister(&name).await));
            }
            "whereis" => {
                let name = Atom::new(String::from_utf8(unhex(t.next())).unwrap());
                out.push(node.whereis(&name).await.map_or("none".to_string(), |p| format!("pid {}", pid_text(&p))));
            }
            "send" => {
                let p = pid_arg(&mut t, &pids);
                let msg = read_term(&mut t);
                out.push(res(node.send(&p, msg).await));
                settle().await;
            }
            "flood" => {
                // n copies of one message, back to back (with the receiver parked they fill its mailbox)
                let p = pid_arg(&mut t, &pids);
                let n: usize = t.num();
                let msg = read_term(&mut t);
                let mut all = true;
                for _ in 0..n {
                    all &= node.send(&p, msg.clone()).await.is_ok();
                }
                out.push(if all { "ok".to_string() } else { "err".to_string() });
                settle().await;
            }
            "open" => {
                for g in &gates {
                    g.add_permits(1 << 20);
                }
                tokio::time::sleep(Duration::from_millis(60)).await;
                settle().await;
                out.push("-".to_string());
            }
            "sendname" => {
                let name = Atom::new(String::from_utf8(unhex(t.next())).unwrap());
                let msg = read_term(&mut t);
                out.push(res(node.send_to_name(&name, msg).await));
                settle().await;
            }
            "link" => {
                let a = pid_arg(&mut t, &pids);
                let b = pid_arg(&mut t, &pids);
                out.push(res(node.link(&a, &b).await));
            }
            // the same operations toward a process on the connected node: <9.0> of creation 1 there
            "rsend" | "rlink" | "runlink" | "rmonitor" | "rdemonitor" => {
                let rname = if remote.is_empty() { "nobody@127.0.0.1".to_string() } else { remote.clone() };
                let to = ExternalPid::new(Atom::new(rname), 9, 0, 1);
                match step_name.as_str() {
                    "rsend" => {
                        let msg = read_term(&mut t);
                        out.push(res(node.send(&to, msg).await));
                    }
                    "rlink" => {
                        let a = pid_arg(&mut t, &pids);
                        out.push(res(node.link(&a, &to).await));
                    }
                    "runlink" => {
                        let a = pid_arg(&mut t, &pids);
                        out.push(res(node.unlink(&a, &to).await));
                    }
                    "rmonitor" => {
                        let a = pid_arg(&mut t, &pids);
                        match node.monitor(&a, &to).await {
                            Ok(r) => {
                                out.push(format!("ref {}", term_str(&OwnedTerm::Reference(r.clone()))));
                                refs.push(r);
                            }
                            Err(_) => {
                                // keep the numbering of the script's references (a placeholder nobody uses)
                                refs.push(erltf::types::ExternalReference::new(Atom::new("none@none"), 0, vec![0]));
                                out.push("err".to_string());
                            }
                        }
                    }
                    _ => {
                        let a = pid_arg(&mut t, &pids);
                        let k: usize = t.next().trim_start_matches('#').parse().expect("ref index");
                        out.push(res(node.demonitor(&a, &to, &refs[k]).await));
                    }
                }
            }
            "unlink" => {
                let a = pid_arg(&mut t, &pids);
                let b = pid_arg(&mut t, &pids);
                out.push(res(node.unlink(&a, &b).await));
            }
            "monitor" => {
                let a = pid_arg(&mut t, &pids);
                let b = pid_arg(&mut t, &pids);
                match node.monitor(&a, &b).await {
                    Ok(r) => {
                        out.push(format!("ref {}", term_str(&OwnedTerm::Reference(r.clone()))));
                        refs.push(r);
                    }
                    Err(_) => out.push("err".to_string()),
                }
            }
            "demonitor" => {
                let a = pid_arg(&mut t, &pids);
                let b = pid_arg(&mut t, &pids);
                let k: usize = t.next().trim_start_matches('#').parse().expect("ref index");
                out.push(res(node.demonitor(&a, &b, &refs[k]).await));
            }
            "rpc" => {
                // S: raw, short timeout; L: raw, long timeout; X: rpc_call_with_timeout (the {rex, Result} wrapper removed);
                // Y: rpc_call; Z: rpc_call_raw (both with the library's default timeout)
                let variant = t.next().to_string();
                let module = String::from_utf8(unhex(t.next())).unwrap();
                let function = String::from_utf8(unhex(t.next())).unwrap();
                let n: usize = t.num();
                let args: Vec<OwnedTerm> = (0..n).map(|_| read_term(&mut t)).collect();
                let node2 = node.clone();
                let remote2 = if remote.is_empty() { "nobody@127.0.0.1".to_string() } else { remote.clone() };
                let timeout = if variant == "S" { Duration::from_millis(30) } else { Duration::from_secs(30) };
                let h: Call = tokio::spawn(async move {
                    let r = match variant.as_str() {
                        "X" => node2.rpc_call_with_timeout(&remote2, &module, &function, args, timeout).await,
                        "Y" => node2.rpc_call(&remote2, &module, &function, args).await,
                        "Z" => node2.rpc_call_raw(&remote2, &module, &function, args).await,
                        _ => node2.rpc_call_raw_with_timeout(&remote2, &module, &function, args, timeout).await,
                    };
                    r.map_err(|e| match e {
                        edp_node::Error::RpcTimeout(_) => "timeout".to_string(),
                        edp_node::Error::NodeNotConnected(_) => "notconnected".to_string(),
                        edp_node::Error::RpcCancelled => "cancelled".to_string(),
                        edp_node::Error::TermConversion(_) => "badreply".to_string(),
                        _ => "sendfailed".to_string(),
                    })
                });
                settle().await;
                out.push(if h.is_finished() { "err".to_string() } else { "ok".to_string() });
                calls.push(h);
            }
            "burst" => {
                // k tasks send n messages each through the node to one remote process, concurrently
                let k: usize = t.num();
                let n: usize = t.num();
                let size: usize = t.num();
                let to = ExternalPid::new(Atom::new(remote.clone()), 9, 0, 1);
                let mut hs = Vec::new();
                for task in 0..k {
                    let node2 = node.clone();
                    let to2 = to.clone();
                    hs.push(tokio::spawn(async move {
                        let mut ok = 0usize;
                        for seq in 0..n {
                            let msg = OwnedTerm::Tuple(vec![
                                OwnedTerm::Integer(task as i64),
                                OwnedTerm::Integer(seq as i64),
                                OwnedTerm::Binary(vec![(task * 16 + seq) as u8; size]),
                            ]);
                            if node2.send(&to2, msg).await.is_ok() {
                                ok += 1;
                            }
                            tokio::task::yield_now().await;
                        }
                        ok
                    }));
                }
                let mut total = 0;
                for h in hs {
                    total += h.await.unwrap_or(0);
                }
                out.push(format!("sent {total}"));
            }
            "expire" => {
                tokio::time::sleep(Duration::from_millis(120)).await;
                settle().await;
                out.push("-".to_string());
            }
            "quiet" => {
                // a quiet period: nothing but a tick every second
                let secs: u64 = t.num();
                if let Some(p) = peer.as_mut() {
                    for _ in 0..secs {
                        tokio::time::sleep(Duration::from_millis(1000)).await;
                        let _ = p.wr.write_all(&[0, 0, 0, 0]).await;
                        let _ = p.wr.flush().await;
                    }
                }
                out.push("-".to_string());
            }
            "pflood" => {
                // the peer sends n copies of one message to a local process, back to back
                let to = pid_arg(&mut t, &pids);
                let n: usize = t.num();
                let body = read_term(&mut t);
                if let Some(p) = peer.as_mut() {
                    let one = send_frame_bytes(&to, &body);
                    let mut all = Vec::with_capacity(one.len() * n);
                    for _ in 0..n {
                        all.extend_from_slice(&one);
                    }
                    let _ = p.wr.write_all(&all).await;
                    let _ = p.wr.flush().await;
                }
                out.push("-".to_string());
            }
            "frame" | "tick" | "sync" | "reply" | "replystale" | "replyto" | "overlong" | "close" => {
                let Some(p) = peer.as_mut() else {
                    out.push("-".to_string());
                    continue;
                };
                let op = step.split_whitespace().next().unwrap();
                let bytes: Option<Vec<u8>> = match op {
                    "frame" => {
                        let b = unhex(t.next());
                        let mut f = (b.len() as u32).to_be_bytes().to_vec();
                        f.extend_from_slice(&b);
                        Some(f)
                    }
                    "tick" => Some(vec![0, 0, 0, 0]),
                    "overlong" => Some(vec![0xff, 0xff, 0xff, 0xff]),
                    "sync" => {
                        sync_no += 1;
                        Some(send_frame_bytes(&pids[0], &OwnedTerm::Atom(Atom::new("sync"))))
                    }
                    "reply" => {
                        let i: usize = t.next().trim_start_matches('@').parse().expect("call index");
                        let body = read_term(&mut t);
                        reply_pid(p, i).await.map(|to| send_frame_bytes(&to, &body))
                    }
                    "replystale" => {
                        // addressed to the reply identifier of call i, but of another incarnation (creation) or serial
                        let i: usize = t.next().trim_start_matches('@').parse().expect("call index");
                        let what = t.next();
                        let body = read_term(&mut t);
                        reply_pid(p, i).await.map(|to| {
                            let other = if what == "creation" {
                                ExternalPid::new(to.node.clone(), to.id, to.serial, to.creation + 1)
                            } else {
                                ExternalPid::new(to.node.clone(), to.id, to.serial + 1, to.creation)
                            };
                            send_frame_bytes(&other, &body)
                        })
                    }
                    "replyto" => {
                        let to = pid_arg(&mut t, &pids);
                        let body = read_term(&mut t);
                        Some(send_frame_bytes(&to, &body))
                    }
                    _ => None,
                };
                if op == "close" {
                    let _ = p.wr.shutdown().await;
                } else if let Some(b) = bytes {
                    let _ = p.wr.write_all(&b).await;
                    let _ = p.wr.flush().await;
                }
                if op == "sync" {
                    // frames are routed in order: when the marker is recorded, everything before it has been routed
                    let want = sync_no;
                    for _ in 0..400 {
                        let n = logs[0].lock().unwrap().iter().filter(|e| matches!(e, Ev::Regular(b) if b.is_atom_with_name("sync"))).count();
                        if n >= want || node.connections().is_empty() {
                            break;
                        }
                        tokio::time::sleep(Duration::from_millis(1)).await;
                    }
                    settle().await;
                } else if op == "overlong" || op == "close" {
                    for _ in 0..400 {
                        if node.connections().is_empty() {
                            break;
                        }
                        tokio::time::sleep(Duration::from_millis(1)).await;
                    }
                }
                out.push("-".to_string());
            }
            "lclose" => {
                // the application closes the connection object it got from Node::connections(); the peer keeps its socket open
                let conns: Vec<_> = node.connections().iter().map(|e| e.value().clone()).collect();
                for c in conns {
                    let _ = c.lock().await.close().await;
                }
                out.push("-".to_string());
            }
            "results" => {
                settle().await;
                let mut rs = Vec::new();
                for h in calls.iter_mut() {
                    if h.is_finished() {
                        rs.push(match h.await {
                            Ok(Ok(t)) => format!("reply {}", term_str(&t)),
                            Ok(Err(e)) => e,
                            Err(_) => "PANIC".to_string(),
                        });
                    } else {
                        rs.push("pending".to_string());
                    }
                }
                // a finished JoinHandle may be awaited only once: keep placeholders for later `results` steps
                out.push(if rs.is_empty() { "-".to_string() } else { rs.join(" , ") });
                calls = calls.into_iter().filter(|h| !h.is_finished()).collect();
            }
            "pending" => out.push(node.pending_rpc_count().to_string()),
            "conns" => out.push(node.connections().len().to_string()),
            "count" => out.push(node.process_count().await.to_string()),
            "registered" => {
                let mut names: Vec<String> = node.registered().await.iter().map(|a| hex(a.as_str().as_bytes())).collect();
                names.sort();
                out.push(if names.is_empty() { "-".to_string() } else { names.join(",") });
            }
            "events" => {
                let k: usize = t.next().trim_start_matches('$').parse().expect("index");
                settle().await;
                out.push(show_events(&logs[k].lock().unwrap()));
            }
            "wrote" => {
                // wait until the peer has read everything that is on its way (small writes can sit behind Nagle's
                // algorithm and a delayed ACK for tens of milliseconds)
                let mut last = usize::MAX;
                let mut stable = 0;
                for _ in 0..2000 {
                    tokio::time::sleep(Duration::from_millis(5)).await;
                    let n = peer.as_ref().map_or(0, |p| p.got.lock().unwrap().len());
                    if n == last {
                        stable += 1;
                        if stable >= 20 {
                            break;
                        }
                    } else {
                        stable = 0;
                    }
                    last = n;
                }
                // the peer's name carries its port: print it as p00000@127.0.0.1 (ephemeral ports have five digits)
                let mut bytes = peer.as_ref().map_or(Vec::new(), |p| p.got.lock().unwrap().clone());
                let name = remote.as_bytes();
                let canon = b"p00000@127.0.0.1";
                if name.len() == canon.len() {
                    let mut i = 0;
                    while i + name.len() <= bytes.len() {
                        if &bytes[i..i + name.len()] == name {
                            bytes[i..i + name.len()].copy_from_slice(canon);
                            i += name.len();
                        } else {
                            i += 1;
                        }
                    }
                }
                out.push(hex(&bytes));
            }
            other => panic!("bad node step {other}"),
        }
    }
    out.join(" ;; ")
}

/// `node <0|1 connect> ;; step ;; step ...`
/// `nodemix <creation> a|s ...`: a node that connects and makes remote calls (`a`: one call, which times out — the peer
/// never answers) before and after it is started (`s`: Node::start, the port mapper hands out <creation>).  Output: the
/// reply identifiers of the calls as the peer saw them, `id.serial.creation` each, in call order.
async fn run_nodemix(creation: u32, ops: Vec<String>) -> String {
    let mut node = Node::new(format!("verifc{creation}@127.0.0.1"), COOKIE);
    let listener = TcpListener::bind("127.0.0.1:0").await.expect("bind peer");
    let port = listener.local_addr().unwrap().port();
    let remote = format!("p{port}@127.0.0.1");
    let remote2 = remote.clone();
    let acc = tokio::spawn(async move {
        let (mut s, _) = listener.accept().await.expect("accept");
        peer_handshake(&mut s, crate::conn_flags(), &remote2, &[]).await.map(|_| s)
    });
    if let Err(e) = node.connect(remote.clone()).await {
        return format!("connect-err {e}");
    }
    let Ok(Ok(s)) = acc.await else { return "peer-handshake-failed".to_string() };
    let (mut rd, wr) = s.into_split();
    let got = Arc::new(Mutex::new(Vec::new()));
    let got2 = got.clone();
    tokio::spawn(async move {
        let mut buf = vec![0u8; 65536];
        loop {
            match rd.read(&mut buf).await {
                Ok(0) | Err(_) => break,
                Ok(n) => got2.lock().unwrap().extend_from_slice(&buf[..n]),
            }
        }
    });
    let peer = Peer { wr, got };
    let mut n_calls = 0usize;
    for op in &ops {
        match op.as_str() {
            "a" => {
                let _ = node.rpc_call_raw_with_timeout(&remote, "m", "f", vec![], Duration::from_millis(40)).await;
                n_calls += 1;
            }
            "s" => {
                if let Err(e) = node.start(0).await {
                    return format!("start-err {e}");
                }
            }
            other => panic!("bad nodemix op {other}"),
        }
    }
    let mut out = Vec::new();
    for i in 0..n_calls {
        match reply_pid(&peer, i).await {
            Some(p) => out.push(format!("{}.{}.{}", p.id, p.serial, p.creation)),
            None => out.push("none".to_string()),
        }
    }
    out.join(" ")
}

pub fn run_case(line: &str) -> String {
    if let Some(rest) = line.strip_prefix("nodemix ") {
        let mut w = rest.split_whitespace();
        let creation: u32 = w.next().expect("creation").parse().expect("creation");
        let ops: Vec<String> = w.map(|s| s.to_string()).collect();
        ensure_epmd();
        let r = runtime().block_on(run_nodemix(creation, ops.clone()));
        if r.starts_with("start-err") || r.starts_with("connect-err") {
            ensure_epmd();
            return runtime().block_on(run_nodemix(creation, ops));
        }
        return r;
    }
    let mut parts = line.split(" ;; ");
    let head = parts.next().expect("head");
    let mut t = Toks::new(head);
    assert_eq!(t.next(), "node");
    let connect = t.next() == "1";
    // optional: E<hex> = frames the peer sends in one write with its handshake ack
    let early = if t.peek_done() { Vec::new() } else { unhex(t.next().trim_start_matches('E')) };
    let steps: Vec<String> = parts.map(|s| s.to_string()).collect();
    ensure_epmd();
    let r = runtime().block_on(run_script(connect, early.clone(), steps.clone()));
    if r.starts_with("start-err") || r.starts_with("connect-err") {
        // the harness process that served EPMD may have exited between the check and the use: take over and retry once
        ensure_epmd();
        return runtime().block_on(run_script(connect, early, steps));
    }
    r
}
