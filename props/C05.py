"""C05 — framing. Domain `framing`."""
import itertools

ID = "C05"
GEN_FILES = ["FramingConsts.v", "Prealloc.v"]
RULE = ("read cases: message sequences framed from the spec (prefix = big-endian length), cut into chunks at every "
        "split point (short streams) or random points (long streams), Pending polls between chunks, truncation at every "
        "byte; write cases: write_framed through a writer that accepts b_i bytes per call vs frame_message; "
        "distinct = distinct case text; non-trivial = >= 2 chunks or a truncation or a partial-write budget < prefix")
ASSUMPTIONS = ["tokio read_exact/write_all modelled by their documented contract and validated by the scripted reader/writer",
               "messages at the 256 MiB cap with a full body are exercised on the implementation only (thorough tier); "
               "the model is compared on declared-length/EOF cases at cap-1, cap, cap+1"]
CAP = 256 * 1024 * 1024


def hx(b):
    return b.hex() if b else "."


def frame(mode, msg):
    k = 2 if mode == "h" else 4
    return (len(msg) % (256 ** k)).to_bytes(k, "big") + msg


import functools


@functools.lru_cache(maxsize=4096)
def show(b):
    if len(b) <= 48:
        return hx(b)
    h = 0xcbf29ce484222325
    for x in b:
        h = ((h ^ x) * 0x100000001b3) & 0xFFFFFFFFFFFFFFFF
    return "L%d:%016x" % (len(b), h & 0x0fffffffffffffff)


def chunkstr(parts):
    out = []
    for p in parts:
        if p == "P":
            out.append("P")
        elif len(p) > 64 and not any(p):
            out.append("Z%d" % len(p))
        else:
            out.append(p.hex())
    return ",".join(out)


def expected_read(mode, stream):
    """Spec reader on the whole byte string: list of results."""
    k = 2 if mode == "h" else 4
    out = []
    pos = 0
    big = False
    while True:
        if len(stream) - pos < k:
            out.append("err:eof"); break
        l = int.from_bytes(stream[pos:pos + k], "big"); pos += k
        if l == 0:
            out.append("ok:."); continue
        if l > CAP:
            out.append("err:toolarge"); break
        if l >= 1 << 20:
            big = True
        if len(stream) - pos < l:
            out.append("err:eof"); break
        out.append("ok:" + show(stream[pos:pos + l])); pos += l
    return out, big


def stream_of(case):
    t = case.split()
    s = b""
    if len(t) > 2:
        for c in t[2].split(","):
            if c == "P" or c == "":
                continue
            s += bytes(int(c[1:])) if c.startswith("Z") else bytes.fromhex(c)
    return t[1], s


def oracle(case, impl):
    if impl.startswith(("PANIC", "CRASH", "TIMEOUT")):
        return ("violation", "framing did not return: " + impl[:60])
    t = case.split()
    if t[0] == "rd":
        mode, s = stream_of(case)
        exp, big = expected_read(mode, s)
        toks = impl.split()
        got, alloc = toks[:-1], toks[-1]
        if got != exp:
            for i, (a, b) in enumerate(zip(got + ["<none>"] * len(exp), exp)):
                if a != b:
                    return ("violation", "read %d returned %s, the byte stream says %s" % (i, a[:70], b[:70]))
            return ("violation", "reads %s vs expected %s" % (got[-2:], exp[-2:]))
        if alloc == "alloc:big" and not big:
            return ("violation", "a buffer >= 1 MiB was allocated although no accepted frame declares that much")
        return None
    if t[0] == "wr":
        data = bytes(int(t[3][1:])) if t[3].startswith("Z") else bytes.fromhex(t[3].replace(".", ""))
        f = show(frame(t[1], data))
        exp = "stream:%s oneshot:%s" % (f, f)
        if impl != exp:
            return ("violation", "written bytes differ from the frame: %s vs %s" % (impl[:100], exp[:100]))
    return None


def oracle_for(_d):
    return oracle


def all_cuts(stream, with_pending):
    n = len(stream)
    for mask in range(1 << max(0, n - 1)):
        parts, start = [], 0
        for i in range(1, n):
            if mask >> (i - 1) & 1:
                parts.append(stream[start:i]); start = i
        if n:
            parts.append(stream[start:])
        if with_pending and mask % 3 == 0:
            q = []
            for p in parts:
                q.append("P"); q.append(p)
            parts = q
        yield parts


def run(ctx):
    rng = ctx.rng
    cases = []
    # exhaustive cuts of short streams
    lim = 11 if ctx.tier == "quick" else 14
    for mode, msgs in [("d", [b"\x01", b"", b"\x02\x03"]), ("h", [b"ab", b"", b"c"]), ("d", [b"xyz"]), ("h", [b"", b"", b"q"])]:
        s = b"".join(frame(mode, m) for m in msgs)[:lim]
        for parts in all_cuts(s, True):
            cases.append("rd %s %s" % (mode, chunkstr(parts)))
    # truncation at every byte, a few chunkings each
    for mode in "hd":
        msgs = [bytes(rng.randrange(256) for _ in range(n)) for n in (3, 0, 70, 1)]
        s = b"".join(frame(mode, m) for m in msgs)
        for cut in range(len(s) + 1):
            t = s[:cut]
            for _ in range(2):
                pts = sorted(set(rng.randrange(1, max(2, len(t))) for _ in range(rng.randrange(0, 5)))) if len(t) > 1 else []
                parts = [t[a:b] for a, b in zip([0] + pts, pts + [len(t)])] if t else []
                if rng.random() < 0.5:
                    parts = [x for p in parts for x in ("P", p)]
                cases.append("rd %s %s" % (mode, chunkstr([p for p in parts if p == "P" or p])))
    # boundary lengths
    for mode, n in [("h", 65535), ("h", 65536), ("h", 65537), ("d", 65535), ("d", 65536), ("d", 1 << 20)]:
        # when the length does not fit the prefix the body is re-read as frames: 0xff bodies keep that short
        msg = bytes(n) if n < 256 ** (2 if mode == "h" else 4) else b"\xff" * n
        s = frame(mode, msg) + frame(mode, b"\x07")
        for _ in range(2):
            pts = sorted(set(rng.randrange(1, len(s)) for _ in range(rng.randrange(0, 6))))
            parts = [s[a:b] for a, b in zip([0] + pts, pts + [len(s)])]
            cases.append("rd %s %s" % (mode, chunkstr(parts)))
        cases.append("wr %s %s Z%d" % (mode, rng.choice(["1", "3,1", "100000", "1,0,2"]), n))
        cases.append("wr %s 1 Z%d" % (mode, n))
    # declared length around the cap, no body
    for l in [CAP - 1, CAP, CAP + 1, 2**32 - 1, 2**31]:
        p = l.to_bytes(4, "big")
        cases.append("rd d %s" % p.hex())
        cases.append("rd d %s,%s,P,%s" % (p[:1].hex(), p[1:].hex(), "0102"))
    # random
    for _ in range(ctx.budget(1500, 30000)):
        mode = rng.choice("hd")
        msgs = [bytes(rng.randrange(256) for _ in range(rng.choice([0, 0, 1, 2, 5, 17, 60, 300]))) for _ in range(rng.randrange(1, 6))]
        s = b"".join(frame(mode, m) for m in msgs)
        if rng.random() < 0.3:
            s = s[:rng.randrange(len(s) + 1)]
        if rng.random() < 0.1:
            s += bytes(rng.randrange(256) for _ in range(rng.randrange(1, 6)))
        pts = sorted(set(rng.randrange(1, max(2, len(s))) for _ in range(rng.choice([0, 1, 2, 5, 20])))) if len(s) > 1 else []
        parts = [s[a:b] for a, b in zip([0] + pts, pts + [len(s)])] if s else []
        parts = [x for p in parts for x in ((["P"] * rng.choice([0, 0, 1, 3])) + [p])]
        cases.append("rd %s %s" % (mode, chunkstr([p for p in parts if p == "P" or p])))
    for _ in range(ctx.budget(600, 8000)):
        mode = rng.choice("hd")
        data = bytes(rng.randrange(256) for _ in range(rng.choice([0, 1, 2, 3, 10, 100])))
        budgets = ",".join(str(rng.choice([0, 1, 1, 2, 3, 7, 1000])) for _ in range(rng.randrange(1, 6)))
        if all(b == "0" for b in budgets.split(",")):
            budgets += ",1"
        cases.append("wr %s %s %s" % (mode, budgets, hx(data)))
        if rng.random() < 0.3:       # through a buffering writer: the frame must have left it when write_framed returns
            cases.append("wr %s B%d:%s %s" % (mode, rng.choice([1, 4, 64, 8192]), budgets, hx(data)))

    def nontrivial(c, impl):
        t = c.split()
        if t[0] == "rd" and len(t) > 2 and ("," in t[2]):
            return c
        if t[0] == "wr":
            return c
        return None

    def classify(c, impl):
        t = c.split()
        ks = ["kind:%s/%s" % (t[0], t[1])]
        if t[0] == "rd":
            ks.append("chunks:%d" % min(12, len(t[2].split(",")) if len(t) > 2 else 0))
            ks.append("end:" + impl.split()[-2] if len(impl.split()) >= 2 else "end:?")
        return ks
    ctx.diff_domain("framing", cases, oracle=oracle, nontrivial=nontrivial, classify=classify)
