(* Model of crates/erltf/src/encoder.rs: encode / encode_term_impl without atom cache.  Definitions only. *)
From EDP Require Import Base.Bytes Term.Term Gen.Tags.

Inductive eerr := EAtomTooLarge | EBinaryTooLarge | EListTooLarge | EMapTooLarge | ETupleTooLarge | EReferenceTooLarge.
Inductive eres := EOk (b : bytes) | EErr (e : eerr).

Definition ebind (r : eres) (f : bytes -> eres) : eres := match r with EOk b => f b | EErr e => EErr e end.
Definition eapp (pre : bytes) (r : eres) : eres := match r with EOk b => EOk (pre ++ b) | EErr e => EErr e end.

Definition enc_atom (a : bytes) : eres :=
  if 65535 <? len a then EErr EAtomTooLarge
  else if 255 <? len a then EOk (tag_atom_utf8_ext :: be 2 (len a) ++ a)
  else EOk (tag_small_atom_utf8_ext :: len a :: a).

(* position of the last non-zero byte + 1, at least 1 (rposition(..).map_or(1, |p| p+1)) *)
Fixpoint strip_hi (rev_digits : bytes) : bytes :=
  match rev_digits with
  | [] => []
  | x :: r => if x =? 0 then strip_hi r else rev_digits
  end.
Definition significant (le_bytes : bytes) : bytes :=
  match rev (strip_hi (rev le_bytes)) with
  | [] => firstn 1 le_bytes
  | l => l
  end.

Definition enc_int (z : Z) : bytes :=
  if ((0 <=? z) && (z <=? 255))%Z then [tag_small_integer_ext; Z.to_N z]
  else if ((-2147483648 <=? z) && (z <=? 2147483647))%Z then
    tag_integer_ext :: be 4 (Z.to_N (z mod 4294967296))
  else
    let sign := if (0 <=? z)%Z then 0 else 1 in
    let digits := significant (le 8 (Z.to_N (Z.abs z))) in
    (* significant_len <= 8 <= 255: always the SMALL_BIG form *)
    tag_small_big_ext :: len digits :: sign :: digits.

Definition enc_float (bits : N) : bytes := tag_new_float_ext :: be 8 bits.

Definition enc_bin (b : bytes) : eres :=
  if 4294967296 <=? len b then EErr EBinaryTooLarge
  else EOk (tag_binary_ext :: be 4 (len b) ++ b).

Definition enc_bitbin (b : bytes) (bits : N) : eres :=
  if 4294967296 <=? len b then EErr EBinaryTooLarge
  else EOk (tag_bit_binary_ext :: be 4 (len b) ++ bits :: b).

Definition enc_big (neg : bool) (d : bytes) : bytes :=
  (if len d <=? 255 then [tag_small_big_ext; len d] else tag_large_big_ext :: be 4 (len d))
  ++ (if neg then 1 else 0) :: d.

Definition enc_pid (p : pidr) : eres :=
  match ploc p with
  | Some l => EOk (tag_local_ext :: l)
  | None => ebind (enc_atom (pnode p)) (fun a =>
              EOk (tag_new_pid_ext :: a ++ be 4 (pnum p) ++ be 4 (pserial p) ++ be 4 (pcreation p)))
  end.

Fixpoint enc (t : term) : eres :=
  let enc_all := fix go (l : list term) : eres :=
    match l with
    | [] => EOk []
    | x :: r => ebind (enc x) (fun bx => ebind (go r) (fun br => EOk (bx ++ br)))
    end in
  match t with
  | TAtom a => enc_atom a
  | TInt z => EOk (enc_int z)
  | TFloat b => EOk (enc_float b)
  | TBin b => enc_bin b
  | TBitBin b k => enc_bitbin b k
  | TStr s => enc_bin s
  | TList l =>
      match l with
      | [] => EOk [tag_nil_ext]
      | _ => if 4294967296 <=? len l then EErr EListTooLarge
             else ebind (enc_all l) (fun bl => EOk (tag_list_ext :: be 4 (len l) ++ bl ++ [tag_nil_ext]))
      end
  | TImproper l tl =>
      match l with
      | [] => enc tl
      | _ =>
      if 4294967296 <=? len l then EErr EListTooLarge
      else ebind (enc_all l) (fun bl => ebind (enc tl) (fun bt => EOk (tag_list_ext :: be 4 (len l) ++ bl ++ bt)))
      end
  | TMap kvs =>
      if 4294967296 <=? len kvs then EErr EMapTooLarge
      else ebind ((fix gom (m : list (term * term)) : eres :=
                     match m with
                     | [] => EOk []
                     | kv :: r => ebind (enc (fst kv)) (fun bk => ebind (enc (snd kv)) (fun bv =>
                                   ebind (gom r) (fun br => EOk (bk ++ bv ++ br))))
                     end) kvs)
                 (fun bm => EOk (tag_map_ext :: be 4 (len kvs) ++ bm))
  | TTuple l =>
      if len l <=? 255 then ebind (enc_all l) (fun bl => EOk (tag_small_tuple_ext :: len l :: bl))
      else if 4294967296 <=? len l then EErr ETupleTooLarge
      else ebind (enc_all l) (fun bl => EOk (tag_large_tuple_ext :: be 4 (len l) ++ bl))
  | TPid p => enc_pid p
  | TPort n i c loc =>
      match loc with
      | Some l => EOk (tag_local_ext :: l)
      | None => ebind (enc_atom n) (fun a => EOk (tag_v4_port_ext :: a ++ be 8 i ++ be 4 c))
      end
  | TRef n c ids loc =>
      match loc with
      | Some l => EOk (tag_local_ext :: l)
      | None =>
          if 65536 <=? len ids then EErr EReferenceTooLarge
          else ebind (enc_atom n) (fun a =>
                 EOk (tag_newer_reference_ext :: be 2 (len ids) ++ a ++ be 4 c ++ concat (map (be 4) ids)))
      end
  | TBig neg d => EOk (enc_big neg d)
  | TNil => EOk [tag_nil_ext]
  | TExtFun m f a =>
      ebind (enc_atom m) (fun bm => ebind (enc_atom f) (fun bf => EOk (tag_export_ext :: bm ++ bf ++ enc_int (Z.of_N a))))
  | TIntFun a u i nf m oi ou p fr =>
      ebind (enc_atom m) (fun bm => ebind (enc_pid p) (fun bp => ebind (enc_all fr) (fun bfr =>
        let temp := a :: u ++ be 4 i ++ be 4 nf ++ bm ++ enc_int (Z.of_N oi) ++ enc_int (Z.of_N ou) ++ bp ++ bfr in
        EOk (tag_new_fun_ext :: be 4 (len temp + 4) ++ temp))))
  end.

(* erltf::encode *)
Definition encode (t : term) : eres := eapp [tag_version] (enc t).
