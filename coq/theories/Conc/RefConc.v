(* Node::make_reference under any interleaving: three separate atomic fetch_add(1) on one wrapping 32-bit counter, with
   no lock around them.  Any number of tasks, any schedule of their individual fetch_adds: as long as fewer than 2^32
   fetch_adds have happened, all the references handed out — and the ones still being built — are made of pairwise
   different numbers, hence pairwise different.  Self-contained. *)
From Coq Require Import List Arith NArith Lia Permutation.
Import ListNotations.
Open Scope N_scope.

Definition two32 : N := 4294967296.

Record task := { partial : list N; finished : list (list N) }.
Record rsys := { counter : N; tasks : list task }.

Fixpoint set_nth {A} (n : nat) (x : A) (l : list A) : list A :=
  match l, n with
  | [], _ => []
  | _ :: r, O => x :: r
  | y :: r, S n' => y :: set_nth n' x r
  end.

(* the task appends the value it fetched; the third value completes a reference *)
Definition add_id (t : task) (v : N) : task :=
  let p := partial t ++ [v] in
  if Nat.eqb (length p) 3 then {| partial := []; finished := finished t ++ [p] |} else {| partial := p; finished := finished t |}.

(* task i performs its next fetch_add *)
Definition move (s : rsys) (i : nat) : rsys :=
  match nth_error (tasks s) i with
  | Some t => {| counter := (counter s + 1) mod two32; tasks := set_nth i (add_id t (counter s)) (tasks s) |}
  | None => s
  end.

Definition run (s : rsys) (schedule : list nat) : rsys := fold_left move schedule s.
Definition start (c : N) (ntasks : nat) : rsys := {| counter := c; tasks := repeat {| partial := []; finished := [] |} ntasks |}.

Definition ids_of (t : task) : list N := concat (finished t) ++ partial t.
Definition all_ids (s : rsys) : list N := concat (map ids_of (tasks s)).
Definition all_refs (s : rsys) : list (list N) := concat (map finished (tasks s)).

Lemma ids_add t v : Permutation (ids_of (add_id t v)) (v :: ids_of t).
Proof.
  unfold add_id, ids_of. destruct (Nat.eqb (length (partial t ++ [v])) 3); cbn [partial finished].
  - rewrite concat_app. cbn [concat]. rewrite !app_nil_r, app_assoc. apply Permutation_sym, Permutation_cons_append.
  - rewrite app_assoc. apply Permutation_sym, Permutation_cons_append.
Qed.

Lemma all_ids_set : forall ts i t t' v, nth_error ts i = Some t -> Permutation (ids_of t') (v :: ids_of t) ->
  Permutation (concat (map ids_of (set_nth i t' ts))) (v :: concat (map ids_of ts)).
Proof.
  induction ts as [|x ts IH]; intros [|i] t t' v Hn Hp; cbn [nth_error] in Hn; try discriminate.
  - injection Hn as ->. cbn [set_nth map concat]. change (v :: ids_of t ++ concat (map ids_of ts)) with ((v :: ids_of t) ++ concat (map ids_of ts)).
    now apply Permutation_app_tail.
  - cbn [set_nth map concat]. eapply Permutation_trans; [apply Permutation_app_head, (IH i t t' v Hn Hp)|].
    apply Permutation_sym, Permutation_middle.
Qed.

(* after n fetch_adds: the counter is c0 + n, and the numbers held are c0 .. c0+n-1 (mod 2^32), each once *)
Definition Inv (c0 : N) (n : N) (s : rsys) : Prop :=
  counter s = (c0 + n) mod two32 /\ Permutation (all_ids s) (map (fun k => (c0 + N.of_nat k) mod two32) (seq 0 (N.to_nat n))).

Lemma inv_move c0 n s i : Inv c0 n s -> Inv c0 n (move s i) \/ Inv c0 (n + 1) (move s i).
Proof.
  intros [Hc Hp]. unfold move. destruct (nth_error (tasks s) i) as [t|] eqn:E; [right|left; split; assumption].
  split; cbn [counter tasks].
  - rewrite Hc. rewrite N.add_mod_idemp_l by (unfold two32; lia). f_equal. lia.
  - unfold all_ids. cbn [tasks].
    eapply Permutation_trans; [apply (all_ids_set _ i t _ (counter s) E), ids_add|].
    replace (N.to_nat (n + 1)) with (S (N.to_nat n)) by lia. rewrite seq_S, map_app. cbn [map Nat.add].
    eapply Permutation_trans; [|apply Permutation_cons_append]. rewrite N2Nat.id, <- Hc. now apply perm_skip.
Qed.

Lemma inv_run c0 : forall schedule n s, Inv c0 n s -> exists m, n <= m <= n + N.of_nat (length schedule) /\ Inv c0 m (run s schedule).
Proof.
  induction schedule as [|i sch IH]; intros n s H.
  - exists n. split; [cbn; lia|exact H].
  - cbn [run fold_left]. destruct (inv_move c0 n s i H) as [H'|H'].
    + destruct (IH n _ H') as (m & Hm & Hi). exists m. split; [cbn [length]; lia|exact Hi].
    + destruct (IH (n + 1) _ H') as (m & Hm & Hi). exists m. split; [cbn [length]; lia|exact Hi].
Qed.

Lemma NoDup_map_inj_in {A B} (f : A -> B) : forall l,
  (forall x y, In x l -> In y l -> f x = f y -> x = y) -> NoDup l -> NoDup (map f l).
Proof.
  induction l as [|a l IH]; intros Hinj Hn; [constructor|]. inversion Hn as [|? ? Hnotin Hn']; subst. cbn [map]. constructor.
  - intros Hin. apply in_map_iff in Hin as (y & Hy & Hin). apply Hnotin.
    rewrite <- (Hinj y a (or_intror Hin) (or_introl eq_refl) Hy). exact Hin.
  - apply IH; [intros x y Hx Hy; apply Hinj; now right|exact Hn'].
Qed.

Lemma nodup_window c0 : forall n, N.of_nat n <= two32 -> NoDup (map (fun k => (c0 + N.of_nat k) mod two32) (seq 0 n)).
Proof.
  intros n Hn. apply NoDup_map_inj_in; [|apply seq_NoDup].
  intros x y Hx Hy Heq. apply in_seq in Hx. apply in_seq in Hy.
  assert (H : forall a b, (a < b)%nat -> (b < n)%nat -> (c0 + N.of_nat a) mod two32 <> (c0 + N.of_nat b) mod two32).
  { intros a b Hab Hb Hm.
    assert (Hd : (c0 + N.of_nat b) = (c0 + N.of_nat a) + (N.of_nat b - N.of_nat a)) by lia.
    rewrite Hd in Hm. 
    pose proof (N.div_mod (c0 + N.of_nat a) two32 ltac:(unfold two32; lia)) as D1.
    pose proof (N.div_mod (c0 + N.of_nat a + (N.of_nat b - N.of_nat a)) two32 ltac:(unfold two32; lia)) as D2.
    pose proof (N.mod_upper_bound (c0 + N.of_nat a) two32 ltac:(unfold two32; lia)) as U1.
    set (q1 := (c0 + N.of_nat a) / two32) in *. set (q2 := (c0 + N.of_nat a + (N.of_nat b - N.of_nat a)) / two32) in *.
    set (r := (c0 + N.of_nat a) mod two32) in *. rewrite <- Hm in D2.
    assert (Hq : two32 * q2 = two32 * q1 + (N.of_nat b - N.of_nat a)) by lia.
    assert (0 < N.of_nat b - N.of_nat a < two32) by lia.
    assert (q1 < q2) by nia. nia. }
  destruct (Nat.lt_trichotomy x y) as [L|[E|G]]; [exfalso; apply (H x y L); [lia|exact Heq]|exact E|exfalso; apply (H y x G); [lia|now symmetry]].
Qed.

Lemma NoDup_app_remove_l {A} (l l' : list A) : NoDup (l ++ l') -> NoDup l'.
Proof. induction l as [|a l IH]; cbn [app]; intros H; [exact H|]. inversion H; subst. now apply IH. Qed.

Lemma nodup_concat_nonempty {A} : forall (l : list (list A)), NoDup (concat l) -> (forall x, In x l -> x <> []) -> NoDup l.
Proof.
  induction l as [|x l IH]; intros Hn Hne; [constructor|]. cbn [concat] in Hn. constructor.
  - intros Hin. destruct x as [|a x]; [now apply (Hne [] (or_introl eq_refl))|].
    apply NoDup_app_remove_l in Hn as Hn'. 
    assert (In a (concat l)) by (apply in_concat; exists (a :: x); split; [exact Hin|now left]).
    cbn [app] in Hn. inversion Hn as [|? ? Hnotin _]; subst. apply Hnotin. apply in_or_app. now right.
  - apply IH; [now apply NoDup_app_remove_l in Hn|intros y Hy; apply Hne; now right].
Qed.

(* every reference a task has finished has three numbers; partial ones fewer *)
Definition shape (t : task) : Prop := (length (partial t) < 3)%nat /\ Forall (fun r => length r = 3%nat) (finished t).

Lemma shape_add t v : shape t -> shape (add_id t v).
Proof.
  intros [Hp Hf]. unfold add_id. destruct (Nat.eqb (length (partial t ++ [v])) 3) eqn:E; split; cbn [partial finished].
  - cbn; lia.
  - apply Forall_app. split; [exact Hf|]. constructor; [now apply Nat.eqb_eq in E|constructor].
  - apply Nat.eqb_neq in E. rewrite app_length in *. cbn [length] in *. lia.
  - exact Hf.
Qed.

Lemma shape_set : forall ts i t', Forall shape ts -> shape t' -> Forall shape (set_nth i t' ts).
Proof.
  induction ts as [|x ts IH]; intros [|i] t' H Ht'; cbn [set_nth]; try constructor; inversion H; subst; auto.
Qed.

Lemma shape_run : forall schedule s, Forall shape (tasks s) -> Forall shape (tasks (run s schedule)).
Proof.
  induction schedule as [|i sch IH]; intros s H; [exact H|]. cbn [run fold_left]. apply IH. unfold move.
  destruct (nth_error (tasks s) i) as [t|] eqn:E; [|exact H]. cbn [tasks]. apply shape_set; [exact H|].
  apply shape_add. rewrite Forall_forall in H. apply H. eapply nth_error_In, E.
Qed.

Lemma all_ids_start c ntasks : all_ids (start c ntasks) = [].
Proof. unfold all_ids, start. cbn [tasks]. induction ntasks as [|k IH]; [reflexivity|]. cbn [repeat map concat]. exact IH. Qed.

Theorem references_unique c0 ntasks schedule : c0 < two32 -> N.of_nat (length schedule) <= two32 ->
  let s := run (start c0 ntasks) schedule in
  NoDup (all_ids s) /\ NoDup (all_refs s) /\ Forall (fun r => length r = 3%nat) (all_refs s).
Proof.
  intros Hc Hlen s.
  assert (H0 : Inv c0 0 (start c0 ntasks)).
  { split; [cbn [counter start]; rewrite N.add_0_r; symmetry; now apply N.mod_small|]. rewrite all_ids_start. constructor. }
  destruct (inv_run c0 schedule 0 _ H0) as (m & Hm & _ & Hp). fold s in Hp.
  assert (Hids : NoDup (all_ids s)).
  { eapply Permutation_NoDup; [apply Permutation_sym, Hp|]. apply nodup_window. lia. }
  assert (Hshape : Forall shape (tasks s)).
  { apply shape_run. unfold start. cbn [tasks]. apply Forall_forall. intros t Ht. apply repeat_spec in Ht. subst t. split; [cbn; lia|constructor]. }
  assert (Hthree : Forall (fun r => length r = 3%nat) (all_refs s)).
  { unfold all_refs. apply Forall_forall. intros r Hr. apply in_concat in Hr as (fs & Hfs & Hr).
    apply in_map_iff in Hfs as (t & <- & Ht). rewrite Forall_forall in Hshape. destruct (Hshape t Ht) as [_ Hf].
    rewrite Forall_forall in Hf. now apply Hf. }
  split; [exact Hids|]. split; [|exact Hthree].
  apply nodup_concat_nonempty.
  - (* the numbers of finished references are a sub-multiset of all numbers *)
    assert (Hsub : forall ts, NoDup (concat (map ids_of ts)) -> NoDup (concat (concat (map finished ts)))).
    { induction ts as [|t ts IH]; intros Hn; [constructor|]. cbn [map concat] in *. rewrite concat_app.
      unfold ids_of in Hn at 1. rewrite <- app_assoc in Hn.
      apply NoDup_app_remove_l in Hn as Hn2. apply NoDup_app_remove_l in Hn2 as Hn3.
      assert (Hn4 : NoDup (concat (finished t) ++ concat (map ids_of ts))).
      { clear -Hn. revert Hn. generalize (concat (finished t)) as a, (partial t) as b, (concat (map ids_of ts)) as c.
        intros a b c H. apply (NoDup_app_remove_l b). eapply Permutation_NoDup; [|exact H].
        rewrite app_assoc. eapply Permutation_trans; [apply Permutation_app_tail, Permutation_app_comm|]. now rewrite <- app_assoc. }
      clear Hn Hn2. revert Hn4. generalize (concat (finished t)) as a. intros a Hn4.
      assert (Hincl : forall x, In x (concat (concat (map finished ts))) -> In x (concat (map ids_of ts))).
      { clear. induction ts as [|t ts IH]; intros x Hx; [exact Hx|]. cbn [map concat] in *. rewrite concat_app in Hx.
        apply in_app_or in Hx as [Hx|Hx]; apply in_or_app; [left; unfold ids_of; apply in_or_app; now left|right; now apply IH]. }
      induction a as [|y a IHa]; [cbn [app]; now apply IH|]. cbn [app] in *. inversion Hn4 as [|? ? Hnot Hn5]; subst. constructor.
      + intros Hin. apply Hnot. apply in_app_or in Hin as [Hin|Hin]; apply in_or_app; [now left|right; now apply Hincl].
      + now apply IHa. }
    apply Hsub. exact Hids.
  - intros r Hr. rewrite Forall_forall in Hthree. specialize (Hthree r Hr). destruct r; [discriminate|discriminate].
Qed.

(* the premises are met and the interleaving is real: two tasks alternating their fetch_adds *)
Example interleaved_refs : all_refs (run (start 4294967294 2) [0; 1; 0; 1; 0; 1]%nat) = [[4294967294; 0; 2]; [4294967295; 1; 3]].
Proof. vm_compute. reflexivity. Qed.
