//! domain `codec`: encode / decode / decode_borrowed / conversions.
//! cases:
//!   `enc <term>`        -> `ok <hex> w=<same|diff>` | `err <kind>`
//!   `rt <term>`         -> `enc=<hex>|err:<k> dec=<term>|err:<k> re=<same|hex|err:k>`   (fields separated by ` ; `)
//!   `dec <hex> ...`     -> `ok <term>` | `err <kind>`            (anything after the hex is for the model only)
//!   `decb <hex> ...`    -> `b=ok <term>|err <kind>@<off> ; o=ok <term>|err <kind>`
//!   `conv <ops> <hex>`  -> decode, apply c(lone) b(orrowed From<&Owned>) o(to_owned) m(ove) ..., re-encode -> `ok <hex>`|`err`
use crate::termio::{Toks, read_term, term_str};
use crate::util::{hex, unhex};
use erltf::errors::{DecodeError, EncodeError};
use erltf::{BorrowedTerm, OwnedTerm};

pub fn dkind(e: &DecodeError) -> String {
    match e {
        DecodeError::UnexpectedEof => "eof".into(),
        DecodeError::InvalidVersion { .. } => "tag".into(),
        DecodeError::TrailingData(n) => format!("trailing:{n}"),
        DecodeError::InvalidFormat(s) => match s.as_str() {
            "validation failed" => "verify".into(),
            "size limit exceeded" => "toolarge".into(),
            "Char" => "char".into(),
            "Float" => "float".into(),
            "Fail" => "fail".into(),
            other => format!("format({other})"),
        },
        other => format!("other({other:?})"),
    }
}

pub fn ekind(e: &EncodeError) -> String {
    let s = format!("{e:?}");
    s.split(|c: char| !c.is_alphanumeric()).next().unwrap_or("?").to_string()
}

fn enc_str(t: &OwnedTerm) -> String {
    match erltf::encode(t) {
        Ok(b) => hex(&b),
        Err(e) => format!("err:{}", ekind(&e)),
    }
}

pub fn run_case(line: &str) -> String {
    let (op, rest) = line.split_once(' ').unwrap_or((line, ""));
    match op {
        "enc" => {
            let t = read_term(&mut Toks::new(rest));
            match erltf::encode(&t) {
                Ok(b) => {
                    let mut w: Vec<u8> = Vec::new();
                    let same = erltf::encoder::encode_to_writer(&t, &mut w).is_ok() && w == b;
                    format!("ok {} w={}", hex(&b), if same { "same" } else { "diff" })
                }
                Err(e) => format!("err {}", ekind(&e)),
            }
        }
        "rt" => {
            let t = read_term(&mut Toks::new(rest));
            let tin = term_str(&t);
            match erltf::encode(&t) {
                Err(e) => format!("in={} ; enc=err:{}", tin, ekind(&e)),
                Ok(b) => match erltf::decode(&b) {
                    Err(e) => format!("in={} ; enc={} ; dec=err:{}", tin, hex(&b), dkind(&e)),
                    Ok(d) => {
                        let re = enc_str(&d);
                        format!(
                            "in={} ; enc={} ; dec={} ; re={}",
                            tin,
                            hex(&b),
                            term_str(&d),
                            if re == hex(&b) { "same".to_string() } else { re }
                        )
                    }
                },
            }
        }
        "dec" => {
            let h = rest.split_whitespace().next().unwrap_or(".");
            match erltf::decode(&unhex(h)) {
                Ok(t) => format!("ok {}", term_str(&t)),
                Err(e) => format!("err {}", dkind(&e)),
            }
        }
        "decb" => {
            let h = rest.split_whitespace().next().unwrap_or(".");
            let data = unhex(h);
            let b = match erltf::decode_borrowed(&data) {
                Ok(t) => format!("ok {}", term_str(&t.to_owned())),
                Err(e) => format!("err {}@{}", dkind(&e.error), if e.context.byte_offset <= data.len() { "in".to_string() } else { format!("OUT({})", e.context.byte_offset) }),
            };
            let o = match erltf::decode(&data) {
                Ok(t) => format!("ok {}", term_str(&t)),
                Err(e) => format!("err {}", dkind(&e)),
            };
            format!("b={b} ; o={o}")
        }
        "conv" => {
            let mut it = rest.split_whitespace();
            let ops = it.next().unwrap();
            let data = unhex(it.next().unwrap());
            let mut t = match erltf::decode(&data) {
                Ok(t) => t,
                Err(e) => return format!("err {}", dkind(&e)),
            };
            for c in ops.chars() {
                t = match c {
                    'c' => t.clone(),
                    'b' => {
                        let bt = BorrowedTerm::from(&t);
                        bt.to_owned()
                    }
                    'o' => {
                        let bt = BorrowedTerm::from(&t);
                        let bt2 = bt.clone();
                        drop(bt);
                        bt2.to_owned()
                    }
                    'm' => {
                        let boxed = Box::new(t);
                        *boxed
                    }
                    'v' => {
                        let v = vec![t];
                        v.into_iter().next().unwrap()
                    }
                    _ => t,
                };
            }
            format!("ok {}", enc_str(&t))
        }
        _ => panic!("bad op"),
    }
}
