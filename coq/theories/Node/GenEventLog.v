(* Every installed handler is shown every notified event exactly once, in the order of the handler table, whatever
   the handlers answer (continue, ask to be removed, fail, swap themselves). *)
From EDP Require Import Base.Bytes Term.Term Order.Cmp Elixir.Wrap Node.GenServer Node.GenEvent.
Open Scope N_scope.

Section Log.
  Variable H : Type.
  Variable on_init : H -> term -> option H.
  Variable on_event : H -> term -> evres H.

  Definition is_event (x : hev) : bool := match x with HEvent _ _ => true | _ => false end.

  Lemma filter_app' {A} (f : A -> bool) l m : filter f (l ++ m) = filter f l ++ filter f m.
  Proof. induction l as [|x l IH]; [reflexivity|]. cbn [app filter]. destruct (f x); [cbn [app]; now rewrite IH|exact IH]. Qed.

  Lemma round_events e todo : forall acc log gone,
    filter is_event (snd (fst (notify_round H on_init on_event e todo acc log gone))) =
    filter is_event log ++ map (fun kh => HEvent (fst kh) e) todo.
  Proof.
    induction todo as [|[k h] todo IH]; intros acc log gone; cbn [notify_round map fst snd].
    - now rewrite app_nil_r.
    - destruct (on_event h e) as [h'| |h' args|].
      + rewrite IH, filter_app'. cbn [filter is_event]. now rewrite <- app_assoc.
      + rewrite IH, filter_app'. cbn [filter is_event]. now rewrite <- app_assoc.
      + destruct (on_init h' args); rewrite IH, filter_app'; cbn [filter is_event]; now rewrite <- app_assoc.
      + rewrite IH, filter_app'. cbn [filter is_event]. now rewrite <- app_assoc.
  Qed.

  Theorem every_handler_sees_the_event_once s e :
    filter is_event (e_log (notify H on_init on_event s e)) =
    filter is_event (e_log s) ++ map (fun kh => HEvent (fst kh) e) (e_handlers s).
  Proof.
    unfold notify. pose proof (round_events e (e_handlers s) [] (e_log s) []) as R.
    destruct (notify_round H on_init on_event e (e_handlers s) [] (e_log s) []) as [[hs log] gone]. cbn [fst snd] in R.
    cbn [e_log]. rewrite filter_app', R.
    assert (Z : filter is_event (map (fun k => HTerm k (TAtom n_error)) gone) = []) by (induction gone as [|g gone IHg]; [reflexivity|exact IHg]).
    now rewrite Z, app_nil_r.
  Qed.
End Log.
