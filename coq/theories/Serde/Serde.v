(* The serde layer (crates/erltf_serde ser.rs / de.rs, erltf_serde_derive) as a type-directed serialiser and
   deserialiser between Rust values and terms.  A Rust type is a `ty`, a value of it a `rval`; `rser` is what
   `value.serialize(&mut Serializer)` builds for the standard Serialize impls and for derive(Serialize) /
   derive(ElixirStruct); `rde` is what `T::deserialize(&mut Deserializer { term })` returns for the standard
   Deserialize impls and the derived visitors (Some v = Ok(v), None = Err).  The model follows the code after fix
   commit 5d4f8ca (integers and chars in their wire representation).  Definitions only. *)
From Coq Require Import String.
From EDP Require Import Base.Bytes Term.Term Term.Access Order.Cmp Elixir.Wrap.
Open Scope N_scope.

Inductive ity := I8 | I16 | I32 | I64 | U8 | U16 | U32 | U64.

(* PUnit / PNewtype / PTuple / PStruct are the four shapes of an enum variant; they occur only as the payload
   description inside TyEnum *)
Inductive ty :=
| TyBool | TyInt (k : ity) | TyF32 | TyF64 | TyChar | TyString | TyUnit
| TyOption (t : ty) | TyTuple (ts : list ty) | TyVec (t : ty) | TyMap (k v : ty)
| TyStruct (fields : list (bytes * ty))
| TyElixir (module : bytes) (fields : list (bytes * ty))
| TyEnum (variants : list (bytes * ty))
| TyUnitStruct (name : bytes)            (* struct Marker; *)
| TyNewtype (t : ty)                     (* struct Meters(i64);  value: RTup [v] *)
| TyTupleStruct (ts : list ty)           (* struct Pair(i32, String);  value: RTup vs *)
| TyBytes                                (* a type that goes through serialize_bytes / deserialize_byte_buf; value: RStr *)
| PUnit | PNewtype (t : ty) | PTuple (ts : list ty) | PStruct (fields : list (bytes * ty)).

Inductive rval :=
| RBool (b : bool) | RInt (z : Z) | RFloat (bits : N) | RChar (utf8 : bytes) | RStr (b : bytes) | RUnit
| RNone | RSome (v : rval) | RTup (vs : list rval) | RSeq (vs : list rval) | RMap (kvs : list (rval * rval))
| RRec (vs : list rval)                  (* struct: field values in declaration order *)
| RVariant (idx : N) (vs : list rval).   (* enum: variant index; payload: [] / [v] / tuple fields / struct fields *)

Definition int_range (k : ity) : Z * Z :=
  match k with
  | I8 => (-128, 127) | I16 => (-32768, 32767) | I32 => (-2147483648, 2147483647)
  | I64 => (-9223372036854775808, 9223372036854775807)
  | U8 => (0, 255) | U16 => (0, 65535) | U32 => (0, 4294967295) | U64 => (0, 18446744073709551615)
  end%Z.
Definition in_range (k : ity) (z : Z) : bool := let (lo, hi) := int_range k in ((lo <=? z) && (z <=? hi))%Z.

(* number of characters of a UTF-8 string = number of bytes that are not continuation bytes *)
Definition is_cont (b : N) : bool := (128 <=? b) && (b <=? 191).
Definition char_count (s : bytes) : N := len (filter (fun b => negb (is_cont b)) s).
Definition single_char (s : bytes) : bool := utf8_valid s && (char_count s =? 1).

Definition n_false := Eval compute in str "false"%string.
Definition n_undefined := Eval compute in str "undefined"%string.

Fixpoint nth_opt {A} (l : list A) (i : N) : option A :=
  match l with [] => None | x :: r => if i =? 0 then Some x else nth_opt r (N.pred i) end.

Section Serde.
  (* cargo feature elixir-interop: None is written as the atom nil and nil reads as None *)
  Variable interop : bool.
  (* `f64 as f32 as f64`, the value deserialize_f32 hands to the visitor, widened again *)
  Variable f32_round : N -> N.

  Definition none_atom : bytes := if interop then n_nil else n_undefined.

  (* ---------- serialiser ---------- *)
  Definition ser_int (k : ity) (z : Z) : term :=
    match k with
    | U64 => if (z <=? 9223372036854775807)%Z then TInt z else TBig false (le 8 (Z.to_N z))
    | _ => TInt z
    end.

  Fixpoint rser (t : ty) (v : rval) {struct v} : term :=
    let ser_list := fix go (ts : list ty) (vs : list rval) {struct vs} : list term :=
      match ts, vs with
      | t' :: ts', v' :: vs' => rser t' v' :: go ts' vs'
      | _, _ => []
      end in
    let ser_fields := fix go (key : bytes -> term) (fs : list (bytes * ty)) (vs : list rval) {struct vs} : list (term * term) :=
      match fs, vs with
      | (name, t') :: fs', v' :: vs' => (key name, rser t' v') :: go key fs' vs'
      | _, _ => []
      end in
    match v, t with
    | RBool b, TyBool => TAtom (if b then n_true else n_false)
    | RInt z, TyInt k => ser_int k z
    | RFloat b, (TyF32 | TyF64) => TFloat b
    | RChar s, TyChar => TStr s
    | RStr b, TyString => TBin b
    | RUnit, TyUnit => TAtom n_nil
    | RUnit, TyUnitStruct name => TAtom name
    | RStr b, TyBytes => TBin b
    | RTup vs, TyNewtype t' => match vs with [v'] => rser t' v' | _ => TNil end
    | RTup vs, TyTupleStruct ts => TTuple (ser_list ts vs)
    | RNone, TyOption _ => TAtom none_atom
    | RSome v', TyOption t' => rser t' v'
    | RTup vs, TyTuple ts => TTuple (ser_list ts vs)
    | RSeq vs, TyVec t' => TList ((fix go (vs : list rval) : list term := match vs with [] => [] | v' :: r => rser t' v' :: go r end) vs)
    | RMap kvs, TyMap kt vt =>
        TMap (map_of_list cmp_owned
                ((fix go (kvs : list (rval * rval)) : list (term * term) :=
                    match kvs with [] => [] | (k', v') :: r => (rser kt k', rser vt v') :: go r end) kvs))
    | RRec vs, TyStruct fs => TMap (map_of_list cmp_owned (ser_fields TBin fs vs))
    | RRec vs, TyElixir module fs =>
        TMap (map_of_list cmp_owned ((TAtom n_struct, TAtom (n_elixir_dot ++ module)) :: ser_fields TAtom fs vs))
    | RVariant idx vs, TyEnum variants =>
        match nth_opt variants idx with
        | Some (name, PUnit) => TAtom name
        | Some (name, PNewtype t') => match vs with [v'] => TTuple [TAtom name; rser t' v'] | _ => TNil end
        | Some (name, PTuple ts) => TTuple (TAtom name :: ser_list ts vs)
        | Some (name, PStruct fs) => TTuple [TAtom name; TMap (map_of_list cmp_owned (ser_fields TBin fs vs))]
        | _ => TNil
        end
    | _, _ => TNil
    end.

  (* ---------- deserialiser ---------- *)
  (* deserialize_str / deserialize_identifier: a binary holding UTF-8, a string, or an atom *)
  Definition key_str (t : term) : option bytes :=
    match t with
    | TBin b => if utf8_valid b then Some b else None
    | TStr s => Some s
    | TAtom a => Some a
    | _ => None
    end.

  Definition de_int (k : ity) (t : term) : option rval :=
    match k with
    | U64 =>
        match t with
        | TInt z => if (0 <=? z)%Z then Some (RInt z) else None
        | TBig false d => if len d <=? 8 then Some (RInt (Z.of_N (unle d))) else None
        | _ => None
        end
    | _ => match as_integer t with Some z => if in_range k z then Some (RInt z) else None | None => None end
    end.

  Definition de_char (t : term) : option rval :=
    match t with
    | TStr s => if char_count s =? 1 then Some (RChar s) else None
    | TBin b => if single_char b then Some (RChar b) else None
    | _ => None
    end.

  Fixpoint all_some {A} (l : list (option A)) : option (list A) :=
    match l with
    | [] => Some []
    | Some x :: r => match all_some r with Some xs => Some (x :: xs) | None => None end
    | None :: _ => None
    end.

  Definition is_option (t : ty) : bool := match t with TyOption _ => true | _ => false end.

  (* the values found under a field name in a map's entries, in the map's order *)
  Definition field_values (name : bytes) (m : list (term * term)) : list term :=
    map snd (filter (fun kv => match key_str (fst kv) with Some s => eq_bytes s name | None => false end) m).
  Definition keys_are_strings (m : list (term * term)) : bool :=
    forallb (fun kv => match key_str (fst kv) with Some _ => true | None => false end) m.

  Fixpoint rde (t : ty) (tm : term) {struct t} : option rval :=
    let de_list := fix go (ts : list ty) (l : list term) {struct ts} : option (list rval) :=
      match ts with
      | [] => Some []
      | t' :: ts' =>
          match l with
          | x :: l' => match rde t' x, go ts' l' with Some v, Some vs => Some (v :: vs) | _, _ => None end
          | [] => None
          end
      end in
    (* derive(Deserialize) on named fields: every key must read as a string, unknown keys are skipped, a key seen
       twice is an error, a missing field is an error unless its type is an Option *)
    let de_fields := fix go (fs : list (bytes * ty)) (m : list (term * term)) {struct fs} : option (list rval) :=
      match fs with
      | [] => Some []
      | (name, t') :: fs' =>
          match (match field_values name m with
                 | [x] => rde t' x
                 | [] => if is_option t' then Some RNone else None
                 | _ => None
                 end), go fs' m with
          | Some v, Some vs => Some (v :: vs)
          | _, _ => None
          end
      end in
    (* derive(ElixirStruct): every value under a name is read, the last one wins, every field must be present *)
    let de_efields := fix go (fs : list (bytes * ty)) (m : list (term * term)) {struct fs} : option (list rval) :=
      match fs with
      | [] => Some []
      | (name, t') :: fs' =>
          match (match all_some (map (rde t') (field_values name m)) with
                 | Some (x :: l) => Some (last l x)
                 | _ => None
                 end), go fs' m with
          | Some v, Some vs => Some (v :: vs)
          | _, _ => None
          end
      end in
    match t with
    | TyBool => match tm with TAtom a => if eq_bytes a n_true then Some (RBool true)
                                       else if eq_bytes a n_false then Some (RBool false) else None
                | _ => None end
    | TyInt k => de_int k tm
    | TyF32 => match tm with TFloat b => Some (RFloat (f32_round b)) | _ => None end
    | TyF64 => match tm with TFloat b => Some (RFloat b) | _ => None end
    | TyChar => de_char tm
    | TyString => option_map RStr (key_str tm)
    | TyUnit => match tm with TAtom a => if eq_bytes a n_nil then Some RUnit else None | _ => None end
    | TyUnitStruct name => match tm with TAtom a => if eq_bytes a name then Some RUnit else None | _ => None end
    | TyBytes => match tm with TBin b => Some (RStr b) | _ => None end
    | TyNewtype t' => option_map (fun v => RTup [v]) (rde t' tm)
    | TyTupleStruct ts => match tm with TTuple l => option_map RTup (de_list ts l) | _ => None end
    | TyOption t' =>
        if match tm with TAtom a => eq_bytes a n_undefined || (interop && eq_bytes a n_nil) | _ => false end
        then Some RNone else option_map RSome (rde t' tm)
    | TyTuple ts => match tm with TTuple l => option_map RTup (de_list ts l) | _ => None end
    | TyVec t' =>
        match tm with
        | TList l => option_map RSeq (all_some (map (rde t') l))
        | TNil => Some (RSeq [])
        | _ => None
        end
    | TyMap kt vt =>
        match tm with
        | TMap m => option_map RMap (all_some (map (fun kv => match rde kt (fst kv), rde vt (snd kv) with
                                                              | Some k, Some v => Some (k, v) | _, _ => None end) m))
        | _ => None
        end
    | TyStruct fs =>
        match tm with
        | TMap m => if keys_are_strings m then option_map RRec (de_fields fs m) else None
        | _ => None
        end
    | TyElixir module fs =>
        match tm with
        | TMap m =>
            if keys_are_strings m &&
               forallb (fun x => match key_str x with Some s => eq_bytes s (n_elixir_dot ++ module) | None => false end)
                       (field_values n_struct m)
            then option_map RRec (de_efields fs m) else None
        | _ => None
        end
    | TyEnum variants =>
        let find := fix go (vs : list (bytes * ty)) (i : N) (name : bytes) {struct vs} : option (list term -> option rval) :=
          match vs with
          | [] => None
          | (n, shape) :: r =>
              if eq_bytes n name then
                Some (fun rest : list term =>
                  match shape with
                  | PUnit => match rest with [] => Some (RVariant i []) | _ => None end
                  | PNewtype t' => match rest with [x] => option_map (fun v => RVariant i [v]) (rde t' x) | _ => None end
                  | PTuple ts => option_map (RVariant i) (de_list ts rest)
                  | PStruct fs =>
                      match rest with
                      | [TMap m] => if keys_are_strings m then option_map (RVariant i) (de_fields fs m) else None
                      | _ => None
                      end
                  | _ => None
                  end)
              else go r (i + 1) name
          end in
        match tm with
        | TAtom a => match find variants 0 a with Some k => k [] | None => None end
        | TTuple (tag :: rest) =>
            match key_str tag with
            | Some name => match find variants 0 name with Some k => k rest | None => None end
            | None => None
            end
        | _ => None
        end
    | _ => None
    end.

  (* ---------- the values a Rust type holds ---------- *)
  (* may the serialised form of a value of this type be the atom that stands for None? *)
  Fixpoint may_none (t : ty) : bool :=
    match t with
    | TyOption _ => true
    | TyUnit => interop
    | TyUnitStruct name => eq_bytes name n_undefined || (interop && eq_bytes name n_nil)
    | TyNewtype t' => may_none t'
    | TyEnum variants =>
        existsb (fun nv => match snd nv with PUnit => eq_bytes (fst nv) n_undefined || (interop && eq_bytes (fst nv) n_nil) | _ => false end) variants
    | _ => false
    end.

  Fixpoint names_distinct (names : list bytes) : bool :=
    match names with [] => true | n :: r => negb (existsb (eq_bytes n) r) && names_distinct r end.

  Fixpoint rwt (t : ty) (v : rval) {struct v} : bool :=
    let wt_list := fix go (ts : list ty) (vs : list rval) {struct vs} : bool :=
      match ts, vs with
      | [], [] => true
      | t' :: ts', v' :: vs' => rwt t' v' && go ts' vs'
      | _, _ => false
      end in
    let wt_fields := fix go (fs : list (bytes * ty)) (vs : list rval) {struct vs} : bool :=
      match fs, vs with
      | [], [] => true
      | (_, t') :: fs', v' :: vs' => rwt t' v' && go fs' vs'
      | _, _ => false
      end in
    match v, t with
    | RBool _, TyBool => true
    | RInt z, TyInt k => in_range k z
    | RFloat b, TyF32 => f32_round b =? b
    | RFloat _, TyF64 => true
    | RChar s, TyChar => single_char s
    | RStr b, TyString => utf8_valid b
    | RUnit, TyUnit => true
    | RUnit, TyUnitStruct _ => true
    | RStr _, TyBytes => true
    | RTup vs, TyNewtype t' => match vs with [v'] => rwt t' v' | _ => false end
    | RTup vs, TyTupleStruct ts => wt_list ts vs
    | RNone, TyOption t' => negb (may_none t')
    | RSome v', TyOption t' => negb (may_none t') && rwt t' v'
    | RTup vs, TyTuple ts => wt_list ts vs
    | RSeq vs, TyVec t' => (fix go (vs : list rval) : bool := match vs with [] => true | v' :: r => rwt t' v' && go r end) vs
    | RMap kvs, TyMap kt vt =>
        (fix go (kvs : list (rval * rval)) : bool := match kvs with [] => true | (k', v') :: r => rwt kt k' && rwt vt v' && go r end) kvs
    | RRec vs, TyStruct fs => names_distinct (map fst fs) && forallb utf8_valid (map fst fs) && wt_fields fs vs
    | RRec vs, TyElixir module fs =>
        names_distinct (n_struct :: map fst fs) && forallb utf8_valid (map fst fs) && wt_fields fs vs
    | RVariant idx vs, TyEnum variants =>
        names_distinct (map fst variants) &&
        match nth_opt variants idx with
        | Some (_, PUnit) => match vs with [] => true | _ => false end
        | Some (_, PNewtype t') => match vs with [v'] => rwt t' v' | _ => false end
        | Some (_, PTuple ts) => wt_list ts vs
        | Some (_, PStruct fs) => names_distinct (map fst fs) && forallb utf8_valid (map fst fs) && wt_fields fs vs
        | _ => false
        end
    | _, _ => false
    end.
End Serde.
