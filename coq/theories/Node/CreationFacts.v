(* The creation of a started node: no node operation and no inbound frame changes the creation the allocator stamps,
   so every identifier made along a run carries the creation the node was started with. *)
From EDP Require Import Base.Bytes Term.Term Gen.PidConsts Codec.Decode Dist.PidAlloc Dist.Control Dist.Receive Node.Node Node.NodeFacts.
Open Scope N_scope.

Lemma allocate_creation a : creation (snd (allocate a)) = creation a /\ p_creation (fst (allocate a)) = creation a.
Proof. unfold allocate. destruct (max_processes_per_node <=? next_id a); split; reflexivity. Qed.

Lemma step_creation cfg st o : creation (n_alloc (fst (step cfg st o))) = creation (n_alloc st).
Proof.
  pose proof (allocate_creation (n_alloc st)) as [Hc _].
  assert (Hd : forall p msg, n_alloc (fst (deliver st p msg)) = n_alloc st).
  { intros p msg. pose proof (deliver_rpc_part st p msg) as H. unfold rpc_part in H. now injection H. }
  destruct o; cbn [step].
  - destruct (allocate (n_alloc st)) as [p a'] eqn:Ea. cbn [fst snd n_alloc] in *. exact Hc.
  - destruct (lookup_name name (n_names st)); reflexivity.
  - destruct (lookup_name name (n_names st)); reflexivity.
  - reflexivity.
  - destruct (deliver st to (MRegular msg)) as [st' ok] eqn:Ed. cbn [fst]. specialize (Hd to (MRegular msg)). rewrite Ed in Hd. cbn [fst] in Hd. now rewrite Hd.
  - destruct (lookup_name name (n_names st)) as [p|]; [|reflexivity].
    destruct (deliver st p (MRegular msg)) as [st' ok] eqn:Ed. cbn [fst]. specialize (Hd p (MRegular msg)). rewrite Ed in Hd. cbn [fst] in Hd. now rewrite Hd.
  - reflexivity.
  - reflexivity.
  - unfold make_reference. destruct (make_ref (n_refctr st)). reflexivity.
  - reflexivity.
  - destruct (allocate (n_alloc st)) as [p a'] eqn:Ea. cbn [snd] in Hc.
    destruct (n_connected st); [destruct (Dist.Send.send_frame 0 [] _)|]; cbn [fst n_alloc]; exact Hc.
  - reflexivity.
  - destruct (n_connected st); cbn [fst]; [now rewrite on_frame_alloc|reflexivity].
  - reflexivity.
  - reflexivity.
  - unfold remote_write. destruct (n_connected st); [destruct (Dist.Send.send_frame 0 [] o)|]; reflexivity.
  - destruct (n_connected st) eqn:Ec; [|reflexivity]. unfold remote_write. cbn [with_refctr n_connected]. rewrite Ec.
    destruct (Dist.Send.send_frame 0 [] _); reflexivity.
  - unfold make_reference. destruct (make_ref (n_refctr st)). unfold remote_write. cbn [with_refctr n_connected].
    destruct (n_connected st); [destruct (Dist.Send.send_frame 0 [] _)|]; reflexivity.
Qed.

Theorem run_creation cfg : forall ops st, creation (n_alloc (run cfg st ops)) = creation (n_alloc st).
Proof.
  induction ops as [|o ops IH]; intros st; [reflexivity|]. unfold run. cbn [fold_left].
  change (creation (n_alloc (run cfg (fst (step cfg st o)) ops)) = creation (n_alloc st)). now rewrite IH, step_creation.
Qed.

(* a process spawned anywhere along a run of a node started with creation c has an identifier of creation c *)
Theorem spawned_pid_carries_the_creation cfg name c conn ops st' pid :
  step cfg (run cfg (node_init name c conn) ops) OSpawn = (st', UPid pid) -> pcreation pid = c.
Proof.
  cbn [step]. set (st := run cfg (node_init name c conn) ops).
  pose proof (allocate_creation (n_alloc st)) as [_ Hp]. destruct (allocate (n_alloc st)) as [p a'] eqn:Ea. cbn [fst] in Hp.
  intros H. injection H as _ <-. cbn [mk_pid pcreation]. rewrite Hp. unfold st. rewrite run_creation. reflexivity.
Qed.
