(* C09 — Fragment reassembly.  Only property theorems here, each closed by `exact`,
   pinned by `Check` and followed by `Print Assumptions`. *)
From EDP Require Import Base.Bytes Gen.FragConsts Dist.Fragment Dist.FragmentFacts Dist.FragmentRefine.

(* 1. Isolation: an operation on sequence s' never changes what the assembler holds for s <> s';
      what an operation on s returns and leaves behind depends only on the entry of s. *)
Theorem C09_isolation_start : forall a s s' fid c d now,
  s <> s' -> lookup s (fst (asm_start a s' fid c d now)) = lookup s a.
Proof. exact asm_start_other. Qed.

Theorem C09_isolation_add : forall a s s' fid d now,
  s <> s' -> lookup s (fst (asm_add a s' fid d now)) = lookup s a.
Proof. exact asm_add_other. Qed.

Theorem C09_own_entry_only_start : forall a s fid c d now,
  lookup s (fst (asm_start a s fid c d now)) = fst (seq_start (lookup s a) fid c d now)
  /\ snd (asm_start a s fid c d now) = snd (seq_start (lookup s a) fid c d now).
Proof. exact asm_start_own. Qed.

Theorem C09_own_entry_only_add : forall a s fid d now,
  lookup s (fst (asm_add a s fid d now)) = fst (seq_add (lookup s a) fid d now)
  /\ snd (asm_add a s fid d now) = snd (seq_add (lookup s a) fid d now).
Proof. exact asm_add_own. Qed.

(* 2. Exactly once, when and only when the last missing fragment arrives, in any arrival order, with
      duplicates and out-of-range ids: for a header announcing n <= MAX_FRAGMENTS_VEC fragments, the
      entry of the sequence refines the abstract assembler `astep` (a set of delivered ids that answers
      `result` at the event that makes the set cover 1..n, and is idle again afterwards).
      Every event list over {header, continuation 1<=i<n, junk id 0 or >n} is covered. *)
Theorem C09_exactly_once_refinement : forall n D c, 1 <= n -> n <= max_fragments_vec ->
  forall es, Forall (fun en => conf n (fst en)) es ->
  crun n D c None es = arun n D c [] es.
Proof. intros n D c H1 H2 es Hc. exact (sim_run n D c H1 H2 es [] None (R_init n D c H1 H2) Hc). Qed.

(* 3. What is returned: the cache bytes followed by the fragments in ASCENDING id order. *)
Theorem C09_result_is_ascending_concat : forall n D c,
  result n D c = (match c with Some x => x | None => [] end) ++ concat (map D (ids_from 1 (N.to_nat n))).
Proof. reflexivity. Qed.

(* 4. Nothing is kept for a completed sequence. *)
Theorem C09_removed_on_completion_add : forall a s fid d now r,
  snd (asm_add a s fid d now) = Some r -> lookup s (fst (asm_add a s fid d now)) = None.
Proof.
  intros a s fid d now r H. destruct (asm_add_own a s fid d now) as (H1 & H2).
  rewrite H1. rewrite H2 in H. exact (seq_add_some_removed _ _ _ _ _ H).
Qed.

Theorem C09_removed_on_completion_start : forall a s fid c d now r,
  snd (asm_start a s fid c d now) = Some r -> lookup s (fst (asm_start a s fid c d now)) = None.
Proof.
  intros a s fid c d now r H. destruct (asm_start_own a s fid c d now) as (H1 & H2).
  rewrite H1. rewrite H2 in H. exact (seq_start_some_removed _ _ _ _ _ _ H).
Qed.

(* 5. Full-strength statement ("returns the ORIGINAL") is false of the faithful model:
      the original of a conforming sender is the DESCENDING concatenation. *)
Definition original (n : N) (D : N -> bytes) (c : option bytes) : bytes :=
  (match c with Some x => x | None => [] end) ++ concat (map D (rev (ids_from 1 (N.to_nat n)))).

Theorem C09_refuted_order : exists n D c es,
  1 <= n /\ n <= max_fragments_vec /\ Forall (fun en => conf n (fst en)) es /\
  exists r, In (Some r) (crun n D c None es) /\ r <> original n D c.
Proof.
  exists 2, (fun k => if k =? 2 then [65] else [66]), None, [(CHdr, 0); (CCont 1, 0)].
  split; [lia|]. split; [unfold max_fragments_vec; lia|]. split.
  - repeat constructor; cbn; lia.
  - exists [66; 65]. split; [vm_compute; auto|vm_compute; discriminate].
Qed.

(* ... and holds off the recorded class (Known_C09_order := ascending <> descending concatenation) *)
Theorem C09_returns_original_off_known_class : forall n D c,
  concat (map D (ids_from 1 (N.to_nat n))) = concat (map D (rev (ids_from 1 (N.to_nat n)))) ->
  result n D c = original n D c.
Proof. intros n D c H. unfold result, original, asc, ids. f_equal. exact H. Qed.

(* 6. Recorded finding C09-veclimit: a sequence announcing more than MAX_FRAGMENTS_VEC fragments is
      accepted and then never completes, whatever arrives. *)
Theorem C09_refuted_veclimit : forall c cache d now, max_fragments_vec < c -> c <= max_fragment_count ->
  exists m, seq_start None c cache d now = (Some m, None) /\ stuck c m /\
  forall fid d' now', exists m', seq_add (Some m) fid d' now' = (Some m', None) /\ stuck c m'.
Proof.
  intros c cache d now H1 H2. destruct (stuck_start c cache d now H1 H2) as (m & Hs & Hst).
  exists m. split; [exact Hs|]. split; [exact Hst|]. intros fid d' now'.
  exact (stuck_seq_add c m fid d' now' ltac:(unfold max_fragments_vec in H1; lia) Hst).
Qed.

(* non-vacuity: a 3-fragment message arriving out of order with a duplicate and a junk id *)
Example C09_example :
  crun 3 (fun k => [k]) (Some [9]) None
       [(CCont 1, 0); (CJunk 7 [0], 1); (CHdr, 2); (CCont 1, 3); (CCont 2, 4); (CCont 2, 5)]
  = [None; None; None; None; Some [9; 1; 2; 3]; None].
Proof. vm_compute. reflexivity. Qed.

Check C09_exactly_once_refinement : forall n D c, 1 <= n -> n <= max_fragments_vec ->
  forall es, Forall (fun en => conf n (fst en)) es -> crun n D c None es = arun n D c [] es.
