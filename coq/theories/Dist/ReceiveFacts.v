(* Facts about the receive path: ticks, pass-through frames (delivery, independence from the connection's receive
   state), and the stream theorem: over a transport with any segmentation, successive receive calls return the
   outcomes of the frames in order, each exactly once. *)
From EDP Require Import Base.Bytes Term.Term Gen.Tags Gen.FragConsts Gen.ControlTable Gen.DecoderArms Codec.Encode Codec.Decode Codec.Norm
  Codec.RoundTrip Codec.DistHeader Dist.Fragment Dist.Control Dist.Framing Dist.FramingFacts Dist.Receive.

(* ---------- single frames ---------- *)
Lemma handle_tick cfg st : handle_frame cfg st [] = (st, OContinue).
Proof. reflexivity. Qed.

Lemma pass_through_eq cfg st rest : handle_frame cfg st (pass_through :: rest) =
  (st, match decode_trailing cfg rest with
       | Some (ctl, []) => to_outcome ctl None
       | Some (ctl, remaining) =>
           match decode_trailing cfg remaining with Some (msg, _) => to_outcome ctl (Some msg) | None => OError end
       | None => OError
       end).
Proof.
  unfold handle_frame.
  replace (is_tagged dist_frag_header (pass_through :: rest)) with false by (destruct rest; reflexivity).
  replace (is_tagged dist_frag_cont (pass_through :: rest)) with false by (destruct rest; reflexivity).
  change (pass_through =? pass_through) with true. cbn iota.
  destruct (decode_trailing cfg rest) as [[ctl [|x r]]|]; try reflexivity.
  destruct (decode_trailing cfg (x :: r)) as [[msg ?]|]; reflexivity.
Qed.

(* a pass-through frame neither reads nor changes the receive state: whatever junk came before cannot affect it *)
Theorem pass_through_state_free cfg st1 st2 rest :
  snd (handle_frame cfg st1 (pass_through :: rest)) = snd (handle_frame cfg st2 (pass_through :: rest)) /\
  fst (handle_frame cfg st1 (pass_through :: rest)) = st1.
Proof. rewrite !pass_through_eq. split; reflexivity. Qed.

Lemma decode_trailing_enc cfg : d_arms cfg = owned_arms ->
  forall t, wf t = true -> rt_ok (d_kcmp cfg) (d_kinsert cfg) t ->
  exists b, encode t = EOk b /\ b <> [] /\ forall rest, decode_trailing cfg (b ++ rest) = Some (norm t, rest).
Proof.
  intros Harms t Hwf Hok.
  destruct (roundtrip cfg Harms (d_kcmp cfg) (d_kinsert cfg) eq_refl eq_refl t Hwf Hok) as (b & Eb & Lb & Pb).
  exists (tag_version :: b). split; [unfold encode; rewrite Eb; reflexivity|]. split; [discriminate|].
  intros rest. cbn [app decode_trailing]. rewrite N.eqb_refl.
  rewrite Pb by (rewrite app_length; lia). reflexivity.
Qed.

(* what the peer sent is what is delivered: control tuple and payload in their decoded representation *)
Theorem pass_through_delivery cfg st : d_arms cfg = owned_arms ->
  forall ctl msg, wf ctl = true -> rt_ok (d_kcmp cfg) (d_kinsert cfg) ctl ->
  wf msg = true -> rt_ok (d_kcmp cfg) (d_kinsert cfg) msg ->
  exists bc bm, encode ctl = EOk bc /\ encode msg = EOk bm /\
    handle_frame cfg st (pass_through :: bc ++ bm) = (st, to_outcome (norm ctl) (Some (norm msg))) /\
    handle_frame cfg st (pass_through :: bc) = (st, to_outcome (norm ctl) None).
Proof.
  intros Harms ctl msg Hw1 Ho1 Hw2 Ho2.
  destruct (decode_trailing_enc cfg Harms ctl Hw1 Ho1) as (bc & Ec & Nc & Dc).
  destruct (decode_trailing_enc cfg Harms msg Hw2 Ho2) as (bm & Em & Nm & Dm).
  exists bc, bm. split; [exact Ec|]. split; [exact Em|]. rewrite !pass_through_eq. split.
  - rewrite Dc. destruct bm as [|x r]; [contradiction|]. specialize (Dm []). rewrite app_nil_r in Dm. rewrite Dm. reflexivity.
  - specialize (Dc []). rewrite app_nil_r in Dc. rewrite Dc. reflexivity.
Qed.

(* ---------- streams of frames ---------- *)
(* the outcomes of a list of frames, one per frame that produces one (ticks and incomplete fragment sequences
   produce none), with the state threaded through *)
Fixpoint outcomes (cfg : dcfg) (st : rstate) (frames : list bytes) : list rresult * rstate :=
  match frames with
  | [] => ([], st)
  | f :: r =>
      let '(st', o) := handle_frame cfg st f in
      let '(rs, st'') := outcomes cfg st' r in
      (match o with ODeliver m pl => RMsg m pl :: rs | OError => RFail :: rs | OContinue => rs end, st'')
  end.

(* k successive calls of receive_message *)
Fixpoint receive_n (k fuel : nat) (cfg : dcfg) (st : rstate) (cs : list chunk) : list rresult :=
  match k with
  | O => []
  | S k' => let '(r, st', cs') := receive fuel cfg st cs in r :: receive_n k' fuel cfg st' cs'
  end.

Lemma receive_n_nil cfg : forall k fuel st, (0 < fuel)%nat -> receive_n k fuel cfg st [] = repeat REof k.
Proof.
  induction k as [|k IH]; intros fuel st Hf; [reflexivity|]. destruct fuel as [|fuel]; [lia|].
  cbn [receive_n receive]. change (read_framed Distribution []) with (RErr Eof, @nil chunk, 0).
  cbn iota. cbn [repeat]. f_equal. apply IH. lia.
Qed.

Lemma receive_frames cfg : forall frames st cs fuel, wfc cs -> Forall (fits Distribution) frames ->
  data_of cs = concat (map (frame Distribution) frames) -> (length frames < fuel)%nat ->
  match fst (outcomes cfg st frames) with
  | [] => exists st', receive fuel cfg st cs = (REof, st', [])
  | r :: rs =>
      exists post st' cs', wfc cs' /\ data_of cs' = concat (map (frame Distribution) post) /\
        Forall (fits Distribution) post /\ (length post < length frames)%nat /\
        receive fuel cfg st cs = (r, st', cs') /\ rs = fst (outcomes cfg st' post)
  end.
Proof.
  induction frames as [|f frames IH]; intros st cs fuel Hwf Hfits Hd Hfuel.
  - cbn [outcomes fst]. destruct fuel as [|fuel]; [cbn in Hfuel; lia|]. cbn [receive].
    cbn [map concat] in Hd. assert (Hr : read_exact (N.of_nat (prefix_size Distribution)) cs = None).
    { apply read_exact_eof; [exact Hwf|]. rewrite Hd. pose proof (prefix_size_le Distribution). unfold len. cbn [length]. lia. }
    unfold read_framed. rewrite Hr. eauto.
  - inversion Hfits as [|? ? Hf Hfs]; subst. cbn [map concat] in Hd.
    destruct (read_framed_frame Distribution f cs _ Hwf Hf Hd) as (cs1 & Hr1 & Hd1 & Hw1).
    destruct fuel as [|fuel]; [cbn in Hfuel; lia|]. cbn [length] in Hfuel.
    cbn [outcomes receive]. rewrite Hr1. destruct (handle_frame cfg st f) as [st1 o] eqn:Eh.
    destruct (outcomes cfg st1 frames) as [rs st2] eqn:Eo. cbn [fst].
    destruct o.
    + exists frames, st1, cs1. repeat split; try assumption; [cbn [length]; lia|now rewrite Eo].
    + exists frames, st1, cs1. repeat split; try assumption; [cbn [length]; lia|now rewrite Eo].
    + specialize (IH st1 cs1 fuel Hw1 Hfs Hd1 ltac:(lia)). rewrite Eo in IH. cbn [fst] in IH.
      destruct rs as [|r rs].
      * destruct IH as (st' & Hrec). exists st'. exact Hrec.
      * destruct IH as (post & st' & cs' & Hw' & Hd' & Hfp & Hl & Hrec & Hout).
        exists post, st', cs'. repeat split; try assumption. cbn [length]. lia.
Qed.

(* fuel for the inner loop of receive only needs to exceed the number of frames still on the transport *)
Lemma receive_fuel_mono cfg : forall f1 f2 st cs frames, wfc cs -> Forall (fits Distribution) frames ->
  data_of cs = concat (map (frame Distribution) frames) -> (length frames < f1)%nat -> (length frames < f2)%nat ->
  receive f1 cfg st cs = receive f2 cfg st cs.
Proof.
  induction f1 as [|f1 IH]; intros f2 st cs frames Hwf Hfits Hd H1 H2; [lia|]. destruct f2 as [|f2]; [lia|].
  cbn [receive]. destruct frames as [|f frames].
  - cbn [map concat] in Hd. assert (Hr : read_exact (N.of_nat (prefix_size Distribution)) cs = None).
    { apply read_exact_eof; [exact Hwf|]. rewrite Hd. pose proof (prefix_size_le Distribution). unfold len. cbn [length]. lia. }
    unfold read_framed. rewrite Hr. reflexivity.
  - inversion Hfits as [|? ? Hf Hfs]; subst. cbn [map concat] in Hd.
    destruct (read_framed_frame Distribution f cs _ Hwf Hf Hd) as (cs1 & Hr1 & Hd1 & Hw1). rewrite Hr1.
    destruct (handle_frame cfg st f) as [st1 o]. destruct o; try reflexivity.
    cbn [length] in H1, H2. apply (IH f2 st1 cs1 frames); try assumption; lia.
Qed.

(* over a transport delivering the frames with any segmentation, the calls of receive_message return the frames'
   outcomes in order, each exactly once, and after them only end-of-stream *)
Theorem receive_stream cfg : forall k frames st cs fuel, wfc cs -> Forall (fits Distribution) frames ->
  data_of cs = concat (map (frame Distribution) frames) -> (length frames < fuel)%nat ->
  receive_n k fuel cfg st cs =
    firstn k (fst (outcomes cfg st frames)) ++ repeat REof (k - length (fst (outcomes cfg st frames))).
Proof.
  induction k as [|k IHk]; intros frames st cs fuel Hwf Hfits Hd Hfuel; [reflexivity|].
  cbn [receive_n]. pose proof (receive_frames cfg frames st cs fuel Hwf Hfits Hd Hfuel) as H.
  destruct (fst (outcomes cfg st frames)) as [|r rs] eqn:Eo.
  - destruct H as (st' & Hr). rewrite Hr. cbn [firstn app length Nat.sub repeat]. f_equal.
    apply receive_n_nil. lia.
  - destruct H as (post & st' & cs' & Hw' & Hd' & Hfp & Hl & Hrec & Hout). rewrite Hrec.
    cbn [firstn app length Nat.sub]. f_equal. subst rs. apply IHk; try assumption. lia.
Qed.

(* ---------- the read-half path (receive_message_from_read_half) ---------- *)
(* on ticks and pass-through frames it does what receive_message does; everything else is an error of that one frame *)
Theorem half_agrees_on_pass_through cfg st rest :
  handle_frame_half cfg (pass_through :: rest) = snd (handle_frame cfg st (pass_through :: rest)).
Proof.
  rewrite pass_through_eq. cbn [snd handle_frame_half]. change (pass_through =? pass_through) with true. cbv iota.
  destruct (decode_trailing cfg rest) as [[ctl [|x r]]|]; try reflexivity.
Qed.

Theorem half_tick cfg : handle_frame_half cfg [] = OContinue.
Proof. reflexivity. Qed.

Theorem half_other_is_error cfg b0 rest : b0 <> pass_through -> handle_frame_half cfg (b0 :: rest) = OError.
Proof. intros H. cbn [handle_frame_half]. replace (b0 =? pass_through) with false by (symmetry; now apply N.eqb_neq). reflexivity. Qed.

(* what the peer encoded is what is delivered, on this path too *)
Theorem half_delivery cfg : d_arms cfg = owned_arms ->
  forall ctl msg, wf ctl = true -> rt_ok (d_kcmp cfg) (d_kinsert cfg) ctl ->
  wf msg = true -> rt_ok (d_kcmp cfg) (d_kinsert cfg) msg ->
  exists bc bm, encode ctl = EOk bc /\ encode msg = EOk bm /\
    handle_frame_half cfg (pass_through :: bc ++ bm) = to_outcome (norm ctl) (Some (norm msg)) /\
    handle_frame_half cfg (pass_through :: bc) = to_outcome (norm ctl) None.
Proof.
  intros Harms ctl msg Hw1 Ho1 Hw2 Ho2.
  destruct (pass_through_delivery cfg rstate_init Harms ctl msg Hw1 Ho1 Hw2 Ho2) as (bc & bm & Ec & Em & H1 & H2).
  exists bc, bm. split; [exact Ec|]. split; [exact Em|].
  rewrite !(half_agrees_on_pass_through cfg rstate_init), H1, H2. split; reflexivity.
Qed.

(* a receive on a connection with nothing to read (the caller polls an idle connection and the read times out) returns
   no message and changes neither the receive state — atom cache, fragments held — nor the stream *)
Lemma idle_poll fuel cfg st : receive fuel cfg st [] = (REof, st, []).
Proof. destruct fuel; reflexivity. Qed.

Lemma idle_poll_half fuel cfg : receive_half fuel cfg [] = (REof, []).
Proof. destruct fuel; reflexivity. Qed.
