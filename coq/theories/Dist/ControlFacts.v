(* Lossless parse/serialise for any control table that passes the decidable check `table_ok`. *)
From EDP Require Import Base.Bytes Term.Term Term.Value Dist.Control.

Fixpoint assocN (r : N) (l : list (N * N)) : option N :=
  match l with [] => None | (r', v) :: rest => if r' =? r then Some v else assocN r rest end.

Fixpoint seqN (s : N) (k : nat) : list N := match k with O => [] | S k' => s :: seqN (s + 1) k' end.

Fixpoint list_eqb (a b : list N) : bool :=
  match a, b with [] , [] => true | x :: r, y :: s => (x =? y) && list_eqb r s | _, _ => false end.

Lemma list_eqb_eq a : forall b, list_eqb a b = true -> a = b.
Proof.
  induction a as [|x a IH]; intros [|y b] H; cbn [list_eqb] in H; try discriminate; [reflexivity|].
  apply andb_prop in H as [H1 H2]. apply N.eqb_eq in H1. subst. f_equal. now apply IH.
Qed.

Fixpoint nodupb (l : list N) : bool :=
  match l with [] => true | x :: r => negb (existsb (N.eqb x) r) && nodupb r end.

(* the shape every arm of the three match expressions has on the pinned tree: struct fields are read from elements
   1..n in order, both serialisers write them back in that order, under the tag TryFrom maps to the variant *)
Definition entry_ok (e : centry) : bool :=
  (ce_type_tag e =? ce_u8 e) && (ce_variant e =? ce_type_tag e) && (ce_to_tag e =? ce_u8 e) && (ce_into_tag e =? ce_u8 e)
  && (1 <=? ce_arity e) && (ce_u8 e <? 256)
  && list_eqb (ce_idx e) (seqN 1 (N.to_nat (ce_arity e - 1)))
  && (N.of_nat (length (ce_roles e)) =? ce_arity e - 1)
  && nodupb (ce_roles e)
  && list_eqb (ce_to_roles e) (ce_roles e) && list_eqb (ce_into_roles e) (ce_roles e)
  && ((ce_idfield e =? 0) || ((ce_idfield e =? 1) && (match ce_roles e with r :: _ => r =? role_id | [] => false end))).

Fixpoint variants_distinct (tbl : list centry) : bool :=
  match tbl with
  | [] => true
  | e :: r => negb (existsb (fun e' => ce_variant e' =? ce_variant e) r) && variants_distinct r
  end.

Definition table_ok (tbl : list centry) : bool := forallb entry_ok tbl && variants_distinct tbl.

(* ---------- list lemmas ---------- *)
Lemma nthN_app_len {A} (d x : A) (l' : list A) : forall pre, nthN (pre ++ x :: l') (N.of_nat (length pre)) d = x.
Proof.
  induction pre as [|y pre IH]; [reflexivity|]. cbn [app length nthN].
  replace (N.of_nat (S (length pre)) =? 0) with false by (symmetry; apply N.eqb_neq; lia).
  replace (N.pred (N.of_nat (S (length pre)))) with (N.of_nat (length pre)) by lia. exact IH.
Qed.

Lemma map_nth_seq {A} (d : A) (l : list A) : forall pre,
  map (fun i => nthN (pre ++ l) i d) (seqN (N.of_nat (length pre)) (length l)) = l.
Proof.
  induction l as [|x l IH]; intros pre; [reflexivity|]. cbn [length seqN map]. f_equal; [apply nthN_app_len|].
  specialize (IH (pre ++ [x])). rewrite <- app_assoc in IH. cbn [app] in IH.
  rewrite app_length in IH. cbn [length] in IH.
  replace (N.of_nat (length pre) + 1) with (N.of_nat (length pre + 1)) by lia. exact IH.
Qed.

Lemma map_nth_tl {A} (d : A) (els : list A) : map (fun i => nthN els i d) (seqN 1 (length (tl els))) = tl els.
Proof. destruct els as [|e0 l]; [reflexivity|]. exact (map_nth_seq d l [e0]). Qed.

Lemma rlookup_roles roles : forall vals, nodupb roles = true -> length roles = length vals ->
  map (fun r => rlookup r (combine roles vals)) roles = vals.
Proof.
  induction roles as [|x roles IH]; intros [|v vals] Hnd Hl; try discriminate; [reflexivity|].
  cbn [nodupb] in Hnd. apply andb_prop in Hnd as [Hx Hnd]. cbn [combine map rlookup]. rewrite N.eqb_refl. f_equal.
  transitivity (map (fun r => rlookup r (combine roles vals)) roles); [|apply IH; [exact Hnd|now inversion Hl]].
  apply map_ext_in. intros r Hr.
  destruct (x =? r) eqn:E; [|reflexivity]. apply N.eqb_eq in E. subst r.
  exfalso. apply negb_true_iff in Hx. rewrite <- not_true_iff_false in Hx. apply Hx. apply existsb_exists. exists x. split; [exact Hr|apply N.eqb_refl].
Qed.

Lemma find_entry_spec tbl ty ar e : find_entry tbl ty ar = Some e -> In e tbl /\ ce_u8 e = ty /\ ce_arity e = ar.
Proof.
  induction tbl as [|x tbl IH]; cbn [find_entry]; [discriminate|].
  destruct ((ce_u8 x =? ty) && (ce_arity x =? ar)) eqn:E.
  - intros H; inversion H; subst. apply andb_prop in E as [E1 E2]. apply N.eqb_eq in E1, E2. auto with datatypes.
  - intros H. destruct (IH H) as (Hin & H1 & H2). auto with datatypes.
Qed.

Lemma find_variant_in tbl e : variants_distinct tbl = true -> In e tbl -> find_variant tbl (ce_variant e) = Some e.
Proof.
  induction tbl as [|x tbl IH]; intros Hd Hin; [destruct Hin|]. cbn [variants_distinct] in Hd. apply andb_prop in Hd as [Hx Hd].
  cbn [find_variant]. destruct Hin as [->|Hin]; [now rewrite N.eqb_refl|].
  destruct (ce_variant x =? ce_variant e) eqn:E; [|now apply IH].
  exfalso. apply negb_true_iff in Hx. rewrite <- not_true_iff_false in Hx. apply Hx. apply existsb_exists.
  exists e. split; [exact Hin|]. now rewrite N.eqb_sym.
Qed.

(* what the serialisers write for a message parsed from `els`: els itself, with the unlink id (if the operation has
   one) in its canonical integer form *)
Definition canon_els (e : centry) (els : list term) : list term :=
  if ce_idfield e =? 0 then els
  else match els with
       | t0 :: t1 :: r => match unlink_id_of t1 with Some id => t0 :: unlink_id_term id :: r | None => els end
       | _ => els
       end.

Section Lossless.
  Variable tbl : list centry.
  Hypothesis Hok : table_ok tbl = true.

  Lemma entry_facts e : In e tbl ->
    ce_to_tag e = ce_u8 e /\ ce_into_tag e = ce_u8 e /\ ce_u8 e < 256 /\
    ce_idx e = seqN 1 (N.to_nat (ce_arity e - 1)) /\ N.of_nat (length (ce_roles e)) = ce_arity e - 1 /\ 1 <= ce_arity e /\
    nodupb (ce_roles e) = true /\ ce_to_roles e = ce_roles e /\ ce_into_roles e = ce_roles e /\
    (ce_idfield e = 0 \/ (ce_idfield e = 1 /\ exists rs, ce_roles e = role_id :: rs)).
  Proof.
    intros Hin. unfold table_ok in Hok. apply andb_prop in Hok as [Hall _]. rewrite forallb_forall in Hall.
    specialize (Hall e Hin). unfold entry_ok in Hall.
    repeat (apply andb_prop in Hall as [Hall ?]).
    repeat match goal with H : (_ =? _) = true |- _ => apply N.eqb_eq in H end.
    repeat match goal with H : (_ <=? _) = true |- _ => apply N.leb_le in H end.
    repeat match goal with H : (_ <? _) = true |- _ => apply N.ltb_lt in H end.
    repeat match goal with H : list_eqb _ _ = true |- _ => apply list_eqb_eq in H end.
    repeat split; try assumption; try congruence.
    match goal with H : (_ || _) = true |- _ => apply orb_prop in H as [H|H] end.
    - left. now apply N.eqb_eq.
    - right. apply andb_prop in H as [Hi1 Hi2]. apply N.eqb_eq in Hi1. split; [exact Hi1|].
      destruct (ce_roles e) as [|r rs]; [discriminate|]. apply N.eqb_eq in Hi2. subst r. now exists rs.
  Qed.

  Theorem lossless : forall els m, from_term_c tbl (TTuple els) = COk m ->
    exists z, els = TInt z :: tl els /\ (0 <= z <= 255)%Z /\
      match m with
      | CGeneric ty fs => ty = Z.to_N z /\ fs = tl els /\ to_term tbl m = TTuple els /\ into_term tbl m = TTuple els
      | CMsg v fs => exists e, In e tbl /\ ce_u8 e = Z.to_N z /\ ce_arity e = len els /\ v = ce_variant e /\
                      to_term tbl m = TTuple (canon_els e els) /\ into_term tbl m = TTuple (canon_els e els)
      end.
  Proof.
    intros els m H. unfold from_term_c in H.
    destruct els as [|e0 rest]; [discriminate|]. destruct e0; try discriminate.
    destruct ((0 <=? z) && (z <=? 255))%Z eqn:Ez; [|discriminate]. apply andb_prop in Ez as [Ez1 Ez2].
    apply Z.leb_le in Ez1, Ez2. exists z. split; [reflexivity|]. split; [lia|].
    destruct (find_entry tbl (Z.to_N z) (len (TInt z :: rest))) as [e|] eqn:Ef.
    - destruct (find_entry_spec _ _ _ _ Ef) as (Hin & Hu8 & Har).
      destruct (entry_facts e Hin) as (Hto & Hinto & Hlt & Hidx & Hlen & Har1 & Hnd & Htr & Hir & Hidf).
      pose proof Hok as Hok'. unfold table_ok in Hok'. apply andb_prop in Hok' as [_ Hdist].
      assert (Hvals : map (fun i => nthN (TInt z :: rest) i TNil) (ce_idx e) = rest).
      { rewrite Hidx. replace (N.to_nat (ce_arity e - 1)) with (length (tl (TInt z :: rest))).
        - apply map_nth_tl.
        - rewrite Har. unfold len. cbn [length tl]. lia. }
      assert (Hll : length (ce_roles e) = length rest).
      { rewrite Har in Hlen. unfold len in Hlen. cbn [length] in Hlen. lia. }
      destruct (build_fields e (TInt z :: rest)) as [fs|] eqn:Eb; [|discriminate]. inversion H; subst m; clear H.
      exists e. split; [exact Hin|]. split; [exact Hu8|]. split; [exact Har|]. split; [reflexivity|].
      assert (Hser : forall tagf rolesf, tagf e = ce_u8 e -> rolesf e = ce_roles e ->
                ser tbl tagf rolesf (CMsg (ce_variant e) fs) = TTuple (canon_els e (TInt z :: rest))).
      { intros tagf rolesf Ht Hr. unfold ser. rewrite (find_variant_in tbl e Hdist Hin), Ht, Hr, Hu8, Z2N.id by lia.
        unfold build_fields in Eb. rewrite Hvals in Eb. unfold canon_els.
        destruct Hidf as [Hid0|(Hid1 & rs & Hrs)].
        - rewrite Hid0 in *. rewrite N.eqb_refl in *. inversion Eb; subst fs.
          now rewrite rlookup_roles by assumption.
        - rewrite Hid1 in *. replace (1 =? 0) with false in * by reflexivity.
          destruct rest as [|t1 rest']; [discriminate|].
          change (nthN (TInt z :: t1 :: rest') 1 TNil) with t1 in Eb.
          destruct (unlink_id_of t1) as [id|]; [|discriminate]. inversion Eb; subst fs.
          rewrite rlookup_roles; [reflexivity|assumption|exact Hll]. }
      split; apply Hser; congruence.
    - inversion H; subst m. unfold to_term, into_term, ser. rewrite Z2N.id by lia. repeat split; reflexivity.
  Qed.
End Lossless.

(* the canonical id term denotes the same integer as the term it was parsed from (ids of at most 64 bits) *)
Lemma unle_firstn8 d : forallb (fun x => x =? 0) (skipn 8 d) = true -> unle (firstn 8 d) = unle d.
Proof.
  intros H. rewrite <- (firstn_skipn 8 d) at 2.
  assert (G : forall l, forallb (fun x => x =? 0) l = true -> unle l = 0).
  { induction l as [|x l IH]; [reflexivity|]. cbn [forallb unle]. intros Hl. apply andb_prop in Hl as [Hx Hl].
    apply N.eqb_eq in Hx. subst. rewrite (IH Hl). reflexivity. }
  assert (A : forall a b, unle (a ++ b) = unle a + 256 ^ len a * unle b).
  { induction a as [|x a IH]; intros b; [unfold len; cbn [app length unle]; rewrite N.pow_0_r; lia|].
    cbn [app unle]. rewrite IH. unfold len. cbn [length].
    replace (N.of_nat (S (length a))) with (N.succ (N.of_nat (length a))) by lia. rewrite N.pow_succ_r'. lia. }
  rewrite A, (G _ H). lia.
Qed.

Lemma unlink_id_value t id : unlink_id_of t = Some id -> id < 18446744073709551616 -> denote (unlink_id_term id) = denote t.
Proof.
  unfold unlink_id_of, unlink_id_term. destruct t; try discriminate.
  - destruct (0 <=? z)%Z eqn:E; [|discriminate]. intros H Hid; inversion H; subst. apply Z.leb_le in E.
    destruct (Z.to_N z <=? 9223372036854775807) eqn:E2; cbn [denote].
    + now rewrite Z2N.id.
    + unfold big_value. rewrite unle_le. change (256 ^ N.of_nat 8) with 18446744073709551616.
      rewrite N.mod_small by exact Hid. now rewrite Z2N.id.
  - destruct neg; [discriminate|]. destruct (forallb (fun x => x =? 0) (skipn 8 digits)) eqn:E; [|discriminate].
    intros H Hid. assert (Hid' : id = unle digits) by (injection H as <-; apply unle_firstn8; exact E). subst id.
    destruct (unle digits <=? 9223372036854775807) eqn:E2; cbn [denote]; unfold big_value.
    + reflexivity.
    + rewrite unle_le. change (256 ^ N.of_nat 8) with 18446744073709551616. now rewrite N.mod_small.
Qed.
