(* The term type shared by OwnedTerm and BorrowedTerm (field-for-field the same 17 variants),
   its induction principle, UTF-8 validity, and well-formedness.  Definitions + the induction principle. *)
From EDP Require Import Base.Bytes.

(* identifiers; `loc` = raw LOCAL_EXT bytes (8-byte hash ++ nested encoding) when received node-local *)
Record pidr := { pnode : bytes; pnum : N; pserial : N; pcreation : N; ploc : option bytes }.

Inductive term :=
| TAtom (name : bytes)
| TInt (z : Z)
| TFloat (bits : N)
| TPid (p : pidr)
| TPort (node : bytes) (id creation : N) (loc : option bytes)
| TRef (node : bytes) (creation : N) (ids : list N) (loc : option bytes)
| TBin (b : bytes)
| TBitBin (b : bytes) (bits : N)
| TStr (s : bytes)
| TList (l : list term)
| TImproper (l : list term) (tail : term)
| TMap (kvs : list (term * term))
| TTuple (l : list term)
| TBig (neg : bool) (digits : bytes)
| TExtFun (m f : bytes) (arity : N)
| TIntFun (arity : N) (uniq : bytes) (index num_free : N) (m : bytes) (old_index old_uniq : N)
          (p : pidr) (free : list term)
| TNil.

(* nested induction principle *)
Section TermInd.
  Variable P : term -> Prop.
  Hypothesis HAtom : forall a, P (TAtom a).
  Hypothesis HInt : forall z, P (TInt z).
  Hypothesis HFloat : forall b, P (TFloat b).
  Hypothesis HPid : forall p, P (TPid p).
  Hypothesis HPort : forall n i c l, P (TPort n i c l).
  Hypothesis HRef : forall n c i l, P (TRef n c i l).
  Hypothesis HBin : forall b, P (TBin b).
  Hypothesis HBitBin : forall b k, P (TBitBin b k).
  Hypothesis HStr : forall s, P (TStr s).
  Hypothesis HList : forall l, Forall P l -> P (TList l).
  Hypothesis HImproper : forall l t, Forall P l -> P t -> P (TImproper l t).
  Hypothesis HMap : forall kvs, Forall (fun kv => P (fst kv) /\ P (snd kv)) kvs -> P (TMap kvs).
  Hypothesis HTuple : forall l, Forall P l -> P (TTuple l).
  Hypothesis HBig : forall s d, P (TBig s d).
  Hypothesis HExtFun : forall m f a, P (TExtFun m f a).
  Hypothesis HIntFun : forall a u i nf m oi ou p fr, Forall P fr -> P (TIntFun a u i nf m oi ou p fr).
  Hypothesis HNil : P TNil.

  Fixpoint term_ind' (t : term) : P t :=
    let list_ind := fix go (l : list term) : Forall P l :=
      match l with [] => Forall_nil _ | x :: r => Forall_cons _ (term_ind' x) (go r) end in
    match t with
    | TAtom a => HAtom a | TInt z => HInt z | TFloat b => HFloat b | TPid p => HPid p
    | TPort n i c l => HPort n i c l | TRef n c i l => HRef n c i l | TBin b => HBin b
    | TBitBin b k => HBitBin b k | TStr s => HStr s
    | TList l => HList l (list_ind l)
    | TImproper l t' => HImproper l t' (list_ind l) (term_ind' t')
    | TMap kvs => HMap kvs ((fix go (l : list (term * term)) : Forall (fun kv => P (fst kv) /\ P (snd kv)) l :=
                     match l as l0 return Forall (fun kv => P (fst kv) /\ P (snd kv)) l0 with
                     | [] => Forall_nil _
                     | kv :: r => Forall_cons kv (conj (term_ind' (fst kv)) (term_ind' (snd kv))) (go r)
                     end) kvs)
    | TTuple l => HTuple l (list_ind l)
    | TBig s d => HBig s d | TExtFun m f a => HExtFun m f a
    | TIntFun a u i nf m oi ou p fr => HIntFun a u i nf m oi ou p fr (list_ind fr)
    | TNil => HNil
    end.
End TermInd.

(* ---------- UTF-8 validity as Rust's str::from_utf8 decides it ---------- *)
Definition cont (b : N) : bool := (128 <=? b) && (b <=? 191).

Fixpoint utf8_valid_fuel (fuel : nat) (bs : bytes) : bool :=
  match fuel with
  | O => match bs with [] => true | _ => false end
  | S f =>
    match bs with
    | [] => true
    | b0 :: r =>
      if b0 <? 128 then utf8_valid_fuel f r
      else if (194 <=? b0) && (b0 <=? 223) then
        match r with b1 :: r' => cont b1 && utf8_valid_fuel f r' | _ => false end
      else if b0 =? 224 then
        match r with b1 :: b2 :: r' => (160 <=? b1) && (b1 <=? 191) && cont b2 && utf8_valid_fuel f r' | _ => false end
      else if ((225 <=? b0) && (b0 <=? 236)) || ((238 <=? b0) && (b0 <=? 239)) then
        match r with b1 :: b2 :: r' => cont b1 && cont b2 && utf8_valid_fuel f r' | _ => false end
      else if b0 =? 237 then
        match r with b1 :: b2 :: r' => (128 <=? b1) && (b1 <=? 159) && cont b2 && utf8_valid_fuel f r' | _ => false end
      else if b0 =? 240 then
        match r with b1 :: b2 :: b3 :: r' => (144 <=? b1) && (b1 <=? 191) && cont b2 && cont b3 && utf8_valid_fuel f r' | _ => false end
      else if (241 <=? b0) && (b0 <=? 243) then
        match r with b1 :: b2 :: b3 :: r' => cont b1 && cont b2 && cont b3 && utf8_valid_fuel f r' | _ => false end
      else if b0 =? 244 then
        match r with b1 :: b2 :: b3 :: r' => (128 <=? b1) && (b1 <=? 143) && cont b2 && cont b3 && utf8_valid_fuel f r' | _ => false end
      else false
    end
  end.
Definition utf8_valid (bs : bytes) : bool := utf8_valid_fuel (length bs) bs.

(* ---------- well-formedness: what a value of the Rust type can hold, plus the property's side conditions ---------- *)
Definition two8 : N := 256.
Definition two16 : N := 65536.
Definition two31 : N := 2147483648.
Definition two32 : N := 4294967296.
Definition two63 : N := 9223372036854775808.
Definition two64 : N := 18446744073709551616.

Definition wf_atom (a : bytes) : bool := all_bytes a && utf8_valid a.
Definition wf_loc (l : option bytes) : bool := match l with None => true | Some b => all_bytes b end.
Definition wf_pid (p : pidr) : bool :=
  wf_atom (pnode p) && (pnum p <? two32) && (pserial p <? two32) && (pcreation p <? two32) && wf_loc (ploc p).

Definition float_finite (bits : N) : bool := (bits <? two64) && negb ((bits / 4503599627370496) mod 2048 =? 2047).

(* last digit of a big integer is non-zero (minimal little-endian digits) *)
Definition minimal_digits (d : bytes) : bool :=
  match rev d with [] => true | x :: _ => negb (x =? 0) end.

Fixpoint wf (t : term) : bool :=
  match t with
  | TAtom a => wf_atom a
  | TInt z => ((- Z.of_N two63 <=? z) && (z <? Z.of_N two63))%Z
  | TFloat b => float_finite b
  | TPid p => wf_pid p
  | TPort n i c l => wf_atom n && (i <? two64) && (c <? two32) && wf_loc l
  | TRef n c ids l => wf_atom n && (c <? two32) && forallb (fun i => i <? two32) ids && wf_loc l
  | TBin b => all_bytes b
  | TBitBin b k => all_bytes b && (1 <=? k) && (k <=? 8) && (match b with [] => k =? 8 | _ => true end)
  | TStr s => all_bytes s && utf8_valid s
  | TList l => forallb wf l
  | TImproper l tl => forallb wf l && wf tl
  | TMap kvs => forallb (fun kv => wf (fst kv) && wf (snd kv)) kvs
  | TTuple l => forallb wf l
  | TBig _ d => all_bytes d
  | TExtFun m f a => wf_atom m && wf_atom f && (a <? two8)
  | TIntFun a u i nf m oi ou p fr =>
      (a <? two8) && all_bytes u && (len u =? 16) && (i <? two32) && (nf <? two32) && wf_atom m
      && (oi <? two32) && (ou <? two32) && wf_pid p && forallb wf fr
  | TNil => true
  end.
