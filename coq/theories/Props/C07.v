(* C07 — each send operation emits exactly one well-formed frame with the right content.
   Model: Dist/Send.v — the control tuple each operation builds and the frame send_control_message writes in the
   negotiated framing mode.  The correspondence run drives a real Connection against a scripted peer, compares the
   bytes the peer received with this model, and has an independent reader of the protocol parse them. *)
From EDP Require Import Base.Bytes Term.Term Gen.Tags Gen.ControlTable Gen.DecoderArms Codec.Encode Codec.Decode Codec.Norm
  Codec.DistHeader Codec.DistHeaderFacts Dist.Control Dist.Framing Dist.Receive Dist.Send Dist.SendFacts Conc.Interleave Gen.LockScope.
From EDP Require Node.Node Node.NodeFacts.

(* one operation, one frame: the length prefix of the body, then the body *)
Theorem C07_one_frame : forall negotiated order op f, send_frame negotiated order op = Some f ->
  exists body, frame_body negotiated order op = Some body /\ f = be 4 (len body) ++ body.
Proof. exact one_frame. Qed.

(* a reader of the byte stream gets exactly that body back, however the transport segments it, and is positioned at
   the next frame *)
Theorem C07_frame_reads_back : forall negotiated order op f body cs tail,
  send_frame negotiated order op = Some f -> frame_body negotiated order op = Some body ->
  fits Distribution body -> wfc cs -> data_of cs = f ++ tail ->
  exists cs', read_framed Distribution cs = (ROk body, cs', len body) /\ data_of cs' = tail /\ wfc cs'.
Proof. exact frame_reads_back. Qed.

(* the framing mode is the negotiated one: pass-through unless both sides set DFLAG_DIST_HDR_ATOM_CACHE *)
Theorem C07_mode_is_negotiated : forall cfgf peerf,
  uses_pass_through (N.land cfgf peerf) = negb (N.testbit cfgf 13 && N.testbit peerf 13).
Proof. exact mode_from_negotiated. Qed.

(* every operation's control tuple is the one the protocol numbers for it *)
Theorem C07_control_tuples : forall op,
  match from_term control_table (fst (control_of op)) with
  | COk (CMsg v _) =>
      v = match op with SSend _ _ => 2 | SRegSend _ _ _ => 6 | SLink _ _ => 1 | SUnlink _ _ _ => 35
                      | SMonitor _ _ _ => 19 | SDemonitor _ _ _ => 20 end
  | _ => False
  end.
Proof. exact control_tags. Qed.

(* pass-through mode: the body is 112, the control tuple, the payload and nothing else — read back it is delivered
   as exactly that control tuple and payload *)
Theorem C07_pass_through_content : forall cfg st negotiated order op, uses_pass_through negotiated = true ->
  d_arms cfg = owned_arms ->
  let ctl := fst (control_of op) in
  wf ctl = true -> rt_ok (d_kcmp cfg) (d_kinsert cfg) ctl ->
  match snd (control_of op) with
  | Some msg => wf msg = true /\ rt_ok (d_kcmp cfg) (d_kinsert cfg) msg
  | None => True
  end ->
  exists body, frame_body negotiated order op = Some body /\
    handle_frame cfg st body = (st, to_outcome (norm ctl) (option_map norm (snd (control_of op)))).
Proof. exact pass_through_frame. Qed.

(* header mode (DIST_HDR_ATOM_CACHE negotiated): the body is 131, 68, the header of the writer's atoms in whatever order
   the writer's set yields them (any count 1..255, both parities, short or long atoms), the control tuple and the
   payload with cached atoms as references — read back it is delivered as exactly that control tuple and payload *)
Theorem C07_header_content : forall cfg st negotiated order op, uses_pass_through negotiated = false ->
  d_arms cfg = owned_arms ->
  order <> [] -> len order <= 255 -> Forall (fun a => utf8_valid a = true) order ->
  existsb (fun a => 65535 <? len a) order = false ->
  let ctl := fst (control_of op) in
  wf ctl = true -> rt_ok (d_kcmp cfg) (d_kinsert cfg) ctl ->
  match snd (control_of op) with
  | Some msg => wf msg = true /\ rt_ok (d_kcmp cfg) (d_kinsert cfg) msg
  | None => True
  end ->
  exists body, frame_body negotiated order op = Some body /\
    handle_frame cfg st body = (with_cache st (new_cache order (r_cache st)),
                                to_outcome (norm ctl) (option_map norm (snd (control_of op)))).
Proof. exact header_frame_content. Qed.

(* concurrent senders: every send-side operation of the node acquires the connection's lock before its first write
   and still holds it after its last (checked on the source by the translator, Gen/LockScope.v) ... *)
Theorem C07_operations_hold_the_lock : forallb snd lock_sites = true.
Proof. vm_compute. reflexivity. Qed.

(* ... and under that discipline, for EVERY schedule of any number of tasks, with each operation split into any number
   of partial writes, the bytes on the wire are whole frames one after the other (then a prefix of the frame in
   progress), and each task's frames appear in the order it issued them, each exactly once *)
Theorem C07_frames_never_interleave : forall (prog : list (list (list bytes))) schedule,
  exists (whole : list (list bytes)) (partial rest : list bytes),
    trace bytes (run bytes (start bytes prog) schedule) = concat whole ++ partial /\
    match holder bytes (run bytes (start bytes prog) schedule) with None => partial = [] | Some (_, r) => r = rest end.
Proof. exact (never_interleaved bytes). Qed.

Theorem C07_per_task_order : forall (prog : list (list (list bytes))) schedule,
  exists g, (forall i, ops_of bytes i g ++ nth i (todo bytes (run bytes (start bytes prog) schedule)) [] = nth i prog []) /\
    match holder bytes (run bytes (start bytes prog) schedule) with
    | None => trace bytes (run bytes (start bytes prog) schedule) = concat (map snd g)
    | Some _ => True
    end.
Proof. exact (program_order bytes). Qed.

Example C07_example :
  let p := {| pnode := [110; 64; 104]; pnum := 1; pserial := 2; pcreation := 3; ploc := None |} in
  send_frame 0 [] (SLink p p) =
    Some ([0; 0; 0; 42; 112; 131; 104; 3; 97; 1] ++ [88; 119; 3; 110; 64; 104; 0; 0; 0; 1; 0; 0; 0; 2; 0; 0; 0; 3]
                                              ++ [88; 119; 3; 110; 64; 104; 0; 0; 0; 1; 0; 0; 0; 2; 0; 0; 0; 3]) /\
  uses_pass_through 8192 = false.
Proof. cbv zeta. split; vm_compute; reflexivity. Qed.

(* through the node: Node::send / link / demonitor with a remote pid write exactly the frame of the connection-level
   operation, or fail and write nothing; Node::unlink takes its id from the node's reference counter, which advances *)
Theorem C07_node_remote_one_frame : forall cfg st o,
  (Node.n_connected st = true -> forall f, send_frame 0 [] o = Some f ->
     Node.step cfg st (Node.ORemote o) = (Node.with_wrote st (Node.n_wrote st ++ [f]), Node.UOk)) /\
  (Node.n_connected st = false \/ send_frame 0 [] o = None -> Node.step cfg st (Node.ORemote o) = (st, Node.UErr)).
Proof. exact NodeFacts.remote_op_one_frame. Qed.

Theorem C07_node_unlink_ids : forall cfg st a b, Node.n_connected st = true ->
  forall f, send_frame 0 [] (SUnlink a b (Node.n_refctr st)) = Some f ->
  Node.n_wrote (fst (Node.step cfg st (Node.ORemoteUnlink a b))) = Node.n_wrote st ++ [f] /\
  Node.n_refctr (fst (Node.step cfg st (Node.ORemoteUnlink a b))) = (Node.n_refctr st + 1) mod 4294967296.
Proof. exact NodeFacts.remote_unlink_ids. Qed.

Check C07_one_frame.
