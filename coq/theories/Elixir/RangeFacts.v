From Coq Require Import ZArith List Bool Lia.
Open Scope Z_scope.
Lemma mem_pos s a L : 0 < s -> 0 <= a <= L -> a mod s = 0 -> 0 <= a / s < L / s + 1 /\ a = (a / s) * s.
Proof.
  intros Hs Ha Hm. pose proof (Z.div_mod a s ltac:(lia)) as Hd. rewrite Hm in Hd.
  pose proof (Z.div_pos a s ltac:(lia) Hs). pose proof (Z.div_le_mono a L s Hs ltac:(lia)). lia.
Qed.
Lemma mem_conv s k L : 0 < s -> 0 <= L -> 0 <= k < L / s + 1 -> 0 <= k * s <= L /\ (k * s) mod s = 0.
Proof.
  intros Hs HL Hk. split; [|apply Z_mod_mult].
  pose proof (Z.mul_div_le L s Hs). split; [nia|]. assert (k <= L / s) by lia. nia.
Qed.
Lemma div_next s q L : 0 < s -> 0 <= L -> q = L / s -> L < (q + 1) * s.
Proof. intros Hs HL ->. pose proof (Z.mod_pos_bound L s Hs). pose proof (Z.div_mod L s ltac:(lia)). nia. Qed.
Lemma div_sub s k L : 0 < s -> (L - k * s) / s = L / s - k.
Proof. intros Hs. replace (L - k * s) with (L + (- k) * s) by ring. rewrite Z.div_add by lia. ring. Qed.
From EDP Require Import Elixir.Range.

Lemma i64_ok_bounds z : i64_ok z = true -> i64_min <= z <= i64_max.
Proof. unfold i64_ok. intros H. apply andb_prop in H as [H1 H2]. apply Z.leb_le in H1, H2. lia. Qed.

Lemma chk_u64_some z : 0 <= z <= u64_max -> chk_u64 z = Some z.
Proof. intros H. unfold chk_u64. destruct (0 <=? z) eqn:E1; [|apply Z.leb_gt in E1; lia].
  destruct (z <=? u64_max) eqn:E2; [reflexivity|apply Z.leb_gt in E2; lia]. Qed.

Lemma abs_diff_some a b : i64_ok a = true -> i64_ok b = true -> abs_diff a b = Some (Z.abs (a - b)).
Proof. intros Ha Hb. apply i64_ok_bounds in Ha, Hb. unfold abs_diff. apply chk_u64_some.
  unfold i64_min, i64_max, u64_max in *. lia. Qed.

Lemma unsigned_abs_some a : i64_ok a = true -> unsigned_abs a = Some (Z.abs a).
Proof. intros Ha. apply i64_ok_bounds in Ha. unfold unsigned_abs. apply chk_u64_some.
  unfold i64_min, i64_max, u64_max in *. lia. Qed.

Lemma nonempty_step r : r_empty r = false -> rstep r <> 0.
Proof. unfold r_empty. destruct (0 <? rstep r) eqn:E1; [apply Z.ltb_lt in E1; lia|].
  destruct (rstep r <? 0) eqn:E2; [apply Z.ltb_lt in E2; lia|discriminate]. Qed.

(* a non-empty range, oriented: either step > 0 and first <= last, or step < 0 and last <= first *)
Lemma nonempty_cases r : r_empty r = false ->
  (0 < rstep r /\ rfirst r <= rlast r /\ (0 <? rstep r) = true) \/
  (rstep r < 0 /\ rlast r <= rfirst r /\ (0 <? rstep r) = false).
Proof.
  unfold r_empty. destruct (0 <? rstep r) eqn:E1.
  - intros E. apply Z.ltb_lt in E1. apply Z.ltb_ge in E. left. auto.
  - destruct (rstep r <? 0) eqn:E2; [|discriminate]. intros E. apply Z.ltb_lt in E2. apply Z.ltb_ge in E. right. auto.
Qed.

Theorem len_spec r : range_ok r -> r_len r = Some (Z.min (r_count r) u64_max).
Proof.
  intros (Hf & Hl & Hs). unfold r_len, r_count. destruct (r_empty r) eqn:E.
  - unfold u64_max. rewrite Z.min_l by lia. reflexivity.
  - rewrite abs_diff_some, unsigned_abs_some by assumption. cbn [bind]. unfold udiv.
    pose proof (nonempty_step r E) as Hn. destruct (Z.abs (rstep r) =? 0) eqn:E0; [apply Z.eqb_eq in E0; lia|].
    cbn [bind]. reflexivity.
Qed.

Theorem contains_spec r v : range_ok r -> i64_ok v = true ->
  exists b, r_contains r v = Some b /\ (b = true <-> exists k, 0 <= k < r_count r /\ v = r_member r k).
Proof.
  intros (Hf & Hl & Hs) Hv. unfold r_contains, r_count, r_member. destruct (r_empty r) eqn:E.
  - exists false. split; [reflexivity|]. split; [discriminate|]. intros (k & Hk & _). lia.
  - destruct (nonempty_cases r E) as [(Hs1 & Hfl & ->)|(Hs1 & Hfl & ->)].
    + rewrite (Z.abs_eq (rstep r)), (Z.abs_eq (rlast r - rfirst r)) by lia.
      destruct ((rfirst r <=? v) && (v <=? rlast r)) eqn:Eb.
      * apply andb_prop in Eb as [Eb1 Eb2]. apply Z.leb_le in Eb1, Eb2.
        rewrite abs_diff_some, unsigned_abs_some by assumption. cbn [bind]. unfold urem.
        rewrite (Z.abs_eq (rstep r)), (Z.abs_eq (v - rfirst r)) by lia.
        destruct (rstep r =? 0) eqn:E0; [apply Z.eqb_eq in E0; lia|]. cbn [bind].
        eexists. split; [reflexivity|]. rewrite Z.eqb_eq. split.
        -- intros Hm. exists ((v - rfirst r) / rstep r).
           destruct (mem_pos (rstep r) (v - rfirst r) (rlast r - rfirst r) Hs1 ltac:(lia) Hm) as [H1 H2]. lia.
        -- intros (k & Hk & ->).
           destruct (mem_conv (rstep r) k (rlast r - rfirst r) Hs1 ltac:(lia) Hk) as [H1 H2].
           replace (rfirst r + k * rstep r - rfirst r) with (k * rstep r) by ring. exact H2.
      * exists false. split; [reflexivity|]. split; [discriminate|]. intros (k & Hk & ->).
        destruct (mem_conv (rstep r) k (rlast r - rfirst r) Hs1 ltac:(lia) Hk) as [H1 H2].
        apply andb_false_iff in Eb as [Eb|Eb]; apply Z.leb_gt in Eb; lia.
    + rewrite (Z.abs_neq (rstep r)), (Z.abs_neq (rlast r - rfirst r)) by lia.
      destruct ((v <=? rfirst r) && (rlast r <=? v)) eqn:Eb.
      * apply andb_prop in Eb as [Eb1 Eb2]. apply Z.leb_le in Eb1, Eb2.
        rewrite abs_diff_some, unsigned_abs_some by assumption. cbn [bind]. unfold urem.
        rewrite (Z.abs_neq (rstep r)), (Z.abs_eq (rfirst r - v)) by lia.
        destruct (- rstep r =? 0) eqn:E0; [apply Z.eqb_eq in E0; lia|]. cbn [bind].
        eexists. split; [reflexivity|]. rewrite Z.eqb_eq. split.
        -- intros Hm. exists ((rfirst r - v) / (- rstep r)).
           destruct (mem_pos (- rstep r) (rfirst r - v) (- (rlast r - rfirst r)) ltac:(lia) ltac:(lia) Hm) as [H1 H2]. lia.
        -- intros (k & Hk & ->).
           destruct (mem_conv (- rstep r) k (- (rlast r - rfirst r)) ltac:(lia) ltac:(lia) Hk) as [H1 H2].
           replace (rfirst r - (rfirst r + k * rstep r)) with (k * - rstep r) by ring. exact H2.
      * exists false. split; [reflexivity|]. split; [discriminate|]. intros (k & Hk & ->).
        destruct (mem_conv (- rstep r) k (- (rlast r - rfirst r)) ltac:(lia) ltac:(lia) Hk) as [H1 H2].
        apply andb_false_iff in Eb as [Eb|Eb]; apply Z.leb_gt in Eb; lia.
Qed.

Definition beyond (r : range) (st : istate) : Prop :=
  r_empty r = true \/ snd st = true \/ (0 < rstep r /\ rlast r < fst st) \/ (rstep r < 0 /\ fst st < rlast r).
Definition Inv (r : range) (k : Z) (st : istate) : Prop :=
  (0 <= k < r_count r /\ st = (r_member r k, false)) \/ (r_count r <= k /\ beyond r st).

Lemma next_beyond r st : beyond r st -> fst (it_next r st) = None /\ beyond r (snd (it_next r st)).
Proof.
  destruct st as [cur done]. unfold beyond, it_next. cbn [fst snd]. intros [H|[H|[(H1 & H2)|(H1 & H2)]]].
  - rewrite H, orb_true_r. cbn [fst snd]. auto.
  - rewrite H. cbn [orb fst snd]. auto.
  - destruct (done || r_empty r) eqn:E; cbn [fst snd].
    + apply orb_prop in E as [E|E]; auto.
    + destruct (0 <? rstep r) eqn:Es; [|apply Z.ltb_ge in Es; lia].
      destruct (rlast r <? cur) eqn:El; [|apply Z.ltb_ge in El; lia]. cbn [fst snd]. auto.
  - destruct (done || r_empty r) eqn:E; cbn [fst snd].
    + apply orb_prop in E as [E|E]; auto.
    + destruct (0 <? rstep r) eqn:Es; [apply Z.ltb_lt in Es; lia|].
      destruct (cur <? rlast r) eqn:El; [|apply Z.ltb_ge in El; lia]. cbn [fst snd]. auto.
Qed.

Lemma i64_ok_intro z : i64_min <= z <= i64_max -> i64_ok z = true.
Proof. intros H. unfold i64_ok. apply andb_true_intro. split; apply Z.leb_le; lia. Qed.

Lemma div_exact s k : 0 < s -> k * s / s = k.
Proof. intros. apply Z.div_mul. lia. Qed.

Lemma next_member r k : range_ok r -> 0 <= k < r_count r ->
  fst (it_next r (r_member r k, false)) = Some (r_member r k) /\ Inv r (k + 1) (snd (it_next r (r_member r k, false))).
Proof.
  intros (Hf & Hl & Hs) Hk. unfold r_count in Hk. destruct (r_empty r) eqn:E; [lia|].
  assert (Hcount : r_count r = Z.abs (rlast r - rfirst r) / Z.abs (rstep r) + 1) by (unfold r_count; now rewrite E).
  apply i64_ok_bounds in Hf, Hl, Hs.
  unfold it_next. rewrite E. cbn [orb].
  destruct (nonempty_cases r E) as [(Hs1 & Hfl & Es)|(Hs1 & Hfl & Es)]; rewrite Es.
  - rewrite (Z.abs_eq (rstep r)), (Z.abs_eq (rlast r - rfirst r)) in * by lia.
    destruct (mem_conv (rstep r) k (rlast r - rfirst r) Hs1 ltac:(lia) Hk) as [[H1 H2] _].
    unfold r_member. destruct (rlast r <? rfirst r + k * rstep r) eqn:E1; [apply Z.ltb_lt in E1; lia|].
    destruct (rfirst r + k * rstep r =? rlast r) eqn:E2.
    + apply Z.eqb_eq in E2. cbn [fst snd]. split; [reflexivity|]. right. split.
      * rewrite Hcount. replace (rlast r - rfirst r) with (k * rstep r) by lia. rewrite div_exact by lia. lia.
      * right. left. reflexivity.
    + apply Z.eqb_neq in E2. cbn [fst snd]. split; [reflexivity|].
      unfold it_advance, checked_add.
      destruct (Z_lt_le_dec (k + 1) (r_count r)) as [Hlt|Hge].
      * rewrite Hcount in Hlt.
        destruct (mem_conv (rstep r) (k + 1) (rlast r - rfirst r) Hs1 ltac:(lia) ltac:(lia)) as [[H3 H4] _].
        rewrite i64_ok_intro by lia. cbn [snd]. left. split; [rewrite Hcount; lia|]. f_equal. unfold r_member. ring.
      * rewrite Hcount in Hge. assert (Hkq : k = (rlast r - rfirst r) / rstep r) by lia.
        pose proof (div_next (rstep r) k (rlast r - rfirst r) Hs1 ltac:(lia) Hkq) as Hn.
        destruct (i64_ok (rfirst r + k * rstep r + rstep r)); cbn [snd]; right; (split; [rewrite Hcount; lia|]).
        -- right. right. left. cbn [fst]. split; [exact Hs1|]. lia.
        -- right. left. reflexivity.
  - rewrite (Z.abs_neq (rstep r)), (Z.abs_neq (rlast r - rfirst r)) in * by lia.
    destruct (mem_conv (- rstep r) k (- (rlast r - rfirst r)) ltac:(lia) ltac:(lia) Hk) as [[H1 H2] _].
    unfold r_member. destruct (rfirst r + k * rstep r <? rlast r) eqn:E1; [apply Z.ltb_lt in E1; lia|].
    destruct (rfirst r + k * rstep r =? rlast r) eqn:E2.
    + apply Z.eqb_eq in E2. cbn [fst snd]. split; [reflexivity|]. right. split.
      * rewrite Hcount. replace (- (rlast r - rfirst r)) with (k * - rstep r) by lia. rewrite div_exact by lia. lia.
      * right. left. reflexivity.
    + apply Z.eqb_neq in E2. cbn [fst snd]. split; [reflexivity|].
      unfold it_advance, checked_add.
      destruct (Z_lt_le_dec (k + 1) (r_count r)) as [Hlt|Hge].
      * rewrite Hcount in Hlt.
        destruct (mem_conv (- rstep r) (k + 1) (- (rlast r - rfirst r)) ltac:(lia) ltac:(lia) ltac:(lia)) as [[H3 H4] _].
        rewrite i64_ok_intro by lia. cbn [snd]. left. split; [rewrite Hcount; lia|]. f_equal. unfold r_member. ring.
      * rewrite Hcount in Hge. assert (Hkq : k = (- (rlast r - rfirst r)) / (- rstep r)) by lia.
        pose proof (div_next (- rstep r) k (- (rlast r - rfirst r)) ltac:(lia) ltac:(lia) Hkq) as Hn.
        destruct (i64_ok (rfirst r + k * rstep r + rstep r)); cbn [snd]; right; (split; [rewrite Hcount; lia|]).
        -- right. right. right. cbn [fst]. split; [exact Hs1|]. lia.
        -- right. left. reflexivity.
Qed.

Lemma inv_step r k st : range_ok r -> Inv r k st ->
  Inv r (k + 1) (snd (it_next r st)) /\
  fst (it_next r st) = if k <? r_count r then Some (r_member r k) else None.
Proof.
  intros Hr [[Hk ->]|[Hk Hb]].
  - destruct (next_member r k Hr Hk) as [H1 H2]. split; [exact H2|]. rewrite H1.
    destruct (k <? r_count r) eqn:E; [reflexivity|apply Z.ltb_ge in E; lia].
  - destruct (next_beyond r st Hb) as [H1 H2]. split; [right; split; [lia|exact H2]|]. rewrite H1.
    destruct (k <? r_count r) eqn:E; [apply Z.ltb_lt in E; lia|reflexivity].
Qed.

Lemma count_nonneg r : 0 <= r_count r.
Proof. unfold r_count. destruct (r_empty r); [lia|]. pose proof (Z.div_pos (Z.abs (rlast r - rfirst r)) (Z.abs (rstep r))).
  destruct (Z.eq_dec (rstep r) 0) as [->|]; [rewrite Zdiv_0_r; lia|]. lia. Qed.

Lemma inv_init r : Inv r 0 (it_init r).
Proof.
  unfold Inv, it_init. pose proof (count_nonneg r). destruct (Z.eq_dec (r_count r) 0) as [E|E].
  - right. split; [lia|]. left. unfold r_count in E. destruct (r_empty r); [reflexivity|].
    pose proof (Z.div_pos (Z.abs (rlast r - rfirst r)) (Z.abs (rstep r))).
    destruct (Z.eq_dec (rstep r) 0) as [E0|E0]; [|lia]. rewrite E0 in E. cbn in E. rewrite Zdiv_0_r in E. lia.
  - left. split; [lia|]. unfold r_member. f_equal. ring.
Qed.

Lemma inv_after r : range_ok r -> forall k, Inv r (Z.of_nat k) (it_after r k).
Proof.
  intros Hr. induction k as [|k IH]; [exact (inv_init r)|].
  rewrite Nat2Z.inj_succ. unfold Z.succ. cbn [it_after]. exact (proj1 (inv_step r _ _ Hr IH)).
Qed.

(* the k-th call of next returns the k-th member while there is one, None ever after *)
Theorem nth_spec r k : range_ok r ->
  it_nth r k = if Z.of_nat k <? r_count r then Some (r_member r (Z.of_nat k)) else None.
Proof. intros Hr. unfold it_nth. exact (proj2 (inv_step r _ _ Hr (inv_after r Hr k))). Qed.

Lemma hint_beyond r st : beyond r st -> it_size_hint r st = Some 0.
Proof.
  destruct st as [cur done]. unfold beyond, it_size_hint. cbn [fst snd]. intros [H|[H|[(H1 & H2)|(H1 & H2)]]].
  - rewrite H, orb_true_r. reflexivity.
  - rewrite H. reflexivity.
  - destruct (done || r_empty r); [reflexivity|].
    destruct (0 <? rstep r) eqn:Es; [|apply Z.ltb_ge in Es; lia].
    destruct (rlast r <? cur) eqn:El; [reflexivity|apply Z.ltb_ge in El; lia].
  - destruct (done || r_empty r); [reflexivity|].
    destruct (0 <? rstep r) eqn:Es; [apply Z.ltb_lt in Es; lia|].
    destruct (cur <? rlast r) eqn:El; [reflexivity|apply Z.ltb_ge in El; lia].
Qed.

Lemma hint_member r k : range_ok r -> 0 <= k < r_count r ->
  it_size_hint r (r_member r k, false) = Some (Z.min (r_count r - k) u64_max).
Proof.
  intros (Hf & Hl & Hs) Hk. unfold r_count in Hk. destruct (r_empty r) eqn:E; [lia|].
  assert (Hcount : r_count r = Z.abs (rlast r - rfirst r) / Z.abs (rstep r) + 1) by (unfold r_count; now rewrite E).
  pose proof Hf as Hf'. pose proof Hl as Hl'. apply i64_ok_bounds in Hf', Hl'.
  unfold it_size_hint. rewrite E. cbn [orb].
  destruct (nonempty_cases r E) as [(Hs1 & Hfl & Es)|(Hs1 & Hfl & Es)]; rewrite Es.
  - rewrite (Z.abs_eq (rstep r)), (Z.abs_eq (rlast r - rfirst r)) in * by lia.
    destruct (mem_conv (rstep r) k (rlast r - rfirst r) Hs1 ltac:(lia) Hk) as [[H1 H2] _].
    unfold r_member. destruct (rlast r <? rfirst r + k * rstep r) eqn:E1; [apply Z.ltb_lt in E1; lia|].
    rewrite abs_diff_some, unsigned_abs_some by (assumption || (apply i64_ok_intro; lia)). cbn [bind]. unfold udiv.
    rewrite (Z.abs_eq (rstep r)), (Z.abs_eq (rlast r - (rfirst r + k * rstep r))) by lia.
    destruct (rstep r =? 0) eqn:E0; [apply Z.eqb_eq in E0; lia|]. cbn [bind]. unfold sat_inc. f_equal. f_equal.
    rewrite Hcount. replace (rlast r - (rfirst r + k * rstep r)) with (rlast r - rfirst r - k * rstep r) by ring.
    rewrite div_sub by lia. ring.
  - rewrite (Z.abs_neq (rstep r)), (Z.abs_neq (rlast r - rfirst r)) in * by lia.
    destruct (mem_conv (- rstep r) k (- (rlast r - rfirst r)) ltac:(lia) ltac:(lia) Hk) as [[H1 H2] _].
    unfold r_member. destruct (rfirst r + k * rstep r <? rlast r) eqn:E1; [apply Z.ltb_lt in E1; lia|].
    rewrite abs_diff_some, unsigned_abs_some by (assumption || (apply i64_ok_intro; lia)). cbn [bind]. unfold udiv.
    rewrite (Z.abs_neq (rstep r)), (Z.abs_eq (rfirst r + k * rstep r - rlast r)) by lia.
    destruct (- rstep r =? 0) eqn:E0; [apply Z.eqb_eq in E0; lia|]. cbn [bind]. unfold sat_inc. f_equal. f_equal.
    rewrite Hcount. replace (rfirst r + k * rstep r - rlast r) with (- (rlast r - rfirst r) - k * - rstep r) by ring.
    rewrite div_sub by lia. ring.
Qed.

(* the size hint read after k calls of next is the number of members left (saturated at usize::MAX) *)
Theorem hint_spec r k : range_ok r ->
  it_size_hint r (it_after r k) = Some (Z.min (Z.max (r_count r - Z.of_nat k) 0) u64_max).
Proof.
  intros Hr. destruct (inv_after r Hr k) as [[Hk ->]|[Hk Hb]].
  - rewrite (hint_member r _ Hr Hk). rewrite Z.max_l by lia. reflexivity.
  - rewrite (hint_beyond r _ Hb). rewrite Z.max_r by lia. unfold u64_max. rewrite Z.min_l by lia. reflexivity.
Qed.

(* len, contains and iteration agree: a value is produced by the iterator exactly when contains says so, and the
   iterator produces exactly len values (when the count fits usize) *)
Theorem iter_contains_agree r v : range_ok r -> i64_ok v = true ->
  (r_contains r v = Some true <-> exists k, it_nth r k = Some v).
Proof.
  intros Hr Hv. destruct (contains_spec r v Hr Hv) as (b & Hb & Hiff). rewrite Hb. split.
  - intros [= ->]. destruct (proj1 Hiff eq_refl) as (k & Hk & Hvk). exists (Z.to_nat k).
    rewrite nth_spec by exact Hr. rewrite Z2Nat.id by lia.
    destruct (k <? r_count r) eqn:E; [congruence|apply Z.ltb_ge in E; lia].
  - intros (k & Hk). rewrite nth_spec in Hk by exact Hr.
    destruct (Z.of_nat k <? r_count r) eqn:E; [|discriminate]. apply Z.ltb_lt in E. injection Hk as Hk.
    f_equal. apply Hiff. exists (Z.of_nat k). split; [lia|congruence].
Qed.

Theorem iter_len_agree r : range_ok r -> r_count r <= u64_max ->
  r_len r = Some (r_count r) /\
  (forall k, Z.of_nat k < r_count r -> exists v, it_nth r k = Some v) /\
  (forall k, r_count r <= Z.of_nat k -> it_nth r k = None).
Proof.
  intros Hr Hc. split; [rewrite len_spec by exact Hr; now rewrite Z.min_l|]. split; intros k Hk; rewrite nth_spec by exact Hr.
  - destruct (Z.of_nat k <? r_count r) eqn:E; [eauto|apply Z.ltb_ge in E; lia].
  - destruct (Z.of_nat k <? r_count r) eqn:E; [apply Z.ltb_lt in E; lia|reflexivity].
Qed.

(* members stay inside the 64-bit range *)
Lemma member_i64 r k : range_ok r -> 0 <= k < r_count r -> i64_ok (r_member r k) = true.
Proof.
  intros (Hf & Hl & Hs) Hk. unfold r_count in Hk. destruct (r_empty r) eqn:E; [lia|].
  apply i64_ok_bounds in Hf, Hl. apply i64_ok_intro. unfold r_member.
  destruct (nonempty_cases r E) as [(Hs1 & Hfl & Es)|(Hs1 & Hfl & Es)].
  - rewrite (Z.abs_eq (rstep r)), (Z.abs_eq (rlast r - rfirst r)) in * by lia.
    destruct (mem_conv (rstep r) k (rlast r - rfirst r) Hs1 ltac:(lia) Hk) as [[H1 H2] _]. lia.
  - rewrite (Z.abs_neq (rstep r)), (Z.abs_neq (rlast r - rfirst r)) in * by lia.
    destruct (mem_conv (- rstep r) k (- (rlast r - rfirst r)) ltac:(lia) ltac:(lia) Hk) as [[H1 H2] _]. lia.
Qed.

(* no arithmetic overflow: on 64-bit inputs none of the checked operations fails *)
Theorem no_overflow r v k : range_ok r -> i64_ok v = true ->
  r_len r <> None /\ r_contains r v <> None /\ it_size_hint r (it_after r k) <> None.
Proof.
  intros Hr Hv. split; [rewrite len_spec by exact Hr; discriminate|]. split.
  - destruct (contains_spec r v Hr Hv) as (b & -> & _). discriminate.
  - rewrite hint_spec by exact Hr. discriminate.
Qed.
