"""Byte-level generators shared by C02/C03/C13: valid encodings from the spec encoder, truncations, mutations,
count-field bombs, nesting chains, compressed sections."""
import struct, zlib
import etf, termgen

MODERN = {70, 77, 88, 90, 97, 98, 104, 105, 106, 107, 108, 109, 110, 111, 112, 113, 116, 118, 119, 120}


def candidates(data):
    """byte strings following a COMPRESSED tag + 4-byte size, wherever such a tag byte occurs"""
    out = []
    i = 0
    while len(out) < 6:
        j = data.find(b"\x50", i)
        if j < 0:
            break
        rest = data[j + 5:]
        if len(rest) >= 2 and rest[0] & 0x0f == 8:      # plausible zlib header
            out.append(rest)
        i = j + 1
    return out


def attach_ztabs(op, datas):
    """case strings `op <hex> [Z <compressed> <plain> <consumed>]...` — the inflate results come from flate2
    itself (harness op `inflate`): zlib is an external function of the model, supplied as an oracle."""
    import vlib
    cand = []
    for d in datas:
        cand.extend(candidates(d))
    uniq = sorted(set(cand))
    res = {}
    if uniq:
        outs = vlib.run_lines(vlib.HARNESS_BIN, "codec", ["inflate " + c.hex() for c in uniq])
        for c, o in zip(uniq, outs):
            t = o.split()
            if t and t[0] == "ok":
                k = int(t[2])
                res[c] = (c[:k], bytes.fromhex(t[1].replace(".", "")), k)
    cases = []
    for d in datas:
        s = "%s %s" % (op, d.hex() if d else ".")
        for c in candidates(d):
            if c in res:
                comp, plain, k = res[c]
                s += " Z %s %s %d" % (comp.hex() if comp else ".", plain.hex() if plain else ".", k)
        cases.append(s)
    return cases


def tags_used(data):
    """set of tags a spec walk visits (None if the spec reader rejects the bytes)"""
    tags = set()
    orig = etf.spec_read_term

    def rec(r, depth=0):
        if r.i < len(r.d):
            tags.add(r.d[r.i])
        return orig(r, depth)
    etf.spec_read_term = rec
    try:
        etf.spec_decode(data)
        return tags
    except Exception:  # noqa
        return None
    finally:
        etf.spec_read_term = orig


def valid_encodings(rng, n, canonical_share=0.3):
    out = []
    for _ in range(n):
        v = termgen.gen_value(rng, depth=rng.choice([0, 1, 2, 3]))
        if etf.has_nan(v):
            continue
        canonical = rng.random() < canonical_share
        compress = (not canonical) and rng.random() < 0.1
        data, _ = termgen.encode_value(v, rng, canonical=canonical, compress=compress)
        out.append((v, data))
    return out


def mutations(rng, data, k=3):
    out = []
    for _ in range(k):
        b = bytearray(data)
        r = rng.random()
        if r < 0.35 and len(b) > 1:
            out.append(bytes(b[:rng.randrange(1, len(b))]))
        elif r < 0.7 and b:
            i = rng.randrange(len(b))
            b[i] ^= 1 << rng.randrange(8)
            out.append(bytes(b))
        elif r < 0.85 and b:
            i = rng.randrange(len(b))
            b[i] = rng.choice([0, 255, 108, 104, 116, 112, 80, 121, 82])
            out.append(bytes(b))
        else:
            out.append(bytes(b) + bytes(rng.randrange(256) for _ in range(rng.randrange(1, 4))))
    return out


COUNTS = [0, 1, 2, 255, 256, 65535, 65536, 999999, 1000000, 1000001, 9999999, 10000000, 10000001, 99999999, 100000000, 100000001, 2**31, 2**32 - 1]


def count_bombs():
    """every tag followed by boundary values of its length/arity/count field with little or no data behind it"""
    out = []
    pid = bytes([88, 119, 1, 97]) + struct.pack(">III", 1, 2, 3)
    for c in COUNTS:
        c4 = struct.pack(">I", c & 0xffffffff)
        for tail in (b"", b"\x6a", b"\x61\x01" * 3):
            out.append(bytes([131, 108]) + c4 + tail)          # LIST_EXT
            out.append(bytes([131, 105]) + c4 + tail)          # LARGE_TUPLE_EXT
            out.append(bytes([131, 116]) + c4 + tail)          # MAP_EXT
            out.append(bytes([131, 109]) + c4 + tail)          # BINARY_EXT
            out.append(bytes([131, 77]) + c4 + b"\x03" + tail)  # BIT_BINARY_EXT
            out.append(bytes([131, 111]) + c4 + b"\x00" + tail)  # LARGE_BIG_EXT
            out.append(bytes([131, 80]) + c4 + tail)           # COMPRESSED
            out.append(bytes([131, 80]) + c4 + zlib.compress(b"\x6a"))
            out.append(bytes([131, 112]) + struct.pack(">I", 100) + b"\x01" + bytes(16) + struct.pack(">I", 7) + c4 + b"\x77\x01m" + b"\x61\x01\x61\x02" + pid + tail)  # NEW_FUN_EXT num_free
        # NEW_FUN_EXT: Size and NumFree are both supplied by the wire; each against the other's boundary values
        for size in (c, 0, 0xffffffff):
            for nf in ((c, 0xffffffff) if size == c else (c,)):
                out.append(bytes([131, 112]) + struct.pack(">I", size & 0xffffffff) + b"\x01" + bytes(16) + struct.pack(">I", 7) + struct.pack(">I", nf & 0xffffffff)
                           + b"\x77\x01m" + b"\x61\x01\x61\x02" + pid + b"\x61\x01" * 3)
        if c < 65536:
            c2 = struct.pack(">H", c)
            for tail in (b"", b"ab"):
                out.append(bytes([131, 107]) + c2 + tail)      # STRING_EXT
                out.append(bytes([131, 118]) + c2 + tail)      # ATOM_UTF8_EXT
                out.append(bytes([131, 100]) + c2 + tail)      # ATOM_EXT
                out.append(bytes([131, 90]) + c2 + b"\x77\x01n" + struct.pack(">I", 1) + tail)   # NEWER_REFERENCE_EXT
                out.append(bytes([131, 114]) + c2 + b"\x77\x01n" + b"\x01" + tail)              # NEW_REFERENCE_EXT
        if c < 256:
            out.append(bytes([131, 104, c]))
            out.append(bytes([131, 110, c, 0]))
            out.append(bytes([131, 119, c]))
    # distribution headers: a new atom-cache entry in each of the 8 x 256 slots the flag nibbles can address
    for seg in range(8):
        for idx in range(256):
            out.append(bytes([131, 68, 1, 8 | seg, idx, 1, 97, 82, 0]))
    return out


def nesting_chains(depths):
    out = []
    for d in depths:
        out.append(("tuple", d, bytes([131]) + bytes([104, 1]) * d + bytes([106])))
        out.append(("list", d, bytes([131]) + (bytes([108]) + struct.pack(">I", 1)) * d + bytes([106]) + bytes([106]) * d))
        out.append(("map", d, bytes([131]) + (bytes([116]) + struct.pack(">I", 1) + bytes([97, 1])) * d + bytes([106])))
        out.append(("local", d, bytes([131]) + (bytes([121]) + bytes(8)) * d + bytes([106])))
        out.append(("listtail", d, bytes([131]) + (bytes([108]) + struct.pack(">I", 1) + bytes([97, 1])) * d + bytes([106])))
    return out


def numeric_key_maps():
    """maps (and tuples / lists used as keys) whose keys are numbers in every representation the format has, minimal
    and padded: inserting the second key makes the decoder compare across representations"""
    def small_big(n, total=None, sign=None):
        d = abs(n).to_bytes(max(1, (abs(n).bit_length() + 7) // 8), "little")
        if total is not None and total > len(d):
            d = d + bytes(total - len(d))
        return bytes([110, len(d), (1 if n < 0 else 0) if sign is None else sign]) + d
    def large_big(n, total=None):
        d = abs(n).to_bytes(max(1, (abs(n).bit_length() + 7) // 8), "little")
        if total is not None and total > len(d):
            d = d + bytes(total - len(d))
        return bytes([111]) + struct.pack(">I", len(d)) + bytes([1 if n < 0 else 0]) + d
    fl = lambda x: bytes([70]) + struct.pack(">d", x)  # noqa
    keys = [bytes([97, 0]), bytes([97, 7]), bytes([98]) + struct.pack(">i", -7), bytes([98]) + struct.pack(">i", 2**31 - 1),
            small_big(7), small_big(7, 8), small_big(7, 9), small_big(-7, 12), small_big(2**63), small_big(-2**63), small_big(2**63, 9),
            small_big(2**64 - 1), small_big(2**64 - 1, 10), small_big(2**64), small_big(0), small_big(0, 9), small_big(7, 9, sign=2),
            large_big(7), large_big(7, 9), large_big(-2**63, 16), large_big(2**70),
            fl(7.0), fl(0.0), fl(-0.0), fl(float("inf")), fl(float("nan")), fl(9.2233720368547758e18),
            bytes([99]) + b"7.00000000000000000000e+00".ljust(31, b"\0")]
    out = []
    for a in keys:
        for b in keys:
            out.append(bytes([131, 116, 0, 0, 0, 2]) + a + bytes([97, 1]) + b + bytes([97, 2]))
            out.append(bytes([131, 116, 0, 0, 0, 2, 104, 1]) + a + bytes([97, 1, 104, 1]) + b + bytes([97, 2]))
    for a in keys[:12]:
        for b in keys[4:16]:
            for c in (keys[1], keys[6], keys[21]):
                out.append(bytes([131, 116, 0, 0, 0, 3]) + a + bytes([106]) + b + bytes([106]) + c + bytes([106]))
            out.append(bytes([131, 116, 0, 0, 0, 2, 108, 0, 0, 0, 1]) + a + bytes([106, 97, 1, 108, 0, 0, 0, 1]) + b + bytes([106, 97, 2]))
    return out


def late_bombs():
    """a large honest prefix, then nested headers that each announce ten million elements with almost nothing behind
    them: a reservation capped by the length of the whole frame instead of by what is left shows as a total far out of
    proportion"""
    out = []
    prefix = bytes([131, 104, 2, 109]) + struct.pack(">I", 200000) + bytes(200000)
    c4 = struct.pack(">I", 10000000)
    for hdr in (bytes([105]) + c4, bytes([108]) + c4, bytes([116]) + c4):
        for depth in (48, 96):
            out.append(prefix + hdr * depth)
    return out
