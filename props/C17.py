"""C17 — remote calls on a real Node against a scripted peer: correlation and cleanup. Domain `node`."""
import etf
import nodelib
from nodelib import SEP, hx

ID = "C17"
GEN_FILES = ["PidConsts.v", "ControlTable.v", "Tags.v", "LockScope.v"]
RULE = ("scripts on a connected node: 1..12 remote calls started as concurrent tasks (long timeout, or short timeout that is let expire), the "
        "peer's replies in any order, duplicated, addressed to calls that do not exist, to calls that already returned, and arriving after "
        "the timeout; calls made after the peer closed the stream or sent an over-long length prefix (no connection); observations of every "
        "caller's result and of the number of outstanding calls (accessor under cfg(edp_verif)) at quiescence. distinct = distinct script; "
        "non-trivial = at least two calls")
ASSUMPTIONS = ["a short timeout is 30 ms and is let expire by a 120 ms pause; results and the table size are never observed between starting a "
               "short call and the pause (their order would depend on the clock)",
               "the peer learns a call's reply identifier from the request it received (harness), the model from its own allocator",
               "interleavings of caller tasks with the receiver inside one operation are not enumerated: every operation is run to quiescence"]


def gen_script(rng):
    steps = ["spawn"]
    calls = []          # call no -> dict(short, state: pending/replied/timeout/notconn, sentidx)
    sent = []           # call numbers whose request reached the peer
    connected = True
    wclosed = False     # the application closed the connection object; the peer's socket is still open
    unsafe = False      # a short call is pending and has not expired yet

    def reply(i_sent, body):
        steps.append("reply @%d %s" % (i_sent, etf.show(("t", [("a", b"rex"), body]))))

    for _ in range(rng.choice([4, 8, 14, 24])):
        r = rng.random()
        if r < 0.35:
            short = rng.random() < 0.35
            bad = rng.random() < 0.12      # an argument the format cannot carry: the request cannot be sent
            arg = ("a", b"a" * 70000) if bad else nodelib.gen_body(rng)
            # L / S: rpc_call_raw_with_timeout; X: rpc_call_with_timeout; Y: rpc_call; Z: rpc_call_raw (default timeout: always answered at once)
            variant = "S" if short else rng.choice(["L", "L", "X", "X", "Y", "Z"])
            steps.append("rpc %s %s %s %d %s" % (variant, hx(b"erlang"), hx(rng.choice([b"node", b"self", b"is_alive"])), 1, etf.show(arg)))
            calls.append({"short": short})
            if connected and not bad and not wclosed:
                sent.append(len(calls) - 1)
            if short and connected and not bad and not wclosed:
                steps.append("expire")
            if variant in ("Y", "Z") and connected and not bad and not wclosed:
                if rng.random() < 0.25:
                    steps.append("reply @%d %s" % (len(sent) - 1, etf.show(rng.choice([("a", b"not_rex"), ("t", [("a", b"rex")]), ("t", [("a", b"xer"), ("i", 1)]), ("t", [("a", b"rex"), ("i", 1), ("i", 2)])]))))
                else:
                    reply(len(sent) - 1, nodelib.gen_body(rng))
                steps.append("sync")
        elif r < 0.65 and sent:
            if rng.random() < 0.12:     # an answer that is not a {rex, Result} pair
                steps.append("reply @%d %s" % (rng.randrange(len(sent)), etf.show(rng.choice([("a", b"not_rex"), ("t", [("a", b"xer"), ("i", 1)]), ("l", [("a", b"rex"), ("i", 1)])]))))
            else:
                reply(rng.randrange(len(sent)), nodelib.gen_body(rng))
            steps.append("sync")
        elif r < 0.73 and sent:
            # a reply for the same identifier number of another incarnation of the node, or with another serial: not ours
            steps.append("replystale @%d %s %s" % (rng.randrange(len(sent)), rng.choice(["creation", "serial"]),
                                                   etf.show(("t", [("a", b"rex"), ("a", b"stale")]))))
            steps.append("sync")
        elif r < 0.76:
            steps.append("replyto %s %s" % (etf.show(("p", nodelib.NODE, rng.choice([999, 2**20, 77]), rng.choice([0, 3]), rng.choice([7, 8]), None)),
                                            etf.show(("t", [("a", b"rex"), ("a", b"stray")]))))
            steps.append("sync")
        elif r < 0.78:
            steps.append("results")
        elif r < 0.86:
            steps.append("pending")
        elif r < 0.9:
            steps.append(rng.choice(["tick", "frame 70836400", "frame 8344"]))
            steps.append("sync")
        elif r < 0.94 and connected:
            steps.append(rng.choice(["close", "overlong"]))
            connected = False
        elif r < 0.97 and connected and not wclosed:
            steps.append("lclose")
            wclosed = True
    steps += ["sync", "results", "pending", "expire", "results", "pending", "conns"]
    return SEP.join(["node 1"] + steps)


def oracle(case, impl):
    if impl.startswith(("PANIC", "CRASH", "TIMEOUT", "start-err", "connect-err", "peer-handshake")):
        return ("violation", "the node did not survive the script: " + impl[:60])
    steps = case.split(SEP)[1:]
    outs = impl.split(SEP)
    if len(outs) != len(steps):
        return ("violation", "%d steps, %d results" % (len(steps), len(outs)))
    calls, sent, connected, wclosed = [], [], True, False
    printed = set()
    for k, (s, o) in enumerate(zip(steps, outs)):
        t = etf.Toks(s)
        op = t.next()
        if op == "rpc":
            variant = t.next()
            short = variant == "S"
            bad = ("61" * 70000) in s
            calls.append({"short": short, "unwrap": variant in ("X", "Y"), "state": "notconnected" if not connected else "sendfailed" if (bad or wclosed) else "pending"})
            if connected and not bad and not wclosed:
                sent.append(len(calls) - 1)
            want = "ok" if connected and not bad and not wclosed else "err"
            if o != want:
                return ("violation", "step %d: starting a call %s" % (k, "failed on a live connection" if want == "ok" else "did not fail although its request cannot be sent"))
        elif op == "reply":
            i = int(t.next()[1:])
            body = etf.read_term(t)
            if connected and i < len(sent):
                c = calls[sent[i]]
                if c["state"] == "pending":
                    c["state"] = ("reply", etf.denote(body))
        elif op == "expire":
            for c in calls:
                if c["short"] and c["state"] == "pending":
                    c["state"] = "timeout"
        elif op in ("close", "overlong"):
            connected = False
        elif op == "lclose":
            wclosed = True
        elif op == "results":
            got = [] if o == "-" else o.split(" , ")
            todo = [i for i in range(len(calls)) if i not in printed]
            if len(got) != len(todo):
                return ("violation", "step %d: %d callers to report on, %d results" % (k, len(todo), len(got)))
            for i, g in zip(todo, got):
                st = calls[i]["state"]
                if st == "pending":
                    if g != "pending":
                        return ("violation", "call %d has not been answered and has not timed out, but returned: %s" % (i, g[:60]))
                    continue
                printed.add(i)
                if isinstance(st, tuple):
                    v = st[1]
                    if calls[i]["unwrap"]:
                        # rpc_call / rpc_call_with_timeout hand out Result of {rex, Result}; any other answer is an error
                        if v[0] == "tuple" and len(v[1]) == 2 and v[1][0] == ("atom", b"rex"):
                            v = v[1][1]
                        else:
                            if g != "badreply":
                                return ("violation", "call %d was answered with something that is not {rex, Result} and returned: %s" % (i, g[:60]))
                            continue
                    if not g.startswith("reply ") or etf.denote(etf.parse_term(g[6:])) != v:
                        return ("violation", "call %d did not return the reply addressed to it: %s" % (i, g[:80]))
                elif g != st:
                    return ("violation", "call %d: expected %s, got %s" % (i, st, g[:60]))
        elif op == "pending":
            want = sum(1 for c in calls if c["state"] == "pending")
            if o != str(want):
                return ("violation", "step %d: %s entries in the outstanding-call table, %d calls outstanding" % (k, o, want))
        elif op == "conns":
            if o != ("1" if connected else "0"):
                return ("violation", "step %d: connection table holds %s entries, connection is %s" % (k, o, "up" if connected else "down"))
    return None


def oracle_for(_d):
    return oracle


def run(ctx):
    rng = ctx.rng
    cases = [gen_script(rng) for _ in range(ctx.budget(120, 3000))]
    # a reply that arrives after its call timed out must reach nobody, and nothing may stay behind
    cases.append(SEP.join(["node 1", "spawn", "rpc S 6d 66 0", "expire", "rpc L 6d 66 0", "reply @0 t 2 a 726578 i 1", "sync", "results", "pending",
                           "reply @1 t 2 a 726578 i 2", "reply @1 t 2 a 726578 i 3", "sync", "results", "pending"]))
    cases.append(SEP.join(["node 1", "spawn", "close", "rpc L 6d 66 0", "rpc S 6d 66 0", "results", "pending"]))
    # a reply addressed to another incarnation's identifier must not be taken for the outstanding call's
    cases.append(SEP.join(["node 1", "spawn", "rpc L 6d 66 0", "replystale @0 creation t 2 a 726578 a 7374616c65", "sync", "results", "pending",
                           "replystale @0 serial t 2 a 726578 a 7374616c65", "sync", "results", "reply @0 t 2 a 726578 i 7", "sync", "results", "pending"]))

    def classify(c, impl):
        return ["op:" + s.split()[0] for s in c.split(SEP)[1:]]
    ctx.diff_domain("node", cases, oracle=oracle, nontrivial=lambda c, i: c if c.count("rpc ") >= 2 else None, classify=classify)

    # calls made on a node before and after Node::start (connect and rpc_call do not need a started node): the reply
    # identifiers come from one allocator whose numbering start must not restart — with the port mapper handing out the
    # placeholder creation 1 a restarted numbering files a later call under the identifier of an earlier one, whose late
    # reply it would then take for its own
    mix = ["nodemix 1 a a s a a", "nodemix 1 a s a", "nodemix 7 a a s a", "nodemix 1 s a a", "nodemix 1 a a a s a a"]

    def mix_oracle(case, impl):
        if impl.startswith(("PANIC", "CRASH", "TIMEOUT", "start-err", "connect-err", "peer-handshake-failed")):
            return ("violation", "the node did not get through the script: " + impl[:60])
        ids = impl.split()
        if "none" in ids or len(ids) != case.split().count("a"):
            return ("violation", "a call did not reach the peer: " + impl[:60])
        if len(set(ids)) != len(ids):
            return ("violation", "two calls of one node wait under the same reply identifier (%s): the reply to one is taken for the other's" % impl)
        cr = case.split()[1]
        after = case.split()[2:].index("s")
        for k, i in enumerate(ids):
            if k >= after and i.split(".")[2] != cr:
                return ("violation", "call %d, made after Node::start, waits under creation %s; the node's creation is %s" % (k, i.split(".")[2], cr))
        return None
    ctx.diff_domain("node", mix, oracle=mix_oracle, nontrivial=lambda c, i: c, classify=lambda c, i: ["op:rpc-before-start" if c.split()[2] == "a" else "op:rpc-after-start"])
