(* The gen_server dispatcher answers each call once, to its caller, with the call's reference; casts, infos, exit signals
   and other mailbox traffic are never answered; the callbacks see every message once and in order; everything stops at
   the first failing callback.  For every message sequence, every callback behaviour and every set of live callers. *)
From EDP Require Import Base.Bytes Term.Term Order.Cmp Elixir.Wrap Node.GenServer.
Open Scope N_scope.

Section Facts.
  Variable on_call : term -> pidr -> cres.
  Variable on_cast : term -> bool.
  Variable on_info : term -> bool.
  Variable live : pidr -> bool.
  Notation step := (gstep on_call on_cast on_info live).
  Notation run := (grun on_call on_cast on_info live).

  (* the reply a single mailbox message is owed *)
  Definition answer (m : gin) : list (pidr * term) :=
    match m with
    | GReg body =>
        match classify body with
        | GCall from ref req =>
            match on_call req from with
            | CReply r => if live from then [(from, TTuple [ref; r])] else []
            | _ => []
            end
        | _ => []
        end
    | _ => []
    end.

  (* what the callbacks are shown for it *)
  Definition shown (m : gin) : list gev :=
    match m with
    | GOther => []
    | GExit reason => [EvTerm reason]
    | GReg body =>
        match classify body with
        | GCall from _ req => [EvCall req from]
        | GCast req => [EvCast req]
        | GInfo b => [EvInfo b]
        end
    end.

  (* does a callback fail on it *)
  Definition fatal (m : gin) : bool :=
    match m with
    | GReg body =>
        match classify body with
        | GCall from _ req => match on_call req from with CFail => true | _ => false end
        | GCast req => negb (on_cast req)
        | GInfo b => negb (on_info b)
        end
    | _ => false
    end.

  (* the messages the process handles: all up to and including the first fatal one *)
  Fixpoint handled (ms : list gin) : list gin :=
    match ms with [] => [] | m :: r => if fatal m then [m] else m :: handled r end.
  Definition dies (ms : list gin) : bool := existsb fatal ms.

  Lemma dead_stays s ms : g_alive s = false -> fold_left step ms s = s.
  Proof. intros H. induction ms as [|m ms IH]; [reflexivity|]. cbn [fold_left]. unfold gstep at 2. rewrite H. exact IH. Qed.

  Lemma step_spec s m : g_alive s = true ->
    g_sent (step s m) = g_sent s ++ answer m /\
    g_log (step s m) = g_log s ++ shown m ++ (if fatal m then [EvTerm (TAtom n_normal)] else []) /\
    g_alive (step s m) = negb (fatal m).
  Proof.
    intros H. unfold gstep. rewrite H. cbn [negb]. destruct m as [body|reason|]; cbn [answer shown fatal].
    - destruct (classify body) as [from ref req|req|b].
      + destruct (on_call req from) as [r| |]; cbn [g_sent g_log g_alive die seen negb app].
        * destruct (live from); rewrite ?app_nil_r; repeat split; reflexivity.
        * rewrite !app_nil_r. repeat split; reflexivity.
        * rewrite !app_nil_r. repeat split; reflexivity.
      + destruct (on_cast req); cbn [g_sent g_log g_alive die seen negb app]; rewrite !app_nil_r; repeat split; reflexivity.
      + destruct (on_info b); cbn [g_sent g_log g_alive die seen negb app]; rewrite !app_nil_r; repeat split; reflexivity.
    - cbn [g_sent g_log g_alive seen negb app]. rewrite !app_nil_r. repeat split; reflexivity.
    - rewrite !app_nil_r. repeat split; try reflexivity; exact H.
  Qed.

  Lemma run_from ms : forall s, g_alive s = true ->
    g_sent (fold_left step ms s) = g_sent s ++ flat_map answer (handled ms) /\
    g_log (fold_left step ms s) = g_log s ++ flat_map shown (handled ms) ++ (if dies ms then [EvTerm (TAtom n_normal)] else []) /\
    g_alive (fold_left step ms s) = negb (dies ms).
  Proof.
    induction ms as [|m ms IH]; intros s H.
    - cbn. rewrite !app_nil_r. repeat split; try reflexivity; exact H.
    - cbn [fold_left handled dies existsb]. destruct (step_spec s m H) as (S1 & S2 & S3).
      destruct (fatal m) eqn:F.
      + rewrite dead_stays by (rewrite S3; reflexivity). cbn [flat_map orb]. rewrite !app_nil_r. rewrite S1, S2, S3. repeat split; reflexivity.
      + cbn [negb] in S3. destruct (IH (step s m) S3) as (I1 & I2 & I3). cbn [flat_map orb]. rewrite I1, I2, I3, S1, S2.
        rewrite !app_nil_r, <- !app_assoc. repeat split; reflexivity.
  Qed.

  (* ---- the statements ---- *)
  Theorem replies_exact ms : g_sent (run ms) = flat_map answer (handled ms).
  Proof. unfold grun. destruct (run_from ms g_init eq_refl) as (H & _). exact H. Qed.

  Theorem callbacks_see_each_message_once ms :
    g_log (run ms) = flat_map shown (handled ms) ++ (if dies ms then [EvTerm (TAtom n_normal)] else []).
  Proof. unfold grun. destruct (run_from ms g_init eq_refl) as (_ & H & _). exact H. Qed.

  Theorem alive_iff_no_failure ms : g_alive (run ms) = negb (dies ms).
  Proof. unfold grun. destruct (run_from ms g_init eq_refl) as (_ & _ & H). exact H. Qed.

  Lemma handled_all ms : dies ms = false -> handled ms = ms.
  Proof.
    induction ms as [|m ms IH]; [reflexivity|]. cbn [dies existsb handled]. intros H. apply orb_false_elim in H as [F D].
    rewrite F. now rewrite (IH D).
  Qed.

  (* while no callback fails: one reply per answered call of a live caller, in the order of the calls, nothing else *)
  Corollary replies_when_no_failure ms : dies ms = false -> g_sent (run ms) = flat_map answer ms.
  Proof. intros H. rewrite replies_exact, (handled_all ms H). reflexivity. Qed.

  (* a reply goes to the process named in the call, carries that call's reference and the callback's answer *)
  Theorem replies_only_to_callers ms : Forall (fun pt =>
      exists body ref req r, In (GReg body) ms /\ classify body = GCall (fst pt) ref req /\
                             on_call req (fst pt) = CReply r /\ snd pt = TTuple [ref; r] /\ live (fst pt) = true)
    (g_sent (run ms)).
  Proof.
    rewrite replies_exact. apply Forall_forall. intros [p t] Hin. apply in_flat_map in Hin as (m & Hm & Ha).
    assert (Hin : In m ms).
    { clear Ha. revert Hm. induction ms as [|x xs IH]; [intros []|]. cbn [handled]. destruct (fatal x).
      - intros [<-|[]]. left; reflexivity.
      - intros [<-|H]; [left; reflexivity|right; exact (IH H)]. }
    destruct m as [body| |]; cbn [answer] in Ha; try contradiction.
    destruct (classify body) as [from ref req| |] eqn:C; try contradiction.
    destruct (on_call req from) as [r| |] eqn:O; try contradiction.
    destruct (live from) eqn:L; [|contradiction]. destruct Ha as [E|[]]. injection E as <- <-.
    exists body, ref, req, r. cbn [fst snd]. auto.
  Qed.

  (* the answer owed to one message is at most one reply *)
  Lemma answer_at_most_one m : (length (answer m) <= 1)%nat.
  Proof.
    destruct m as [body| |]; cbn [answer]; try (cbn; lia). destruct (classify body); try (cbn; lia).
    destruct (on_call req from); try (cbn; lia). destruct (live from); cbn; lia.
  Qed.
End Facts.
