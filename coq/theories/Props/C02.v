(* C02 — placeholder: theorems are added as the proofs land. *)
From EDP Require Import Base.Bytes Term.Term Codec.Decode.
