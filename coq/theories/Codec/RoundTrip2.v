(* Companions of the round-trip theorem: re-encoding the decoded term gives the same bytes, and the decoded
   term denotes the same Erlang value. *)
From EDP Require Import Base.Bytes Term.Term Term.Value Gen.Tags Codec.Encode Codec.Norm.
From Coq Require Import ZifyBool ZifyN.

Lemma len_map {A B} (f : A -> B) l : len (map f l) = len l.
Proof. unfold len. now rewrite map_length. Qed.

(* ---------- enc (norm t) = enc t ---------- *)
Lemma enc_norm_int z : enc (norm_int z) = EOk (enc_int z).
Proof.
  unfold norm_int, enc_int, in_i32.
  destruct ((0 <=? z) && (z <=? 255))%Z eqn:E1.
  - apply andb_prop in E1 as [Ea Eb]. apply Z.leb_le in Ea, Eb.
    replace ((-2147483648 <=? z) && (z <=? 2147483647))%Z with true by (symmetry; apply andb_true_intro; split; apply Z.leb_le; lia).
    cbn [enc]. unfold enc_int. replace ((0 <=? z) && (z <=? 255))%Z with true by (symmetry; apply andb_true_intro; split; apply Z.leb_le; lia).
    reflexivity.
  - destruct ((-2147483648 <=? z) && (z <=? 2147483647))%Z eqn:E2.
    + cbn [enc]. unfold enc_int. now rewrite E1, E2.
    + cbn [enc]. unfold enc_big.
      set (digits := significant (le 8 (Z.to_N (Z.abs z)))).
      assert (Hl : len digits <=? 255 = true).
      { apply N.leb_le. unfold digits, significant.
        destruct (rev (strip_hi (rev (le 8 (Z.to_N (Z.abs z)))))) as [|y r] eqn:E.
        - unfold len. rewrite firstn_length. lia.
        - rewrite <- E. unfold len. rewrite rev_length.
          assert (H : forall l, (length (strip_hi l) <= length l)%nat).
          { induction l as [|x l IH]; cbn [strip_hi length]; [lia|]. destruct (x =? 0); cbn [length]; lia. }
          specialize (H (rev (le 8 (Z.to_N (Z.abs z))))). rewrite rev_length, le_length in H. lia. }
      rewrite Hl. cbn [app]. f_equal. f_equal. f_equal. f_equal.
      destruct (0 <=? z)%Z eqn:E3; destruct (z <? 0)%Z eqn:E4; try reflexivity; lia.
Qed.

Section EncNorm.
  Let Q (t : term) : Prop := enc (norm t) = enc t.

  Fixpoint enc_list (l : list term) : eres :=
    match l with
    | [] => EOk []
    | x :: r => ebind (enc x) (fun bx => ebind (enc_list r) (fun br => EOk (bx ++ br)))
    end.
  Fixpoint enc_pairs (m : list (term * term)) : eres :=
    match m with
    | [] => EOk []
    | kv :: r => ebind (enc (fst kv)) (fun bk => ebind (enc (snd kv)) (fun bv => ebind (enc_pairs r) (fun br => EOk (bk ++ bv ++ br))))
    end.

  Lemma enc_list_norm l : Forall Q l -> enc_list (map norm l) = enc_list l.
  Proof. induction 1 as [|x l Hx _ IH]; [reflexivity|]. cbn [map enc_list]. unfold Q in Hx. now rewrite Hx, IH. Qed.

  Lemma enc_pairs_norm kvs : Forall (fun kv => Q (fst kv) /\ Q (snd kv)) kvs ->
    enc_pairs (map (fun kv => (norm (fst kv), norm (snd kv))) kvs) = enc_pairs kvs.
  Proof. induction 1 as [|kv l [Hk Hv] _ IH]; [reflexivity|]. cbn [map enc_pairs fst snd]. unfold Q in *. now rewrite Hk, Hv, IH. Qed.

  Lemma enc_tuple_eq l : enc (TTuple l) =
    if len l <=? 255 then ebind (enc_list l) (fun bl => EOk (tag_small_tuple_ext :: len l :: bl))
    else if 4294967296 <=? len l then EErr ETupleTooLarge
    else ebind (enc_list l) (fun bl => EOk (tag_large_tuple_ext :: be 4 (len l) ++ bl)).
  Proof. reflexivity. Qed.
  Lemma enc_list_eq l : enc (TList l) =
    match l with
    | [] => EOk [tag_nil_ext]
    | _ => if 4294967296 <=? len l then EErr EListTooLarge
           else ebind (enc_list l) (fun bl => EOk (tag_list_ext :: be 4 (len l) ++ bl ++ [tag_nil_ext]))
    end.
  Proof. destruct l; reflexivity. Qed.
  Lemma enc_improper_eq l tl : enc (TImproper l tl) =
    match l with
    | [] => enc tl
    | _ => if 4294967296 <=? len l then EErr EListTooLarge
           else ebind (enc_list l) (fun bl => ebind (enc tl) (fun bt => EOk (tag_list_ext :: be 4 (len l) ++ bl ++ bt)))
    end.
  Proof. destruct l; reflexivity. Qed.
  Lemma enc_map_eq kvs : enc (TMap kvs) =
    if 4294967296 <=? len kvs then EErr EMapTooLarge
    else ebind (enc_pairs kvs) (fun bm => EOk (tag_map_ext :: be 4 (len kvs) ++ bm)).
  Proof. reflexivity. Qed.
  Lemma enc_fun_eq a u i nf m oi ou p fr : enc (TIntFun a u i nf m oi ou p fr) =
    ebind (enc_atom m) (fun bm => ebind (enc_pid p) (fun bp => ebind (enc_list fr) (fun bfr =>
      let temp := a :: u ++ be 4 i ++ be 4 nf ++ bm ++ enc_int (Z.of_N oi) ++ enc_int (Z.of_N ou) ++ bp ++ bfr in
      EOk (tag_new_fun_ext :: be 4 (len temp + 4) ++ temp)))).
  Proof. reflexivity. Qed.

  Theorem enc_norm : forall t, enc (norm t) = enc t.
  Proof.
    induction t using term_ind'; try reflexivity.
    - (* int *) cbn [norm]. rewrite enc_norm_int. reflexivity.
    - (* list *) cbn [norm]. destruct l as [|x l']; [reflexivity|].
      assert (Hl : enc_list (norm x :: map norm l') = enc_list (x :: l')) by (apply (enc_list_norm (x :: l')); exact H).
      assert (Hlen : len (norm x :: map norm l') = len (x :: l')) by (apply (len_map norm (x :: l'))).
      cbn [map]. rewrite !enc_list_eq. cbv iota. now rewrite Hlen, Hl.
    - (* improper *) cbn [norm]. destruct l as [|x l']; [exact IHt|].
      assert (Hl : enc_list (norm x :: map norm l') = enc_list (x :: l')) by (apply (enc_list_norm (x :: l')); exact H).
      assert (Hlen : len (norm x :: map norm l') = len (x :: l')) by (apply (len_map norm (x :: l'))).
      cbn [map]. rewrite (enc_improper_eq (x :: l') t). cbv iota. rewrite <- IHt.
      destruct (norm t) eqn:En;
        try (rewrite enc_improper_eq; cbv iota; rewrite Hlen, Hl; reflexivity).
      (* the tail normalises to nil: the decoder hands back a proper list *)
      rewrite enc_list_eq. cbv iota. rewrite Hlen, Hl. cbn [enc].
      destruct (4294967296 <=? len (x :: l')); [reflexivity|]. destruct (enc_list (x :: l')); reflexivity.
    - (* map *) cbn [norm]. rewrite !enc_map_eq, len_map. now rewrite (enc_pairs_norm kvs H).
    - (* tuple *) cbn [norm]. rewrite !enc_tuple_eq, len_map. now rewrite (enc_list_norm l H).
    - (* internal fun *) cbn [norm]. rewrite !enc_fun_eq. now rewrite (enc_list_norm fr H).
  Qed.
End EncNorm.

(* ---------- denote (norm t) = denote t ---------- *)
Lemma unle_app a b : unle (a ++ b) = unle a + 256 ^ len a * unle b.
Proof.
  induction a as [|x a IH]; [unfold len; cbn [app length unle]; rewrite N.pow_0_r; lia|].
  cbn [app unle]. rewrite IH. unfold len. cbn [length].
  replace (N.of_nat (S (length a))) with (N.succ (N.of_nat (length a))) by lia. rewrite N.pow_succ_r'. lia.
Qed.

Lemma unle_rev_strip l : unle (rev (strip_hi l)) = unle (rev l).
Proof.
  induction l as [|x l IH]; [reflexivity|]. cbn [strip_hi]. destruct (x =? 0) eqn:E; [|reflexivity].
  apply N.eqb_eq in E. subst. cbn [rev]. rewrite unle_app. cbn [unle]. rewrite IH. lia.
Qed.

Lemma unle_significant l : unle (significant l) = unle l.
Proof.
  unfold significant. destruct (rev (strip_hi (rev l))) as [|y r] eqn:E.
  - assert (H : unle (rev (strip_hi (rev l))) = 0) by now rewrite E.
    rewrite unle_rev_strip, rev_involutive in H. destruct l as [|x l]; [reflexivity|].
    cbn [firstn unle] in *. lia.
  - rewrite <- E, unle_rev_strip, rev_involutive. reflexivity.
Qed.

Lemma denote_norm_int z : (- 18446744073709551616 < z < 18446744073709551616)%Z -> denote (norm_int z) = VInt z.
Proof.
  intros Hz. unfold norm_int. destruct (in_i32 z); [reflexivity|]. cbn [denote]. f_equal. unfold big_value.
  rewrite unle_significant, unle_le. change (256 ^ N.of_nat 8) with 18446744073709551616.
  rewrite N.mod_small by lia. destruct (z <? 0)%Z eqn:E; lia.
Qed.

Theorem denote_norm : forall t, wf t = true -> denote (norm t) = denote t.
Proof.
  induction t using term_ind'; intros Hwf; try reflexivity.
  - cbn [norm denote]. cbn [wf] in Hwf. apply denote_norm_int. unfold two63 in *. lia.
  - (* list *) cbn [wf] in Hwf. cbn [norm]. destruct l as [|x l']; [reflexivity|]. cbn [denote]. f_equal.
    rewrite map_map. apply map_ext_in. intros y Hy. rewrite Forall_forall in H. apply H; [exact Hy|].
    rewrite forallb_forall in Hwf. now apply Hwf.
  - (* improper *) cbn [wf] in Hwf. apply andb_prop in Hwf as [Hwl Hwt]. cbn [norm].
    assert (Hmap : map denote (map norm l) = map denote l).
    { rewrite map_map. apply map_ext_in. intros y Hy. rewrite Forall_forall in H. apply H; [exact Hy|].
      rewrite forallb_forall in Hwl. now apply Hwl. }
    destruct l as [|x l']; [cbn [denote map fold_right]; now apply IHt|].
    specialize (IHt Hwt). cbn [denote]. rewrite <- IHt.
    destruct (norm t); cbn [denote]; rewrite Hmap; reflexivity.
  - (* map *) cbn [wf] in Hwf. cbn [norm denote]. f_equal. rewrite map_map. apply map_ext_in. intros kv Hkv. cbn [fst snd].
    rewrite Forall_forall in H. destruct (H kv Hkv) as [Hk Hv]. rewrite forallb_forall in Hwf.
    specialize (Hwf kv Hkv). apply andb_prop in Hwf as [H1 H2]. now rewrite Hk, Hv.
  - (* tuple *) cbn [wf] in Hwf. cbn [norm denote]. f_equal. rewrite map_map. apply map_ext_in. intros y Hy.
    rewrite Forall_forall in H. apply H; [exact Hy|]. rewrite forallb_forall in Hwf. now apply Hwf.
  - (* fun *) cbn [wf] in Hwf. apply andb_prop in Hwf as [_ Hfr]. cbn [norm denote]. f_equal. rewrite map_map. apply map_ext_in.
    intros y Hy. rewrite Forall_forall in H. apply H; [exact Hy|]. rewrite forallb_forall in Hfr. now apply Hfr.
Qed.
