"""C04 — handshake: connected only after cookie proof; flags are the intersection; message layouts. Domain `handshake`."""
import hashlib, struct

ID = "C04"
GEN_FILES = []
RULE = ("sequences of handshake-API calls (begin_connect, prepare_send_name, handle_status, prepare_complement, handle_challenge, "
        "prepare_challenge_reply, handle_challenge_ack, disconnect) of length <= 14 in protocol order and in arbitrary order, with valid and "
        "invalid arguments (refusal statuses, truncated / mistagged / oversized messages, acks for the current, a stale, a wrong-cookie or a "
        "random challenge, challenge 0 and 2^32-1), reuse after disconnect; cookies empty/long/non-ASCII, names 1..255 bytes and 256, 64-bit flag "
        "sets; challenges are scripted through the edp_verif hook; oracle: a spec automaton (issued challenge / proven) and byte layouts from "
        "the protocol document; plus Connection::connect over a loopback socket against a scripted peer that conforms or deviates at each of its "
        "three messages (refusal statuses, malformed / mistagged / truncated messages, wrong, stale or wrong-cookie digest, wrong order, messages "
        "split across writes with pauses, a length prefix and part of a message followed by silence or by a close, silence, close, extra bytes), "
        "then a send on the connection; distinct = distinct case; non-trivial = >= 3 calls")
ASSUMPTIONS = ["over the socket (domain hsk) the client's timeout is 400 ms; silence is a peer that keeps the socket open and sends nothing more; a pause of the peer is 60 ms; a connect that has not returned after 2.5 s counts as not ending within the configured timeout",
               "md5 enters the Coq theorems as an arbitrary function; the executable MD5 of the model is validated against the md-5 crate on every digest"]


def md5(b):
    return hashlib.md5(b).digest()


def digest(ch, cookie):
    return md5(cookie + str(ch).encode())


def challenge_msg(flags, ch, creation, name):
    return b"N" + struct.pack(">QIIH", flags, ch, creation, len(name)) + name


def oracle(case, impl):
    if impl.startswith(("PANIC", "CRASH", "TIMEOUT")):
        return ("violation", "handshake API panicked: " + impl[:60])
    parts = case.split(";")
    nm, ck, fl, cr = parts[0].split()
    name, cookie, flags, creation = bytes.fromhex(nm.replace(".", "")), bytes.fromhex(ck.replace(".", "")), int(fl), int(cr)
    outs = impl.split()
    issued, proven, nego = None, False, None
    ops = [p.split() for p in parts[1:] if p.split()]
    if len(outs) != len(ops) + 1:
        return ("violation", "output count mismatch")
    for i, (op, o) in enumerate(zip(ops, outs)):
        res, state = o.rsplit("/", 1)
        if op[0] == "DC":
            issued, proven, nego = None, False, None
        elif op[0] == "HC":
            d = bytes.fromhex(op[1].replace(".", ""))
            ok = False
            if len(d) >= 19 and d[0] == 78:
                f, ch, _c, nl = struct.unpack(">QIIH", d[1:19])
                nmb = d[19:19 + nl]
                if len(nmb) == nl:
                    try:
                        nmb.decode("utf-8"); ok = True
                    except UnicodeDecodeError:
                        pass
            if ok:
                if res != "ok":
                    return ("violation", "call %d: a well-formed challenge is rejected (%s)" % (i, res))
                issued, proven, nego, their = int(op[2]), False, f & flags, ch
            elif res == "ok":
                return ("violation", "call %d: a malformed challenge is accepted" % i)
        elif op[0] == "HCA":
            d = bytes.fromhex(op[1].replace(".", ""))
            good = len(d) >= 17 and d[0] == 97 and issued is not None and d[1:17] == digest(issued, cookie)
            if good:
                proven = True
                if res != "ok":
                    return ("violation", "call %d: the correct digest of the issued challenge is rejected (%s)" % (i, res))
            elif res == "ok":
                return ("violation", "call %d: handle_challenge_ack succeeded without the digest of the challenge issued in this handshake" % i)
        elif op[0] == "PSN":
            if len(name) <= 255:
                exp = struct.pack(">H", 7 + len(name)) + b"n" + struct.pack(">HI", 5, flags & 0xffffffff) + name
                if res != "b:" + exp.hex():
                    return ("violation", "call %d: send_name bytes differ from the protocol layout" % i)
            elif not res.startswith("e:"):
                return ("violation", "call %d: a 256-byte node name is not refused" % i)
        elif op[0] == "PC":
            exp = struct.pack(">H", 9) + b"c" + struct.pack(">II", flags >> 32, creation)
            if res != "b:" + exp.hex():
                return ("violation", "call %d: complement bytes differ from the protocol layout" % i)
        elif op[0] == "PCR":
            if issued is not None:
                exp = struct.pack(">H", 21) + b"r" + struct.pack(">I", issued) + digest(their, cookie)
                if res != "b:" + exp.hex():
                    return ("violation", "call %d: challenge reply differs from 'r' ++ our challenge ++ MD5(cookie ++ their challenge)" % i)
            elif not res.startswith("e:"):
                return ("violation", "call %d: a challenge reply was produced without a challenge" % i)
        elif op[0] == "HS":
            d = bytes.fromhex(op[1].replace(".", ""))
            okst = d in (b"sok", b"sok_simultaneous")
            if okst != (res == "ok"):
                return ("violation", "call %d: status %r handled as %s" % (i, d[:20], res))
        if state == "connected" and not proven:
            return ("violation", "call %d: state is connected although no valid proof for the issued challenge was presented" % i)
    want = "nego=none" if nego is None else "nego=%d" % nego
    if outs[-1] != want:
        return ("violation", "negotiated flags %s, expected %s (intersection of both flag sets)" % (outs[-1], want))
    return None


def oracle_for(_d):
    return oracle


def gen_case(rng):
    name = rng.choice([b"a@b", b"node@host.example.com", "nöde@hößt".encode(), b"x" * 255, b"y" * 256, b"n@" + b"h" * 100])
    cookie = rng.choice([b"", b"secret", "gehéim".encode(), b"c" * 300, b"0", b"12"])
    flags = rng.choice([0, 2**64 - 1, 0x0000000d07df7fbd, rng.randrange(2**64), 0xffffffff00000000, 0x1])
    creation = rng.choice([0, 1, 2**32 - 1, rng.randrange(2**32)])
    ops = []
    hist = []       # challenges issued so far (for stale acks)

    def hc():
        gen = rng.choice([0, 1, 2**32 - 1, 10, rng.randrange(2**32)] + hist[-1:])
        pf = rng.choice([0, 2**64 - 1, rng.randrange(2**64), flags])
        their = rng.choice([0, 1, 2**32 - 1, rng.randrange(2**32)])
        msg = challenge_msg(pf, their, rng.randrange(2**32), rng.choice([b"peer@host", b"", "pé@h".encode()]))
        r = rng.random()
        if r < 0.12:
            msg = msg[:rng.randrange(0, len(msg))]
        elif r < 0.18:
            msg = b"n" + msg[1:]
        elif r < 0.22:
            msg = msg[:-1] + b"\xff" if len(msg) > 19 else msg
        hist.append(gen)
        return "HC %s %d" % (msg.hex() if msg else ".", gen)

    def hca():
        r = rng.random()
        if hist and r < 0.45:
            d = b"a" + digest(hist[-1], cookie)
        elif hist and r < 0.6:
            d = b"a" + digest(rng.choice(hist), cookie)
        elif hist and r < 0.7:
            d = b"a" + digest(hist[-1], cookie + b"x")
        elif r < 0.8:
            d = b"a" + bytes(rng.randrange(256) for _ in range(16))
        elif r < 0.88 and hist:
            d = (b"a" + digest(hist[-1], cookie))[:rng.randrange(0, 17)]
        elif r < 0.94 and hist:
            d = b"a" + digest(hist[-1], cookie) + b"trailing"
        else:
            d = b"r" + bytes(16)
        return "HCA %s" % (d.hex() if d else ".")

    def hs():
        return "HS " + rng.choice([b"sok", b"sok_simultaneous", b"snok", b"snot_allowed", b"salive", b"sbogus", b"", b"ok", b"s", b"s\xff"]).hex().replace("", "") or "HS ."
    if rng.random() < 0.5:
        seq = ["BC", "PSN", hs(), "PC", hc(), "PCR", hca()]
        if rng.random() < 0.5:
            seq += ["DC"] + rng.choice([[hca()], ["BC", "PSN", hs(), "PC", hc(), "PCR", hca()], [hca(), "PCR"], ["PCR", hca()]])
        if rng.random() < 0.3:
            seq.insert(rng.randrange(len(seq)), rng.choice(["DC", "PCR", "BC", hca()]))
        ops = seq
    else:
        for _ in range(rng.randrange(1, 14)):
            k = rng.choice(["BC", "PSN", "HS", "PC", "HC", "HC", "PCR", "HCA", "HCA", "DC"])
            ops.append({"HS": hs, "HC": hc, "HCA": hca}.get(k, lambda: k)())
    ops = [o if o != "HS " else "HS ." for o in ops]
    return "%s %s %d %d ; %s" % (name.hex(), cookie.hex() if cookie else ".", flags, creation, " ; ".join(ops))


def hsf(b):
    return struct.pack(">H", len(b)) + b


def gen_socket_case(rng):
    """Connection::connect against a scripted peer: (case text, expectation)"""
    name = rng.choice([b"a@b", b"client@127.0.0.1", "nöde@hößt".encode(), b"x" * 253 + b"@h"])
    cookie = rng.choice([b"", b"secret", "gehéim".encode(), b"c" * 300])
    flags = rng.choice([0x0000000d07df7fbd, 2**64 - 1, rng.randrange(2**64), 0])
    creation = rng.choice([0, 1, 2**32 - 1, rng.randrange(2**32)])
    gen = rng.choice([0, 1, 2**32 - 1, rng.randrange(2**32)])
    pf = rng.choice([2**64 - 1, 0x0000000d07df7fbd, rng.randrange(2**64)])
    their = rng.choice([0, 1, 2**32 - 1, rng.randrange(2**32)])
    status = b"s" + rng.choice([b"ok", b"ok", b"ok", b"ok_simultaneous"])
    chal = challenge_msg(pf, their, rng.randrange(2**32), rng.choice([b"peer@host", "pé@h".encode()]))
    ack = b"a" + digest(gen, cookie)
    msgs = [status, chal, ack]
    conforming = True
    why = "conforming"
    r = rng.random()
    k = rng.randrange(3)
    tail = []          # actions after the three messages
    if r < 0.35:
        pass
    elif r < 0.45:
        msgs[0] = b"s" + rng.choice([b"nok", b"not_allowed", b"alive", b"bogus", b"", b"\xff"]); conforming, why = False, "status"
    elif r < 0.55:
        msgs[2] = b"a" + rng.choice([digest(gen, cookie + b"x"), digest((gen + 1) % 2**32, cookie), digest(their, cookie), bytes(16), digest(gen, cookie)[:15]])
        if msgs[2] != ack:      # (the peer's own challenge may happen to equal ours: then that digest is the right one)
            conforming, why = False, "digest"
    elif r < 0.63:
        msgs[k] = rng.choice([b"", b"x" + msgs[k][1:], msgs[k][:1], msgs[k][:len(msgs[k]) // 2]]) if k != 0 else rng.choice([b"", b"x" + msgs[k][1:], b"ok"])
        conforming, why = False, "malformed"
    elif r < 0.68:
        i, j = rng.sample(range(3), 2)
        msgs[i], msgs[j] = msgs[j], msgs[i]
        conforming, why = False, "order"
    elif r < 0.78:
        # an extra frame where a message is due: empty (what a tick looks like after the handshake), a repeated status, junk
        msgs.insert(k, rng.choice([b"", b"", b"sok", b"x", bytes(rng.randrange(256) for _ in range(5))]))
        conforming, why = False, "extra"
    actions = []
    stop = None
    if r >= 0.78:
        # the stream stops inside or before message k
        full = hsf(msgs[k])
        cut = rng.choice([0, 1, 2, 3, max(0, len(full) - 1)])
        stop = (k, full[:min(cut, len(full) - 1)])
        conforming, why = False, rng.choice(["silence", "close"])
    for i, m in enumerate(msgs):
        if stop and i == stop[0]:
            if stop[1]:
                actions.append("W" + stop[1].hex())
            if why == "close":
                actions.append("X")
            break
        b = hsf(m)
        if rng.random() < 0.3 and len(b) > 2:
            c = rng.randrange(1, len(b))
            actions += ["W" + b[:c].hex(), "Z60", "W" + b[c:].hex()]
        else:
            actions.append("W" + b.hex())
        if rng.random() < 0.2:
            actions.append("Z60")
    case = "hsk %s %s %d %d %d" % (name.hex(), cookie.hex() if cookie else ".", flags, creation, gen)
    case = " ;; ".join([case] + actions)
    exp = {"name": name, "cookie": cookie, "flags": flags, "creation": creation, "gen": gen, "pf": pf, "their": their,
           "conforming": conforming, "why": why, "msgs": msgs, "stop": stop}
    return case, exp


SOCK = {}


def socket_oracle(case, impl):
    if impl.startswith(("PANIC", "CRASH", "TIMEOUT")) or "res=HUNG" in impl:
        return ("violation", "connect did not return: " + impl[:60])
    e = SOCK[case]
    f = dict(x.split("=", 1) for x in impl.replace("send=err ", "send=err:").split())
    wrote = bytes.fromhex(f["wrote"].replace(".", ""))
    if f["slow"] != "0":
        return ("violation", "connect returned long after the configured timeout")
    name_msg = struct.pack(">H", 7 + len(e["name"])) + b"n" + struct.pack(">HI", 5, e["flags"] & 0xffffffff) + e["name"]
    compl = struct.pack(">H", 9) + b"c" + struct.pack(">II", e["flags"] >> 32, e["creation"])
    reply = struct.pack(">H", 21) + b"r" + struct.pack(">I", e["gen"]) + digest(e["their"], e["cookie"])
    if e["conforming"]:
        if f["res"] != "ok" or f["connected"] != "1" or f["state"] != "connected":
            return ("violation", "a conforming peer (accepting status, well-formed challenge, digest of the issued challenge) is not connected: " + impl[:70])
        if wrote != name_msg + compl + reply:
            return ("violation", "the three handshake messages on the wire differ from the protocol layout / digest")
        if f["send"] != "ok" or f["after"] != "some":
            return ("violation", "a send on the freshly connected connection failed or wrote nothing")
        return None
    if f["res"] == "ok" or f["connected"] != "0" or f["state"] == "connected":
        return ("violation", "the peer deviated (%s) and the connection counts as connected: %s" % (e["why"], impl[:80]))
    if f["send"] == "ok" or f["after"] != "0":
        return ("violation", "after a failed handshake (%s) a send succeeded or wrote bytes to the peer" % e["why"])
    full = name_msg + compl + reply
    if not full.startswith(wrote) or len(wrote) < len(name_msg):
        return ("violation", "bytes written during the failed handshake are not a prefix of the protocol's client messages")
    return None


def run(ctx):
    rng = ctx.rng
    cases = []
    # corpus: replay of a recorded ack after disconnect; challenge 0; ack before any challenge
    base = "6140 62 736563726574 13 1 ;".replace("6140 62", "614062")
    g0 = ("HC %s 0" % challenge_msg(5, 0, 1, b"p@h").hex())
    cases += [
        "614062 736563726574 13 1 ; BC ; PSN ; HS 736f6b ; PC ; %s ; PCR ; HCA %s" % (g0, (b"a" + digest(0, b"secret")).hex()),
        "614062 736563726574 13 1 ; BC ; PSN ; HS 736f6b ; PC ; %s ; PCR ; HCA %s ; DC ; HCA %s" % (g0, (b"a" + digest(0, b"secret")).hex(), (b"a" + digest(0, b"secret")).hex()),
        "614062 736563726574 13 1 ; %s ; HCA %s ; DC ; BC ; HCA %s ; PCR" % (g0.replace(" 0", " 77"), (b"a" + digest(77, b"secret")).hex(), (b"a" + digest(77, b"secret")).hex()),
        "614062 736563726574 13 1 ; HCA %s" % (b"a" + md5(b"secret")).hex(),
        "614062 736563726574 13 1 ; %s ; HCA %s" % (g0, (b"a" + md5(b"secret")).hex()),
        "614062 . 18446744073709551615 4294967295 ; %s ; PCR ; HCA %s" % (g0.replace(" 0", " 4294967295"), (b"a" + digest(4294967295, b"")).hex()),
    ]
    for _ in range(ctx.budget(4000, 100000)):
        cases.append(gen_case(rng))

    def nontrivial(c, impl):
        return c if c.count(";") >= 3 else None

    def classify(c, impl):
        ks = ["calls:%d" % min(14, c.count(";"))]
        if "/connected" in impl:
            ks.append("reached:connected")
        for k in ("e:auth", "e:invalid", "e:refused", "e:nochallenge", "e:trans", "e:namelen"):
            if k in impl:
                ks.append(k)
        return ks
    ctx.diff_domain("handshake", cases, oracle=oracle, nontrivial=nontrivial, classify=classify)
    # the same over a socket: Connection::connect against a scripted peer
    scases = []
    for _ in range(ctx.budget(120, 2500)):
        c, e = gen_socket_case(rng)
        SOCK[c] = e
        scases.append(c)
    ctx.diff_domain("hsk", scases, oracle=socket_oracle, nontrivial=lambda c, i: c,
                    classify=lambda c, i: ["peer:" + SOCK[c]["why"], "connect:" + i.split()[0]])
