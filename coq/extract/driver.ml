(* Correspondence runner for the extracted model: reads one case per line, prints one result line. *)
open Model

(* ---- conversions between OCaml ints/strings and the extracted binary numbers ---- *)
let rec pos_of_int (i : int) : positive =
  if i = 1 then XH else if i land 1 = 0 then XO (pos_of_int (i lsr 1)) else XI (pos_of_int (i lsr 1))
let n_of_int (i : int) : n = if i = 0 then N0 else Npos (pos_of_int i)
let rec int_of_pos = function XH -> 1 | XO p -> 2 * int_of_pos p | XI p -> 2 * int_of_pos p + 1
let int_of_n = function N0 -> 0 | Npos p -> int_of_pos p

(* arbitrary-size naturals from/to hex strings *)
let hexval c = match c with
  | '0'..'9' -> Char.code c - 48 | 'a'..'f' -> Char.code c - 87 | 'A'..'F' -> Char.code c - 55
  | _ -> failwith "hex"
let n_of_hex (s : string) : n =
  (* build the positive from the least significant bit upwards *)
  let bits = Buffer.create (4 * String.length s) in
  String.iter (fun c -> let v = hexval c in
    for k = 3 downto 0 do Buffer.add_char bits (if (v lsr k) land 1 = 1 then '1' else '0') done) s;
  let b = Buffer.contents bits in
  (* strip leading zeros *)
  let len = String.length b in
  let i = ref 0 in
  while !i < len && b.[!i] = '0' do incr i done;
  if !i = len then N0 else begin
    let p = ref XH in
    for j = !i + 1 to len - 1 do
      p := if b.[j] = '1' then XI !p else XO !p
    done;
    Npos !p end
let hex_of_n (x : n) : string =
  match x with N0 -> "0" | Npos p ->
    let rec bits p acc = match p with XH -> 1 :: acc | XO q -> bits q (0 :: acc) | XI q -> bits q (1 :: acc) in
    let bl = bits p [] in   (* most significant first *)
    let l = List.length bl in
    let pad = (4 - l mod 4) mod 4 in
    let bl = List.init pad (fun _ -> 0) @ bl in
    let buf = Buffer.create 16 in
    let rec go = function
      | a :: b :: c :: d :: r -> Buffer.add_char buf "0123456789abcdef".[a*8+b*4+c*2+d]; go r
      | [] -> () | _ -> failwith "bits" in
    go bl; Buffer.contents buf
let n_of_dec (s : string) : n =
  (* decimal strings of at most 19 digits fit in OCaml's 63-bit int; larger go through hex by caller *)
  if String.length s <= 18 then n_of_int (int_of_string s)
  else begin
    let ten = n_of_int 10 in
    let acc = ref N0 in
    String.iter (fun c -> acc := N.add (N.mul !acc ten) (n_of_int (Char.code c - 48))) s; !acc end
let rec dec_of_n (x : n) : string =
  match x with N0 -> "0" | _ ->
    (* via hex -> only used for small numbers *)
    let h = hex_of_n x in
    if String.length h <= 15 then string_of_int (int_of_string ("0x" ^ h)) else "0x" ^ h

let bytes_of_hex (s : string) : n list =
  if s = "." || s = "-" then [] else
  List.init (String.length s / 2) (fun i -> n_of_int (hexval s.[2*i] * 16 + hexval s.[2*i+1]))
let hex_of_bytes (l : n list) : string =
  if l = [] then "." else begin
    let buf = Buffer.create 64 in
    List.iter (fun b -> Buffer.add_string buf (Printf.sprintf "%02x" (int_of_n b))) l;
    Buffer.contents buf end

let words s = List.filter (fun w -> w <> "") (String.split_on_char ' ' s)

(* ---- domain frag ---- *)
let frag_case (line : string) : string =
  let mode, rest = match String.index_opt line ' ' with
    | Some i -> String.sub line 0 i, String.sub line (i+1) (String.length line - i - 1)
    | None -> line, "" in
  let timeout = match mode with "zero" | "xzero" -> N0 | "big" | "xbig" -> n_of_dec "1000000000" | _ -> n_of_int 30000 in
  let evs = List.filter (fun e -> words e <> []) (String.split_on_char ';' rest) in
  let conv e = match words e with
    | ["S"; seq; fid; c; d] ->
        [EStart (n_of_dec seq, n_of_dec fid, (if c = "-" then None else Some (bytes_of_hex c)), bytes_of_hex d)]
    | ["A"; seq; fid; d] -> [EAdd (n_of_dec seq, n_of_dec fid, bytes_of_hex d)]
    | ["C"] -> [ETick (n_of_int 2); ECleanup timeout]
    | _ -> failwith "bad event" in
  let mevs = List.concat_map conv evs in
  let outs = run ([], N0) mevs in
  (* pair outputs with events; skip ticks; cleanup prints removed = prev - cur *)
  let buf = Buffer.create 64 in
  let prev = ref 0 in
  List.iter2 (fun ev (o, pc) ->
    let pc = int_of_n pc in
    (match ev, o with
     | ETick _, _ -> ()
     | ECleanup _, _ -> Buffer.add_string buf (Printf.sprintf "c%d/%d " (!prev - pc) pc)
     | _, Some None -> Buffer.add_string buf (Printf.sprintf "n/%d " pc)
     | _, Some (Some b) -> Buffer.add_string buf (Printf.sprintf "s%s/%d " (hex_of_bytes b) pc)
     | _, None -> ());
    prev := pc) mevs outs;
  String.trim (Buffer.contents buf)

(* ---- domain pid ---- *)
let pmod = (1 lsl 61) - 1
let summarize (pids : (int * int * int) list) (detail : bool) : string =
  let n = List.length pids in
  if detail && n <= 40 then String.concat " " (List.map (fun (i, s, c) -> Printf.sprintf "%d.%d.%d" i s c) pids)
  else begin
    let sum = List.fold_left (fun acc (i, s, c) -> (acc + i * 1000003 + s * 7 + c) mod pmod) 0 pids in
    let tbl = Hashtbl.create (2 * n + 1) in
    List.iter (fun p -> Hashtbl.replace tbl p ()) pids;
    let dups = n - Hashtbl.length tbl in
    if detail then begin
      let (a, b, c) = List.hd pids and (d, e, f) = List.nth pids (n - 1) in
      Printf.sprintf "n=%d dups=%d sum=%d first=(%d, %d, %d) last=(%d, %d, %d)" n dups sum a b c d e f end
    else Printf.sprintf "n=%d dups=%d sum=%d" n dups sum end
let rec nat_of_int (i : int) : nat = if i = 0 then O else S (nat_of_int (i - 1))
let pid_allocs (id : string) (ser : string) (cr : string) (k : int) : (int * int * int) list =
  (* iterate allocate k times without building a unary k *)
  let st = ref { next_id = n_of_dec id; next_serial = n_of_dec ser; creation = n_of_dec cr } in
  let out = ref [] in
  for _ = 1 to k do
    let (p, st') = allocate !st in
    st := st';
    out := (int_of_n p.p_id, int_of_n p.p_serial, int_of_n p.p_creation) :: !out
  done;
  List.rev !out
let pid_case (line : string) : string =
  match words line with
  | ["seq"; id; ser; cr; k] -> summarize (pid_allocs id ser cr (int_of_string k)) true
  | "mix" :: id :: ser :: cr :: ops ->
      (* set_creation stores the creation and nothing else *)
      let st = ref { next_id = n_of_dec id; next_serial = n_of_dec ser; creation = n_of_dec cr } in
      let out = ref [] in
      List.iter (fun op ->
        if String.length op > 0 && op.[0] = 'c' then st := { !st with creation = n_of_dec (String.sub op 1 (String.length op - 1)) }
        else (let (p, st') = allocate !st in st := st';
              out := Printf.sprintf "%d.%d.%d" (int_of_n p.p_id) (int_of_n p.p_serial) (int_of_n p.p_creation) :: !out)) ops;
      String.concat " " (List.rev !out)
  | ["par"; th; per; id; ser; cr] -> summarize (pid_allocs id ser cr (int_of_string th * int_of_string per)) false
  | ["ref"; k] ->
      let c = ref N0 in
      let out = ref [] in
      for _ = 1 to int_of_string k do
        let (r, c') = make_ref !c in c := c';
        out := Printf.sprintf "[%s]/1" (String.concat "," (List.map (fun w -> string_of_int (int_of_n w)) r)) :: !out
      done;
      String.concat " " (List.rev !out)
  | ["refpar"; th; per] ->
      let k = int_of_string th * int_of_string per in
      let c = ref N0 in
      let sum = ref 0 in
      for _ = 1 to k do
        let (r, c') = make_ref !c in c := c';
        List.iter (fun w -> sum := !sum + int_of_n w) r
      done;
      Printf.sprintf "n=%d dups=0 worddups=0 wordsum=%d" k !sum
  | _ -> failwith "bad pid case"

(* ---- terms: text format shared with the Rust harness ---- *)
let int64_of_n (x : n) : int64 =
  match x with N0 -> 0L | Npos p ->
    let rec go p = match p with XH -> 1L | XO q -> Int64.shift_left (go q) 1 | XI q -> Int64.logor (Int64.shift_left (go q) 1) 1L in go p
let udec_of_n (x : n) : string = Printf.sprintf "%Lu" (int64_of_n x)
let z_of_dec (s : string) : z =
  if String.length s > 0 && s.[0] = '-' then
    (match n_of_dec (String.sub s 1 (String.length s - 1)) with N0 -> Z0 | Npos p -> Zneg p)
  else (match n_of_dec s with N0 -> Z0 | Npos p -> Zpos p)
let dec_of_z (x : z) : string =
  match x with Z0 -> "0" | Zpos p -> udec_of_n (Npos p) | Zneg p -> "-" ^ udec_of_n (Npos p)

type toks = { mutable l : string list }
let next t = match t.l with x :: r -> t.l <- r; x | [] -> failwith "token"
let rd_loc t = let s = next t in if s = "-" then None else Some (bytes_of_hex s)
let rd_pid t =
  let node = bytes_of_hex (next t) in
  let id = n_of_dec (next t) in let ser = n_of_dec (next t) in let cr = n_of_dec (next t) in
  let loc = rd_loc t in
  { pnode = node; pnum = id; pserial = ser; pcreation = cr; ploc = loc }
let rec rd_term (kc : term -> term -> comparison) (t : toks) : term =
  let rec many n = if n = 0 then [] else let x = rd_term kc t in x :: many (n - 1) in
  match next t with
  | "a" -> TAtom (bytes_of_hex (next t))
  | "i" -> TInt (z_of_dec (next t))
  | "f" -> TFloat (n_of_hex (next t))
  | "p" -> TPid (rd_pid t)
  | "o" -> let node = bytes_of_hex (next t) in let id = n_of_dec (next t) in let cr = n_of_dec (next t) in
           let loc = rd_loc t in TPort (node, id, cr, loc)
  | "r" -> let node = bytes_of_hex (next t) in let cr = n_of_dec (next t) in let n = int_of_string (next t) in
           let ids = List.init n (fun _ -> n_of_dec (next t)) in let loc = rd_loc t in TRef (node, cr, ids, loc)
  | "b" -> TBin (bytes_of_hex (next t))
  | "B" -> let b = bytes_of_hex (next t) in let k = n_of_dec (next t) in TBitBin (b, k)
  | "s" -> TStr (bytes_of_hex (next t))
  | "l" -> let n = int_of_string (next t) in TList (many n)
  | "L" -> let n = int_of_string (next t) in let l = many n in let tl = rd_term kc t in TImproper (l, tl)
  | "m" -> let n = int_of_string (next t) in
           let rec kvs n = if n = 0 then [] else let k = rd_term kc t in let v = rd_term kc t in (k, v) :: kvs (n - 1) in
           TMap (map_of_list kc (kvs n))
  | "t" -> let n = int_of_string (next t) in TTuple (many n)
  | "g" -> let neg = next t = "1" in TBig (neg, bytes_of_hex (next t))
  | "e" -> let m = bytes_of_hex (next t) in let f = bytes_of_hex (next t) in TExtFun (m, f, n_of_dec (next t))
  | "u" -> let ar = n_of_dec (next t) in let uniq = bytes_of_hex (next t) in let idx = n_of_dec (next t) in
           let nf = n_of_dec (next t) in let m = bytes_of_hex (next t) in let oi = n_of_dec (next t) in
           let ou = n_of_dec (next t) in let p = rd_pid t in let n = int_of_string (next t) in
           TIntFun (ar, uniq, idx, nf, m, oi, ou, p, many n)
  | "n" -> TNil
  | x -> failwith ("bad term token " ^ x)
let show_loc = function None -> "-" | Some b -> hex_of_bytes b
let show_pid p = Printf.sprintf "%s %s %s %s %s" (hex_of_bytes p.pnode) (udec_of_n p.pnum) (udec_of_n p.pserial) (udec_of_n p.pcreation) (show_loc p.ploc)
let rec show_term (b : Buffer.t) (t : term) : unit =
  let add = Buffer.add_string b in
  let many l = List.iter (fun x -> add " "; show_term b x) l in
  match t with
  | TAtom a -> add ("a " ^ hex_of_bytes a)
  | TInt z -> add ("i " ^ dec_of_z z)
  | TFloat x -> add (Printf.sprintf "f %016Lx" (int64_of_n x))
  | TPid p -> add ("p " ^ show_pid p)
  | TPort (n, i, c, l) -> add (Printf.sprintf "o %s %s %s %s" (hex_of_bytes n) (udec_of_n i) (udec_of_n c) (show_loc l))
  | TRef (n, c, ids, l) -> add (Printf.sprintf "r %s %s %d" (hex_of_bytes n) (udec_of_n c) (List.length ids));
      List.iter (fun i -> add (" " ^ udec_of_n i)) ids; add (" " ^ show_loc l)
  | TBin x -> add ("b " ^ hex_of_bytes x)
  | TBitBin (x, k) -> add (Printf.sprintf "B %s %s" (hex_of_bytes x) (udec_of_n k))
  | TStr x -> add ("s " ^ hex_of_bytes x)
  | TList l -> add (Printf.sprintf "l %d" (List.length l)); many l
  | TImproper (l, tl) -> add (Printf.sprintf "L %d" (List.length l)); many l; add " "; show_term b tl
  | TMap kvs -> add (Printf.sprintf "m %d" (List.length kvs)); List.iter (fun (k, v) -> add " "; show_term b k; add " "; show_term b v) kvs
  | TTuple l -> add (Printf.sprintf "t %d" (List.length l)); many l
  | TBig (neg, d) -> add (Printf.sprintf "g %d %s" (if neg then 1 else 0) (hex_of_bytes d))
  | TExtFun (m, f, a) -> add (Printf.sprintf "e %s %s %s" (hex_of_bytes m) (hex_of_bytes f) (udec_of_n a))
  | TIntFun (ar, uniq, idx, nf, m, oi, ou, p, fr) ->
      add (Printf.sprintf "u %s %s %s %s %s %s %s %s %d" (udec_of_n ar) (hex_of_bytes uniq) (udec_of_n idx) (udec_of_n nf)
             (hex_of_bytes m) (udec_of_n oi) (udec_of_n ou) (show_pid p) (List.length fr)); many fr
  | TNil -> add "n"
let term_str t = let b = Buffer.create 256 in show_term b t; Buffer.contents b
let term_of_string kc (s : string) : term = rd_term kc { l = words s }

(* ---- oracles handed to the decoder model ---- *)
let rust_float_text (txt : n list) : n option =
  let s = String.init (List.length txt) (fun i -> Char.chr (int_of_n (List.nth txt i))) in
  let lower = String.lowercase_ascii s in
  let body = if String.length lower > 0 && (lower.[0] = '+' || lower.[0] = '-') then String.sub lower 1 (String.length lower - 1) else lower in
  let is_digit c = c >= '0' && c <= '9' in
  let ok =
    if body = "inf" || body = "infinity" || body = "nan" then true
    else begin
      (* digits [. digits] [e [+-] digits], at least one digit in the mantissa *)
      let n = String.length body in
      let i = ref 0 in
      let d1 = ref 0 in
      while !i < n && is_digit body.[!i] do incr i; incr d1 done;
      let d2 = ref 0 in
      if !i < n && body.[!i] = '.' then begin incr i; while !i < n && is_digit body.[!i] do incr i; incr d2 done end;
      let mant_ok = !d1 + !d2 > 0 in
      let exp_ok =
        if !i < n && body.[!i] = 'e' then begin
          incr i;
          if !i < n && (body.[!i] = '+' || body.[!i] = '-') then incr i;
          let d3 = ref 0 in
          while !i < n && is_digit body.[!i] do incr i; incr d3 done;
          !d3 > 0 end
        else true in
      mant_ok && exp_ok && !i = n end in
  if not ok then None
  else (try Some (n_of_hex (Printf.sprintf "%016Lx" (Int64.bits_of_float (float_of_string s)))) with _ -> None)

let rec is_prefix (p : n list) (l : n list) : bool =
  match p, l with [], _ -> true | x :: r, y :: s -> x = y && is_prefix r s | _ :: _, [] -> false

let mk_cfg arms (ztab : (n list * n list * n) list) cache : dcfg =
  { d_arms = arms; d_cache = cache; d_refs = [];
    d_inflate = (fun rest -> match List.find_opt (fun (c, _, _) -> is_prefix c rest) ztab with
                           | Some (_, plain, consumed) -> Some (plain, consumed) | None -> None);
    d_float_text = rust_float_text; d_kcmp = cmp_owned; d_kinsert = map_insert;
    d_extra_fuel = nat_of_int (List.fold_left (fun acc (_, p, _) -> acc + List.length p + 2) 0 ztab) }

let rec parse_ztab (ws : string list) = match ws with
  | "Z" :: c :: p :: k :: r -> (bytes_of_hex c, bytes_of_hex p, n_of_dec k) :: parse_ztab r
  | _ -> []

let dkind_str = function KEof -> "eof" | KTag -> "tag" | KVerify -> "verify" | KTooLarge -> "toolarge"
  | KChar -> "char" | KFloat -> "float" | KFail -> "fail" | KFuel -> "FUEL"
let dres_str = function
  | DOk t -> "ok " ^ term_str t | DErr k -> "err " ^ dkind_str k
  | DTrailing n -> "err trailing:" ^ udec_of_n n | DVersion -> "err tag"
let eerr_str = function EAtomTooLarge -> "AtomTooLarge" | EBinaryTooLarge -> "BinaryTooLarge" | EListTooLarge -> "ListTooLarge"
  | EMapTooLarge -> "MapTooLarge" | ETupleTooLarge -> "TupleTooLarge" | EReferenceTooLarge -> "ReferenceTooLarge"

(* the atom order a distribution header carries (all entries new, as the library's writer emits them) *)
let order_of_header (data : n list) : n list list =
  match data with
  | _ :: tag :: n :: r when int_of_n tag = 68 && int_of_n n > 0 ->
      let nn = int_of_n n in
      let flags_len = nn / 2 + 1 in
      let rec drop k l = if k = 0 then l else drop (k - 1) (List.tl l) in
      let flags = List.filteri (fun i _ -> i < flags_len) r in
      let long = (int_of_n (List.nth flags (flags_len - 1))) land (if nn mod 2 = 0 then 1 else 16) <> 0 in
      let rec entries k l acc = if k = 0 then List.rev acc else
        (match l with
         | _idx :: r1 ->
             let (alen, r2) = if long then (match r1 with a :: b :: r2 -> (int_of_n a * 256 + int_of_n b, r2) | _ -> failwith "hdr")
                              else (match r1 with a :: r2 -> (int_of_n a, r2) | _ -> failwith "hdr") in
             let txt = List.filteri (fun i _ -> i < alen) r2 in
             entries (k - 1) (drop alen r2) (txt :: acc)
         | [] -> failwith "hdr") in
      entries nn (drop flags_len r) []
  | _ -> []

let codec_case (line : string) : string =
  let op, rest = match String.index_opt line ' ' with
    | Some i -> String.sub line 0 i, String.sub line (i+1) (String.length line - i - 1) | None -> line, "" in
  match op with
  | "enc" -> (match encode (term_of_string cmp_owned rest) with
              | EOk b -> "ok " ^ hex_of_bytes b ^ " w=same" | EErr e -> "err " ^ eerr_str e)
  | "encw" ->
      String.concat " | " (List.map (fun item ->
        match String.index_opt item ' ' with
        | Some i ->
            let limit = int_of_string (String.sub item 1 (i - 1)) in
            (match encode (term_of_string cmp_owned (String.sub item (i+1) (String.length item - i - 1))) with
             | EErr e -> "err " ^ eerr_str e
             | EOk b -> if limit >= 0 && List.length b > limit then "werr" else "ok same")
        | None -> failwith "encw") (Str.split (Str.regexp_string " | ") rest))
  | "rt" ->
      let tin = term_of_string cmp_owned rest in
      "in=" ^ term_str tin ^ " ; " ^
      (match encode tin with
       | EErr e -> "enc=err:" ^ eerr_str e
       | EOk b ->
         let cfg = mk_cfg owned_arms [] [] in
         (match decode cfg b with
          | DOk d ->
              let re = (match encode d with EOk b2 -> if b2 = b then "same" else hex_of_bytes b2 | EErr e -> "err:" ^ eerr_str e) in
              Printf.sprintf "enc=%s ; dec=%s ; re=%s" (hex_of_bytes b) (term_str d) re
          | DErr k -> Printf.sprintf "enc=%s ; dec=err:%s" (hex_of_bytes b) (dkind_str k)
          | DTrailing n -> Printf.sprintf "enc=%s ; dec=err:trailing:%s" (hex_of_bytes b) (udec_of_n n)
          | DVersion -> Printf.sprintf "enc=%s ; dec=err:tag" (hex_of_bytes b)))
  | "dec" -> (match words rest with
              | h :: tl -> dres_str (decode (mk_cfg owned_arms (parse_ztab tl) []) (bytes_of_hex h))
              | [] -> dres_str (decode (mk_cfg owned_arms [] []) []))
  | "dech" -> (match words rest with
               | h :: tl ->
                   let cfg = mk_cfg owned_arms (parse_ztab tl) [] in
                   String.concat " ;; " (List.map (fun x ->
                     if String.length x > 0 && x.[0] = 'B' then
                       dres_str (decode (mk_cfg borrowed_arms (parse_ztab tl) []) (bytes_of_hex (String.sub x 1 (String.length x - 1))))
                     else if String.length x > 0 && x.[0] = 'T' then
                       (match bytes_of_hex (String.sub x 1 (String.length x - 1)) with
                        | [] -> "err eof"
                        | v :: r -> if int_of_n v <> 131 then "err tag" else
                            (match parse cfg (nat_of_int (List.length r + 2 + List.fold_left (fun acc (_, p, _) -> acc + List.length p + 2) 0 (parse_ztab tl))) r with
                             | POk (t, rest) -> Printf.sprintf "ok %s rest=%s" (term_str t) (hex_of_bytes rest)
                             | PErr k -> "err " ^ dkind_str k))
                     else dres_str (decode cfg (bytes_of_hex x))) (String.split_on_char ',' h))
               | [] -> failwith "dech")
  | "decb" -> (match words rest with
               | h :: tl ->
                   let data = bytes_of_hex h in
                   let b = (match decode (mk_cfg borrowed_arms [] []) data with
                            | DOk t -> "ok " ^ term_str t | DErr k -> "err " ^ dkind_str k ^ "@in"
                            | DTrailing n -> "err trailing:" ^ udec_of_n n ^ "@in" | DVersion -> "err tag@in") in
                   let o = dres_str (decode (mk_cfg owned_arms (parse_ztab tl) []) data) in
                   Printf.sprintf "b=%s ; o=%s" b o
               | [] -> failwith "decb")
  | "dec2" | "decb2" | "dect2" | "deca2" | "decf2" | "decr2" | "decc2" | "decg2" | "inflate" | "convh" | "hdr" | "hdrh" -> "-"
  | "hdrdec" ->
      let cache = ref [] in
      let outs = List.map (fun h ->
        let cfg = { (mk_cfg owned_arms [] !cache) with d_cache = !cache } in
        let (o, cache') = decode_with_atom_cache cfg long_of_coded (bytes_of_hex (String.trim h)) in
        cache := cache';
        match o with
        | HDOk (c, p) -> Printf.sprintf "ok %s | %s" (term_str c) (match p with Some x -> term_str x | None -> "-")
        | HDErr k -> "err " ^ dkind_str k
        | HDTrailing n -> "err trailing:" ^ udec_of_n n) (String.split_on_char ',' rest) in
      String.concat " ;; " outs
  | "hdrchk" ->
      (* model-only: `hdrchk <term> | <term> || <hex>` — do the bytes equal encode_multi for the atom order they carry? *)
      (match Str.split (Str.regexp_string " || ") rest with
       | [ts; h] ->
           let terms = List.map (term_of_string cmp_owned) (Str.split (Str.regexp_string " | ") ts) in
           let data = bytes_of_hex h in
           let order = order_of_header data in
           (match encode_multi order terms with
            | HOk b -> if b = data then "match" else "MISMATCH model=" ^ hex_of_bytes b
            | HErr e -> "model-err " ^ eerr_str e
            | HTooManyAtoms n -> "model-toomany " ^ udec_of_n n)
       | _ -> failwith "hdrchk")
  | "sndchk" ->
      (* model-only: a history of headers of the spec sender, `<long> <entry>.. || <header hex> || <atom hex>,..` per message
         joined by " ;; ": does the sender model emit these header bytes and mean these atoms? entry = N:seg:idx:hex | O:seg:idx *)
      let msgs = Str.split (Str.regexp_string " ;; ") rest in
      let bytes_of_hex h = if h = "_" then [] else bytes_of_hex h in
      let parse_entry tok = match String.split_on_char ':' tok with
        | ["N"; s; i; h] -> ENew (n_of_int (int_of_string s), n_of_int (int_of_string i), bytes_of_hex h)
        | ["O"; s; i] -> EOld (n_of_int (int_of_string s), n_of_int (int_of_string i))
        | _ -> failwith "sndchk entry" in
      let rec go k sc = function
        | [] -> "match"
        | m :: r ->
            (match Str.split_delim (Str.regexp_string " || ") m with
             | [hd; hx; at] ->
                 let toks = words hd in
                 let long = (List.hd toks = "1") in
                 let es = List.map parse_entry (List.tl toks) in
                 let want_atoms = if at = "-" then [] else List.map bytes_of_hex (String.split_on_char ',' at) in
                 if sender_header es long <> bytes_of_hex hx then Printf.sprintf "MISMATCH header of message %d model=%s" k (hex_of_bytes (sender_header es long))
                 else (match meant sc es with
                       | Some l when l = want_atoms -> go (k + 1) (List.fold_left push sc es) r
                       | Some _ -> Printf.sprintf "MISMATCH atoms meant by message %d" k
                       | None -> Printf.sprintf "MISMATCH message %d refers to an empty slot" k)
             | _ -> failwith "sndchk") in
      go 0 [] msgs
  | "dect" -> (match words rest with
               | h :: tl ->
                   (match bytes_of_hex h with
                    | [] -> "err eof"
                    | v :: r -> if int_of_n v <> 131 then "err tag" else
                        (let cfg = mk_cfg owned_arms (parse_ztab tl) [] in match parse cfg (nat_of_int (List.length r + 2 + List.fold_left (fun acc (_, p, _) -> acc + List.length p + 2) 0 (parse_ztab tl))) r with
                         | POk (t, rest) -> Printf.sprintf "ok %s rest=%s" (term_str t) (hex_of_bytes rest)
                         | PErr k -> "err " ^ dkind_str k))
               | [] -> "err eof")
  | "conv" -> (match words rest with
               | [_ops; h] ->
                   (match decode (mk_cfg owned_arms [] []) (bytes_of_hex h) with
                    | DOk t -> (match encode t with EOk b -> "ok " ^ hex_of_bytes b | EErr e -> "ok err:" ^ eerr_str e)
                    | r -> dres_str r)
               | _ -> failwith "conv")
  | _ -> failwith "bad codec op"

(* ---- domain handshake ---- *)
let hstate_str = function Disconnected -> "disconnected" | Connecting -> "connecting" | SendingName -> "sending_name"
  | AwaitingStatus -> "awaiting_status" | AwaitingChallenge -> "awaiting_challenge" | SendingChallengeReply -> "sending_challenge_reply"
  | AwaitingChallengeAck -> "awaiting_challenge_ack" | Connected -> "connected" | Failed -> "failed"
let herr_str = function EStateTransition -> "trans" | ENameTooLong -> "namelen" | EInvalidMessage -> "invalid" | ERefused -> "refused"
  | ENoChallenge -> "nochallenge" | EAuthFailed -> "auth"
let handshake_case (line : string) : string =
  match String.split_on_char ';' line with
  | [] -> failwith "empty"
  | cfgs :: ops ->
      let c = (match words cfgs with
        | [nm; ck; fl; cr] -> { h_name = bytes_of_hex nm; h_cookie = bytes_of_hex ck; h_flags = n_of_dec fl; h_creation = n_of_dec cr }
        | _ -> failwith "cfg") in
      let st = ref hs_init in
      let out = ref [] in
      List.iter (fun op -> match words op with
        | [] -> ()
        | w ->
          let o = (match w with
            | ["BC"] -> BeginConnect | ["PSN"] -> PrepareSendName | ["HS"; d] -> HandleStatus (bytes_of_hex d) | ["PC"] -> PrepareComplement
            | ["HC"; d; g] -> HandleChallenge (bytes_of_hex d, n_of_dec g) | ["PCR"] -> PrepareChallengeReply
            | ["HCA"; d] -> HandleChallengeAck (bytes_of_hex d) | ["DC"] -> Disconnect | _ -> failwith "bad op") in
          let (s1, r) = hstep md5 c !st o in
          st := s1;
          let rs = (match r with OUnit -> "ok" | OBytes b -> "b:" ^ hex_of_bytes b | OErr e -> "e:" ^ herr_str e) in
          out := (rs ^ "/" ^ hstate_str s1.st) :: !out) ops;
      let nego = (match !st.nego with Some f -> "nego=" ^ udec_of_n f | None -> "nego=none") in
      String.concat " " (List.rev (nego :: !out))

(* ---- domain control ---- *)
let id_of_term (t : term) : string = match t with
  | TInt z -> dec_of_z z
  | TBig (_, d) -> udec_of_n (List.fold_right (fun b acc -> N.add b (N.mul (n_of_int 256) acc)) d N0)
  | _ -> "?"
let show_cmsg (m : cmsg) : string =
  let tos = term_str (to_term control_table m) and intos = term_str (into_term control_table m) in
  match m with
  | CMsg (v, fs) ->
      let fl = List.map (fun (r, t) -> if int_of_n r = 20 then "20=U" ^ id_of_term t else Printf.sprintf "%d=%s" (int_of_n r) (term_str t)) fs in
      Printf.sprintf "ok %d | %s || to=%s || into=%s" (int_of_n v) (String.concat " | " fl) tos intos
  | CGeneric (ty, fs) ->
      Printf.sprintf "ok G%d | %s || to=%s || into=%s" (int_of_n ty) (String.concat " | " (List.map term_str fs)) tos intos
let control_case (line : string) : string =
  let op, rest = match String.index_opt line ' ' with
    | Some i -> String.sub line 0 i, String.sub line (i+1) (String.length line - i - 1) | None -> line, "" in
  let t = term_of_string cmp_owned rest in
  match op with
  | "ctl" -> (match from_term control_table t with COk m -> show_cmsg m | CErr _ -> "err")
  | "ctlw" -> (match from_term control_table t with
      | CErr _ -> "err"
      | COk m ->
          (match encode (to_term control_table m) with
           | EErr _ -> "err encode"
           | EOk b -> (match decode (mk_cfg owned_arms [] []) b with
               | DOk t2 -> (match from_term control_table t2 with COk m2 -> show_cmsg m2 | CErr _ -> "err reparse")
               | _ -> "err decode")))
  | _ -> failwith "bad control op"

(* ---- domain ord ---- *)
let cmp_str = function Lt -> "lt" | Eq -> "eq" | Gt -> "gt"
let split_bar (s : string) : string * string =
  let n = String.length s in
  let rec find i = if i + 2 >= n then failwith "no bar" else if s.[i] = ' ' && s.[i+1] = '|' && s.[i+2] = ' ' then i else find (i + 1) in
  let i = find 0 in (String.sub s 0 i, String.sub s (i + 3) (n - i - 3))
let ord_case (line : string) : string =
  let op, rest = match String.index_opt line ' ' with
    | Some i -> String.sub line 0 i, String.sub line (i+1) (String.length line - i - 1) | None -> line, "" in
  match op with
  | "cmp" ->
      let (a, b) = split_bar rest in
      let ta = term_of_string cmp_owned a and tb = term_of_string cmp_owned b in
      let e = teqb ta tb in
      Printf.sprintf "o=%s b=%s eq=%s heq=%s" (cmp_str (cmp_owned ta tb)) (cmp_str (cmp_borrowed ta tb))
        (if e then "t" else "f") (if hash_eqb ta tb then "t" else "f")
  | _ -> failwith "bad ord op"

(* ---- domain framing ---- *)
let show_bytes (l : n list) : string =
  let n = List.length l in
  if n <= 48 then hex_of_bytes l
  else begin
    let h = ref 0xcbf29ce484222325L in
    List.iter (fun b -> h := Int64.mul (Int64.logxor !h (Int64.of_int (int_of_n b))) 0x100000001b3L) l;
    Printf.sprintf "L%d:%016Lx" n (Int64.logand !h 0x0fffffffffffffffL) end
let parse_data (s : string) : n list =
  if String.length s > 0 && s.[0] = 'Z' then List.init (int_of_string (String.sub s 1 (String.length s - 1))) (fun _ -> N0)
  else bytes_of_hex s
let fmode_of s = if s = "h" then Handshake else Distribution
let framing_case (line : string) : string =
  match words line with
  | "rd" :: m :: rest ->
      let chunks = match rest with
        | [] -> []
        | c :: _ -> List.filter_map (fun x -> if x = "" then None else if x = "P" then Some Pending else Some (Data (parse_data x)))
                      (String.split_on_char ',' c) in
      let (rs, a) = read_all (nat_of_int 100001) (fmode_of m) chunks in
      let out = List.map (fun r -> match r with
        | ROk b -> "ok:" ^ show_bytes b
        | RErr Eof -> "err:eof"
        | RErr TooLarge -> "err:toolarge") rs in
      String.concat " " (out @ [if int_of_n a >= 1 lsl 20 then "alloc:big" else "alloc:small"])
  | ["wr"; m; _budgets; d] ->
      let data = parse_data d in
      let stream = List.concat (write_framed (fmode_of m) data) in
      Printf.sprintf "stream:%s oneshot:%s" (show_bytes stream) (show_bytes (frame (fmode_of m) data))
  | _ -> failwith "bad framing case"

(* ---- domain elixir (C20) ---- *)
let estr_in (s : string) : estr = StrOk (bytes_of_hex s)
let estr_opt_in (s : string) : estr option = if s = "-" then None else Some (estr_in s)
let estr_out = function StrOk b -> hex_of_bytes b | StrLossy -> "LOSSY"
let estr_opt_out = function None -> "-" | Some s -> estr_out s
let zt t = z_of_dec (next t)
let rd_w (t : toks) : wval =
  match next t with
  | "range" -> let f = zt t in let l = zt t in let s = zt t in WRange { rfirst = f; rlast = l; rstep = s }
  | "date" -> let y = zt t in let m = zt t in let d = zt t in WDate (y, m, d)
  | "time" -> let h = zt t in let mi = zt t in let s = zt t in let us = zt t in let p = zt t in WTime (h, mi, s, us, p)
  | "naive" -> let y = zt t in let m = zt t in let d = zt t in
               let h = zt t in let mi = zt t in let s = zt t in let us = zt t in let p = zt t in WNaive (y, m, d, h, mi, s, us, p)
  | "datetime" -> let y = zt t in let m = zt t in let d = zt t in
               let h = zt t in let mi = zt t in let s = zt t in let us = zt t in let p = zt t in
               let tz = estr_in (next t) in let ab = estr_in (next t) in let utc = zt t in let std = zt t in
               WDateTime (y, m, d, h, mi, s, us, p, tz, ab, utc, std)
  | "mapset" -> let n = int_of_string (next t) in
               let rec many n = if n = 0 then [] else let x = rd_term cmp_owned t in x :: many (n - 1) in
               WMapSet (set_of_list (many n))
  | "msgerr" -> let k = n_of_dec (next t) in WMsgErr (k, estr_in (next t))
  | "keyerr" -> let key = rd_term cmp_owned t in let tm = rd_term cmp_owned t in WKeyErr (key, tm, estr_opt_in (next t))
  | "termerr" -> let k = n_of_dec (next t) in WTermErr (k, rd_term cmp_owned t)
  | "undef" -> let m = estr_in (next t) in let f = estr_in (next t) in let a = zt t in WUndef (m, f, a, estr_opt_in (next t))
  | "fclause" -> let m = estr_opt_in (next t) in let f = estr_opt_in (next t) in
               let a = (let s = next t in if s = "-" then None else Some (z_of_dec s)) in
               let args = (if next t = "-" then None else Some (rd_term cmp_owned t)) in WFClause (m, f, a, args)
  | "cond" -> WCond
  | x -> failwith ("bad wrapper " ^ x)
let kind_of_string (s : string) : wkind =
  match String.split_on_char ':' s with
  | ["range"] -> KRange | ["date"] -> KDate | ["time"] -> KTime | ["naive"] -> KNaive | ["datetime"] -> KDateTime
  | ["mapset"] -> KMapSet | ["msgerr"; k] -> KMsgErr (n_of_dec k) | ["keyerr"] -> KKeyErr | ["termerr"; k] -> KTermErr (n_of_dec k)
  | ["undef"] -> KUndef | ["fclause"] -> KFClause | ["cond"] -> KCond
  | _ -> failwith ("bad kind " ^ s)
let show_w (w : wval) : string =
  let z = dec_of_z in
  match w with
  | WRange r -> Printf.sprintf "range %s %s %s" (z r.rfirst) (z r.rlast) (z r.rstep)
  | WDate (y, m, d) -> Printf.sprintf "date %s %s %s" (z y) (z m) (z d)
  | WTime (h, mi, s, us, p) -> Printf.sprintf "time %s %s %s %s %s" (z h) (z mi) (z s) (z us) (z p)
  | WNaive (y, m, d, h, mi, s, us, p) ->
      Printf.sprintf "naive %s %s %s %s %s %s %s %s" (z y) (z m) (z d) (z h) (z mi) (z s) (z us) (z p)
  | WDateTime (y, m, d, h, mi, s, us, p, tz, ab, utc, std) ->
      Printf.sprintf "datetime %s %s %s %s %s %s %s %s %s %s %s %s" (z y) (z m) (z d) (z h) (z mi) (z s) (z us) (z p)
        (estr_out tz) (estr_out ab) (z utc) (z std)
  | WMapSet els -> String.concat " " (("mapset " ^ string_of_int (List.length els)) :: List.map term_str els)
  | WMsgErr (k, m) -> Printf.sprintf "msgerr %d %s" (min (int_of_n k) 2) (estr_out m)
  | WKeyErr (k, tm, m) -> Printf.sprintf "keyerr %s %s %s" (term_str k) (term_str tm) (estr_opt_out m)
  | WTermErr (k, tm) -> Printf.sprintf "termerr %d %s" (min (int_of_n k) 4) (term_str tm)
  | WUndef (m, f, a, r) -> Printf.sprintf "undef %s %s %s %s" (estr_out m) (estr_out f) (z a) (estr_opt_out r)
  | WFClause (m, f, a, args) ->
      Printf.sprintf "fclause %s %s %s %s" (estr_opt_out m) (estr_opt_out f) (match a with None -> "-" | Some a -> z a)
        (match args with None -> "-" | Some t -> "T " ^ term_str t)
  | WCond -> "cond"
let show_wopt = function None -> "None" | Some w -> show_w w
let rec term_depth (t : term) : int =
  let mx l = List.fold_left (fun a x -> max a (term_depth x)) 0 l in
  match t with
  | TList l | TTuple l -> 1 + mx l
  | TImproper (l, tl) -> 1 + max (mx l) (term_depth tl)
  | TMap kvs -> 1 + List.fold_left (fun a (k, v) -> max a (max (term_depth k) (term_depth v))) 0 kvs
  | TIntFun (_, _, _, _, _, _, _, _, fr) -> 1 + mx fr
  | _ -> 1
let opt_term = function Some t -> term_str t | None -> "ERR"
let rd_entries (t : toks) : (n list * term) list =
  let n = int_of_string (next t) in
  let rec many n = if n = 0 then [] else let k = bytes_of_hex (next t) in let v = rd_term cmp_owned t in (k, v) :: many (n - 1) in
  many n
let elixir_case (line : string) : string =
  let t = { l = words line } in
  match next t with
  | "range" ->
      let f = zt t in let l = zt t in let s = zt t in
      let r = { rfirst = f; rlast = l; rstep = s } in
      let k = int_of_string (next t) in
      let probes = List.map z_of_dec t.l in
      let cs = List.map (r_contains r) probes in
      let its = it_take r (nat_of_int k) (it_init r) in
      (match r_len r with
       | None -> "PANIC"
       | Some len ->
         if List.exists (fun c -> c = None) cs || List.exists (fun (h, _) -> h = None) its then "PANIC" else
         Printf.sprintf "len=%s empty=%d contains=%s iter=%s" (dec_of_z len) (if r_empty r then 1 else 0)
           (String.concat "" (List.map (function Some true -> "1" | _ -> "0") cs))
           (String.concat "," (List.map (fun (h, o) ->
               (match h with Some h -> dec_of_z h | None -> "?") ^ ":" ^ (match o with Some v -> dec_of_z v | None -> "-")) its)))
  | "to" -> term_str (wto_term (rd_w t))
  | "from" -> let k = kind_of_string (next t) in show_wopt (wfrom_term k (rd_term cmp_owned t))
  | "rt" ->
      let w = rd_w t in
      let k = kind_of w in
      let tm = wto_term w in
      let mem = show_wopt (wfrom_term k tm) in
      let wire = (match encode tm with
        | EErr _ -> "ENCERR"
        | EOk b -> (match decode (mk_cfg owned_arms [] []) b with
            | DOk t2 -> show_wopt (wfrom_term k t2)
            | _ -> "DECERR")) in
      Printf.sprintf "mem=%s wire=%s" mem wire
  | "pl" ->
      let op = next t in
      let tm = rd_term cmp_owned t in
      (match op with
       | "norm" -> opt_term (normalize_proplist tm)
       | "tomap" -> opt_term (proplist_to_map tm)
       | "toplist" -> opt_term (map_to_proplist tm)
       | "rec" -> term_str (to_map_recursive (nat_of_int (term_depth tm + 1)) tm)
       | "isprop" -> if is_proplist tm then "1" else "0"
       | "there" -> (match proplist_to_map tm with None -> "ERR" | Some m -> opt_term (map_to_proplist m))
       | "back" -> (match map_to_proplist tm with None -> "ERR" | Some l -> opt_term (proplist_to_map l))
       | x -> failwith ("bad pl op " ^ x))
  | "kw" -> term_str (kw_build (rd_entries t))
  | "akm" -> term_str (akm_build (rd_entries t))
  | "kwget" ->
      let name = bytes_of_hex (next t) in
      (match kw_build (rd_entries t) with
       | TList els -> (match proplist_get_atom_key name els with Some v -> term_str v | None -> "None")
       | _ -> "None")
  | x -> failwith ("bad elixir op " ^ x)

(* ---- domain serde (C15) ---- *)
let rec rd_ty (t : toks) : ty =
  let rec tys n = if n = 0 then [] else let x = rd_ty t in x :: tys (n - 1) in
  let rec fields n = if n = 0 then [] else let nm = bytes_of_hex (next t) in let x = rd_ty t in (nm, x) :: fields (n - 1) in
  match next t with
  | "B" -> TyBool | "I8" -> TyInt I8 | "I16" -> TyInt I16 | "I32" -> TyInt I32 | "I64" -> TyInt I64
  | "U8" -> TyInt U8 | "U16" -> TyInt U16 | "U32" -> TyInt U32 | "U64" -> TyInt U64
  | "F32" -> TyF32 | "F64" -> TyF64 | "C" -> TyChar | "Str" -> TyString | "Unit" -> TyUnit
  | "O" -> TyOption (rd_ty t)
  | "US" -> TyUnitStruct (bytes_of_hex (next t))
  | "NT" -> TyNewtype (rd_ty t)
  | "TS" -> let n = int_of_string (next t) in TyTupleStruct (tys n)
  | "By" -> TyBytes
  | "T" -> let n = int_of_string (next t) in TyTuple (tys n)
  | "V" -> TyVec (rd_ty t)
  | "M" -> let k = rd_ty t in let v = rd_ty t in TyMap (k, v)
  | "R" -> let n = int_of_string (next t) in TyStruct (fields n)
  | "X" -> let m = bytes_of_hex (next t) in let n = int_of_string (next t) in TyElixir (m, fields n)
  | "E" -> let n = int_of_string (next t) in
           let rec variants n = if n = 0 then [] else
             let nm = bytes_of_hex (next t) in
             let sh = (match next t with
               | "pu" -> PUnit
               | "pn" -> PNewtype (rd_ty t)
               | "pt" -> let k = int_of_string (next t) in PTuple (tys k)
               | "ps" -> let k = int_of_string (next t) in PStruct (fields k)
               | x -> failwith ("bad shape " ^ x)) in
             (nm, sh) :: variants (n - 1) in
           TyEnum (variants n)
  | x -> failwith ("bad type token " ^ x)
let rec rd_val (t : toks) : rval =
  let rec many n = if n = 0 then [] else let x = rd_val t in x :: many (n - 1) in
  match next t with
  | "b" -> RBool (next t = "1")
  | "z" -> RInt (z_of_dec (next t))
  | "f" -> RFloat (n_of_hex (next t))
  | "c" -> RChar (bytes_of_hex (next t))
  | "s" -> RStr (bytes_of_hex (next t))
  | "u" -> RUnit
  | "N" -> RNone
  | "S" -> RSome (rd_val t)
  | "T" -> let n = int_of_string (next t) in RTup (many n)
  | "Q" -> let n = int_of_string (next t) in RSeq (many n)
  | "M" -> let n = int_of_string (next t) in
           let rec kvs n = if n = 0 then [] else let k = rd_val t in let v = rd_val t in (k, v) :: kvs (n - 1) in RMap (kvs n)
  | "R" -> let n = int_of_string (next t) in RRec (many n)
  | "E" -> let i = n_of_dec (next t) in let n = int_of_string (next t) in RVariant (i, many n)
  | x -> failwith ("bad value token " ^ x)
let hex16_of_n (x : n) : string = Printf.sprintf "%016Lx" (int64_of_n x)
let rec show_val (v : rval) : string =
  match v with
  | RBool b -> if b then "b 1" else "b 0"
  | RInt z -> "z " ^ dec_of_z z
  | RFloat b -> "f " ^ hex16_of_n b
  | RChar s -> "c " ^ hex_of_bytes s
  | RStr s -> "s " ^ hex_of_bytes s
  | RUnit -> "u"
  | RNone -> "N"
  | RSome v -> "S " ^ show_val v
  | RTup vs -> String.concat " " (("T " ^ string_of_int (List.length vs)) :: List.map show_val vs)
  | RSeq vs -> String.concat " " (("Q " ^ string_of_int (List.length vs)) :: List.map show_val vs)
  | RMap kvs ->
      (* a Rust map: later entries replace earlier ones with the same key; printed sorted by key *)
      let tbl = Hashtbl.create 16 in
      List.iter (fun (k, v) -> Hashtbl.replace tbl (show_val k) (show_val v)) kvs;
      let es = List.sort compare (Hashtbl.fold (fun k v acc -> (k, v) :: acc) tbl []) in
      String.concat " " (("M " ^ string_of_int (List.length es)) :: List.map (fun (k, v) -> k ^ " " ^ v) es)
  | RRec vs -> String.concat " " (("R " ^ string_of_int (List.length vs)) :: List.map show_val vs)
  | RVariant (i, vs) -> String.concat " " (("E " ^ udec_of_n i ^ " " ^ string_of_int (List.length vs)) :: List.map show_val vs)
let f32_round (bits : n) : n =
  let x = Int64.float_of_bits (int64_of_n bits) in
  let y = Int32.float_of_bits (Int32.bits_of_float x) in
  n_of_hex (Printf.sprintf "%016Lx" (Int64.bits_of_float y))
let split3 (line : string) : string * string * string =
  match Str.bounded_split_delim (Str.regexp_string " | ") line 3 with
  | [a; b; c] -> (a, b, c) | [a; b] -> (a, b, "") | _ -> failwith "bad serde case"
let show_vopt = function Some v -> show_val v | None -> "ERR"
let serde_case (line : string) : string =
  if line = "types" then "types" else
  let op, tyd, rest = split3 line in
  let t = rd_ty { l = words tyd } in
  match op with
  | "rt" ->
      let v = rd_val { l = words rest } in
      if not (rwt false f32_round t v) then "ILLTYPED" else
      let tm = rser false t v in
      let mem = show_vopt (rde false f32_round t tm) in
      let wire = (match encode tm with
        | EErr _ -> "ENCERR"
        | EOk b -> (match decode (mk_cfg owned_arms [] []) b with
            | DOk t2 -> show_vopt (rde false f32_round t t2)
            | _ -> "ERR")) in
      Printf.sprintf "term=%s ; mem=%s ; wire=%s" (term_str tm) mem wire
  | "de" -> show_vopt (rde false f32_round t (term_of_string cmp_owned rest))
  | x -> failwith ("bad serde op " ^ x)

(* ---- domain conn (C06, C07) ---- *)
let split_on (sep : string) (s : string) : string list = Str.split_delim (Str.regexp_string sep) s
(* ---- domain hsk: Connection::connect against a scripted peer (C04 over the socket) ---- *)
let hsk_case (line : string) : string =
  match split_on " ;; " line with
  | [] -> failwith "empty"
  | head :: actions ->
      (match words head with
       | ["hsk"; nm; ck; fl; cr; gen] ->
           let c = { h_name = bytes_of_hex nm; h_cookie = bytes_of_hex ck; h_flags = n_of_dec fl; h_creation = n_of_dec cr } in
           let closed = List.mem "X" actions in
           let rec upto = function [] -> [] | "X" :: _ -> [] | a :: r -> a :: upto r in
           let cs = List.filter_map (fun a -> if String.length a > 0 && a.[0] = 'W' then Some (Data (bytes_of_hex (String.sub a 1 (String.length a - 1)))) else None) (upto actions) in
           let r = connect md5 c (n_of_dec gen) cs in
           let res = (match r.c_err with
             | None -> "ok"
             | Some (CHs e) -> "e:" ^ herr_str e
             | Some CEof -> if closed then "eof" else "timeout"
             | Some CTooLarge -> "toolarge") in
           let ok = r.c_err = None in
           Printf.sprintf "res=%s state=%s connected=%d send=%s after=%s slow=0 wrote=%s" res (hstate_str r.c_hs.st) (if ok then 1 else 0)
             (if ok then "ok" else "err state") (if ok then "some" else "0") (hex_of_bytes r.c_wrote)
       | _ -> failwith "bad hsk head")

let pid_of_term = function TPid p -> p | _ -> failwith "pid expected"
let rd_sop (t : toks) : sop =
  match next t with
  | "send" -> let to_ = pid_of_term (rd_term cmp_owned t) in SSend (to_, rd_term cmp_owned t)
  | "regsend" -> let from = pid_of_term (rd_term cmp_owned t) in let nm = bytes_of_hex (next t) in SRegSend (from, nm, rd_term cmp_owned t)
  | "link" -> let a = pid_of_term (rd_term cmp_owned t) in let b = pid_of_term (rd_term cmp_owned t) in SLink (a, b)
  | "unlink" -> let a = pid_of_term (rd_term cmp_owned t) in let b = pid_of_term (rd_term cmp_owned t) in SUnlink (a, b, n_of_dec (next t))
  | "monitor" -> let a = pid_of_term (rd_term cmp_owned t) in let b = pid_of_term (rd_term cmp_owned t) in SMonitor (a, b, rd_term cmp_owned t)
  | "demonitor" -> let a = pid_of_term (rd_term cmp_owned t) in let b = pid_of_term (rd_term cmp_owned t) in SDemonitor (a, b, rd_term cmp_owned t)
  | x -> failwith ("bad send op " ^ x)
let rec dedup_atoms (l : n list list) : n list list =
  match l with [] -> [] | x :: r -> x :: dedup_atoms (List.filter (fun y -> y <> x) r)
let any_order (op : sop) : n list list =
  let (ctl, pl) = control_of op in
  dedup_atoms (atoms_of ctl @ (match pl with Some m -> atoms_of m | None -> []))
let conn_case (line : string) : string =
  match split_on " ;; " line with
  | [] -> failwith "empty"
  | head :: steps ->
    (* T<ms> (the receive timeout of a paced history) means nothing to the model: a read with nothing to read and the
       stream open is "timeout" whatever the clock says *)
    (match (match List.filter (fun w -> not (String.length w > 1 && w.[0] = 'T')) (words head) with [a; b; c; d] -> [a; b; c; d; "E."] | w -> w) with
     | ["conn"; cfgf; peerf; connect; early] ->
        let negotiated = n_of_int ((int_of_string cfgf) land (int_of_string peerf)) in
        let connected = connect = "1" in
        let cfg = mk_cfg owned_arms [] [] in
        (* bytes the peer sent in one write with its handshake ack are the beginning of the stream *)
        let early_bytes = bytes_of_hex (String.sub early 1 (String.length early - 1)) in
        let cs = ref (if early_bytes = [] then [] else [Data early_bytes]) and closed = ref false and st = ref rstate_init in
        let out = ref [] and wrote = ref [] and hdr_mode = not (uses_pass_through negotiated) in
        List.iter (fun step ->
          let t = { l = words step } in
          match next t with
          | "P" -> cs := !cs @ List.map (fun h -> Data (bytes_of_hex h)) (String.split_on_char ',' (next t))
          | "X" -> closed := true
          | "R" ->
              if not connected then out := "state" :: !out else
              let (r, st'), cs' = receive (nat_of_int (List.length !cs + 2 + 1000)) cfg !st !cs in
              (* frames split by the model's own deframer; one frame per read attempt *)
              st := st'; cs := cs';
              out := (match r with
                | RMsg (m, pl) -> "ok " ^ show_cmsg m ^ " | " ^ (match pl with Some p -> term_str p | None -> "-")
                | RFail -> "err"
                | REof -> if !closed then "eof" else "timeout"
                | RTooLarge -> "toolarge") :: !out
          | "H" ->
              (* the same stream read through the connection's read half (receive_message_from_read_half) *)
              if not connected then out := "state" :: !out else
              let r, cs' = receive_half (nat_of_int (List.length !cs + 2 + 1000)) cfg !cs in
              cs := cs';
              out := (match r with
                | RMsg (m, pl) -> "ok " ^ show_cmsg m ^ " | " ^ (match pl with Some p -> term_str p | None -> "-")
                | RFail -> "err"
                | REof -> if !closed then "eof" else "timeout"
                | RTooLarge -> "toolarge") :: !out
          | "Q" ->
              (* send_raw: the bytes as one frame *)
              let data = bytes_of_hex (next t) in
              if not connected then out := "err state" :: !out else
              (wrote := !wrote @ [frame Distribution data]; out := "ok" :: !out)
          | "W" ->
              (* receive_raw: the next frame's bytes, ticks included *)
              if not connected then out := "state" :: !out else
              let (r, cs'), _ = read_framed Distribution !cs in
              cs := cs';
              out := (match r with
                | ROk b -> "raw " ^ hex_of_bytes b
                | RErr Eof -> if !closed then "eof" else "timeout"
                | RErr TooLarge -> "toolarge") :: !out
          | "S" ->
              let op = rd_sop t in
              if not connected then out := "err state" :: !out else
              (match send_frame negotiated (any_order op) op with
               | Some f -> wrote := !wrote @ [f]; out := "ok" :: !out
               | None -> out := "err err" :: !out)
          | x -> failwith ("bad step " ^ x)) steps;
        let w = if hdr_mode && !wrote <> [] then "HDR" else hex_of_bytes (List.concat !wrote) in
        String.concat " ;; " (List.rev (("wrote=" ^ w) :: !out))
     | "sendchk" :: cfgf :: peerf :: _ ->
        (* model-only: the frames the implementation wrote in header mode, re-encoded with the atom order they carry *)
        let negotiated = n_of_int ((int_of_string cfgf) land (int_of_string peerf)) in
        let ops = List.filter_map (fun step -> match words step with "S" :: r -> Some (rd_sop { l = r }) | _ -> None) steps in
        let wrote = (match List.rev steps with
          | last :: _ when String.length last > 6 && String.sub last 0 6 = "wrote=" -> bytes_of_hex (String.sub last 6 (String.length last - 6))
          | _ -> failwith "sendchk: no wrote=") in
        let rec frames (l : n list) : n list list =
          match l with
          | [] -> []
          | a :: b :: c :: d :: r ->
              let len = ((int_of_n a * 256 + int_of_n b) * 256 + int_of_n c) * 256 + int_of_n d in
              let body = List.filteri (fun i _ -> i < len) r in
              let rec drop k l = if k = 0 then l else drop (k - 1) (List.tl l) in
              if List.length body < len then failwith "sendchk: truncated frame" else body :: frames (drop len r)
          | _ -> failwith "sendchk: truncated length" in
        let ok_ops = List.filter (fun op -> frame_body negotiated (any_order op) op <> None) ops in
        (try
          let fs = frames wrote in
          if List.length fs <> List.length ok_ops then Printf.sprintf "MISMATCH frames=%d ops=%d" (List.length fs) (List.length ok_ops) else
          let bad = List.filteri (fun _ (op, body) -> frame_body negotiated (order_of_header body) op <> Some body) (List.combine ok_ops fs) in
          if bad = [] then "match" else Printf.sprintf "MISMATCH %d of %d frames" (List.length bad) (List.length fs)
        with Failure m -> "MISMATCH " ^ m)
     | _ -> failwith "bad conn head")

(* ---- domain node (C17, C18, C19) ---- *)
let node_name_bytes = List.map (fun c -> n_of_int (Char.code c)) (List.init 15 (String.get "verif@127.0.0.1"))
let show_lmsgs (evs : lmsg list) : string =
  let items = List.map (function
    | MRegular b -> ("", "R " ^ term_str b)
    | MExit (f, r) -> ("", "X " ^ term_str (TPid f) ^ " " ^ term_str r)
    | MMonitorExit (m, rf, r) -> (term_str (TPid m), "M " ^ term_str (TPid m) ^ " " ^ term_str rf ^ " " ^ term_str r)) evs in
  (* runs of monitor notices of one terminated process: canonical order *)
  let rec go (l : (string * string) list) : string list =
    match l with
    | [] -> []
    | (k, _) :: _ when k <> "" ->
        let rec span acc l = (match l with (k', x) :: r when k' = k -> span (x :: acc) r | _ -> (List.rev acc, l)) in
        let (run, rest) = span [] l in
        List.sort compare run @ go rest
    | (_, x) :: r -> x :: go r in
  match go items with [] -> "-" | l -> String.concat " , " l
(* a node that makes calls before and after Node::start: the reply identifiers come from one allocator, whose creation
   (and nothing else) start replaces — the placeholder creation of an unstarted node is 1 *)
let nodemix_case (cr : string) (ops : string list) : string =
  let st = ref { next_id = initial_next_id; next_serial = N0; creation = n_of_int 1 } in
  let out = ref [] in
  List.iter (fun op ->
    if op = "s" then st := { !st with creation = n_of_dec cr }
    else (let (p, st') = allocate !st in st := st';
          out := Printf.sprintf "%d.%d.%d" (int_of_n p.p_id) (int_of_n p.p_serial) (int_of_n p.p_creation) :: !out)) ops;
  String.concat " " (List.rev !out)
let node_case (line : string) : string =
  match words line with "nodemix" :: cr :: ops -> nodemix_case cr ops | _ ->
  match split_on " ;; " line with
  | [] -> failwith "empty"
  | head :: steps ->
    let connect = (match words head with ["node"; c] -> c = "1" | _ -> failwith "bad node head") in
    let cfg = mk_cfg owned_arms [] [] in
    let st = ref (node_init node_name_bytes (n_of_int 7) connect) in
    let pids = ref [] and refs = ref [] and sent_calls = ref [] and ncalls = ref 0 and printed = ref [] and burst = ref false and unwrap = ref [] and wclosed = ref false in
    let do_op o = let (st', u) = step cfg !st o in st := st'; u in
    let pid_arg (t : toks) : pidr =
      (match t.l with
       | tok :: r when String.length tok > 0 && tok.[0] = '$' ->
           t.l <- r; List.nth !pids (int_of_string (String.sub tok 1 (String.length tok - 1)))
       | _ -> pid_of_term (rd_term cmp_owned t)) in
    let okerr = function UOk -> "ok" | _ -> "err" in
    let remote_pid : pidr = { pnode = List.map (fun c -> n_of_int (Char.code c)) (List.init 16 (String.get "p00000@127.0.0.1")); pnum = n_of_int 9; pserial = N0; pcreation = n_of_int 1; ploc = None } in
    let frame_to (p : pidr) (body : term) : n list option =
      (match frame_body N0 [] (SSend (p, body)) with Some b -> Some b | None -> None) in
    let outs = List.map (fun step ->
      let t = { l = words step } in
      match next t with
      | "spawn" -> (match do_op OSpawn with UPid p -> pids := !pids @ [p]; "pid " ^ term_str (TPid p) | _ -> "err")
      | "register" -> let nm = bytes_of_hex (next t) in let p = pid_arg t in okerr (do_op (ORegister (nm, p)))
      | "unregister" -> okerr (do_op (OUnregister (bytes_of_hex (next t))))
      | "whereis" -> (match do_op (OWhereis (bytes_of_hex (next t))) with UPid p -> "pid " ^ term_str (TPid p) | _ -> "none")
      | "send" -> let p = pid_arg t in okerr (do_op (OSend (p, rd_term cmp_owned t)))
      | "sendname" -> let nm = bytes_of_hex (next t) in okerr (do_op (OSendName (nm, rd_term cmp_owned t)))
      | "flood" -> let p = pid_arg t in let n = int_of_string (next t) in let msg = rd_term cmp_owned t in
          let all = ref true in for _ = 1 to n do (match do_op (OSend (p, msg)) with UOk -> () | _ -> all := false) done;
          if !all then "ok" else "err"
      | "open" -> "-"
      | "link" -> let a = pid_arg t in let b = pid_arg t in okerr (do_op (OLink (a, b)))
      | "unlink" -> let a = pid_arg t in let b = pid_arg t in okerr (do_op (OUnlink (a, b)))
      | "monitor" -> let a = pid_arg t in let b = pid_arg t in
          (match do_op (OMonitor (a, b)) with URef r -> refs := !refs @ [r]; "ref " ^ term_str r | _ -> "err")
      | "demonitor" -> let a = pid_arg t in let b = pid_arg t in
          let k = (let s = next t in int_of_string (String.sub s 1 (String.length s - 1))) in
          okerr (do_op (ODemonitor (a, b, List.nth !refs k)))
      | "rsend" -> let msg = rd_term cmp_owned t in okerr (do_op (ORemote (SSend (remote_pid, msg))))
      | "rlink" -> let a = pid_arg t in okerr (do_op (ORemote (SLink (a, remote_pid))))
      | "runlink" -> let a = pid_arg t in okerr (do_op (ORemoteUnlink (a, remote_pid)))
      | "rmonitor" -> let a = pid_arg t in
          (match do_op (ORemoteMonitor (a, remote_pid)) with
           | URef r -> refs := !refs @ [r]; "ref " ^ term_str r
           | _ -> refs := !refs @ [TNil]; "err")
      | "rdemonitor" -> let a = pid_arg t in
          let k = (let s = next t in int_of_string (String.sub s 1 (String.length s - 1))) in
          okerr (do_op (ORemote (SDemonitor (a, remote_pid, List.nth !refs k))))
      | "rpc" ->
          let variant = next t in
          let short = variant = "S" in
          unwrap := !unwrap @ [variant = "X" || variant = "Y"];
          let m = bytes_of_hex (next t) in let f = bytes_of_hex (next t) in
          let n = int_of_string (next t) in
          let rec many n = if n = 0 then [] else let x = rd_term cmp_owned t in x :: many (n - 1) in
          let args = many n in
          (* after a local close of the connection object the request cannot be written: the model's send-failure branch *)
          let args = if !wclosed then [TAtom (List.init 70000 (fun _ -> n_of_int 97))] else args in
          let before = !st.n_pending in
          let u = do_op (ORpc (short, m, f, args)) in
          incr ncalls;
          (match u with
           | UOk -> (match List.rev !st.n_pending with (rp, _) :: _ when List.length !st.n_pending > List.length before -> sent_calls := !sent_calls @ [rp] | _ -> ()); "ok"
           | _ -> "err")
      | "burst" -> let k = int_of_string (next t) in let n = int_of_string (next t) in
          (* concurrent senders: the interleaving is the scheduler's; the model states (Conc/Interleave.v) what every
             interleaving satisfies, the bytes are judged by the oracle *)
          burst := true; if !st.n_connected then Printf.sprintf "sent %d" (k * n) else "sent 0"
      | "lclose" -> wclosed := true; "-"
      | "expire" -> ignore (do_op OExpire); "-"
      | "frame" -> ignore (do_op (OFrame (bytes_of_hex (next t)))); "-"
      | "tick" -> ignore (do_op (OFrame [])); "-"
      | "sync" -> (match !pids with p0 :: _ -> (match frame_to p0 (TAtom (List.map (fun c -> n_of_int (Char.code c)) ['s';'y';'n';'c'])) with Some b -> ignore (do_op (OFrame b)) | None -> ()) | [] -> ()); "-"
      | "reply" ->
          let i = (let s = next t in int_of_string (String.sub s 1 (String.length s - 1))) in
          let body = rd_term cmp_owned t in
          (match List.nth_opt !sent_calls i with
           | Some rp -> (match frame_to rp body with Some b -> ignore (do_op (OFrame b)) | None -> ())
           | None -> ()); "-"
      | "replystale" ->
          let i = (let s = next t in int_of_string (String.sub s 1 (String.length s - 1))) in
          let what = next t in
          let body = rd_term cmp_owned t in
          (match List.nth_opt !sent_calls i with
           | Some rp ->
               let one = n_of_int 1 in
               let other = (if what = "creation" then { rp with pcreation = N.add rp.pcreation one } else { rp with pserial = N.add rp.pserial one }) in
               (match frame_to other body with Some b -> ignore (do_op (OFrame b)) | None -> ())
           | None -> ()); "-"
      | "quiet" -> ignore (next t); "-"
      | "pflood" -> let p = pid_arg t in let n = int_of_string (next t) in let body = rd_term cmp_owned t in
          (match frame_to p body with Some b -> for _ = 1 to n do ignore (do_op (OFrame b)) done | None -> ()); "-"
      | "replyto" -> let p = pid_arg t in let body = rd_term cmp_owned t in
          (match frame_to p body with Some b -> ignore (do_op (OFrame b)) | None -> ()); "-"
      | "overlong" -> ignore (do_op OOverlong); "-"
      | "close" -> ignore (do_op OPeerClose); "-"
      | "results" ->
          let rs = List.filter_map (fun i ->
            if List.mem i !printed then None else
            (match List.find_opt (fun (j, _) -> int_of_n j = i) !st.n_results with
             | Some (_, r) -> printed := i :: !printed;
                 Some (match r with
                       | RReply b when List.nth !unwrap i ->
                           (* rpc_call / rpc_call_with_timeout: the {rex, Result} wrapper removed *)
                           (match b with
                            | TTuple [TAtom a; x] when a = List.map (fun c -> n_of_int (Char.code c)) ['r';'e';'x'] -> "reply " ^ term_str x
                            | _ -> "badreply")
                       | RReply b -> "reply " ^ term_str b | RTimeout -> "timeout" | RNotConnected -> "notconnected" | RSendFailed -> "sendfailed")
             | None -> Some "pending")) (List.init !ncalls (fun i -> i)) in
          if rs = [] then "-" else String.concat " , " rs
      | "pending" -> string_of_int (List.length !st.n_pending)
      | "conns" -> if !st.n_connected then "1" else "0"
      | "count" -> string_of_int (List.length !st.n_procs)
      | "registered" ->
          (match List.sort compare (List.map (fun (nm, _) -> hex_of_bytes nm) !st.n_names) with [] -> "-" | l -> String.concat "," l)
      | "events" ->
          let k = (let s = next t in int_of_string (String.sub s 1 (String.length s - 1))) in
          let p = List.nth !pids k in
          let same (x : proc) = x.pp.pnum = p.pnum && x.pp.pserial = p.pserial in
          (match List.find_opt same !st.n_procs with
           | Some x -> show_lmsgs x.pevents
           | None -> (match List.find_opt same !st.n_gone with Some x -> show_lmsgs x.pevents | None -> "-"))
      | "wrote" -> if !burst then "BURST" else hex_of_bytes (List.concat !st.n_wrote)
      | x -> failwith ("bad node step " ^ x)) steps in
    String.concat " ;; " outs

(* ---- domain gsrv: the gen_server dispatcher in the process loop (C18, last clause) ---- *)
let gsrv_case (line : string) : string =
  match split_on " ;; " line with
  | [] -> failwith "empty"
  | head :: steps ->
      let mask = (match words head with ["gsrv"; m] -> m | _ -> failwith "bad gsrv head") in
      let node = List.map (fun c -> n_of_int (Char.code c)) (List.init 3 (String.get "c@h")) in
      let caller k : pidr = { pnode = node; pnum = n_of_int (100 + k); pserial = N0; pcreation = n_of_int 1; ploc = None } in
      let ncall = String.length mask in
      let live = List.filter_map (fun k -> if mask.[k] = '1' then Some (caller k) else None) (List.init ncall (fun k -> k)) in
      let ms = List.map (fun st ->
        match words st with
        | "R" :: rest -> GReg (rd_term cmp_owned { l = rest })
        | "X" :: rest -> GExit (rd_term cmp_owned { l = rest })
        | ["O"] -> GOther
        | _ -> failwith ("bad gsrv step " ^ st)) steps in
      let r = demo_run live ms in
      let ev = function
        | EvCall (req, from) -> "C " ^ term_str req ^ " " ^ term_str (TPid from)
        | EvCast req -> "K " ^ term_str req
        | EvInfo b -> "I " ^ term_str b
        | EvTerm t -> "T " ^ term_str t in
      let join l = if l = [] then "-" else String.concat " , " l in
      let boxes = List.init ncall (fun k ->
        Printf.sprintf "c%d=%s" k (join (List.filter_map (fun (p, t) -> if pid_eqb p (caller k) then Some (term_str t) else None) r.g_sent))) in
      String.concat " ;; " ([ (if r.g_alive then "alive=1" else "alive=0"); "log=" ^ join (List.map ev r.g_log) ] @ boxes)

(* ---- domain gevt: the gen_event manager in the process loop (C18, last clause) ---- *)
let gevt_case (line : string) : string =
  match split_on " ;; " line with
  | [] -> failwith "empty"
  | head :: steps ->
      let mask = (match words head with ["gevt"; m] -> m | _ -> failwith "bad gevt head") in
      let node = List.map (fun c -> n_of_int (Char.code c)) (List.init 3 (String.get "c@h")) in
      let caller k : pidr = { pnode = node; pnum = n_of_int (100 + k); pserial = N0; pcreation = n_of_int 1; ploc = None } in
      let ncall = String.length mask in
      let live = List.filter_map (fun k -> if mask.[k] = '1' then Some (caller k) else None) (List.init ncall (fun k -> k)) in
      let st = ref demo_einit in
      List.iter (fun s ->
        match words s with
        | "H" :: rest -> let t = { l = rest } in let id = rd_term cmp_owned t in let args = rd_term cmp_owned t in
            st := demo_add !st { dh_id = id; dh_count = Z0 } args
        | "R" :: f :: rest ->
            let from = if f = "-" then None else Some (caller (int_of_string (String.sub f 1 (String.length f - 1)))) in
            st := demo_estep live !st (EReg (from, rd_term cmp_owned { l = rest }))
        | "X" :: rest -> st := demo_estep live !st (EExit (rd_term cmp_owned { l = rest }))
        | ["O"] -> st := demo_estep live !st EOther
        | _ -> failwith ("bad gevt step " ^ s)) steps;
      let r = !st in
      let entry = function
        | HInit (k, a) -> (term_str k, "init " ^ term_str a)
        | HEvent (k, e) -> (term_str k, "event " ^ term_str e)
        | HCall (k, q) -> (term_str k, "call " ^ term_str q)
        | HInfo (k, b) -> (term_str k, "info " ^ term_str b)
        | HTerm (k, x) -> (term_str k, "term " ^ term_str x) in
      let es = List.map entry r.e_log in
      let keys = List.sort_uniq compare (List.map fst es) in
      let join l = if l = [] then "-" else String.concat " , " l in
      let logs = List.map (fun k -> Printf.sprintf "h[%s]=%s" k (join (List.filter_map (fun (k', e) -> if k' = k then Some e else None) es))) keys in
      (* the answer to which_handlers lists the ids in the hash map's order: compared sorted *)
      let canon t = (match t with
        | TTuple [r; TList ids] -> TTuple [r; TList (List.sort (fun a b -> compare (term_str a) (term_str b)) ids)]
        | _ -> t) in
      let boxes = List.init ncall (fun k ->
        Printf.sprintf "c%d=%s" k (join (List.filter_map (fun (p, t) -> if pid_eqb p (caller k) then Some (term_str (canon t)) else None) r.e_sent))) in
      String.concat " ;; " (logs @ boxes)

let () =
  let domain = if Array.length Sys.argv > 1 then Sys.argv.(1) else "" in
  let f = match domain with
    | "frag" -> frag_case
    | "pid" -> pid_case
    | "framing" -> framing_case
    | "codec" -> codec_case
    | "ord" -> ord_case
    | "control" -> control_case
    | "handshake" -> handshake_case
    | "hsk" -> hsk_case
    | "elixir" -> elixir_case
    | "serde" -> serde_case
    | "conn" -> conn_case
    | "node" -> node_case
    | "gsrv" -> gsrv_case
    | "gevt" -> gevt_case
    | _ -> prerr_endline ("unknown domain " ^ domain); exit 2 in
  (try
    while true do
      let line = input_line stdin in
      let line = String.trim line in
      if line = "" || line.[0] = '#' then print_endline line
      else (try print_endline (f line) with
            | Stack_overflow -> print_endline "MODEL-STACK-OVERFLOW"
            | e -> print_endline ("MODEL-ERROR " ^ Printexc.to_string e))
    done
  with End_of_file -> ())
