(* The send side of Connection (connection.rs send_message / send_to_name / link / unlink / monitor / demonitor and
   send_control_message): the control tuple each operation builds and the frame it writes in the negotiated
   framing mode.  Definitions only. *)
From EDP Require Import Base.Bytes Term.Term Gen.Tags Codec.Encode Codec.DistHeader Dist.Control Dist.Framing Dist.Receive.

Inductive sop :=
| SSend (to : pidr) (msg : term)
| SRegSend (from : pidr) (name : bytes) (msg : term)
| SLink (from to : pidr)
| SUnlink (from to : pidr) (id : N)
| SMonitor (from to : pidr) (ref : term)
| SDemonitor (from to : pidr) (ref : term).

(* the control tuple of the distribution protocol for the operation, and its payload *)
Definition control_of (op : sop) : term * option term :=
  match op with
  | SSend to msg => (TTuple [TInt 2; TAtom []; TPid to], Some msg)
  | SRegSend from name msg => (TTuple [TInt 6; TPid from; TAtom []; TAtom name], Some msg)
  | SLink from to => (TTuple [TInt 1; TPid from; TPid to], None)
  | SUnlink from to id => (TTuple [TInt 35; unlink_id_term id; TPid from; TPid to], None)
  | SMonitor from to ref => (TTuple [TInt 19; TPid from; TPid to; ref], None)
  | SDemonitor from to ref => (TTuple [TInt 20; TPid from; TPid to; ref], None)
  end.

Definition dflag_dist_hdr_atom_cache : N := 8192.
Definition uses_pass_through (negotiated : N) : bool := negb (N.testbit negotiated 13).

(* the body of the frame (after the 4-byte length); None = the operation fails before anything is written.
   `order` is the iteration order of the writer's atom set in header mode *)
Definition frame_body (negotiated : N) (order : list bytes) (op : sop) : option bytes :=
  let (ctl, payload) := control_of op in
  if uses_pass_through negotiated then
    match encode ctl with
    | EOk c =>
        match payload with
        | None => Some (pass_through :: c)
        | Some msg => match encode msg with EOk m => Some (pass_through :: c ++ m) | EErr _ => None end
        end
    | EErr _ => None
    end
  else
    match encode_multi order (ctl :: match payload with Some msg => [msg] | None => [] end) with
    | HOk b => Some b
    | _ => None
    end.

Definition send_frame (negotiated : N) (order : list bytes) (op : sop) : option bytes :=
  match frame_body negotiated order op with
  | Some body => Some (frame Distribution body)
  | None => None
  end.
