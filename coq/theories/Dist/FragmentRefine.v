(* Per-sequence refinement: for a conforming sender, the concrete entry of one sequence refines an
   abstract "set of delivered ids" assembler that answers exactly once, when the last missing id arrives. *)
From EDP Require Import Base.Bytes Gen.FragConsts Dist.Fragment Dist.FragmentFacts.

(* ---------- index lemmas over [s, s+1, ..., s+k-1] ---------- *)
Fixpoint ids_from (s : N) (k : nat) : list N :=
  match k with O => [] | S k' => s :: ids_from (s + 1) k' end.

Definition upd {A} (f : N -> A) (a : N) (x : A) : N -> A := fun j => if j =? a then x else f j.

Lemma in_ids_from s k j : In j (ids_from s k) <-> s <= j < s + N.of_nat k.
Proof.
  revert s; induction k as [|k IH]; intros s; cbn [ids_from In].
  - split; [tauto|lia].
  - rewrite IH. lia.
Qed.

Lemma nth_err_map_ids {A} (f : N -> A) k : forall s i, i < N.of_nat k ->
  nth_err (map f (ids_from s k)) i = Some (f (s + i)).
Proof.
  induction k as [|k IH]; intros s i Hi; [lia|]. cbn [ids_from map nth_err].
  destruct (i =? 0) eqn:E.
  - apply N.eqb_eq in E; subst. now rewrite N.add_0_r.
  - apply N.eqb_neq in E. rewrite IH by lia. f_equal. f_equal. lia.
Qed.

Lemma nth_err_map_ids_ge {A} (f : N -> A) k : forall s i, N.of_nat k <= i ->
  nth_err (map f (ids_from s k)) i = None.
Proof.
  induction k as [|k IH]; intros s i Hi; [reflexivity|]. cbn [ids_from map nth_err].
  destruct (i =? 0) eqn:E; [apply N.eqb_eq in E; lia|]. apply N.eqb_neq in E. apply IH. lia.
Qed.

Lemma map_ext_ids {A} (f g : N -> A) s k :
  (forall j, s <= j < s + N.of_nat k -> f j = g j) -> map f (ids_from s k) = map g (ids_from s k).
Proof. intros H. apply map_ext_in. intros j Hj. apply H. now apply in_ids_from. Qed.

Lemma set_nth_map_ids {A} (f : N -> A) x k : forall s i, i < N.of_nat k ->
  set_nth i x (map f (ids_from s k)) = map (upd f (s + i) x) (ids_from s k).
Proof.
  induction k as [|k IH]; intros s i Hi; [lia|]. cbn [ids_from map set_nth].
  destruct (i =? 0) eqn:E.
  - apply N.eqb_eq in E; subst. rewrite N.add_0_r. unfold upd at 1. rewrite N.eqb_refl. f_equal.
    apply map_ext_ids. intros j Hj. unfold upd. destruct (j =? s) eqn:E2; [apply N.eqb_eq in E2; lia|reflexivity].
  - apply N.eqb_neq in E. rewrite IH by lia. f_equal.
    + unfold upd. destruct (s =? s + i) eqn:E2; [apply N.eqb_eq in E2; lia|reflexivity].
    + apply map_ext_ids. intros j Hj. unfold upd. replace (s + 1 + N.pred i) with (s + i) by lia. reflexivity.
Qed.

Definition is_some {A} (o : option A) : bool := match o with Some _ => true | None => false end.
Definition countf {A} (f : N -> option A) (l : list N) : N := len (filter (fun k => is_some (f k)) l).

Lemma countf_cons {A} (f : N -> option A) a l :
  countf f (a :: l) = (if is_some (f a) then 1 else 0) + countf f l.
Proof. unfold countf, len. cbn [filter]. destruct (is_some (f a)); cbn [length]; lia. Qed.

Lemma countf_le {A} (f : N -> option A) l : countf f l <= len l.
Proof.
  induction l as [|a l IH]; [unfold countf, len; cbn; lia|]. rewrite countf_cons. unfold len in *. cbn [length].
  destruct (is_some (f a)); lia.
Qed.

Lemma countf_full {A} (f : N -> option A) l : countf f l = len l <-> (forall j, In j l -> is_some (f j) = true).
Proof.
  induction l as [|a l IH]; [split; [intros _ j []|reflexivity]|].
  rewrite countf_cons. pose proof (countf_le f l) as Hle. unfold len in *. cbn [length In].
  destruct (is_some (f a)) eqn:E.
  - split.
    + intros H j [<-|Hj]; [exact E|]. apply IH; [lia|exact Hj].
    + intros H. assert (countf f l = N.of_nat (length l)) by (apply IH; auto). lia.
  - split; [lia|]. intros H. specialize (H a (or_introl eq_refl)). congruence.
Qed.

Lemma countf_ext {A} (f g : N -> option A) l : (forall j, In j l -> f j = g j) -> countf f l = countf g l.
Proof.
  intros H. induction l as [|a l IH]; [reflexivity|]. rewrite !countf_cons.
  rewrite (H a (or_introl eq_refl)). rewrite IH; [reflexivity|]. intros j Hj. apply H. now right.
Qed.

Lemma countf_upd {A} (f : N -> option A) a x k : forall s,
  f a = None -> s <= a < s + N.of_nat k ->
  countf (upd f a (Some x)) (ids_from s k) = countf f (ids_from s k) + 1.
Proof.
  induction k as [|k IH]; intros s Hf Hr; [lia|]. cbn [ids_from]. rewrite !countf_cons.
  destruct (N.eq_dec s a) as [->|Hne].
  - unfold upd at 1. rewrite N.eqb_refl, Hf. cbn [is_some].
    rewrite (countf_ext (upd f a (Some x)) f); [lia|].
    intros j Hj. apply in_ids_from in Hj. unfold upd. destruct (j =? a) eqn:E; [apply N.eqb_eq in E; lia|reflexivity].
  - unfold upd at 1. destruct (s =? a) eqn:E; [apply N.eqb_eq in E; congruence|].
    rewrite IH by (auto; lia). lia.
Qed.

Lemma len_ids_from s k : len (ids_from s k) = N.of_nat k.
Proof. unfold len. f_equal. revert s; induction k as [|k IH]; intros s; cbn [ids_from length]; [reflexivity|]. now rewrite IH. Qed.

Lemma repeat_map_ids {A} (x : A) k s : repeat x k = map (fun _ => x) (ids_from s k).
Proof. revert s; induction k as [|k IH]; intros s; cbn [repeat ids_from map]; [reflexivity|]. now rewrite <- IH. Qed.

(* ---------- the scenario ---------- *)
Section OneSequence.
  Variable n : N.                       (* fragment count announced by the header *)
  Variable D : N -> bytes.              (* data carried by fragment id k *)
  Variable c : option bytes.            (* atom-cache bytes carried by the header *)
  Hypothesis n_pos : 1 <= n.
  Hypothesis n_vec : n <= max_fragments_vec.

  Definition ids : list N := ids_from 1 (N.to_nat n).
  Definition asc : bytes := concat (map D ids).
  Definition result : bytes := (match c with Some x => x | None => [] end) ++ asc.

  (* events a conforming peer (plus noise that the property allows) can produce for this sequence *)
  Inductive cev := CHdr | CCont (i : N) | CJunk (j : N) (d : bytes).
  Definition conf (e : cev) : Prop :=
    match e with CHdr => True | CCont i => 1 <= i < n | CJunk j _ => j = 0 \/ n < j end.

  (* concrete: what the assembler does to this sequence's entry *)
  Definition cstep (o : option fmsg) (e : cev) (now : N) : option fmsg * option bytes :=
    match e with
    | CHdr => seq_start o n c (D n) now
    | CCont i => seq_add o i (D i) now
    | CJunk j d => seq_add o j d now
    end.

  (* abstract: the set of ids delivered since the sequence was last idle *)
  Definition mem (k : N) (got : list N) : bool := existsb (N.eqb k) got.
  Definition covers (got : list N) : bool := forallb (fun k => mem k got) ids.
  Definition astep (got : list N) (e : cev) : list N * option bytes :=
    match e with
    | CJunk _ _ => (got, None)
    | CHdr => if covers (n :: got) then ([], Some result) else (n :: got, None)
    | CCont i => if covers (i :: got) then ([], Some result) else (i :: got, None)
    end.

  Definition slot (got : list N) (k : N) : option bytes := if mem k got then Some (D k) else None.

  Definition R (got : list N) (o : option fmsg) : Prop :=
    (forall k, In k got -> 1 <= k <= n) /\ covers got = false /\
    match o with
    | None => got = []
    | Some m =>
        if mem n got then
          total m = Some n /\ frags m = map (slot got) ids /\ received m = countf (slot got) ids /\ cache m = c
        else
          total m = None /\ frags m = [] /\ received m = 0 /\
          (forall k, 1 <= k <= n -> lookup k (pend m) = slot got k) /\ lookup 0 (pend m) = None
    end.

  Lemma in_ids k : In k ids <-> 1 <= k <= n.
  Proof. unfold ids. rewrite in_ids_from. lia. Qed.

  Lemma count_new_n : count_new n = Some n.
  Proof.
    unfold count_new. destruct (n =? 0) eqn:E; [apply N.eqb_eq in E; lia|].
    destruct (max_fragment_count <? n) eqn:E2; [|reflexivity].
    apply N.ltb_lt in E2. unfold max_fragment_count, max_fragments_vec in *. lia.
  Qed.

  Lemma not_exceeds : exceeds_vec_limit n = false.
  Proof. unfold exceeds_vec_limit. apply N.ltb_ge. exact n_vec. Qed.

  Lemma covers_spec got : covers got = true <-> forall k, 1 <= k <= n -> mem k got = true.
  Proof. unfold covers. rewrite forallb_forall. split; intros H k Hk; apply H; now apply in_ids. Qed.

  Lemma covers_count got : covers got = (countf (slot got) ids =? n).
  Proof.
    assert (Hlen : len ids = n) by (unfold ids; rewrite len_ids_from; lia).
    destruct (covers got) eqn:E; symmetry.
    - apply N.eqb_eq. rewrite <- Hlen. apply countf_full. intros j Hj.
      apply in_ids in Hj. rewrite covers_spec in E. unfold slot. now rewrite (E j Hj).
    - apply N.eqb_neq. intros Hc. rewrite <- Hlen in Hc. rewrite countf_full in Hc.
      assert (covers got = true); [|congruence]. apply covers_spec. intros k Hk.
      specialize (Hc k (proj2 (in_ids k) Hk)). unfold slot in Hc. destruct (mem k got); [reflexivity|discriminate].
  Qed.

  Lemma flatten_full got : covers got = true -> flatten_frags (map (slot got) ids) = asc.
  Proof.
    intros H. unfold flatten_frags, asc. rewrite map_map. f_equal. apply map_ext_in. intros k Hk.
    apply in_ids in Hk. rewrite covers_spec in H. unfold slot. now rewrite (H k Hk).
  Qed.

  Lemma mem_cons k a got : mem k (a :: got) = (k =? a) || mem k got.
  Proof. reflexivity. Qed.

  (* filling slot i (1 <= i <= n) of a header-state entry with D i *)
  Lemma fill_hdr m got i : 1 <= i <= n ->
    total m = Some n -> frags m = map (slot got) ids -> received m = countf (slot got) ids ->
    let m' := fill_slot m n i (D i) in
    total m' = Some n /\ frags m' = map (slot (i :: got)) ids /\ received m' = countf (slot (i :: got)) ids
    /\ cache m' = cache m.
  Proof.
    intros Hi Ht Hf Hr. unfold fill_slot.
    assert (Hlt : (0 <? i) && (i <=? n) = true).
    { apply andb_true_intro; split; [apply N.ltb_lt|apply N.leb_le]; lia. }
    rewrite Hlt. rewrite Hf. unfold ids.
    rewrite nth_err_map_ids by lia. replace (1 + (i - 1)) with i by lia.
    assert (Hext : forall g, (forall j, 1 <= j <= n -> g j = slot (i :: got) j) ->
              map g (ids_from 1 (N.to_nat n)) = map (slot (i :: got)) (ids_from 1 (N.to_nat n))).
    { intros g Hg. apply map_ext_ids. intros j Hj. apply Hg. lia. }
    change (slot got i) with (if mem i got then Some (D i) else None).
    destruct (mem i got) eqn:Em; cbv iota.
    - (* duplicate: nothing changes, and the abstract set gains nothing *)
      fold ids. repeat split; try assumption.
      + rewrite Hf. apply Hext. intros j Hj. unfold slot. rewrite mem_cons.
        destruct (j =? i) eqn:E; [apply N.eqb_eq in E; subst; now rewrite Em|reflexivity].
      + rewrite Hr. apply countf_ext. intros j Hj. unfold slot. rewrite mem_cons.
        destruct (j =? i) eqn:E; [apply N.eqb_eq in E; subst; now rewrite Em|reflexivity].
    - cbn [total frags received cache].
      rewrite set_nth_map_ids by lia. replace (1 + (i - 1)) with i by lia.
      assert (Hpt : forall j, upd (slot got) i (Some (D i)) j = slot (i :: got) j).
      { intros j. unfold upd, slot. rewrite mem_cons. destruct (j =? i) eqn:E; [apply N.eqb_eq in E; subst|]; reflexivity. }
      repeat split; try assumption.
      + apply map_ext_ids. intros j _. apply Hpt.
      + rewrite Hr. unfold ids. rewrite <- (countf_upd (slot got) i (D i)).
        * apply countf_ext. intros j _. apply Hpt.
        * unfold slot. now rewrite Em.
        * lia.
  Qed.

  (* set_total_fragments on a buffering entry: drains the pending map into the slots *)
  Lemma drain l : forall m f,
    total m = Some n -> frags m = map f ids -> received m = countf f ids ->
    let m' := fold_left (fun acc kv => fill_slot acc n (fst kv) (snd kv)) l m in
    let g := fun k => match f k with Some x => Some x | None => lookup k l end in
    total m' = Some n /\ frags m' = map g ids /\ received m' = countf g ids /\ cache m' = cache m.
  Proof.
    induction l as [|[k0 d0] l IH]; intros m f Ht Hf Hr; cbn [fold_left fst snd].
    - repeat split; try assumption.
      + rewrite Hf. apply map_ext. intros k. now destruct (f k).
      + rewrite Hr. apply countf_ext. intros k _. now destruct (f k).
    - set (m1 := fill_slot m n k0 d0).
      assert (H1 : exists f1, total m1 = Some n /\ frags m1 = map f1 ids /\ received m1 = countf f1 ids /\ cache m1 = cache m
                   /\ forall k, 1 <= k <= n -> (match f1 k with Some x => Some x | None => lookup k l end)
                                 = (match f k with Some x => Some x | None => lookup k ((k0, d0) :: l) end)).
      { unfold m1, fill_slot. destruct ((0 <? k0) && (k0 <=? n)) eqn:Erange.
        - apply andb_prop in Erange as [E1 E2]. apply N.ltb_lt in E1. apply N.leb_le in E2.
          rewrite Hf. unfold ids. rewrite nth_err_map_ids by lia. replace (1 + (k0 - 1)) with k0 by lia.
          destruct (f k0) eqn:Ef.
          + exists f. fold ids. rewrite <- Hf. repeat split; try assumption. intros k Hk. cbn [lookup].
            destruct (k0 =? k) eqn:E; [apply N.eqb_eq in E; subst; now rewrite Ef|reflexivity].
          + exists (upd f k0 (Some d0)). cbn [total frags received cache]. repeat split; try assumption.
            * rewrite set_nth_map_ids by lia. now replace (1 + (k0 - 1)) with k0 by lia.
            * rewrite Hr. unfold ids. rewrite countf_upd by (auto; lia). reflexivity.
            * intros k Hk. unfold upd. cbn [lookup]. rewrite (N.eqb_sym k0 k).
              destruct (k =? k0) eqn:E; [apply N.eqb_eq in E; subst; now rewrite Ef|reflexivity].
        - exists f. repeat split; try assumption. intros k Hk. cbn [lookup].
          destruct (k0 =? k) eqn:E; [|reflexivity]. apply N.eqb_eq in E; subst.
          exfalso. assert ((0 <? k) && (k <=? n) = true); [|congruence].
          apply andb_true_intro; split; [apply N.ltb_lt|apply N.leb_le]; lia. }
      destruct H1 as (f1 & Ht1 & Hf1 & Hr1 & Hc1 & Hpt).
      destruct (IH m1 f1 Ht1 Hf1 Hr1) as (Ht' & Hf' & Hr' & Hc').
      repeat split.
      + exact Ht'.
      + rewrite Hf'. unfold ids. apply map_ext_ids. intros k Hk. apply Hpt. lia.
      + rewrite Hr'. apply countf_ext. intros k Hk. apply in_ids in Hk. now apply Hpt.
      + now rewrite Hc'.
  Qed.

  (* the one place where completion is decided and answered *)
  Lemma finish m got : forall now' : N,
    (forall k, In k got -> 1 <= k <= n) ->
    total m = Some n -> frags m = map (slot got) ids -> received m = countf (slot got) ids -> cache m = c ->
    mem n got = true ->
    (if msg_complete m then (None, msg_reassemble m) else (Some m, None)) =
      (if covers got then (None, Some result) else (Some m, None))
    /\ (covers got = false -> R got (Some m)).
  Proof.
    intros _ Hin Ht Hf Hr Hc Hn.
    assert (Hcomp : msg_complete m = covers got).
    { unfold msg_complete. rewrite Ht, Hr. symmetry. apply covers_count. }
    split.
    - unfold msg_reassemble. rewrite Hcomp. destruct (covers got) eqn:E; [|reflexivity].
      unfold result. now rewrite Hc, Hf, flatten_full.
    - intros E. unfold R. rewrite Hn. split; [exact Hin|]. split; [exact E|]. repeat split; assumption.
  Qed.

  Lemma touch_proj m now :
    total (touch m now) = total m /\ frags (touch m now) = frags m /\ received (touch m now) = received m
    /\ cache (touch m now) = cache m /\ pend (touch m now) = pend m.
  Proof. repeat split. Qed.

  Lemma in_cons_range i got : 1 <= i <= n -> (forall k, In k got -> 1 <= k <= n) ->
    forall k, In k (i :: got) -> 1 <= k <= n.
  Proof. intros Hi H k [<-|Hk]; auto. Qed.

  Lemma covers_nil_false : covers [] = false.
  Proof.
    destruct (covers []) eqn:E; [|reflexivity]. rewrite covers_spec in E.
    specialize (E n ltac:(lia)). discriminate.
  Qed.

  Lemma R_init : R [] None.
  Proof. split; [intros k []|]. split; [apply covers_nil_false|reflexivity]. Qed.

  (* ---------- the simulation step ---------- *)
  Lemma sim_step got o e now :
    R got o -> conf e ->
    snd (cstep o e now) = snd (astep got e) /\ R (fst (astep got e)) (fst (cstep o e now)).
  Proof.
    intros (Hin & Hcov & Hst) Hconf.
    destruct e as [|i|j d]; cbn [cstep astep].
    - (* header *)
      unfold seq_start. rewrite count_new_n.
      assert (Hn : 1 <= n <= n) by lia.
      destruct o as [m|].
      + destruct (mem n got) eqn:Emem.
        * (* header again (duplicate) *)
          destruct Hst as (Ht & Hf & Hr & Hc).
          assert (Hsame : msg_set_total m n = m).
          { unfold msg_set_total. rewrite Ht, N.eqb_refl. reflexivity. }
          rewrite Hsame. unfold msg_add.
          destruct (n =? 0) eqn:E0; [apply N.eqb_eq in E0; lia|].
          cbn [total touch set_cache].
          rewrite Ht.
          set (m0 := touch (set_cache m c) now).
          destruct (fill_hdr m0 got n Hn Ht Hf Hr) as (Ht' & Hf' & Hr' & Hc').
          assert (Hc'' : cache (fill_slot m0 n n (D n)) = c) by (rewrite Hc'; reflexivity).
          assert (Hmem' : mem n (n :: got) = true) by (rewrite mem_cons, N.eqb_refl; reflexivity).
          destruct (finish _ (n :: got) now (in_cons_range n got Hn Hin) Ht' Hf' Hr' Hc'' Hmem') as (Hout & HR).
          rewrite Hout. destruct (covers (n :: got)) eqn:Ec; cbn [fst snd]; split; auto.
          apply R_init.
        * (* header after buffered continuations *)
          destruct Hst as (Ht & Hf & Hr & Hp & Hp0).
          assert (Hdrain : exists m1, msg_set_total m n = m1 /\ total m1 = Some n /\
                     frags m1 = map (fun k => lookup k (pend m)) ids /\
                     received m1 = countf (fun k => lookup k (pend m)) ids).
          { unfold msg_set_total. rewrite Ht, not_exceeds. eexists; split; [reflexivity|].
            rewrite Hf. unfold resize. rewrite firstn_nil. cbn [length app]. rewrite Nat.sub_0_r.
            set (m1 := {| total := Some n; frags := repeat None (N.to_nat n); pend := [];
                          received := received m; cache := cache m; last := last m |}).
            assert (H1 : frags m1 = map (fun _ : N => @None bytes) ids) by (apply repeat_map_ids).
            assert (H2 : received m1 = countf (fun _ : N => @None bytes) ids).
            { cbn [received m1]. rewrite Hr. unfold countf. clear. induction ids as [|a l IH]; [reflexivity|exact IH]. }
            destruct (drain (pend m) m1 (fun _ => None) eq_refl H1 H2) as (Ht' & Hf' & Hr' & _).
            repeat split; assumption. }
          destruct Hdrain as (m1 & -> & Ht1 & Hf1 & Hr1).
          unfold msg_add. destruct (n =? 0) eqn:E0; [apply N.eqb_eq in E0; lia|].
          cbn [total touch set_cache]. rewrite Ht1.
          set (m0 := touch (set_cache m1 c) now).
          (* the drained slots are exactly slot got on 1..n *)
          assert (Hf0 : frags m0 = map (slot got) ids).
          { cbn [frags m0 touch set_cache]. rewrite Hf1. apply map_ext_ids. intros k Hk. apply Hp. lia. }
          assert (Hr0 : received m0 = countf (slot got) ids).
          { cbn [received m0 touch set_cache]. rewrite Hr1. apply countf_ext. intros k Hk. apply in_ids in Hk. now apply Hp. }
          destruct (fill_hdr m0 got n Hn Ht1 Hf0 Hr0) as (Ht' & Hf' & Hr' & Hc').
          assert (Hc'' : cache (fill_slot m0 n n (D n)) = c) by (rewrite Hc'; reflexivity).
          assert (Hmem' : mem n (n :: got) = true) by (rewrite mem_cons, N.eqb_refl; reflexivity).
          destruct (finish _ (n :: got) now (in_cons_range n got Hn Hin) Ht' Hf' Hr' Hc'' Hmem') as (Hout & HR).
          rewrite Hout. destruct (covers (n :: got)) eqn:Ec; cbn [fst snd]; split; auto.
          apply R_init.
      + (* header first *)
        subst got. unfold msg_new. rewrite not_exceeds.
        unfold msg_add. destruct (n =? 0) eqn:E0; [apply N.eqb_eq in E0; lia|].
        cbn [total touch].
        set (m0 := touch _ now).
        assert (Ht0 : total m0 = Some n) by reflexivity.
        assert (Hf0 : frags m0 = map (slot []) ids) by (cbn [frags m0 touch]; apply repeat_map_ids).
        assert (Hr0 : received m0 = countf (slot []) ids).
        { cbn [received m0 touch]. unfold countf. clear. induction ids as [|a l IH]; [reflexivity|exact IH]. }
        destruct (fill_hdr m0 [] n Hn Ht0 Hf0 Hr0) as (Ht' & Hf' & Hr' & Hc').
        assert (Hc'' : cache (fill_slot m0 n n (D n)) = c) by (rewrite Hc'; reflexivity).
        assert (Hmem' : mem n [n] = true) by (rewrite mem_cons, N.eqb_refl; reflexivity).
        destruct (finish _ [n] now (in_cons_range n [] Hn Hin) Ht' Hf' Hr' Hc'' Hmem') as (Hout & HR).
        rewrite Hout. destruct (covers [n]) eqn:Ec; cbn [fst snd]; split; auto.
        apply R_init.
    - (* continuation 1 <= i < n *)
      cbn [conf] in Hconf. assert (Hi : 1 <= i <= n) by lia.
      unfold seq_add. destruct o as [m|].
      + unfold msg_add. destruct (i =? 0) eqn:E0; [apply N.eqb_eq in E0; lia|].
        cbn [total touch].
        destruct (mem n got) eqn:Emem.
        * destruct Hst as (Ht & Hf & Hr & Hc). rewrite Ht.
          set (m0 := touch m now).
          destruct (fill_hdr m0 got i Hi Ht Hf Hr) as (Ht' & Hf' & Hr' & Hc').
          assert (Hc'' : cache (fill_slot m0 n i (D i)) = c) by (rewrite Hc'; exact Hc).
          assert (Hmem' : mem n (i :: got) = true) by (rewrite mem_cons, Emem; apply orb_true_r).
          destruct (finish _ (i :: got) now (in_cons_range i got Hi Hin) Ht' Hf' Hr' Hc'' Hmem') as (Hout & HR).
          rewrite Hout. destruct (covers (i :: got)) eqn:Ec; cbn [fst snd]; split; auto.
          apply R_init.
        * destruct Hst as (Ht & Hf & Hr & Hp & Hp0). rewrite Ht.
          assert (Hnc : covers (i :: got) = false).
          { destruct (covers (i :: got)) eqn:Ec; [|reflexivity]. rewrite covers_spec in Ec.
            specialize (Ec n ltac:(lia)). rewrite mem_cons, Emem in Ec.
            rewrite orb_false_r in Ec. apply N.eqb_eq in Ec. lia. }
          rewrite Hnc.
          assert (Hmem' : mem n (i :: got) = false).
          { rewrite mem_cons, Emem, orb_false_r. apply N.eqb_neq. lia. }
          cbn [pend touch].
          destruct (lookup i (pend m)) eqn:El.
          -- (* duplicate before the header *)
             assert (Hg : mem i got = true).
             { specialize (Hp i Hi). rewrite El in Hp. unfold slot in Hp. destruct (mem i got); [reflexivity|discriminate]. }
             assert (Hinc : msg_complete (touch m now) = false) by (unfold msg_complete; cbn [total touch]; now rewrite Ht).
             rewrite Hinc. cbn [fst snd]. split; [reflexivity|].
             split; [apply in_cons_range; assumption|]. split; [exact Hnc|].
             rewrite Hmem'. cbn [total frags received pend touch]. repeat split; try assumption.
             intros k Hk. rewrite (Hp k Hk). unfold slot. rewrite mem_cons.
             destruct (k =? i) eqn:E; [apply N.eqb_eq in E; subst; now rewrite Hg|reflexivity].
          -- set (m' := {| total := None; frags := _; pend := _; received := _; cache := _; last := _ |}).
             assert (Hinc : msg_complete m' = false) by reflexivity.
             rewrite Hinc. cbn [fst snd]. split; [reflexivity|].
             split; [apply in_cons_range; assumption|]. split; [exact Hnc|].
             rewrite Hmem'. cbn [total frags received pend m' touch]. repeat split; try assumption.
             ++ intros k Hk. cbn [lookup]. unfold slot. rewrite mem_cons. rewrite (N.eqb_sym i k).
                destruct (k =? i) eqn:E; [apply N.eqb_eq in E; subst; reflexivity|].
                cbn [orb]. apply (Hp k Hk).
             ++ cbn [lookup]. destruct (i =? 0) eqn:E; [discriminate|exact Hp0].
      + (* continuation before anything else *)
        subst got. rewrite msg_new_none_incomplete || idtac.
        assert (Hnc : covers [i] = false).
        { destruct (covers [i]) eqn:Ec; [|reflexivity]. rewrite covers_spec in Ec.
          specialize (Ec n ltac:(lia)). rewrite mem_cons in Ec. cbn [mem existsb] in Ec.
          rewrite orb_false_r in Ec. apply N.eqb_eq in Ec. lia. }
        rewrite Hnc. cbn [fst snd]. split; [reflexivity|].
        split; [apply in_cons_range; assumption|]. split; [exact Hnc|].
        assert (Hmem' : mem n [i] = false).
        { rewrite mem_cons. cbn [mem existsb]. rewrite orb_false_r. apply N.eqb_neq. lia. }
        rewrite Hmem'. unfold msg_add, msg_new, touch. cbn [total frags received pend cache last].
        destruct (i =? 0) eqn:E0; [apply N.eqb_eq in E0; lia|]. cbn [lookup total frags received pend].
        repeat split; try reflexivity.
        * intros k Hk. unfold slot. rewrite mem_cons. cbn [mem existsb lookup]. rewrite (N.eqb_sym i k).
          destruct (k =? i) eqn:E; [apply N.eqb_eq in E; subst; reflexivity|reflexivity].
        * now rewrite E0.
    - (* junk id: 0 or beyond the count *)
      cbn [conf] in Hconf. cbn [fst snd].
      unfold seq_add. destruct o as [m|].
      + unfold msg_add. destruct (j =? 0) eqn:E0.
        * assert (Hinc : msg_complete (touch m now) = false /\ R got (Some (touch m now))).
          { unfold R, msg_complete. cbn [total frags received cache pend touch].
            destruct (mem n got) eqn:Emem.
            - destruct Hst as (Ht & Hf & Hr & Hc). rewrite Ht. split.
              + rewrite Hr, <- covers_count. exact Hcov.
              + split; [exact Hin|]. split; [exact Hcov|]. repeat split; assumption.
            - destruct Hst as (Ht & Hf & Hr & Hp & Hp0). rewrite Ht. split; [reflexivity|].
              split; [exact Hin|]. split; [exact Hcov|]. repeat split; assumption. }
          destruct Hinc as (Hinc & HR). rewrite Hinc. cbn [fst snd]. auto.
        * apply N.eqb_neq in E0. assert (Hj : n < j) by lia.
          cbn [total touch].
          destruct (mem n got) eqn:Emem.
          -- destruct Hst as (Ht & Hf & Hr & Hc). rewrite Ht.
             assert (Hno : fill_slot (touch m now) n j d = touch m now).
             { unfold fill_slot. replace (j <=? n) with false by (symmetry; apply N.leb_gt; lia).
               now rewrite andb_false_r. }
             rewrite Hno.
             assert (Hinc : msg_complete (touch m now) = false).
             { unfold msg_complete. cbn [total received touch]. rewrite Ht, Hr, <- covers_count. exact Hcov. }
             rewrite Hinc. cbn [fst snd]. split; [reflexivity|].
             split; [exact Hin|]. split; [exact Hcov|]. rewrite Emem. cbn [total frags received cache touch]. repeat split; assumption.
          -- destruct Hst as (Ht & Hf & Hr & Hp & Hp0). rewrite Ht. cbn [pend touch].
             destruct (lookup j (pend m)) eqn:El.
             ++ assert (Hinc : msg_complete (touch m now) = false) by (unfold msg_complete; cbn [total touch]; now rewrite Ht).
                rewrite Hinc. cbn [fst snd]. split; [reflexivity|].
                split; [exact Hin|]. split; [exact Hcov|]. rewrite Emem. cbn [total frags received pend touch]. repeat split; assumption.
             ++ set (m' := {| total := None; frags := _; pend := _; received := _; cache := _; last := _ |}).
                assert (Hinc : msg_complete m' = false) by reflexivity.
                rewrite Hinc. cbn [fst snd]. split; [reflexivity|].
                split; [exact Hin|]. split; [exact Hcov|]. rewrite Emem. cbn [total frags received pend m' touch]. repeat split; try assumption.
                ** intros k Hk. cbn [lookup]. destruct (j =? k) eqn:E; [apply N.eqb_eq in E; lia|]. apply (Hp k Hk).
                ** cbn [lookup]. destruct (j =? 0) eqn:E; [apply N.eqb_eq in E; lia|exact Hp0].
      + subst got. rewrite msg_new_none_incomplete || idtac. cbn [fst snd]. split; [reflexivity|].
        split; [intros k []|]. split; [exact Hcov|].
        assert (Hmem : mem n [] = false) by reflexivity. rewrite Hmem.
        unfold msg_add, msg_new, touch. cbn [total frags received pend cache last].
        destruct (j =? 0) eqn:E0; cbn [lookup total frags received pend]; repeat split; try reflexivity.
        * intros k Hk. cbn [lookup]. destruct (j =? k) eqn:E; [apply N.eqb_eq in E; apply N.eqb_neq in E0; lia|reflexivity].
        * cbn [lookup]. now rewrite E0.
  Qed.

  (* runs *)
  Fixpoint crun (o : option fmsg) (es : list (cev * N)) : list (option bytes) :=
    match es with
    | [] => []
    | (e, now) :: r => let '(o', out) := cstep o e now in out :: crun o' r
    end.
  Fixpoint arun (got : list N) (es : list (cev * N)) : list (option bytes) :=
    match es with
    | [] => []
    | (e, _) :: r => let '(got', out) := astep got e in out :: arun got' r
    end.

  Lemma sim_run es : forall got o, R got o -> Forall (fun en => conf (fst en)) es -> crun o es = arun got es.
  Proof.
    induction es as [|[e now] es IH]; intros got o HR Hc; [reflexivity|].
    inversion Hc as [|? ? Hc1 Hc2]; subst. cbn [fst] in Hc1. cbn [crun arun].
    destruct (sim_step got o e now HR Hc1) as (Hout & HR').
    destruct (cstep o e now) as [o' out]. destruct (astep got e) as [got' out']. cbn [fst snd] in *.
    subst. f_equal. now apply IH.
  Qed.
End OneSequence.
