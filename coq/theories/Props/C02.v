(* C02 — decoding untrusted bytes always returns.
   The model decoder is a total function (Coq accepts it), so "returns a term or an error value" is by construction
   once fuel exhaustion — the one artificial outcome — is shown unreachable.  Process-level effects (stack depth,
   allocator requests) are measured on the implementation by the harness; see DESIGN.md. *)
From EDP Require Import Base.Bytes Term.Term Gen.Tags Gen.Limits Gen.DecoderArms Codec.Decode Codec.DecodeFacts Gen.Prealloc Codec.PreallocFacts Order.Cmp Codec.OffsetFacts Codec.SizeFacts Codec.DepthFacts.

(* for every byte string, every oracle and either arm table, decode yields a term, a decode error or trailing data:
   never the model's out-of-fuel value *)
Theorem C02_decode_total : forall cfg data, decode cfg data <> DErr KFuel.
Proof. exact decode_nofuel. Qed.

(* the parser behind decode_with_trailing / decode_raw_term / decode_with_cache *)
Theorem C02_parse_total : forall cfg f bs, (length bs < f)%nat -> parse cfg f bs <> PErr KFuel.
Proof. exact parse_nofuel. Qed.

(* every successful parse consumes at least the tag byte: nested parsers make progress, so sequence loops whose
   count comes from the wire are bounded by the input length *)
Theorem C02_progress : forall cfg f bs t r, parse cfg f bs = POk t r -> (length r < length bs)%nat.
Proof. intros cfg f bs t r. exact (parse_consumes cfg f bs t r). Qed.

Theorem C02_sequence_bounded : forall cfg f k n bs, (length bs < k)%nat ->
  (forall x, (length x <= length bs)%nat -> parse cfg f x <> PErr KFuel) ->
  seq_with (parse cfg f) k n bs <> SErr KFuel.
Proof. intros cfg f k n bs. exact (seq_with_nofuel (parse cfg f) k (parse_consumes cfg f) n bs). Qed.

(* more fuel never changes an answer *)
Theorem C02_fuel_irrelevant : forall cfg f g bs t r, (f <= g)%nat -> parse cfg f bs = POk t r -> parse cfg g bs = POk t r.
Proof. intros cfg f g bs t r H. exact (parse_mono cfg f g H bs t r). Qed.

(* the allocations made before a sequence is read: every `with_capacity` site of the decoder, as the translator found it
   in the source, is a constant or the announced count capped by the bytes that are left (Gen/Prealloc.v) *)
Theorem C02_preallocations_capped : forallb (fun s => snd s) prealloc_sites = true.
Proof. exact preallocations_capped. Qed.

Theorem C02_preallocations_listed : (8 <= length prealloc_sites)%nat.
Proof. exact preallocations_listed. Qed.

(* memory in proportion to the input: every node of the term the decoder returns is paid for by a byte it consumed —
   for every input, every fuel and every arm table without the compressed arm (whose nested term is read from another
   buffer); map insertion is the library's (it never builds more than it is given) *)
Theorem C02_result_size_bounded_by_input : forall cfg arms f bs t r, d_kinsert cfg = map_insert ->
  parse (with_arms cfg (uncompressed arms)) f bs = POk t r -> (nodes t + length r <= length bs)%nat.
Proof.
  intros cfg arms f bs t r Hins. exact (parse_sized (with_arms cfg (uncompressed arms)) Hins (uncompressed_ok arms) f bs t r).
Qed.

(* the compressed arm: the term is read from the inflated buffer, whose length does not exceed the size the input
   declares, and the declared size is capped before anything is inflated into it *)
Theorem C02_inflated_within_declared : forall cfg self r0 t r, parse_body cfg self 25 r0 = POk t r ->
  exists usz rest plain consumed r',
    rd 4 r0 = Some (usz, rest) /\ usz <= max_binary_size /\ d_inflate cfg rest = Some (plain, consumed) /\
    len plain <= usz /\ self plain = POk t r'.
Proof. exact compressed_within_declared. Qed.

Theorem C02_compressed_message_size : forall cfg f r0 t r, d_kinsert cfg = map_insert ->
  parse_body cfg (parse (with_arms cfg (uncompressed (d_arms cfg))) f) 25 r0 = POk t r ->
  exists usz, N.of_nat (nodes t) <= usz /\ usz <= max_binary_size.
Proof. exact compressed_message_sized. Qed.

Example C02_size_example :
  nodes (TTuple [TList [TInt 1; TInt 2]; TMap [(TAtom [97], TBin [1; 2; 3])]; TNil]) = 8%nat.
Proof. reflexivity. Qed.

(* nesting depth (one stack frame of the recursive reader per level): bounded by the bytes consumed ... *)
Theorem C02_depth_bounded_by_input : forall cfg arms f bs t r, d_kinsert cfg = map_insert ->
  parse (with_arms cfg (uncompressed arms)) f bs = POk t r -> (depth t + length r <= length bs)%nat.
Proof.
  intros cfg arms f bs t r Hins. exact (depth_bounded_by_input (with_arms cfg (uncompressed arms)) Hins (uncompressed_ok arms) f bs t r).
Qed.

(* ... and nothing smaller: for every n there is an input of 2n+1 bytes that the reader accepts and whose result nests
   n+1 deep.  The recorded finding C02-recursion (no depth limit: 20000 levels in 40 KB overflow a 2 MiB stack) is this
   theorem met with a finite stack; the check replays it on the implementation *)
Theorem C02_refuted_bounded_depth : forall cfg, d_arms cfg = owned_arms -> forall n,
  exists bs t, length bs = (2 * n + 1)%nat /\ parse cfg (2 * n + 2) bs = POk t [] /\ depth t = S n.
Proof. exact depth_grows_with_input. Qed.

Check C02_decode_total : forall cfg data, decode cfg data <> DErr KFuel.
