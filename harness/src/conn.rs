//! A real `Connection` against a scripted peer (C06 receive path, C07 send path).
//! The peer and the EPMD stand-in listen on a loopback address of this process (127.0.66.x); the EPMD port is the
//! fixed 4369, the host is configurable per connection, so no hook is needed.  The peer's side of the handshake is
//! written here from the protocol description, not with the library's own handshake code.
use crate::control::show as show_control;
use crate::termio::{Toks, read_term, term_str};
use crate::util::{hex, unhex};
use edp_client::connection::{Connection, ConnectionConfig};
use edp_client::errors::Error;
use edp_client::flags::DistributionFlags;
use erltf::OwnedTerm;
use md5::{Digest, Md5};
use std::sync::atomic::{AtomicU16, Ordering};
use std::sync::{Arc, Mutex, OnceLock};
use std::time::Duration;
use tokio::io::{AsyncReadExt, AsyncWriteExt};
use tokio::net::{TcpListener, TcpStream};

pub const COOKIE: &str = "verifcookie";
static PEER_PORT: AtomicU16 = AtomicU16::new(0);

pub fn runtime() -> &'static tokio::runtime::Runtime {
    static RT: OnceLock<tokio::runtime::Runtime> = OnceLock::new();
    RT.get_or_init(|| tokio::runtime::Builder::new_current_thread().enable_all().build().expect("runtime"))
}

/// loopback address of this process, with the EPMD stand-in running on it
pub fn host() -> &'static str {
    static HOST: OnceLock<String> = OnceLock::new();
    HOST.get_or_init(|| {
        let rt = runtime();
        let pid = std::process::id();
        for k in 0..200u32 {
            let h = format!("127.0.{}.{}", 66 + (pid / 250 + k / 250) % 100, 2 + (pid + k) % 250);
            if let Ok(l) = rt.block_on(TcpListener::bind((h.as_str(), 4369))) {
                rt.spawn(epmd(l));
                return h;
            }
        }
        panic!("no loopback address free for the EPMD stand-in");
    })
}

/// EPMD stand-in: answers every PORT_PLEASE2_REQ with the current peer port
async fn epmd(l: TcpListener) {
    loop {
        let Ok((mut s, _)) = l.accept().await else { continue };
        tokio::spawn(async move {
            let Ok(len) = s.read_u16().await else { return };
            let mut req = vec![0u8; len as usize];
            if s.read_exact(&mut req).await.is_err() || req.first() != Some(&122) {
                return;
            }
            let name = &req[1..];
            let mut resp = vec![119u8, 0];
            resp.extend_from_slice(&PEER_PORT.load(Ordering::SeqCst).to_be_bytes());
            resp.extend_from_slice(&[77, 0, 0, 6, 0, 5]);
            resp.extend_from_slice(&(name.len() as u16).to_be_bytes());
            resp.extend_from_slice(name);
            resp.extend_from_slice(&[0, 0]);
            let _ = s.write_all(&resp).await;
            let _ = s.flush().await;
        });
    }
}

async fn read_hs_frame(s: &mut TcpStream) -> std::io::Result<Vec<u8>> {
    let len = s.read_u16().await?;
    let mut b = vec![0u8; len as usize];
    s.read_exact(&mut b).await?;
    Ok(b)
}

fn digest(cookie: &str, challenge: u32) -> [u8; 16] {
    let mut h = Md5::new();
    h.update(format!("{cookie}{challenge}").as_bytes());
    h.finalize().into()
}

/// the accepting side of the distribution handshake (OTP 23+), as the client of this library drives it
/// `early`: bytes the peer sends right behind its ack, in the same write (a real node may start talking at once)
pub async fn peer_handshake(s: &mut TcpStream, peer_flags: u64, name: &str, early: &[u8]) -> std::io::Result<()> {
    let _name = read_hs_frame(s).await?; // 'n' / 'N' send_name
    s.write_all(&[0, 3, b's', b'o', b'k']).await?;
    s.flush().await?;
    let _complement = read_hs_frame(s).await?; // 'c'
    let my_challenge: u32 = 0x5eed_c0de;
    let mut ch = vec![b'N'];
    ch.extend_from_slice(&peer_flags.to_be_bytes());
    ch.extend_from_slice(&my_challenge.to_be_bytes());
    ch.extend_from_slice(&1u32.to_be_bytes());
    ch.extend_from_slice(&(name.len() as u16).to_be_bytes());
    ch.extend_from_slice(name.as_bytes());
    s.write_all(&(ch.len() as u16).to_be_bytes()).await?;
    s.write_all(&ch).await?;
    s.flush().await?;
    let reply = read_hs_frame(s).await?; // 'r' challenge(4) digest(16)
    if reply.len() != 21 || reply[0] != b'r' || reply[5..] != digest(COOKIE, my_challenge) {
        return Err(std::io::Error::other("bad challenge reply"));
    }
    let theirs = u32::from_be_bytes([reply[1], reply[2], reply[3], reply[4]]);
    let mut ack = vec![0, 17, b'a'];
    ack.extend_from_slice(&digest(COOKIE, theirs));
    ack.extend_from_slice(early);
    s.write_all(&ack).await?;
    s.flush().await
}

pub fn err_class(e: &Error) -> &'static str {
    match e {
        Error::Io(_) | Error::ConnectionClosed | Error::UnexpectedEof { .. } => "eof",
        Error::Timeout(_) => "timeout",
        Error::MessageTooLarge { .. } => "toolarge",
        Error::InvalidState { .. } | Error::InvalidStateMessage(_) | Error::InvalidStateTransition { .. } => "state",
        _ => "err",
    }
}

enum Cmd {
    Write(Vec<Vec<u8>>, Option<tokio::sync::oneshot::Sender<()>>),
    Close,
}

fn pid_of(t: OwnedTerm) -> erltf::types::ExternalPid {
    match t {
        OwnedTerm::Pid(p) => p,
        _ => panic!("pid expected"),
    }
}
fn ref_of(t: OwnedTerm) -> erltf::types::ExternalReference {
    match t {
        OwnedTerm::Reference(r) => r,
        _ => panic!("reference expected"),
    }
}

async fn do_send(conn: &mut Connection, t: &mut Toks<'_>) -> String {
    let r = match t.next() {
        "send" => {
            let to = pid_of(read_term(t));
            let msg = read_term(t);
            conn.send_message(to.clone(), to, msg).await
        }
        "regsend" => {
            let from = pid_of(read_term(t));
            let name = erltf::types::Atom::new(String::from_utf8(unhex(t.next())).expect("utf8"));
            let msg = read_term(t);
            conn.send_to_name(from, name, msg).await
        }
        "link" => {
            let a = pid_of(read_term(t));
            let b = pid_of(read_term(t));
            conn.link(&a, &b).await
        }
        "unlink" => {
            let a = pid_of(read_term(t));
            let b = pid_of(read_term(t));
            let id: u64 = t.num();
            conn.unlink(&a, &b, id).await
        }
        "monitor" => {
            let a = pid_of(read_term(t));
            let b = pid_of(read_term(t));
            let r = ref_of(read_term(t));
            conn.monitor(&a, &b, &r).await
        }
        "demonitor" => {
            let a = pid_of(read_term(t));
            let b = pid_of(read_term(t));
            let r = ref_of(read_term(t));
            conn.demonitor(&a, &b, &r).await
        }
        other => panic!("bad send op {other}"),
    };
    match r {
        Ok(()) => "ok".to_string(),
        Err(e) => format!("err {}", err_class(&e)),
    }
}

async fn run_script(cfg_flags: u64, peer_flags: u64, connect: bool, early: Vec<u8>, timeout_ms: Option<u64>, steps: Vec<String>) -> String {
    let host = host().to_string();
    let mut out: Vec<String> = Vec::new();
    let config = ConnectionConfig::new(format!("client@{host}"), format!("peer@{host}"), COOKIE)
        .with_epmd_host(host.clone())
        .with_flags(DistributionFlags::new(cfg_flags))
        .with_timeout(Duration::from_millis(timeout_ms.unwrap_or(3000)));
    let mut conn = Connection::new(config);
    let wrote: Arc<Mutex<Vec<u8>>> = Arc::new(Mutex::new(Vec::new()));
    let (tx, mut rx) = tokio::sync::mpsc::unbounded_channel::<Cmd>();
    let mut peer_task = None;
    if connect {
        let listener = TcpListener::bind((host.as_str(), 0)).await.expect("bind peer");
        PEER_PORT.store(listener.local_addr().unwrap().port(), Ordering::SeqCst);
        let wrote2 = wrote.clone();
        let peer_name = format!("peer@{host}");
        peer_task = Some(tokio::spawn(async move {
            let (mut s, _) = listener.accept().await.expect("accept");
            if peer_handshake(&mut s, peer_flags, &peer_name, &early).await.is_err() {
                return;
            }
            let (mut rd, mut wr) = s.into_split();
            let reader = tokio::spawn(async move {
                let mut buf = vec![0u8; 65536];
                loop {
                    match rd.read(&mut buf).await {
                        Ok(0) | Err(_) => break,
                        Ok(n) => wrote2.lock().unwrap().extend_from_slice(&buf[..n]),
                    }
                }
            });
            while let Some(cmd) = rx.recv().await {
                match cmd {
                    Cmd::Write(chunks, ack) => {
                        for c in chunks {
                            if wr.write_all(&c).await.is_err() {
                                break;
                            }
                            let _ = wr.flush().await;
                            tokio::task::yield_now().await;
                        }
                        if let Some(a) = ack {
                            let _ = a.send(());
                        }
                    }
                    Cmd::Close => {
                        let _ = wr.shutdown().await;
                    }
                }
            }
            drop(wr);
            let _ = reader.await;
        }));
        match conn.connect().await {
            Ok(()) => {}
            Err(e) => return format!("connect-err {}", err_class(&e)),
        }
    }
    let mut half: Option<tokio::net::tcp::OwnedReadHalf> = None;
    for step in &steps {
        let mut t = Toks::new(step);
        match t.next() {
            "P" => {
                let chunks: Vec<Vec<u8>> = t.next().split(',').map(unhex).collect();
                if timeout_ms.is_some() {
                    // paced histories (short receive timeout): the bytes are on the socket before the next step
                    let (a, done) = tokio::sync::oneshot::channel();
                    let _ = tx.send(Cmd::Write(chunks, Some(a)));
                    let _ = done.await;
                    tokio::time::sleep(Duration::from_millis(20)).await;
                } else {
                    let _ = tx.send(Cmd::Write(chunks, None));
                }
            }
            "X" => {
                let _ = tx.send(Cmd::Close);
            }
            "R" => match conn.receive_message().await {
                Ok((m, payload)) => out.push(format!("ok {} | {}", show_control(&m), payload.map_or("-".to_string(), |p| term_str(&p)))),
                Err(e) => out.push(err_class(&e).to_string()),
            },
            "H" => {
                // the stream read through the connection's read half, as the node's receiver task does
                if half.is_none() {
                    half = conn.take_read_half();
                }
                match half.as_mut() {
                    None => out.push("state".to_string()),
                    Some(h) => match Connection::receive_message_from_read_half(h, conn.timeout()).await {
                        Ok((m, payload)) => out.push(format!("ok {} | {}", show_control(&m), payload.map_or("-".to_string(), |p| term_str(&p)))),
                        Err(e) => out.push(err_class(&e).to_string()),
                    },
                }
            }
            "Q" => {
                let data = unhex(t.next());
                out.push(match conn.send_raw(&data).await {
                    Ok(()) => "ok".to_string(),
                    Err(e) => format!("err {}", err_class(&e)),
                });
            }
            "W" => match conn.receive_raw().await {
                Ok(b) => out.push(format!("raw {}", hex(&b))),
                Err(e) => out.push(err_class(&e).to_string()),
            },
            "S" => out.push(do_send(&mut conn, &mut t).await),
            other => panic!("bad step {other}"),
        }
    }
    let _ = conn.close().await;
    drop(conn);
    drop(tx);
    if let Some(p) = peer_task {
        let _ = tokio::time::timeout(Duration::from_millis(3000), p).await;
    }
    out.push(format!("wrote={}", hex(&wrote.lock().unwrap())));
    out.join(" ;; ")
}

/// `conn <cfg flags> <peer flags> <0|1 connect> [E<hex>] [T<ms>] ;; step ;; step ...`
pub fn run_case(line: &str) -> String {
    let mut parts = line.split(" ;; ");
    let head = parts.next().expect("head");
    let mut t = Toks::new(head);
    assert_eq!(t.next(), "conn");
    let cfg_flags: u64 = t.num();
    let peer_flags: u64 = t.num();
    let connect = t.next() == "1";
    // optional: E<hex> = bytes the peer sends in one write with its ack; T<ms> = the connection's timeout (default 3000)
    let mut early = Vec::new();
    let mut timeout_ms = None;
    while !t.peek_done() {
        let tok = t.next();
        if let Some(ms) = tok.strip_prefix('T') {
            timeout_ms = Some(ms.parse().expect("timeout ms"));
        } else {
            early = unhex(tok.trim_start_matches('E'));
        }
    }
    let steps: Vec<String> = parts.map(|s| s.to_string()).collect();
    let _ = host(); // binds the EPMD stand-in outside the runtime's block_on
    runtime().block_on(run_script(cfg_flags, peer_flags, connect, early, timeout_ms, steps))
}


/// domain `hsk` (C04 over the socket): `hsk <namehex> <cookiehex> <flags> <creation> <challenge> ;; action ;; ...`
/// The peer executes its actions right after accepting: `W<hex>` write these bytes, `Z<ms>` pause, `X` close the
/// socket; without `X` it keeps the socket open until the client is done.  The client connects with a 400 ms timeout.
/// Output: `res=<ok|e:kind|eof|timeout> state=<state> connected=<0|1> send=<ok|err class> after=<0|some> wrote=<hex>`
pub fn run_hsk(line: &str) -> String {
    let mut parts = line.split(" ;; ");
    let head = parts.next().expect("head");
    let mut t = Toks::new(head);
    assert_eq!(t.next(), "hsk");
    let name = String::from_utf8(unhex(t.next())).expect("name");
    let cookie = String::from_utf8(unhex(t.next())).expect("cookie");
    let flags: u64 = t.num();
    let creation: u32 = t.num();
    let challenge: u32 = t.num();
    let actions: Vec<String> = parts.map(|s| s.to_string()).collect();
    let host = host().to_string();
    runtime().block_on(async move {
        let listener = TcpListener::bind((host.as_str(), 0)).await.expect("bind peer");
        PEER_PORT.store(listener.local_addr().unwrap().port(), Ordering::SeqCst);
        let got: Arc<Mutex<Vec<u8>>> = Arc::new(Mutex::new(Vec::new()));
        let got2 = got.clone();
        let (done_tx, done_rx) = tokio::sync::oneshot::channel::<()>();
        let peer = tokio::spawn(async move {
            let Ok((s, _)) = listener.accept().await else { return };
            let (mut rd, mut wr) = s.into_split();
            let reader = tokio::spawn(async move {
                let mut buf = vec![0u8; 65536];
                loop {
                    match rd.read(&mut buf).await {
                        Ok(0) | Err(_) => break,
                        Ok(n) => got2.lock().unwrap().extend_from_slice(&buf[..n]),
                    }
                }
            });
            let mut closed = false;
            for a in &actions {
                match a.as_bytes().first() {
                    Some(b'W') => {
                        if wr.write_all(&unhex(&a[1..])).await.is_err() {
                            break;
                        }
                        let _ = wr.flush().await;
                    }
                    Some(b'Z') => tokio::time::sleep(Duration::from_millis(a[1..].parse().expect("ms"))).await,
                    Some(b'X') => {
                        closed = true;
                        break;
                    }
                    _ => panic!("bad peer action {a}"),
                }
            }
            if closed {
                // end of the peer's stream (FIN); it keeps reading, so what the client still writes is recorded
                let _ = wr.shutdown().await;
            }
            let _ = done_rx.await;
            drop(wr);
            let _ = tokio::time::timeout(Duration::from_millis(500), reader).await;
        });
        let config = ConnectionConfig::new(name, format!("peer@{host}"), cookie)
            .with_epmd_host(host.clone())
            .with_flags(DistributionFlags::new(flags))
            .with_creation(edp_client::types::Creation(creation))
            .with_timeout(Duration::from_millis(400));
        let mut conn = Connection::new(config);
        edp_client::digest::verif::clear_challenges();
        edp_client::digest::verif::push_challenge(challenge);
        let t0 = std::time::Instant::now();
        let r = tokio::time::timeout(Duration::from_millis(5000), conn.connect()).await;
        let elapsed = t0.elapsed();
        edp_client::digest::verif::clear_challenges();
        let res = match &r {
            Err(_) => "HUNG".to_string(),
            Ok(Ok(())) => "ok".to_string(),
            Ok(Err(e)) => match e {
                Error::Io(_) | Error::ConnectionClosed | Error::UnexpectedEof { .. } => "eof".to_string(),
                Error::Timeout(_) => "timeout".to_string(),
                Error::InvalidStateTransition { .. } => "e:trans".to_string(),
                Error::NodeNameTooLong { .. } => "e:namelen".to_string(),
                Error::InvalidHandshakeMessage(_) => "e:invalid".to_string(),
                Error::ConnectionRefused { .. } => "e:refused".to_string(),
                Error::InvalidStateMessage(_) => "e:nochallenge".to_string(),
                Error::AuthenticationFailed => "e:auth".to_string(),
                Error::MessageTooLarge { .. } => "toolarge".to_string(),
                _ => "e:other".to_string(),
            },
        };
        // small writes may sit in the client's socket until the previous one is acknowledged (Nagle): wait until the
        // number of bytes the peer has seen stops changing
        async fn settle_bytes(got: &Arc<Mutex<Vec<u8>>>) {
            let mut last = usize::MAX;
            let mut same = 0;
            for _ in 0..60 {
                tokio::time::sleep(Duration::from_millis(25)).await;
                let n = got.lock().unwrap().len();
                if n == last {
                    same += 1;
                    if same >= 4 {
                        return;
                    }
                } else {
                    same = 0;
                    last = n;
                }
            }
        }
        settle_bytes(&got).await;
        let wrote = got.lock().unwrap().clone();
        let to = erltf::types::ExternalPid::new(erltf::types::Atom::new(format!("peer@{host}")), 1, 0, 1);
        let send = match conn.send_message(to.clone(), to, OwnedTerm::Atom(erltf::types::Atom::new("hello"))).await {
            Ok(()) => "ok".to_string(),
            Err(e) => format!("err {}", err_class(&e)),
        };
        settle_bytes(&got).await;
        let after = got.lock().unwrap().len() - wrote.len();
        let out = format!(
            "res={} state={} connected={} send={} after={} slow={} wrote={}",
            res,
            conn.state().as_str(),
            if conn.is_connected() { 1 } else { 0 },
            send,
            if after == 0 { "0" } else { "some" },
            if elapsed > Duration::from_millis(2500) { 1 } else { 0 },
            hex(&wrote)
        );
        let _ = conn.close().await;
        let _ = done_tx.send(());
        let _ = tokio::time::timeout(Duration::from_millis(1000), peer).await;
        out
    })
}
