"""C02 — decoding untrusted bytes always returns, with bounded stack and memory. Domain `codec`."""
import struct, zlib
import etf, termgen, bytesgen

ID = "C02"
GEN_FILES = ["DecoderArms.v", "Tags.v", "Limits.v", "Prealloc.v"]
RULE = ("byte strings fed to every decoding entry point (decode, decode_borrowed, decode_with_trailing, decode_raw_term, decode_with_cache, "
        "decode_with_atom_cache, decode_fragment_header, decode_fragment_cont) on a 2 MiB stack under a counting allocator: every tag x boundary values of its count field with 0..k bytes "
        "behind it, nesting chains through every container tag at depths 10..200000, truncation at every offset of valid encodings, bit "
        "flips/splices, compressed sections that inflate to less/equal/more than declared, random bytes; distinct = distinct (entry point, bytes); "
        "non-trivial = longer than 3 bytes")
ASSUMPTIONS = ["stack: 2 MiB thread (tokio worker default); memory: largest single request <= 128*(input+inflated)+64KiB and total requested <= 2000*(input+inflated)+1MiB",
               "process-level effects (abort, SIGSEGV) are observed by the harness in a child process, not derived in Coq"]
OPS2 = ["dec2", "decb2", "dect2", "deca2", "decf2", "decr2", "decc2", "decg2"]


def inflated_of(case):
    t = case.split()
    tot = 0
    i = 2
    while i + 3 < len(t) + 1 and i < len(t):
        if t[i] == "Z":
            tot += len(t[i + 2].replace(".", "")) // 2
            i += 4
        else:
            i += 1
    return tot


def depth_of(case):
    for w in case.split()[2:]:
        if w.startswith("D"):
            return int(w[1:])
    return 0


def oracle(case, impl):
    op = case.split()[0]
    d = depth_of(case)
    if impl.startswith(("CRASH", "TIMEOUT")) or "PANIC" in impl:
        if impl.startswith("CRASH") and d >= 2000:
            return ("known", "C02-recursion")
        return ("violation", "%s did not return a value: %s" % (op, impl[:60]))
    if op in OPS2:
        res, _, meas = impl.partition(" ; ")
        m = dict(x.split("=") for x in meas.split())
        n = int(m["len"]) + inflated_of(case)
        if int(m["maxreq"]) > 128 * n + 65536:
            return ("violation", "a single allocation of %s bytes was requested for %d bytes of input (+inflated)" % (m["maxreq"], n))
        if int(m["total"]) > 2000 * n + (1 << 20):
            return ("violation", "%s bytes requested in total for %d bytes of input (+inflated)" % (m["total"], n))
    return None


def oracle_for(_d):
    return oracle


def run(ctx):
    rng = ctx.rng
    datas = []     # (bytes, depth)
    for b in bytesgen.count_bombs():
        datas.append((b, 0))
    for b in bytesgen.numeric_key_maps():
        datas.append((b, 0))
    for b in bytesgen.late_bombs():
        datas.append((b, 0))
    depths = [10, 100, 1000, 20000, 200000] if ctx.tier == "quick" else [10, 100, 500, 1000, 1500, 20000, 200000, 1000000]
    for kind, d, b in bytesgen.nesting_chains(depths):
        datas.append((b, d))
    # compressed sections: declared < = > actual, bombs
    for plain in (bytes([106]), bytes([109, 0, 0, 0, 3, 1, 2, 3]), bytes([108, 0, 0, 0, 1, 97, 1, 106]), bytes([109]) + struct.pack(">I", 300000) + bytes(300000)):
        z = zlib.compress(plain)
        for declared in (0, 1, len(plain) - 1, len(plain), len(plain) + 1, 2 * len(plain), 99999999, 100000000, 100000001, 2**32 - 1):
            if declared < 0:
                continue
            datas.append((bytes([131, 80]) + struct.pack(">I", declared & 0xffffffff) + z, 0))
            datas.append((bytes([131, 104, 1, 80]) + struct.pack(">I", declared & 0xffffffff) + z + b"\x61", 0))
    # long deflated streams (moderately compressible data), declared size exact / one short / one long
    for n, alphabet in ((60000, 40), (200000, 16)):
        blob = bytes(rng.randrange(alphabet) for _ in range(n))
        plain = bytes([109]) + struct.pack(">I", n) + blob
        z = zlib.compress(plain)
        for declared in (len(plain), len(plain) - 1, len(plain) + 1):
            datas.append((bytes([131, 80]) + struct.pack(">I", declared) + z, 0))
    base = [d for _, d in bytesgen.valid_encodings(rng, ctx.budget(250, 3000), canonical_share=0.5) if len(d) < 400]
    for d in base:
        datas.append((d, 0))
        for cut in range(1, len(d)) if len(d) < 60 else sorted(set(rng.randrange(1, len(d)) for _ in range(12))):
            datas.append((d[:cut], 0))
        for m in bytesgen.mutations(rng, d, 4):
            datas.append((m, 0))
    for _ in range(ctx.budget(500, 20000)):
        datas.append((bytes([131]) + bytes(rng.choice([rng.randrange(256), rng.choice([104, 105, 108, 116, 109, 112, 80, 121, 88, 90, 107, 110, 111])]) for _ in range(rng.randrange(0, 24))), 0))
    # fragment / dist headers
    for _ in range(ctx.budget(200, 3000)):
        hdr = bytes([131, rng.choice([69, 68, 70])]) + bytes(rng.randrange(256) for _ in range(rng.choice([0, 1, 8, 16, 17, 18, 30])))
        datas.append((hdr, 0))
    cases2 = []
    plain_cases = []
    only = [b for b, d in datas if d == 0 and len(b) < 2000]
    ztcases = bytesgen.attach_ztabs("X", [b for b, _ in datas])
    for (b, d), zc in zip(datas, ztcases):
        tail = zc[2:].split(" ", 1)[1] if " " in zc[2:] else ""
        hexs = b.hex() if b else "."
        ops = OPS2 if d == 0 else ["dec2", "decb2"]
        if len(b) > 100000 and d == 0:
            ops = ["dec2", "decb2"]
        for op in ops:
            ztail = (" " + tail.split(" ", 1)[1]) if " Z " in (" " + tail) and False else ""
            z = zc.split(" ", 2)[2] if zc.count(" ") >= 2 else ""
            cases2.append("%s %s%s%s" % (op, hexs, (" " + z) if z else "", (" D%d" % d) if d else ""))
        if d == 0 and len(b) < 5000:
            z = zc.split(" ", 2)[2] if zc.count(" ") >= 2 else ""
            plain_cases.append("dec %s%s" % (hexs, (" " + z) if z else ""))
            plain_cases.append("dect %s%s" % (hexs, (" " + z) if z else ""))

    def nontrivial(c, impl):
        return c.split(" D")[0] if len(c.split()[1]) > 6 else None

    def classify(c, impl):
        head = impl.split(" ; ")[0]
        return ["op:" + c.split()[0], "outcome:" + " ".join(head.split()[:2])[:20]]
    # resource/return checks on the implementation (no model line to compare: output carries measurements)
    deep = [c for c in cases2 if depth_of(c) >= 2000]
    shallow = [c for c in cases2 if depth_of(c) < 2000]
    ctx.diff_domain("codec", shallow, oracle=oracle, nontrivial=nontrivial, classify=classify, compare=lambda c, a, b: True)
    # inputs expected to kill the process run one per process
    import vlib
    impl = []
    for c in deep:
        impl.append(vlib.run_lines(vlib.HARNESS_BIN, "codec", [c], shards=1)[0])
    for c, a in zip(deep, impl):
        ctx.evaluations += 1
        ctx.distinct.add(("codec", c[:80]))
        for k in classify(c, a):
            ctx.hist[k] += 1
        r = oracle(c, a)
        if r is not None:
            if r[0] == "known":
                ctx.known_hits[r[1]] += 1
            else:
                ctx.violations.append(("codec", c, a, r[1]))
    # outcome kinds of the same inputs against the model
    ctx.diff_domain("codec", plain_cases, oracle=oracle, nontrivial=nontrivial, classify=classify)
