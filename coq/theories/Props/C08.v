(* C08 — control messages parse and serialise losslessly and use the protocol's numbering.
   The model is generic over the table extracted from control.rs on every run (Gen/ControlTable.v): the enum
   discriminants, the TryFrom<u8> arms, and for every arm of from_term / to_term / into_term the arity guard and the
   field order.  The theorems are proved for every table that passes the decidable check `table_ok`; the per-run
   obligations are `table_ok control_table = true` and the comparison with the protocol's own table. *)
From EDP Require Import Base.Bytes Term.Term Term.Value Term.Access Gen.ControlTable Dist.Control Dist.ControlSpec Dist.ControlFacts Term.AccessFacts.

Theorem C08_table_ok : table_ok control_table = true.
Proof. vm_compute. reflexivity. Qed.

(* the tag element is read as an integer whichever way it is encoded (as_integer): parsing depends on its value only *)
Lemma from_term_tag : forall tbl x z r, as_integer x = Some z ->
  from_term tbl (TTuple (x :: r)) = from_term tbl (TTuple (TInt z :: r)).
Proof. intros tbl x z r H. unfold from_term. rewrite H. reflexivity. Qed.

(* every tuple headed by an integer 0..255 parses, the only exception being a bad unlink id *)
Theorem C08_parse_total : forall tbl x z fs, as_integer x = Some z -> (0 <= z <= 255)%Z ->
  (exists m, from_term tbl (TTuple (x :: fs)) = COk m) \/ from_term tbl (TTuple (x :: fs)) = CErr EUnlinkId.
Proof.
  intros tbl x z fs Hx Hz. rewrite (from_term_tag tbl x z fs Hx). unfold from_term, as_integer, from_term_c.
  replace ((0 <=? z) && (z <=? 255))%Z with true by (symmetry; apply andb_true_intro; split; apply Z.leb_le; lia).
  destruct (find_entry tbl (Z.to_N z) (len (TInt z :: fs))) as [e|]; [|left; eauto].
  destruct (build_fields e (TInt z :: fs)); [left; eauto|right; reflexivity].
Qed.

(* anything else is rejected with an error *)
Theorem C08_rejects_others : forall tbl t,
  (forall els, t <> TTuple els) \/ t = TTuple [] \/
  (exists x r, t = TTuple (x :: r) /\ as_integer x = None) \/
  (exists x z r, t = TTuple (x :: r) /\ as_integer x = Some z /\ ~ (0 <= z <= 255)%Z) ->
  exists e, from_term tbl t = CErr e.
Proof.
  intros tbl t [H|[->|[(x & r & -> & Hx)|(x & z & r & -> & Hx & Hz)]]].
  - destruct t; try (eexists; reflexivity). exfalso. now apply (H l).
  - eexists; reflexivity.
  - unfold from_term. rewrite Hx. eexists; reflexivity.
  - rewrite (from_term_tag tbl x z r Hx). unfold from_term, as_integer, from_term_c.
    replace ((0 <=? z) && (z <=? 255))%Z with false; [eexists; reflexivity|].
    symmetry. apply andb_false_iff. destruct (Z_lt_le_dec z 0); [left; apply Z.leb_gt; lia|right; apply Z.leb_gt; lia].
Qed.

(* lossless, known or unknown tag, any arity: serialising the parsed message gives back the same tuple — element for
   element, with the tag as the plain integer it denotes; for the unlink operations the id comes back in its
   canonical integer form, which denotes the same integer *)
Theorem C08_lossless : forall els m, from_term control_table (TTuple els) = COk m ->
  exists x z, els = x :: tl els /\ as_integer x = Some z /\ (0 <= z <= 255)%Z /\
    let els' := TInt z :: tl els in
    match m with
    | CGeneric ty fs => ty = Z.to_N z /\ fs = tl els /\ to_term control_table m = TTuple els' /\ into_term control_table m = TTuple els'
    | CMsg v fs => exists e, In e control_table /\ ce_u8 e = Z.to_N z /\ ce_arity e = len els /\ v = ce_variant e /\
                    to_term control_table m = TTuple (canon_els e els') /\ into_term control_table m = TTuple (canon_els e els')
    end.
Proof.
  intros els m H. destruct els as [|x r]; [discriminate H|]. unfold from_term in H.
  destruct (as_integer x) as [z|] eqn:Ex; [|discriminate H].
  destruct (lossless control_table C08_table_ok _ _ H) as (z' & Hz' & Hr & Hm).
  cbn [tl] in Hz'. inversion Hz'; subst z'. exists x, z. split; [reflexivity|]. split; [exact Ex|]. split; [exact Hr|].
  cbn zeta. cbn [tl] in *. destruct m.
  - destruct Hm as (e & H1 & H2 & H3 & H4 & H5 & H6). exists e.
    split; [exact H1|]. split; [exact H2|]. split; [exact H3|]. split; [exact H4|]. split; [exact H5|exact H6].
  - exact Hm.
Qed.

(* the tag read by as_integer denotes the same integer as the element it was read from *)
Theorem C08_tag_same_value : forall x z, as_integer x = Some z -> denote x = denote (TInt z).
Proof. exact as_integer_value. Qed.

Theorem C08_unlink_id_same_value : forall t id, unlink_id_of t = Some id -> id < 18446744073709551616 ->
  denote (unlink_id_term id) = denote t.
Proof. exact unlink_id_value. Qed.

(* the borrowing and the consuming serialiser agree on every parsed message *)
Theorem C08_to_eq_into : forall els m, from_term control_table (TTuple els) = COk m ->
  to_term control_table m = into_term control_table m.
Proof.
  intros els m H. destruct (C08_lossless els m H) as (x & z & _ & _ & _ & Hm). cbn zeta in Hm. destruct m.
  - destruct Hm as (e & _ & _ & _ & _ & H1 & H2). congruence.
  - destruct Hm as (_ & _ & H1 & H2). congruence.
Qed.

(* numbering: every operation of the protocol's table has an arm with its tag, arity and field order *)
Definition row_matches (row : N * N * list N) : bool :=
  let '(tag, arity, roles) := row in
  existsb (fun e => (ce_u8 e =? tag) && (ce_to_tag e =? tag) && (ce_arity e =? arity) && list_eqb (ce_roles e) roles) control_table.

(* SPAWN_REQUEST / SPAWN_REQUEST_TT carry the argument list inside the control tuple (arity 7 / 8 instead of the
   protocol's 6 / 7): recorded finding C08-spawn-request-arity *)
Definition known_spawn (row : N * N * list N) : bool := let '(tag, _, _) := row in (tag =? 29) || (tag =? 30).

Theorem C08_numbering : forallb (fun row => row_matches row || known_spawn row) protocol_table = true.
Proof. vm_compute. reflexivity. Qed.

Theorem C08_refuted_spawn_request_arity :
  row_matches (29, 6, [10; 11; 12; 13; 15]) = false /\ row_matches (30, 7, [10; 11; 12; 13; 15; 9]) = false.
Proof. split; vm_compute; reflexivity. Qed.

(* no arm uses a tag the protocol does not define *)
Theorem C08_no_foreign_tags :
  forallb (fun e => existsb (fun row => let '(tag, _, _) := row in tag =? ce_u8 e) protocol_table) control_table = true.
Proof. vm_compute. reflexivity. Qed.

Example C08_example :
  from_term control_table (TTuple [TInt 13; TAtom [97]; TAtom [98]; TAtom [116]; TAtom [114]]) =
    COk (CMsg 13 [(1, TAtom [97]); (2, TAtom [98]); (9, TAtom [116]); (3, TAtom [114])])
  /\ from_term control_table (TTuple [TInt 35; TBig false [0; 0; 0; 0; 0; 0; 0; 128]; TNil; TNil]) =
    COk (CMsg 35 [(20, TBig false [0; 0; 0; 0; 0; 0; 0; 128]); (1, TNil); (2, TNil)])
  /\ from_term control_table (TTuple [TInt 99; TNil]) = COk (CGeneric 99 [TNil])
  /\ from_term control_table (TTuple [TBig false [1; 0]; TNil; TNil]) = COk (CMsg 1 [(1, TNil); (2, TNil)]).
Proof. repeat split; vm_compute; reflexivity. Qed.

Check C08_lossless.
