(* C06 — receiving delivers each peer message exactly once, in order, and survives junk.
   Model: Dist/Receive.v composes the models of the deframer (C05), the decoder (C01-C03), the distribution header
   reader with the per-connection atom cache (C14), the fragment assembler (C09) and the control message parser
   (C08) into Connection::receive_message, after fix commit a22584b.  The correspondence run drives a real
   Connection against a scripted peer over a loopback socket and compares it with this model. *)
From EDP Require Import Base.Bytes Term.Term Gen.Tags Gen.ControlTable Gen.DecoderArms Codec.Encode Codec.Decode Codec.Norm
  Order.Cmp Codec.DistHeader Codec.AtomCache Codec.AtomCacheFacts Codec.DistHeaderFacts Dist.Fragment Dist.Control Dist.Framing Dist.Receive Dist.ReceiveFacts
  Dist.ReceiveHeaderFacts.

(* a tick never surfaces and leaves the connection's receive state alone *)
Theorem C06_tick : forall cfg st, handle_frame cfg st [] = (st, OContinue).
Proof. exact handle_tick. Qed.

(* polling an idle connection — a receive that finds nothing to read and times out — returns no message and leaves the
   receive state (atom cache, fragments held) and the stream as they were: what the peer sends afterwards is read as if
   the poll had not happened *)
Theorem C06_idle_poll_changes_nothing : forall fuel cfg st, receive fuel cfg st [] = (REof, st, []).
Proof. exact idle_poll. Qed.
Theorem C06_idle_poll_read_half : forall fuel cfg, receive_half fuel cfg [] = (REof, []).
Proof. exact idle_poll_half. Qed.

(* over a transport that delivers the peer's frames with any segmentation, the successive calls of receive_message
   return the outcomes of the frames in order, each exactly once, and after them only end-of-stream: nothing is
   lost, duplicated or reordered, whatever the frames are (messages, ticks, fragments, junk) *)
Theorem C06_exactly_once_in_order : forall cfg k frames st cs fuel, wfc cs -> Forall (fits Distribution) frames ->
  data_of cs = concat (map (frame Distribution) frames) -> (length frames < fuel)%nat ->
  receive_n k fuel cfg st cs =
    firstn k (fst (outcomes cfg st frames)) ++ repeat REof (k - length (fst (outcomes cfg st frames))).
Proof. exact receive_stream. Qed.

(* a pass-through frame is delivered with the control tuple and payload the peer encoded (in their decoded
   representation, norm: C01) ... *)
Theorem C06_pass_through_delivery : forall cfg st, d_arms cfg = owned_arms ->
  forall ctl msg, wf ctl = true -> rt_ok (d_kcmp cfg) (d_kinsert cfg) ctl ->
  wf msg = true -> rt_ok (d_kcmp cfg) (d_kinsert cfg) msg ->
  exists bc bm, encode ctl = EOk bc /\ encode msg = EOk bm /\
    handle_frame cfg st (pass_through :: bc ++ bm) = (st, to_outcome (norm ctl) (Some (norm msg))) /\
    handle_frame cfg st (pass_through :: bc) = (st, to_outcome (norm ctl) None).
Proof. exact pass_through_delivery. Qed.

(* ... and neither reads nor changes the receive state, so no earlier frame — malformed or not — can alter what it
   delivers: an undecodable frame costs exactly its own outcome *)
Theorem C06_junk_does_not_leak : forall cfg st1 st2 rest,
  snd (handle_frame cfg st1 (pass_through :: rest)) = snd (handle_frame cfg st2 (pass_through :: rest)) /\
  fst (handle_frame cfg st1 (pass_through :: rest)) = st1.
Proof. exact pass_through_state_free. Qed.

(* every frame has exactly one of the three outcomes; an error is an outcome like any other and the next frame is
   read from the next length prefix (handle_frame is total: there is no input on which the model gets stuck) *)
Theorem C06_total : forall cfg st data, exists st' o, handle_frame cfg st data = (st', o).
Proof. intros cfg st data. destruct (handle_frame cfg st data) as [st' o]. eauto. Qed.

(* the fragment header that used to crash the task: 21 bytes announcing more atom-cache bytes than follow *)
Example C06_short_fragment_header_is_an_error : forall cfg st,
  handle_frame cfg st ([131; 69] ++ repeat 0 7 ++ [1] ++ repeat 0 7 ++ [1] ++ [9; 0; 0]) = (st, OError).
Proof. intros. reflexivity. Qed.

Example C06_example :
  let cfg := {| d_arms := owned_arms; d_cache := []; d_refs := []; d_inflate := fun _ => None; d_float_text := fun _ => None;
                d_kcmp := cmp_owned; d_kinsert := map_insert; d_extra_fuel := 0 |} in
  (* {2, '', pid} ++ payload [1], a tick, a junk frame, the same message again *)
  let m := [112; 131; 104; 3; 97; 2; 119; 0; 88; 119; 1; 110; 0; 0; 0; 1; 0; 0; 0; 2; 0; 0; 0; 3; 131; 107; 0; 1; 1] in
  exists d, fst (outcomes cfg rstate_init [m; []; [112; 131; 255]; m]) = [d; RFail; d] /\ d <> RFail.
Proof. cbv zeta. eexists. split; [vm_compute; reflexivity|discriminate]. Qed.

(* the recorded finding C06-timeout-mid-frame on the model: the frame {2, '', pid} ++ payload arrives in two parts with a
   receive timing out between them (a receive call sees only the chunks that have arrived); the first call returns no
   message and has consumed the two bytes it had read, so the second call, given the rest of the frame, does not deliver
   the message — while the same bytes in one piece do *)
Theorem C06_refuted_delay_inside_a_frame :
  let cfg := {| d_arms := owned_arms; d_cache := []; d_refs := []; d_inflate := fun _ => None; d_float_text := fun _ => None;
                d_kcmp := cmp_owned; d_kinsert := map_insert; d_extra_fuel := 0 |} in
  let m := [112; 131; 104; 3; 97; 2; 119; 0; 88; 119; 1; 110; 0; 0; 0; 1; 0; 0; 0; 2; 0; 0; 0; 3; 131; 107; 0; 1; 1] in
  let f := [0; 0; 0; 29] ++ m in
  (exists c pl, receive 5 cfg rstate_init [Data f] = (RMsg c pl, rstate_init, [])) /\
  receive 5 cfg rstate_init [Data (firstn 2 f)] = (REof, rstate_init, []) /\
  fst (fst (receive 5 cfg rstate_init [Data (skipn 2 f)])) = REof.
Proof. cbv zeta. split; [eexists; eexists; vm_compute; reflexivity|]. split; vm_compute; reflexivity. Qed.

(* with distribution headers negotiated: a message of a conforming sender with an atom cache (C14: new entries,
   references to entries of earlier messages, overwrites, any segment) is delivered as the control tuple and payload
   the sender meant, and the connection's cache follows the sender's *)
Theorem C06_header_frame_delivery : forall cfg kc ki st sc m,
  d_arms cfg = owned_arms -> d_kcmp cfg = kc -> d_kinsert cfg = ki ->
  agree (r_cache st) sc -> conform kc ki sc m ->
  exists d, sender_bytes sc m = Some d /\
    handle_frame cfg st d = (with_cache st (fold_left push (m_es m) (r_cache st)),
                             to_outcome (norm (m_ctl m)) (option_map norm (m_pl m))).
Proof. intros cfg kc ki st sc m Ha Hk Hi. exact (header_frame cfg Ha kc ki Hk Hi st sc m). Qed.

(* every history of such messages mixed with ticks and pass-through frames of any content (junk included): the
   outcomes are, in order, each message as meant, nothing for a tick, and for a pass-through frame what it is worth on
   its own; with C06_exactly_once_in_order this is what successive receive calls return over any segmentation *)
Theorem C06_header_mode_stream : forall cfg kc ki items st sc,
  d_arms cfg = owned_arms -> d_kcmp cfg = kc -> d_kinsert cfg = ki ->
  agree (r_cache st) sc -> items_ok kc ki sc items ->
  exists frames, wire sc items = Some frames /\ fst (outcomes cfg st frames) = expected cfg items.
Proof. intros cfg kc ki items st sc Ha Hk Hi. exact (header_mode_stream cfg Ha kc ki Hk Hi items st sc). Qed.

(* the premises are met: two messages of a sender that creates entries in segments 0 and 1 and then refers to them at
   swapped positions, with a tick and a junk pass-through frame between them *)
Definition cfg06 : dcfg :=
  {| d_arms := owned_arms; d_cache := []; d_refs := []; d_inflate := fun _ => None; d_float_text := fun _ => None;
     d_kcmp := cmp_owned; d_kinsert := map_insert; d_extra_fuel := 0 |}.
Definition nh : bytes := [110; 64; 104].
Definition hello : bytes := [104; 101; 108; 108; 111].
Definition pid1 := TPid {| pnode := nh; pnum := 1; pserial := 2; pcreation := 3; ploc := None |}.
Definition items3 : list item :=
  [ IMsg {| m_es := [ENew 0 0 nh; ENew 1 5 hello]; m_long := false; m_ctl := TTuple [TInt 2; TAtom []; pid1]; m_pl := Some (TAtom hello) |};
    ITick; IPass [131; 255];
    IMsg {| m_es := [EOld 1 5; EOld 0 0]; m_long := false; m_ctl := TTuple [TInt 2; TAtom []; pid1]; m_pl := Some (TTuple [TAtom hello; TAtom nh]) |} ].
Ltac c_nle := vm_compute; discriminate.
Ltac c_nlt := vm_compute; reflexivity.
Ltac c_conj := repeat match goal with |- _ /\ _ => split end.
Example C06_header_mode_premises :
  items_ok cmp_owned map_insert [] items3 /\ (exists fr, wire [] items3 = Some fr) /\
  exists d1 d2, expected cfg06 items3 = [d1; RFail; d2] /\ d1 <> RFail /\ d2 <> RFail.
Proof.
  split; [|split; [eexists; vm_compute; reflexivity|do 2 eexists; split; [vm_compute; reflexivity|split; discriminate]]].
  cbn [items_ok items3]. unfold conform, terms_of. cbn [m_es m_long m_ctl m_pl length fold_left push].
  c_conj; try exact I; try lia.
  all: try match goal with |- meant _ _ <> None => vm_compute; discriminate end.
  all: repeat match goal with |- Forall _ _ => constructor end; c_conj.
  all: try match goal with |- wf _ = true => vm_compute; reflexivity end.
  all: try match goal with |- e_ok _ _ => cbn [e_ok]; unfold atom_fits; c_conj; try c_nlt; try c_nle; try (intros _; c_nle) end.
  all: cbn [rt_ok pid1]; unfold pid_ok, atom_ok, loc_modern; cbn [pnode ploc]; c_conj; try exact I; try c_nle.
Qed.

(* the receive path of a connection whose read half was taken (receive_message_from_read_half, the node's receiver
   task): on ticks and pass-through frames it does what receive_message does — so it delivers what the peer encoded —
   and any other frame is an error of that frame alone (the path keeps no state between frames) *)
Theorem C06_read_half_agrees : forall cfg st rest,
  handle_frame_half cfg (pass_through :: rest) = snd (handle_frame cfg st (pass_through :: rest)) /\
  handle_frame_half cfg [] = OContinue.
Proof. intros cfg st rest. split; [apply half_agrees_on_pass_through|apply half_tick]. Qed.

Theorem C06_read_half_delivery : forall cfg, d_arms cfg = owned_arms ->
  forall ctl msg, wf ctl = true -> rt_ok (d_kcmp cfg) (d_kinsert cfg) ctl ->
  wf msg = true -> rt_ok (d_kcmp cfg) (d_kinsert cfg) msg ->
  exists bc bm, encode ctl = EOk bc /\ encode msg = EOk bm /\
    handle_frame_half cfg (pass_through :: bc ++ bm) = to_outcome (norm ctl) (Some (norm msg)) /\
    handle_frame_half cfg (pass_through :: bc) = to_outcome (norm ctl) None.
Proof. exact half_delivery. Qed.

Theorem C06_read_half_other_frames : forall cfg b0 rest, b0 <> pass_through -> handle_frame_half cfg (b0 :: rest) = OError.
Proof. exact half_other_is_error. Qed.

Check C06_exactly_once_in_order.
