"""C10 — identifiers received from a peer are re-emitted byte-for-byte; identity is by logical fields. Domains `codec` (conv, convh), `ord`."""
import struct
import etf, termgen

ID = "C10"
GEN_FILES = ["DecoderArms.v", "Tags.v", "HashFields.v"]
RULE = ("pids/ports/references (node names, 32/64-bit numbers, serials, creations, 0..5 reference words) in modern plain form and in LOCAL_EXT "
        "form with random 8-byte hashes (around modern and legacy inner encodings), placed in tuples, lists, list tails, map keys, map values and "
        "fun environments; decoded, passed through random sequences of clone / From<&OwnedTerm> / to_owned / move, re-encoded (plain encoder and "
        "dist-header encoder); oracle: output bytes equal the input (plain) or contain every LOCAL_EXT blob verbatim (dist header); plus "
        "==, cmp, hash of the same identifier across forms; distinct = distinct case; non-trivial = contains a LOCAL_EXT identifier or a conversion")
ASSUMPTIONS = ["conversions between owned and zero-copy representations are identity in the model; their coverage is this correspondence run"]


def a8(s):
    return bytes([119, len(s)]) + s


def gen_ident(rng):
    node = rng.choice([b"n@h", b"", "é@ü".encode(), b"x" * 255, b"node@host.example.com"])
    kind = rng.choice(["pid", "port", "ref"])
    u32 = lambda: rng.choice([0, 1, 2**32 - 1, rng.randrange(2**32)])  # noqa
    if kind == "pid":
        f = (u32(), u32(), u32())
        text = "p %s %d %d %d" % (etf.hx(node), *f)
    elif kind == "port":
        f = (rng.choice([0, 2**32, 2**64 - 1, rng.randrange(2**64)]), u32())
        text = "o %s %d %d" % (etf.hx(node), *f)
    else:
        ids = [u32() for _ in range(rng.choice([1, 2, 3, 5]))]
        f = (u32(), ids)
        text = "r %s %d %d %s" % (etf.hx(node), f[0], len(ids), " ".join(str(i) for i in ids))
    modern = termgen.modern_id_bytes(kind, node, *f)
    form = rng.choice(["plain", "local", "local", "local-legacy"])
    blob = None
    if form == "plain":
        enc = modern
        loc = "-"
    else:
        inner = modern
        if form == "local-legacy":
            if kind == "pid" and f[2] < 256:
                inner = bytes([103]) + a8(node) + struct.pack(">II", f[0], f[1]) + bytes([f[2]])
            elif kind == "port" and f[0] < 2**32 and f[1] < 256:
                inner = bytes([102]) + a8(node) + struct.pack(">I", f[0]) + bytes([f[1]])
            elif kind == "ref" and f[0] < 256:
                inner = bytes([114]) + struct.pack(">H", len(f[1])) + a8(node) + bytes([f[0]]) + b"".join(struct.pack(">I", i) for i in f[1])
        h = bytes(rng.randrange(256) for _ in range(8))
        blob = bytes([121]) + h + inner
        enc = blob
        loc = (h + inner).hex()
    return enc, blob, text + " " + loc, text


def context(rng, idents):
    """canonical encoding of a random context around the given identifier encodings"""
    i1 = bytes([97, 7])
    k = rng.choice(["tuple", "list", "tail", "mapkey", "mapval", "fun", "funpid", "nest"])
    e = idents[0]
    rest = idents[1:]
    inner = e if not rest else bytes([104, len(idents)]) + b"".join(idents)
    if k == "tuple":
        return bytes([104, 3]) + i1 + inner + a8(b"x")
    if k == "list":
        return bytes([108, 0, 0, 0, 2]) + inner + i1 + bytes([106])
    if k == "tail":
        return bytes([108, 0, 0, 0, 1]) + i1 + inner
    if k == "mapkey":
        return bytes([116, 0, 0, 0, 1]) + inner + i1
    if k == "mapval":
        return bytes([116, 0, 0, 0, 1]) + a8(b"k") + inner
    if k == "nest":
        return bytes([104, 1, 108, 0, 0, 0, 1, 116, 0, 0, 0, 1]) + a8(b"k") + bytes([104, 2]) + inner + i1 + bytes([106])
    pid = termgen.modern_id_bytes("pid", b"n@h", 1, 2, 3)
    if k == "funpid":
        # the fun's own creator pid is the received identifier (when it is a pid, in whichever form it arrived); the
        # remaining identifiers are its free variables
        first_is_pid = e[0] in (88, 103) or (e[0] == 121 and e[9] in (88, 103))
        if first_is_pid:
            free = rest
            body = bytes([2]) + bytes(range(16)) + struct.pack(">II", 5, len(free)) + a8(b"mod") + bytes([97, 3, 97, 4]) + e + b"".join(free)
            return bytes([112]) + struct.pack(">I", len(body) + 4) + body
    body = bytes([2]) + bytes(range(16)) + struct.pack(">II", 5, 1) + a8(b"mod") + bytes([97, 3, 97, 4]) + pid + inner
    return bytes([112]) + struct.pack(">I", len(body) + 4) + body


DIFFERENT = set()


def oracle(case, impl):
    if impl.startswith(("PANIC", "CRASH", "TIMEOUT")):
        return ("violation", "did not return: " + impl[:60])
    t = case.split()
    if t[0] == "cmp" and case in DIFFERENT:
        d = dict(p.split("=") for p in impl.split())
        if d["o"] == "eq" or d["b"] == "eq" or d["eq"] == "t":
            return ("violation", "two identifiers that differ in a logical field are taken for the same: " + impl)
        return None
    if t[0] == "cmp":
        d = dict(p.split("=") for p in impl.split())
        if not (d["o"] == "eq" and d["b"] == "eq" and d["eq"] == "t" and d["heq"] == "t"):
            return ("violation", "the same identifier in two forms is not recognised as equal: " + impl)
        return None
    data = bytes.fromhex(t[2])
    if not impl.startswith("ok "):
        return ("violation", "decode of a valid encoding failed: " + impl[:60])
    out = impl[3:]
    if out.startswith("err"):
        return ("violation", "re-encoding failed: " + out)
    outb = bytes.fromhex(out)
    if t[0] == "conv":
        if outb != data:
            return ("violation", "re-encoded bytes differ from the received bytes")
        return None
    blobs = [bytes.fromhex(x[1:]) for x in t[3:] if x.startswith("#")]
    for b in blobs:
        if b not in outb:
            return ("violation", "a node-local identifier is not replayed verbatim by the dist-header encoder")
    return None


def oracle_for(_d):
    return oracle


def run(ctx):
    rng = ctx.rng
    cases, hcases, ocases = [], [], []
    for _ in range(ctx.budget(2500, 60000)):
        ids = [gen_ident(rng) for _ in range(rng.choice([1, 1, 2, 3]))]
        body = context(rng, [x[0] for x in ids])
        data = bytes([131]) + body
        ops = "".join(rng.choice("cbomv") for _ in range(rng.randrange(0, 6))) or "-"
        cases.append("conv %s %s" % (ops, data.hex()))
        if rng.random() < 0.4:
            hcases.append("convh %s %s %s" % (ops, data.hex(), " ".join("#" + x[1].hex() for x in ids if x[1])))
    for _ in range(ctx.budget(600, 6000)):
        enc, blob, t_loc, t_plain = gen_ident(rng)
        h2 = bytes(rng.randrange(256) for _ in range(8)).hex()
        other = t_plain + " " + (h2 + "6a" if rng.random() < 0.5 else "-")
        ocases.append("cmp %s | %s" % (t_loc, other))
        ocases.append("cmp t 2 %s i 1 | t 2 %s i 1" % (t_loc, other))

    # ... and identifiers that differ in one logical field (a serial, a creation, one word of a reference; the creator pid of
    # a fun) are told apart, bare and inside a tuple
    for g in termgen.sibling_groups():
        if g[0][0] not in ("p", "o", "r", "u"):
            continue
        for i in range(len(g)):
            for j in range(len(g)):
                if i != j and (g[i][0] != "u" or g[i][:8] + g[i][9:] == g[j][:8] + g[j][9:]):   # funs: only the creator pid differs
                    for c in ("cmp %s | %s" % (etf.show(g[i]), etf.show(g[j])), "cmp t 2 %s i 1 | t 2 %s i 1" % (etf.show(g[i]), etf.show(g[j]))):
                        DIFFERENT.add(c)
                        ocases.append(c)

    # identifiers received on a connection that uses distribution headers: decoded with the connection's atom cache
    # (empty, filled by an earlier message, filled by this very message) they keep their node-local form
    ccases, BLOBS = [], {}
    for _ in range(ctx.budget(300, 6000)):
        ids = [gen_ident(rng) for _ in range(rng.choice([1, 2]))]
        body = context(rng, [x[0] for x in ids])
        first = rng.choice([None, bytes([131, 68, 1, 8, 5, 2, 111, 107, 82, 0]), bytes([131, 68, 2, 0x98, 1, 0, 3, 110, 64, 104, 7, 1, 120, 104, 2, 82, 0, 82, 1])])
        form = rng.choice(["bare", "hdr0", "hdr1"])
        if form == "bare":
            msg = bytes([131]) + body
        elif form == "hdr0":
            msg = bytes([131, 68, 0]) + body
        else:   # a header that creates an entry, the term refers to it next to the identifiers
            msg = bytes([131, 68, 1, 8, 9, 1, 122, 104, 2, 82, 0]) + body
        msgs = ([first] if first else []) + [msg]
        case = "hdrdec " + ",".join(m.hex() for m in msgs)
        BLOBS[case] = [x[1] for x in ids if x[1]]
        ccases.append(case)

    def cache_oracle(case, impl):
        if impl.startswith(("PANIC", "CRASH", "TIMEOUT")):
            return ("violation", "did not return: " + impl[:60])
        last = impl.split(" ;; ")[-1]
        if not last.startswith("ok "):
            return ("violation", "a valid message with node-local identifiers is rejected when decoded with the connection's atom cache: " + last[:60])
        for b in BLOBS[case]:
            if b[1:].hex() not in last:
                return ("violation", "an identifier received in node-local form lost its opaque bytes when decoded with the connection's atom cache")
        return None
    ctx.diff_domain("codec", ccases, oracle=cache_oracle, nontrivial=lambda c, i: c if BLOBS[c] else None, classify=lambda c, i: ["op:hdrdec-local", "msgs:%d" % (c.count(",") + 1)])

    def nontrivial(c, impl):
        return c if ("79" in c or c.split()[1] != "-") else None
    ctx.diff_domain("codec", cases, oracle=oracle, nontrivial=nontrivial, classify=lambda c, i: ["op:conv", "ops:%d" % len(c.split()[1])])
    ctx.diff_domain("codec", hcases, oracle=oracle, nontrivial=nontrivial, classify=lambda c, i: ["op:convh"], compare=lambda c, a, b: True)
    ctx.diff_domain("ord", ocases, oracle=oracle, nontrivial=lambda c, i: c, classify=lambda c, i: ["op:cmp-forms"])
