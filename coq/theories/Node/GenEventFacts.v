(* The gen_event manager answers each call, each which_handlers request and each sync_notify once, to the process that
   asked, with the request's reference; nothing else is ever sent.  For every message sequence, every handler behaviour,
   every set of installed handlers and every set of live callers. *)
From EDP Require Import Base.Bytes Term.Term Order.Cmp Elixir.Wrap Node.GenServer Node.GenEvent.
Open Scope N_scope.

Section Facts.
  Variable H : Type.
  Variable on_init : H -> term -> option H.
  Variable on_event : H -> term -> evres H.
  Variable on_call : H -> term -> cares H.
  Variable on_info : H -> term -> H.
  Variable id_of : H -> term.
  Variable live : pidr -> bool.
  Notation step := (estep H on_init on_event on_call on_info id_of live).
  Notation run := (erun H on_init on_event on_call on_info id_of live).

  (* the replies a mailbox message is owed: to whom, and with which reference (None: the bare `ok` of sync_notify) *)
  Definition owed (m : ein) : list (pidr * option term) :=
    match m with
    | EReg from body =>
        match eclassify body with
        | MSync _ => match from with Some p => if live p then [(p, None)] else [] | None => [] end
        | MCall p ref _ _ => if live p then [(p, Some ref)] else []
        | MWhich p ref => if live p then [(p, Some ref)] else []
        | _ => []
        end
    | _ => []
    end.

  Definition pays (o : pidr * option term) (r : pidr * term) : Prop :=
    fst r = fst o /\ match snd o with
                     | None => snd r = TAtom n_ok
                     | Some ref => exists v, snd r = TTuple [ref; v]
                     end.

  Lemma notify_sent s e : e_sent (notify H on_init on_event s e) = e_sent s.
  Proof. unfold notify. destruct (notify_round H on_init on_event e (e_handlers s) [] (e_log s) []) as [[hs log] gone]. reflexivity. Qed.

  Lemma call_handler_sent s hid req : e_sent (fst (call_handler H on_init on_call s hid req)) = e_sent s.
  Proof.
    unfold call_handler. destruct (lookup H hid (e_handlers s)) as [h|]; [|reflexivity].
    destruct (on_call h req) as [r h'|r|h' args r|]; try reflexivity. destruct (on_init h' args); reflexivity.
  Qed.

  Lemma reply_to_sent s p t : e_sent (reply_to H live s p t) = if live p then e_sent s ++ [(p, t)] else e_sent s.
  Proof. reflexivity. Qed.

  Lemma step_pays s m : exists rs, e_sent (step s m) = e_sent s ++ rs /\ Forall2 pays (owed m) rs.
  Proof.
    destruct m as [from body|reason|]; cbn [estep owed]; try (exists []; rewrite app_nil_r; split; [reflexivity|constructor]).
    destruct (eclassify body) as [e|e|p ref hid req|p ref|b].
    - exists []. rewrite app_nil_r, notify_sent. split; [reflexivity|constructor].
    - destruct from as [p|].
      + rewrite reply_to_sent, notify_sent. destruct (live p).
        * exists [(p, TAtom n_ok)]. split; [reflexivity|]. constructor; [split; reflexivity|constructor].
        * exists []. rewrite app_nil_r. split; [reflexivity|constructor].
      + exists []. rewrite app_nil_r, notify_sent. split; [reflexivity|constructor].
    - pose proof (call_handler_sent s hid req) as Hs.
      destruct (call_handler H on_init on_call s hid req) as [s1 r]. cbn [fst] in Hs. rewrite reply_to_sent, Hs.
      destruct (live p).
      + eexists. split; [reflexivity|]. constructor; [split; [reflexivity|eexists; reflexivity]|constructor].
      + exists []. rewrite app_nil_r. split; [reflexivity|constructor].
    - rewrite reply_to_sent. destruct (live p).
      + eexists. split; [reflexivity|]. constructor; [split; [reflexivity|eexists; reflexivity]|constructor].
      + exists []. rewrite app_nil_r. split; [reflexivity|constructor].
    - exists []. rewrite app_nil_r. split; [reflexivity|constructor].
  Qed.

  Lemma Forall2_app' {A B} (R : A -> B -> Prop) l1 l2 m1 m2 : Forall2 R l1 m1 -> Forall2 R l2 m2 -> Forall2 R (l1 ++ l2) (m1 ++ m2).
  Proof. induction 1; intros; cbn; [assumption|constructor; auto]. Qed.

  Theorem replies_exact ms : forall s, exists rs, e_sent (run s ms) = e_sent s ++ rs /\ Forall2 pays (flat_map owed ms) rs.
  Proof.
    induction ms as [|m ms IH]; intros s.
    - exists []. rewrite app_nil_r. split; [reflexivity|constructor].
    - unfold erun. cbn [fold_left flat_map]. destruct (step_pays s m) as (r1 & E1 & F1).
      destruct (IH (step s m)) as (r2 & E2 & F2). exists (r1 ++ r2). split.
      + unfold erun in E2. rewrite E2, E1, app_assoc. reflexivity.
      + apply Forall2_app'; assumption.
  Qed.

  (* in particular: as many replies as requests owed one, position by position *)
  Corollary one_reply_per_request ms s : exists rs, e_sent (run s ms) = e_sent s ++ rs /\ length rs = length (flat_map owed ms).
  Proof. destruct (replies_exact ms s) as (rs & E & F). exists rs. split; [exact E|]. clear E. induction F; cbn; [reflexivity|now f_equal]. Qed.

  Lemma owed_at_most_one m : (length (owed m) <= 1)%nat.
  Proof.
    destruct m as [from body| |]; cbn [owed]; try (cbn; lia). destruct (eclassify body) as [e|e|p ref hid req|p ref|b]; try (cbn; lia).
    - destruct from as [p|]; [destruct (live p)|]; cbn; lia.
    - destruct (live p); cbn; lia.
    - destruct (live p); cbn; lia.
  Qed.
End Facts.
