(* Model of `impl Hash for OwnedTerm`: the sequence of items fed to the hasher.  Two terms hash equal
   (for every Hasher) when their streams are equal; distinct streams hash differently except for hasher
   collisions, which the correspondence treats as impossible for SipHash on the sampled cases. *)
From EDP Require Import Base.Bytes Term.Term Order.Cmp.

(* an item: kind code and payload *)
Definition hitem := (N * list N)%type.
Definition hD (v : N) : hitem := (0, [v]).          (* discriminant *)
Definition hS (b : bytes) : hitem := (1, b).        (* str: bytes, 0xff terminator *)
Definition hB (b : bytes) : hitem := (2, b).        (* [u8] / Vec<u8>: length prefix, bytes *)
Definition hN (n : N) : hitem := (3, [n]).          (* fixed-width unsigned *)
Definition hZ (z : Z) : hitem := (4, [Z.to_N (z mod 18446744073709551616)]).  (* i64 as its bit pattern *)
Definition hL (n : N) : hitem := (5, [n]).          (* usize length *)

Definition hpid (p : pidr) : list hitem := [hS (pnode p); hN (pnum p); hN (pserial p); hN (pcreation p)].

Fixpoint hstream (t : term) : list hitem :=
  let all := fix go (l : list term) : list hitem := match l with [] => [] | x :: r => hstream x ++ go r end in
  match t with
  | TAtom a => [hD 0; hS a]
  | TInt z => [hD 1; hZ z]
  | TFloat b => [hD 2; hN (if (b =? 0) || (b =? 9223372036854775808) then 0 else b)]
  | TPid p => hD 3 :: hpid p
  | TPort n i c _ => [hD 4; hS n; hN i; hN c]
  | TRef n c ids _ => [hD 5; hS n; hN c; hL (len ids)] ++ map hN ids
  | TBin b => [hD 6; hB b]
  | TBitBin b k => [hD 7; hB b; hN k]
  | TStr s => [hD 8; hS s]
  | TList l => hD 9 :: hL (len l) :: all l
  | TImproper l tl => hD 10 :: hL (len l) :: all l ++ hstream tl
  | TMap kvs => hD 11 :: hL (len kvs) ::
      (fix gom (m : list (term * term)) : list hitem :=
         match m with [] => [] | kv :: r => hstream (fst kv) ++ hstream (snd kv) ++ gom r end) kvs
  | TTuple l => hD 12 :: hL (len l) :: all l
  | TBig neg d => [hD 13; hD (if neg then 1 else 0); hB d]
  | TExtFun m f a => [hD 14; hS m; hS f; hN a]
  | TIntFun a u i nf m oi ou p fr =>
      [hD 15; hN a; hB u; hN i; hN nf; hS m; hN oi; hN ou] ++ hpid p ++ all fr
  | TNil => [hD 16]
  end.

Definition hitem_eqb (a b : hitem) : bool := (fst a =? fst b) && eq_bytes (snd a) (snd b).
Fixpoint hlist_eqb (a b : list hitem) : bool :=
  match a, b with
  | [], [] => true
  | x :: r, y :: s => hitem_eqb x y && hlist_eqb r s
  | _, _ => false
  end.
Definition hash_eqb (a b : term) : bool := hlist_eqb (hstream a) (hstream b).
