(* General facts about the decoder model, proved once for `parse_body` (the per-tag parsers with the
   nested-term parser abstracted) and lifted to `parse` by induction on fuel:
   - every successful parse consumes at least one byte (the tag), sequences never run out of their own fuel;
   - success is monotone in the nested parser (hence in fuel, and from a sub-table of arms to a super-table);
   - with fuel above the input length the model never reports fuel exhaustion. *)
From EDP Require Import Base.Bytes Term.Term Gen.Tags Gen.Limits Codec.Decode.

(* ---------- readers ---------- *)
Lemma takeN_spec n : forall l h t, takeN n l = Some (h, t) -> l = h ++ t /\ len h = n.
Proof.
  intros l; revert n; induction l as [|x l IH]; intros n h t H; cbn [takeN] in H.
  - destruct (n =? 0) eqn:E; [|discriminate]. inversion H; subst. apply N.eqb_eq in E. subst. split; reflexivity.
  - destruct (n =? 0) eqn:E.
    + inversion H; subst. apply N.eqb_eq in E. subst. split; reflexivity.
    + destruct (takeN (N.pred n) l) as [[h' t']|] eqn:E2; [|discriminate]. inversion H; subst.
      apply IH in E2 as [-> Hl]. split; [reflexivity|]. apply N.eqb_neq in E. unfold len in *. cbn [length]. lia.
Qed.

Lemma takeN_app h : forall t, takeN (len h) (h ++ t) = Some (h, t).
Proof.
  induction h as [|x h IH]; intros t.
  - unfold len; cbn [length app]. destruct t; reflexivity.
  - cbn [app takeN]. assert (E : len (x :: h) =? 0 = false) by (apply N.eqb_neq; unfold len; cbn [length]; lia).
    rewrite E. replace (N.pred (len (x :: h))) with (len h) by (unfold len; cbn [length]; lia).
    now rewrite IH.
Qed.

Lemma takeN_len n l h t : takeN n l = Some (h, t) -> (length t <= length l)%nat /\ (length t + N.to_nat n = length l)%nat.
Proof.
  intros H. apply takeN_spec in H as [-> Hl]. rewrite app_length. unfold len in Hl. lia.
Qed.

Lemma rd_len k bs v r : rd k bs = Some (v, r) -> (length r + k = length bs)%nat.
Proof.
  unfold rd, rd_be. destruct (take k bs) as [[h t]|] eqn:E; [|discriminate].
  intros H; inversion H; subst. apply take_spec in E as [-> Hk]. rewrite app_length. lia.
Qed.

Lemma rd_ids_len f : forall n bs ids r, rd_ids f n bs = Some (ids, r) -> (length r <= length bs)%nat.
Proof.
  induction f as [|f IH]; intros n bs ids r H; cbn [rd_ids] in H.
  - destruct (n =? 0); [inversion H; subst; lia|discriminate].
  - destruct (n =? 0); [inversion H; subst; lia|].
    destruct (rd 4 bs) as [[id r1]|] eqn:E1; [|discriminate].
    destruct (rd_ids f (N.pred n) r1) as [[ids' r2]|] eqn:E2; [|discriminate].
    inversion H; subst. apply rd_len in E1. apply IH in E2. lia.
Qed.

(* ---------- sequences ---------- *)
Definition consumes (p : bytes -> pres) : Prop :=
  forall x t r, p x = POk t r -> (length r < length x)%nat.

Lemma seq_with_len p k : consumes p -> forall n bs l r, seq_with p k n bs = SOk l r -> (length r <= length bs)%nat.
Proof.
  intros Hp. induction k as [|k IH]; intros n bs l r H; cbn [seq_with] in H.
  - destruct (n =? 0); [inversion H; subst; lia|discriminate].
  - destruct (n =? 0); [inversion H; subst; lia|].
    destruct (p bs) as [t r1|e] eqn:E1; [|discriminate].
    destruct (seq_with p k (N.pred n) r1) as [l' r2|e] eqn:E2; [|discriminate].
    inversion H; subst. apply Hp in E1. apply IH in E2. lia.
Qed.

Lemma seq_with_nofuel p k : consumes p -> forall n bs,
  (length bs < k)%nat -> (forall x, (length x <= length bs)%nat -> p x <> PErr KFuel) ->
  seq_with p k n bs <> SErr KFuel.
Proof.
  intros Hp. induction k as [|k IH]; intros n bs Hk Hnf; [lia|]. cbn [seq_with].
  destruct (n =? 0); [discriminate|].
  destruct (p bs) as [t r1|e] eqn:E1.
  - pose proof (Hp _ _ _ E1) as Hlt.
    specialize (IH (N.pred n) r1 ltac:(lia) ltac:(intros x Hx; apply Hnf; lia)).
    destruct (seq_with p k (N.pred n) r1); [discriminate|]. intros H; inversion H; subst. contradiction.
  - intros H; inversion H; subst. apply (Hnf bs (le_n _)). exact E1.
Qed.

Definition sub_parser (p1 p2 : bytes -> pres) : Prop := forall x t r, p1 x = POk t r -> p2 x = POk t r.

Lemma seq_with_mono p1 p2 k : sub_parser p1 p2 -> forall n bs l r,
  seq_with p1 k n bs = SOk l r -> seq_with p2 k n bs = SOk l r.
Proof.
  intros Hs. induction k as [|k IH]; intros n bs l r H; cbn [seq_with] in *.
  - exact H.
  - destruct (n =? 0); [exact H|].
    destruct (p1 bs) as [t r1|e] eqn:E1; [|discriminate]. rewrite (Hs _ _ _ E1).
    destruct (seq_with p1 k (N.pred n) r1) as [l' r2|e] eqn:E2; [|discriminate].
    now rewrite (IH _ _ _ _ E2).
Qed.

(* ---------- the per-tag parsers ---------- *)
Ltac break_hyp H :=
  match type of H with
  | context [match ?x with _ => _ end] => destruct x eqn:?
  end.

Ltac len_facts :=
  repeat match goal with
  | H : rd _ _ = Some _ |- _ => apply rd_len in H
  | H : takeN _ _ = Some _ |- _ => apply takeN_len in H as [? ?]
  | H : rd_ids _ _ _ = Some _ |- _ => apply rd_ids_len in H
  end.

Section Body.
  Variable cfg : dcfg.

  Lemma atom_bytes_le k bs t r : parse_atom_bytes k bs = POk t r -> (length r <= length bs)%nat.
  Proof. unfold parse_atom_bytes. intros H. repeat break_hyp H; try discriminate. inversion H; subst. len_facts. lia. Qed.

  Lemma atom_latin1_le k bs t r : parse_atom_latin1 k bs = POk t r -> (length r <= length bs)%nat.
  Proof. unfold parse_atom_latin1. intros H. repeat break_hyp H; try discriminate. inversion H; subst. len_facts. lia. Qed.

  Ltac self_facts Hs :=
    repeat match goal with
    | H : ?s _ = POk _ _ |- _ => apply Hs in H
    end.

  Lemma body_le self pid r0 t r : consumes self -> parse_body cfg self pid r0 = POk t r -> (length r <= length r0)%nat.
  Proof.
    intros Hs H. pose proof (seq_with_len self) as Hseq.
    unfold parse_body, atom_of in H.
    destruct pid as [|p]; [discriminate|].
    do 6 (try (destruct p as [p|p|])); try discriminate;
    try (apply atom_bytes_le in H; exact H); try (apply atom_latin1_le in H; exact H);
    repeat break_hyp H; try discriminate; inversion H; subst; clear H;
    repeat match goal with
    | H : seq_with self _ _ _ = SOk _ _ |- _ => apply (Hseq _ Hs) in H
    end; self_facts Hs; len_facts; try lia.
  Qed.

  (* success is monotone in the nested parser *)
  Lemma body_mono s1 s2 pid r0 t r : sub_parser s1 s2 ->
    parse_body cfg s1 pid r0 = POk t r -> parse_body cfg s2 pid r0 = POk t r.
  Proof.
    intros Hs H. pose proof (seq_with_mono s1 s2) as Hseq.
    unfold parse_body, atom_of in *.
    destruct pid as [|p]; [discriminate|].
    do 6 (try (destruct p as [p|p|])); try discriminate; try exact H;
    repeat break_hyp H; try discriminate;
    repeat match goal with
    | E : seq_with s1 _ _ _ = SOk _ _ |- _ => apply (Hseq _ Hs) in E
    | E : s1 _ = POk _ _ |- _ => apply Hs in E
    end;
    repeat match goal with
    | E : ?lhs = _ |- context [?lhs] => rewrite E
    end; try exact H; try reflexivity.
  Qed.

  (* no fuel exhaustion is ever reported when the nested parser does not report one on shorter inputs *)
  Lemma atom_bytes_nofuel k bs : parse_atom_bytes k bs <> PErr KFuel.
  Proof. unfold parse_atom_bytes. repeat match goal with |- context [match ?x with _ => _ end] => destruct x end; discriminate. Qed.
  Lemma atom_latin1_nofuel k bs : parse_atom_latin1 k bs <> PErr KFuel.
  Proof. unfold parse_atom_latin1. repeat match goal with |- context [match ?x with _ => _ end] => destruct x end; discriminate. Qed.

  Lemma body_nofuel self pid r0 : consumes self ->
    (forall x, (length x <= length r0)%nat -> self x <> PErr KFuel) ->
    parse_body cfg self pid r0 <> PErr KFuel.
  Proof.
    intros Hs Hnf. pose proof (seq_with_len self) as Hseq. pose proof (seq_with_nofuel self) as Hsnf.
    unfold parse_body, atom_of.
    destruct pid as [|p]; [discriminate|].
    do 6 (try (destruct p as [p|p|])); try discriminate;
    try apply atom_bytes_nofuel; try apply atom_latin1_nofuel;
    repeat match goal with |- context [match ?x with _ => _ end] => destruct x eqn:? end;
    try discriminate;
    intros Heq; inversion Heq; subst; clear Heq;
    repeat match goal with
    | H : seq_with self _ _ _ = SOk _ _ |- _ => apply (Hseq _ Hs) in H
    end;
    first
    [ match goal with
      | E : self ?x = PErr KFuel |- _ =>
          apply (Hnf x); [|exact E]; clear E;
          repeat match goal with H : self _ = POk _ _ |- _ => apply Hs in H end; len_facts; lia
      end
    | match goal with
      | E : seq_with self (S (length ?r)) ?n ?r = SErr KFuel |- _ =>
          apply (Hsnf (S (length r)) Hs n r); [lia| |exact E]; clear E;
          intros x Hx; apply Hnf;
          repeat match goal with H : self _ = POk _ _ |- _ => apply Hs in H end; len_facts; lia
      end ].
  Qed.
End Body.

(* ---------- lifted to parse ---------- *)
Lemma parse_consumes cfg f : consumes (parse cfg f).
Proof.
  induction f as [|f IH]; intros x t r H; cbn [parse] in H; [discriminate|].
  destruct x as [|tag r0]; [discriminate|].
  destruct (assoc tag (d_arms cfg)) as [pid|]; [|discriminate].
  apply (body_le cfg _ _ _ _ _ IH) in H. cbn [length]. lia.
Qed.

Lemma parse_mono_S cfg f : sub_parser (parse cfg f) (parse cfg (S f)).
Proof.
  induction f as [|f IH]; intros x t r H; [discriminate|].
  cbn [parse] in H. destruct x as [|tag r0]; [discriminate|].
  change (parse cfg (S (S f)) (tag :: r0)) with
    (match assoc tag (d_arms cfg) with None => PErr KTag | Some pid => parse_body cfg (parse cfg (S f)) pid r0 end).
  destruct (assoc tag (d_arms cfg)) as [pid|]; [|discriminate].
  exact (body_mono cfg _ _ _ _ _ _ IH H).
Qed.

Lemma parse_mono cfg f g : (f <= g)%nat -> sub_parser (parse cfg f) (parse cfg g).
Proof.
  intros Hle. induction Hle as [|g Hle IH]; intros x t r H; [exact H|].
  apply parse_mono_S. now apply IH.
Qed.

(* with fuel above the input length the model never reports fuel exhaustion *)
Lemma parse_nofuel cfg f : forall bs, (length bs < f)%nat -> parse cfg f bs <> PErr KFuel.
Proof.
  induction f as [|f IH]; intros bs Hlt; [lia|]. cbn [parse].
  destruct bs as [|tag r0]; [discriminate|].
  destruct (assoc tag (d_arms cfg)) as [pid|]; [|discriminate].
  apply body_nofuel; [apply parse_consumes|].
  intros x Hx. apply IH. cbn [length] in Hlt. lia.
Qed.

(* two configurations that differ only in their arm tables *)
Definition with_arms (cfg : dcfg) (a : list (N * N)) : dcfg :=
  {| d_arms := a; d_cache := d_cache cfg; d_refs := d_refs cfg; d_inflate := d_inflate cfg; d_float_text := d_float_text cfg;
     d_kcmp := d_kcmp cfg; d_kinsert := d_kinsert cfg; d_extra_fuel := d_extra_fuel cfg |}.

Definition arms_sub (a b : list (N * N)) : Prop := forall tag pid, assoc tag a = Some pid -> assoc tag b = Some pid.

Lemma parse_arms_mono cfg a b f : arms_sub a b ->
  sub_parser (parse (with_arms cfg a) f) (parse (with_arms cfg b) f).
Proof.
  intros Hab. induction f as [|f IH]; intros x t r H; [discriminate|].
  cbn [parse] in *. destruct x as [|tag r0]; [discriminate|].
  cbn [d_arms with_arms] in *.
  destruct (assoc tag a) as [pid|] eqn:Ea; [|discriminate]. rewrite (Hab _ _ Ea).
  change (parse_body (with_arms cfg b)) with (parse_body (with_arms cfg a)).
  exact (body_mono _ _ _ _ _ _ _ IH H).
Qed.

Lemma assoc_in k v l : assoc k l = Some v -> In (k, v) l.
Proof.
  induction l as [|[k' v'] l IH]; cbn [assoc]; [discriminate|].
  destruct (k' =? k) eqn:E; [|intros H; right; now apply IH].
  intros H; inversion H; subst. apply N.eqb_eq in E; subst. now left.
Qed.

(* decidable sufficient condition for arms_sub *)
Definition arms_subb (a b : list (N * N)) : bool :=
  forallb (fun tp => match assoc (fst tp) b with Some p => p =? snd tp | None => false end) a.

Lemma arms_subb_sound a b : arms_subb a b = true -> arms_sub a b.
Proof.
  unfold arms_subb, arms_sub. rewrite forallb_forall. intros H tag pid Ha.
  specialize (H (tag, pid) (assoc_in _ _ _ Ha)). cbn [fst snd] in H.
  destruct (assoc tag b) as [p|]; [|discriminate]. apply N.eqb_eq in H. now subst.
Qed.

(* decode never reports fuel exhaustion: the entry point's fuel exceeds the input length *)
Lemma decode_nofuel cfg data : decode cfg data <> DErr KFuel.
Proof.
  unfold decode. destruct data as [|v r]; [discriminate|].
  destruct (v =? tag_version); [|discriminate].
  pose proof (parse_nofuel cfg (length r + 2 + d_extra_fuel cfg) r ltac:(lia)) as Hnf.
  destruct (parse cfg (length r + 2 + d_extra_fuel cfg) r) as [t [|x rest]|k]; try discriminate.
  intros H; inversion H; subst. now apply Hnf.
Qed.

Lemma decode_arms_mono cfg a b data t : arms_sub a b ->
  decode (with_arms cfg a) data = DOk t -> decode (with_arms cfg b) data = DOk t.
Proof.
  intros Hab. unfold decode. destruct data as [|v r]; [discriminate|].
  destruct (v =? tag_version); [|discriminate]. cbn [d_extra_fuel with_arms].
  destruct (parse (with_arms cfg a) (length r + 2 + d_extra_fuel cfg) r) as [t' [|x rest]|k] eqn:E; try discriminate.
  intros H; inversion H; subst. now rewrite (parse_arms_mono cfg a b _ Hab _ _ _ E).
Qed.
