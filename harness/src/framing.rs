//! domain `framing`: MessageFramer / MessageDeframer over scripted readers and writers.
//! cases:
//!   `rd <h|d> <chunk,chunk,...>`   chunk = hex | `P` (poll returns Pending) | `Z<n>` (n zero bytes)
//!        reads frames until the first error; prints `ok:<bytes>` ... `err:<kind>` `alloc:<small|big>`
//!   `wr <h|d> <b1,b2,..> <datahex|Z<n>>` writes one frame through a writer that accepts at most b_i bytes per call
//!        (0 = Pending); prints `stream:<bytes> oneshot:<bytes>`
use crate::util::{hex, unhex};
use edp_client::framing::{FrameMode, MessageDeframer, MessageFramer};
use std::collections::VecDeque;
use std::pin::Pin;
use std::task::{Context, Poll};
use tokio::io::{AsyncRead, AsyncWrite, ReadBuf};

pub enum Chunk {
    Data(Vec<u8>),
    Pending,
}

pub struct ChunkReader {
    pub chunks: VecDeque<Chunk>,
}

impl AsyncRead for ChunkReader {
    fn poll_read(mut self: Pin<&mut Self>, cx: &mut Context<'_>, buf: &mut ReadBuf<'_>) -> Poll<std::io::Result<()>> {
        match self.chunks.pop_front() {
            None => Poll::Ready(Ok(())), // EOF
            Some(Chunk::Pending) => {
                cx.waker().wake_by_ref();
                Poll::Pending
            }
            Some(Chunk::Data(mut d)) => {
                let n = d.len().min(buf.remaining());
                buf.put_slice(&d[..n]);
                if n < d.len() {
                    let rest = d.split_off(n);
                    self.chunks.push_front(Chunk::Data(rest));
                }
                Poll::Ready(Ok(()))
            }
        }
    }
}

pub struct ThrottledWriter {
    pub budgets: Vec<usize>,
    pub i: usize,
    pub out: Vec<u8>,
}

impl AsyncWrite for ThrottledWriter {
    fn poll_write(mut self: Pin<&mut Self>, cx: &mut Context<'_>, buf: &[u8]) -> Poll<std::io::Result<usize>> {
        let b = self.budgets[self.i % self.budgets.len()];
        self.i += 1;
        if b == 0 {
            cx.waker().wake_by_ref();
            return Poll::Pending;
        }
        let n = b.min(buf.len());
        self.out.extend_from_slice(&buf[..n]);
        Poll::Ready(Ok(n))
    }
    fn poll_flush(self: Pin<&mut Self>, _cx: &mut Context<'_>) -> Poll<std::io::Result<()>> {
        Poll::Ready(Ok(()))
    }
    fn poll_shutdown(self: Pin<&mut Self>, _cx: &mut Context<'_>) -> Poll<std::io::Result<()>> {
        Poll::Ready(Ok(()))
    }
}

pub fn show(b: &[u8]) -> String {
    if b.len() <= 48 {
        hex(b)
    } else {
        // length + FNV-1a 64
        let mut h: u64 = 0xcbf29ce484222325;
        for x in b {
            h ^= *x as u64;
            h = h.wrapping_mul(0x100000001b3);
        }
        format!("L{}:{:016x}", b.len(), h & 0x0fff_ffff_ffff_ffff)
    }
}

pub fn parse_data(s: &str) -> Vec<u8> {
    if let Some(n) = s.strip_prefix('Z') {
        vec![0u8; n.parse().unwrap()]
    } else {
        unhex(s)
    }
}

fn mode_of(s: &str) -> FrameMode {
    if s == "h" { FrameMode::Handshake } else { FrameMode::Distribution }
}

pub fn run_case(line: &str) -> String {
    let t: Vec<&str> = line.split_whitespace().collect();
    let rt = tokio::runtime::Builder::new_current_thread().enable_all().build().unwrap();
    match t[0] {
        "rd" => {
            let mode = mode_of(t[1]);
            let chunks: VecDeque<Chunk> = if t.len() > 2 {
                t[2].split(',')
                    .filter(|c| !c.is_empty())
                    .map(|c| if c == "P" { Chunk::Pending } else { Chunk::Data(parse_data(c)) })
                    .collect()
            } else {
                VecDeque::new()
            };
            let mut rd = ChunkReader { chunks };
            let de = MessageDeframer::new(mode);
            let mut out = Vec::new();
            crate::alloc::reset();
            let mut maxalloc = 0usize;
            rt.block_on(async {
                loop {
                    crate::alloc::reset();
                    let r = de.read_framed(&mut rd).await;
                    maxalloc = maxalloc.max(crate::alloc::max_request());
                    match r {
                        Ok(b) => out.push(format!("ok:{}", show(&b))),
                        Err(e) => {
                            let k = match e.kind() {
                                std::io::ErrorKind::UnexpectedEof => "eof".to_string(),
                                std::io::ErrorKind::InvalidData => "toolarge".to_string(),
                                k => format!("other({k:?})"),
                            };
                            out.push(format!("err:{k}"));
                            break;
                        }
                    }
                    if out.len() > 100000 {
                        break;
                    }
                }
            });
            out.push(format!("alloc:{}", if maxalloc >= (1 << 20) { "big" } else { "small" }));
            out.join(" ")
        }
        "wr" => {
            let mode = mode_of(t[1]);
            // `B<cap>:<budgets>`: the writer is wrapped in a buffering writer of that capacity; what has reached the
            // inner writer when write_framed returns is what the peer can see
            let (cap, spec) = match t[2].strip_prefix('B').and_then(|r| r.split_once(':')) {
                Some((c, rest)) => (Some(c.parse::<usize>().unwrap()), rest),
                None => (None, t[2]),
            };
            let budgets: Vec<usize> = spec.split(',').map(|b| b.parse().unwrap()).collect();
            let data = parse_data(t[3]);
            let fr = MessageFramer::new(mode);
            let w = ThrottledWriter { budgets, i: 0, out: Vec::new() };
            let one = fr.frame_message(&data);
            let (r, seen) = match cap {
                None => {
                    let mut w = w;
                    let r = rt.block_on(async { fr.write_framed(&mut w, &data).await });
                    (r, w.out)
                }
                Some(c) => {
                    let mut bw = tokio::io::BufWriter::with_capacity(c, w);
                    let r = rt.block_on(async { fr.write_framed(&mut bw, &data).await });
                    (r, bw.get_ref().out.clone())
                }
            };
            match r {
                Ok(()) => format!("stream:{} oneshot:{}", show(&seen), show(&one)),
                Err(e) => format!("werr:{:?} oneshot:{}", e.kind(), show(&one)),
            }
        }
        _ => panic!("bad case"),
    }
}
