"""C16 — pid / reference uniqueness. Domain `pid`."""
ID = "C16"
GEN_FILES = ["PidConsts.v", "LockScope.v"]
RULE = ("sequential runs of k allocations from chosen counter positions (around the id wrap point, around the serial's "
        "32-bit wrap, random), parallel runs of T OS threads x N allocations released from a barrier, make_reference "
        "sequentially and in parallel; distinct = distinct case text; non-trivial = crosses a wrap point or runs >= 2 threads")
ASSUMPTIONS = ["the lock/atomics of PidAllocator are exercised by real OS threads (stress), not by enumerated schedules",
               "u64 exhaustion of next_serial (2^64 wraps) is outside the theorem's hypothesis (serial < 2^63)"]
MAXP = 1048576
SUM_P = (1 << 61) - 1


def oracle(case, impl):
    """Spec: all pids pairwise distinct; creation carried; serial advances at wrap."""
    if impl.startswith(("PANIC", "CRASH", "TIMEOUT")):
        return ("violation", "allocation did not return: " + impl[:60])
    t = case.split()
    if "dups=" in impl:
        d = int(impl.split("dups=")[1].split()[0])
        if d != 0:
            return ("violation", "%d duplicate identifiers handed out" % d)
        if "worddups=" in impl and int(impl.split("worddups=")[1].split()[0]) != 0:
            return ("violation", "reference words handed out twice")
        if t[0] == "par" and " sum=" in impl:
            # whatever the interleaving, the identifiers handed out are those of the numbering: numbers count up to the
            # maximum and restart at 1, and a number issued after r restarts carries the starting serial plus r (the
            # allocation that hits the maximum may carry either) — otherwise a later cycle re-issues an earlier one's
            th, per, i0, s0, cr = (int(x) for x in t[1:6])
            sums, wraps, want_id = {0}, 0, i0
            for _ in range(th * per):
                at_max = want_id >= MAXP
                sers = {(s0 + wraps) % 2**32} | ({(s0 + wraps + 1) % 2**32} if at_max else set())
                sums = {(x + want_id * 1000003 + ser * 7 + cr) % SUM_P for x in sums for ser in sers}
                if at_max:
                    wraps, want_id = wraps + 1, 1
                else:
                    want_id += 1
            got = int(impl.split(" sum=")[1].split()[0])
            if got not in sums:
                return ("violation", "the identifiers handed out concurrently are not those of the numbering: some number was issued "
                                     "with a serial it does not have in its cycle (an identifier of another cycle is re-issued)")
        return None
    if t[0] == "seq":
        pids = [tuple(int(x) for x in p.split(".")) for p in impl.split()]
        if len(set(pids)) != len(pids):
            return ("violation", "duplicate pid in sequential allocation")
        if any(p[2] != int(t[3]) for p in pids):
            return ("violation", "pid does not carry the creation in force")
        # numbers count up to the maximum and restart at 1; the serial (as the 32-bit field) is the starting serial plus
        # the number of restarts so far — otherwise a later cycle re-issues the identifiers of an earlier one.  The
        # allocation that hits the maximum itself may carry the old or the new serial.
        i0, s0 = int(t[1]), int(t[2])
        wraps, want_id = 0, i0
        for k, (pid_id, pid_serial, _c) in enumerate(pids):
            if pid_id != want_id:
                return ("violation", "allocation %d has number %d, expected %d" % (k, pid_id, want_id))
            at_max = want_id >= MAXP
            ok_serials = {(s0 + wraps) % 2**32} | ({(s0 + wraps + 1) % 2**32} if at_max else set())
            if pid_serial not in ok_serials:
                return ("violation", "allocation %d (number %d) carries serial %d; with %d restarts since serial %d it must carry %s"
                        % (k, pid_id, pid_serial, wraps, s0, sorted(ok_serials)))
            if at_max:
                wraps, want_id = wraps + 1, 1
            else:
                want_id += 1
    if t[0] == "mix":
        # allocations with set_creation calls in between (also with the value already in force): every identifier is new,
        # carries the creation in force, and the numbering goes on
        pids = [tuple(int(x) for x in p.split(".")) for p in impl.split()]
        if len(set(pids)) != len(pids):
            return ("violation", "an identifier is handed out twice around a set_creation call")
        cr, k, want_id = int(t[3]), 0, int(t[1])
        for op in t[4:]:
            if op.startswith("c"):
                cr = int(op[1:])
                continue
            if pids[k][2] != cr:
                return ("violation", "allocation %d does not carry the creation in force (%d)" % (k, cr))
            if pids[k][0] != want_id:
                return ("violation", "allocation %d has number %d, expected %d: set_creation disturbed the numbering" % (k, pids[k][0], want_id))
            want_id = 1 if want_id >= MAXP else want_id + 1
            k += 1
    if t[0] == "ref":
        refs = impl.split()
        if len(set(refs)) != len(refs):
            return ("violation", "duplicate reference")
    return None


def oracle_for(_d):
    return oracle


def run(ctx):
    rng = ctx.rng
    cases = []
    ids = [1, 2, MAXP - 2, MAXP - 1, MAXP, 1000, MAXP // 2]
    sers = [0, 1, 2**32 - 2, 2**32 - 1, 2**32, 2**32 + 1, 2**33 - 1, 5 * 2**32 + 3, 2**40, 2**62]
    for i in ids:
        for s in sers:
            cases.append("seq %d %d %d %d" % (i, s, rng.choice([0, 1, 7, 2**32 - 1]), rng.choice([3, 5, 8, 40])))
    for _ in range(ctx.budget(300, 3000)):
        i = rng.choice([rng.randrange(1, MAXP + 1), MAXP - rng.randrange(0, 30)])
        s = rng.choice([rng.randrange(0, 2**34), 2**32 - 1 - rng.randrange(0, 3), rng.randrange(0, 2**63)])
        cases.append("seq %d %d %d %d" % (i, s, rng.randrange(2**32), rng.choice([1, 2, 10, 33, 40, 200, 3000])))
    # across a full id cycle (2^20 allocations) so that a pid of the previous cycle could re-appear
    big = ctx.budget(2, 6)
    for j in range(big):
        cases.append("seq %d %d 3 %d" % (MAXP - 3 - j, 2**32 - 1 - (j % 3), MAXP + 10))
    cases.append("seq 5 4294967296 3 %d" % (MAXP + 10))
    cases.append("seq 1 0 1 %d" % (2 * MAXP + 5))
    # parallel
    for th, per, i, s in [(8, 20000, 1, 0), (8, 20000, MAXP - 1000, 2**32 - 1), (16, 5000, MAXP - 10, 7), (2, 50000, 100, 0),
                          (4, 30000, MAXP - 50000, 2**32 - 1)]:
        cases.append("par %d %d %d %d 9" % (th, per, i, s))
    for _ in range(ctx.budget(6, 40)):
        cases.append("par %d %d %d %d %d" % (rng.choice([2, 3, 4, 8, 16]), rng.choice([2000, 10000]),
                                               rng.choice([1, MAXP - rng.randrange(1, 5000)]), rng.choice([0, 2**32 - 1]), rng.randrange(100)))
    cases += ["ref 1", "ref 5", "ref 40", "refpar 8 20000", "refpar 2 50000", "refpar 16 3000"]
    for _ in range(ctx.budget(60, 1500)):
        cr = rng.choice([0, 1, 3, 2**32 - 1])
        ops, cur = [], cr
        for _o in range(rng.choice([3, 6, 12, 30])):
            if rng.random() < 0.25:
                cur = rng.choice([cur, cur, (cur + 1) % 2**32, rng.randrange(2**32)])
                ops.append("c%d" % cur)
            else:
                ops.append("a")
        cases.append("mix %d %d %d %s" % (rng.choice([1, 5, MAXP - 2, MAXP]), rng.choice([0, 7, 2**32 - 1, 2**32]), cr, " ".join(ops)))

    def nontrivial(c, impl):
        t = c.split()
        if t[0] in ("par", "refpar"):
            return c
        if t[0] == "seq" and int(t[1]) + int(t[4]) > MAXP:
            return c
        return None

    def classify(c, impl):
        t = c.split()
        ks = ["kind:" + t[0]]
        if t[0] == "seq":
            ks.append("crosses_wrap:%s" % (int(t[1]) + int(t[4]) > MAXP))
            ks.append("serial>=2^32:%s" % (int(t[2]) >= 2**32 - 1))
        return ks
    ctx.diff_domain("pid", cases, oracle=oracle, nontrivial=nontrivial, classify=classify)
    # on a started node: the identifiers of spawned processes carry the creation the port mapper assigned to the node
    # (the harness's stand-in assigns 7), and so do references
    ncases = ["node 0 ;; spawn ;; spawn ;; spawn", "node 0 ;; spawn ;; monitor $0 $0 ;; spawn"]

    def node_oracle(case, impl):
        if impl.startswith(("PANIC", "CRASH", "TIMEOUT", "start-err")):
            return ("violation", "the node did not start: " + impl[:60])
        for part in impl.split(" ;; "):
            w = part.split()
            if w[:2] == ["pid", "p"] and int(w[5]) != 7:
                return ("violation", "a process identifier carries creation %s while the node's creation is 7" % w[5])
            if w[:2] == ["ref", "r"] and int(w[3]) != 7:
                return ("violation", "a reference carries creation %s while the node's creation is 7" % w[3])
        return None
    ctx.diff_domain("node", ncases, oracle=node_oracle, nontrivial=lambda c, i: c, classify=lambda c, i: ["op:node-spawn"])
