//! domain `control`: ControlMessage::from_term / to_term / into_term.
//!   `ctl <term>`   -> `ok <variant tag> | <role>=<term> | ... || to=<term> || into=<term>` | `err`
//!   `ctlw <term>`  -> same, after to_term -> encode -> decode -> from_term
//! role codes as in tools/gen_consts.py ROLES; the unlink id prints as U<decimal>.
use crate::termio::{Toks, read_term, term_str};
use edp_client::control::{ControlMessage as M, ControlMessageType as T};
use erltf::OwnedTerm;

fn f(role: u8, t: &OwnedTerm) -> String {
    format!("{}={}", role, term_str(t))
}

pub fn show(m: &M) -> String {
    let (tag, fields): (u8, Vec<String>) = match m {
        M::Link { from_pid, to_pid } => (T::Link as u8, vec![f(1, from_pid), f(2, to_pid)]),
        M::Send { cookie, to_pid } => (T::Send as u8, vec![f(4, cookie), f(2, to_pid)]),
        M::Exit { from_pid, to_pid, reason } => (T::Exit as u8, vec![f(1, from_pid), f(2, to_pid), f(3, reason)]),
        M::UnlinkId { id, from_pid, to_pid } => (T::UnlinkId as u8, vec![format!("20=U{id}"), f(1, from_pid), f(2, to_pid)]),
        M::UnlinkIdAck { id, from_pid, to_pid } => (T::UnlinkIdAck as u8, vec![format!("20=U{id}"), f(1, from_pid), f(2, to_pid)]),
        M::RegSend { from_pid, cookie, to_name } => (T::RegSend as u8, vec![f(1, from_pid), f(4, cookie), f(5, to_name)]),
        M::MonitorP { from_pid, to_proc, reference } => (T::MonitorP as u8, vec![f(1, from_pid), f(6, to_proc), f(8, reference)]),
        M::DemonitorP { from_pid, to_proc, reference } => (T::DemonitorP as u8, vec![f(1, from_pid), f(6, to_proc), f(8, reference)]),
        M::MonitorPExit { from_proc, to_pid, reference, reason } => {
            (T::MonitorPExit as u8, vec![f(7, from_proc), f(2, to_pid), f(8, reference), f(3, reason)])
        }
        M::SpawnRequest { req_id, from, group_leader, mfa, arg_list, opt_list } => (
            T::SpawnRequest as u8,
            vec![f(10, req_id), f(11, from), f(12, group_leader), f(13, mfa), f(14, arg_list), f(15, opt_list)],
        ),
        M::SpawnReply { req_id, to, flags, result } => (T::SpawnReply as u8, vec![f(10, req_id), f(16, to), f(17, flags), f(18, result)]),
        M::AliasSend { from_pid, alias } => (T::AliasSend as u8, vec![f(1, from_pid), f(19, alias)]),
        M::Unlink { from_pid, to_pid } => (T::Unlink as u8, vec![f(1, from_pid), f(2, to_pid)]),
        M::NodeLink => (T::NodeLink as u8, vec![]),
        M::GroupLeader { from_pid, to_pid } => (T::GroupLeader as u8, vec![f(1, from_pid), f(2, to_pid)]),
        M::Exit2 { from_pid, to_pid, reason } => (T::Exit2 as u8, vec![f(1, from_pid), f(2, to_pid), f(3, reason)]),
        M::SendSender { from_pid, to_pid } => (T::SendSender as u8, vec![f(1, from_pid), f(2, to_pid)]),
        M::PayloadExit { from_pid, to_pid } => (T::PayloadExit as u8, vec![f(1, from_pid), f(2, to_pid)]),
        M::PayloadExit2 { from_pid, to_pid } => (T::PayloadExit2 as u8, vec![f(1, from_pid), f(2, to_pid)]),
        M::PayloadMonitorPExit { from_proc, to_pid, reference } => {
            (T::PayloadMonitorPExit as u8, vec![f(7, from_proc), f(2, to_pid), f(8, reference)])
        }
        M::SendTt { cookie, to_pid, trace_token } => (T::SendTt as u8, vec![f(4, cookie), f(2, to_pid), f(9, trace_token)]),
        M::ExitTt { from_pid, to_pid, trace_token, reason } => {
            (T::ExitTt as u8, vec![f(1, from_pid), f(2, to_pid), f(9, trace_token), f(3, reason)])
        }
        M::RegSendTt { from_pid, cookie, to_name, trace_token } => {
            (T::RegSendTt as u8, vec![f(1, from_pid), f(4, cookie), f(5, to_name), f(9, trace_token)])
        }
        M::Exit2Tt { from_pid, to_pid, trace_token, reason } => {
            (T::Exit2Tt as u8, vec![f(1, from_pid), f(2, to_pid), f(9, trace_token), f(3, reason)])
        }
        M::SendSenderTt { from_pid, to_pid, trace_token } => (T::SendSenderTt as u8, vec![f(1, from_pid), f(2, to_pid), f(9, trace_token)]),
        M::PayloadExitTt { from_pid, to_pid, trace_token } => (T::PayloadExitTt as u8, vec![f(1, from_pid), f(2, to_pid), f(9, trace_token)]),
        M::PayloadExit2Tt { from_pid, to_pid, trace_token } => (T::PayloadExit2Tt as u8, vec![f(1, from_pid), f(2, to_pid), f(9, trace_token)]),
        M::SpawnRequestTt { req_id, from, group_leader, mfa, arg_list, opt_list, trace_token } => (
            T::SpawnRequestTt as u8,
            vec![f(10, req_id), f(11, from), f(12, group_leader), f(13, mfa), f(14, arg_list), f(15, opt_list), f(9, trace_token)],
        ),
        M::SpawnReplyTt { req_id, to, flags, result, trace_token } => {
            (T::SpawnReplyTt as u8, vec![f(10, req_id), f(16, to), f(17, flags), f(18, result), f(9, trace_token)])
        }
        M::AliasSendTt { from_pid, alias, trace_token } => (T::AliasSendTt as u8, vec![f(1, from_pid), f(19, alias), f(9, trace_token)]),
        M::Generic { message_type, fields } => {
            let fs: Vec<String> = fields.iter().map(term_str).collect();
            return format!("ok G{} | {} || to={} || into={}", message_type, fs.join(" | "), term_str(&m.to_term()), term_str(&m.clone().into_term()));
        }
    };
    format!("ok {} | {} || to={} || into={}", tag, fields.join(" | "), term_str(&m.to_term()), term_str(&m.clone().into_term()))
}

pub fn run_case(line: &str) -> String {
    let (op, rest) = line.split_once(' ').unwrap_or((line, ""));
    let t = read_term(&mut Toks::new(rest));
    match op {
        "ctl" => match M::from_term(&t) {
            Ok(m) => show(&m),
            Err(_) => "err".to_string(),
        },
        "ctlw" => match M::from_term(&t) {
            Err(_) => "err".to_string(),
            Ok(m) => {
                let bytes = match erltf::encode(&m.to_term()) {
                    Ok(b) => b,
                    Err(_) => return "err encode".to_string(),
                };
                match erltf::decode(&bytes) {
                    Err(_) => "err decode".to_string(),
                    Ok(t2) => match M::from_term(&t2) {
                        Ok(m2) => show(&m2),
                        Err(_) => "err reparse".to_string(),
                    },
                }
            }
        },
        _ => panic!("bad op"),
    }
}
