"""C18 — local processes on a real Node: delivery, exit notices, name lifecycle. Domain `node` (no peer)."""
import etf
import nodelib
from nodelib import SEP, hx

ID = "C18"
GEN_FILES = ["PidConsts.v", "ControlTable.v", "Tags.v", "LockScope.v"]
RULE = ("scripts of 10..60 operations over up to 6 instrumented processes on one started node: spawn, register / unregister / whereis with a "
        "pool of 4 names (re-registration after termination included), send by identifier and by name (bodies from the C01 term "
        "generator), link, unlink, monitor (several per pair), demonitor, process failure (a message that makes the handler return an "
        "error), operations on terminated and never-registered targets, with observations (events of each process, process count, "
        "registered names) after every few operations; every operation runs to quiescence. distinct = distinct script; non-trivial = at "
        "least one termination. gen_server: a GenServerProcess around an instrumented server in the library's process loop, scripts of 1..25 "
        "mailbox messages: calls from live, unregistered and unknown callers with fresh and repeated references, requests answered, "
        "left unanswered or failing, casts, plain messages, exit signals, ignored kinds and eleven near misses of the call / cast shapes; "
        "observed: what the callbacks saw, each caller's mailbox, whether the process survived. gen_event: a GenEventManager with 0..3 "
        "instrumented handlers (one id possibly installed twice, init possibly failing), scripts of 1..25 messages: notify, sync_notify, calls "
        "to installed / removed / never-installed handler ids from live, unregistered and unknown callers, which_handlers, plain messages, exit "
        "signals and ten near misses; handlers that ask to be removed, fail, swap themselves for a successor whose init succeeds or fails; "
        "observed per handler key and per caller (the hash map's visiting order is not compared)")
ASSUMPTIONS = ["Node::start registers with an EPMD stand-in served by the harness on localhost:4369 (the library fixes host and port)",
               "one operation is run to quiescence before the next: interleavings inside an operation are not sampled by this check",
               "identifiers and references are taken from the implementation's output; the oracle demands only that they are pairwise distinct"]
NAMES = [b"alice", b"bob", "zoé".encode(), b"x"]


def gen_script(rng):
    n = rng.choice([2, 3, 4, 6])
    steps = ["spawn"] * n
    nrefs = 0
    for _ in range(rng.choice([10, 20, 40, 60])):
        r = rng.random()
        a, b = rng.randrange(n), rng.randrange(n)
        if r < 0.12:
            steps.append("register %s $%d" % (hx(rng.choice(NAMES)), a))
        elif r < 0.17:
            steps.append("unregister %s" % hx(rng.choice(NAMES)))
        elif r < 0.24:
            steps.append("whereis %s" % hx(rng.choice(NAMES)))
        elif r < 0.45:
            steps.append("send $%d %s" % (a, etf.show(nodelib.gen_body(rng))))
        elif r < 0.55:
            steps.append("sendname %s %s" % (hx(rng.choice(NAMES)), etf.show(nodelib.gen_body(rng))))
        elif r < 0.65:
            steps.append("link $%d $%d" % (a, b))
        elif r < 0.69:
            steps.append("unlink $%d $%d" % (a, b))
        elif r < 0.79:
            steps.append("monitor $%d $%d" % (a, b))
            nrefs += 1
        elif r < 0.83 and nrefs:
            steps.append("demonitor $%d $%d #%d" % (a, b, rng.randrange(nrefs)))
        elif r < 0.9:
            steps.append("send $%d a 6372617368" % a)
        elif r < 0.95:
            steps.append("events $%d" % a)
        else:
            steps.append(rng.choice(["count", "registered"]))
    for k in range(n):
        steps.append("events $%d" % k)
    steps += ["count", "registered"] + ["whereis %s" % hx(nm) for nm in NAMES]
    return SEP.join(["node 0"] + steps)


def oracle(case, impl):
    if impl.startswith(("PANIC", "CRASH", "TIMEOUT", "start-err")):
        return ("violation", "the node did not survive the script: " + impl[:60])
    steps = case.split(SEP)[1:]
    outs = impl.split(SEP)
    if len(outs) != len(steps):
        return ("violation", "%d steps, %d results" % (len(steps), len(outs)))
    sp = nodelib.Spec(False)
    mon_target = {}
    for k, (s, o) in enumerate(zip(steps, outs)):
        t = etf.Toks(s)
        op = t.next()
        idx = lambda: int(t.next()[1:])  # noqa
        want = None
        if op == "spawn":
            if not o.startswith("pid "):
                return ("violation", "spawn failed")
            pid = etf.parse_term(o[4:])
            if any(p[1:5] == pid[1:5] for p in sp.pids):
                return ("violation", "two processes got the same identifier")
            i = len(sp.pids)
            sp.pids.append(pid)
            sp.live[i], sp.events[i], sp.links[i], sp.mons[i] = True, [], set(), []
            continue
        if op == "register":
            name, i = etf.unhex(t.next()), idx()
            want = "err" if name in sp.names else "ok"
            if want == "ok":
                sp.names[name] = i
        elif op == "unregister":
            name = etf.unhex(t.next())
            want = "ok" if name in sp.names else "err"
            sp.names.pop(name, None)
        elif op == "whereis":
            name = etf.unhex(t.next())
            want = "pid " + etf.show(sp.pids[sp.names[name]]) if name in sp.names else "none"
        elif op == "send":
            i = idx()
            want = "ok" if sp.deliver(i, ("R", etf.read_term(t))) else "err"
        elif op == "flood":
            i, n = idx(), int(t.next())
            body = etf.read_term(t)
            want = "ok" if all([sp.deliver(i, ("R", body)) for _ in range(n)]) else "err"
        elif op == "open":
            want = "-"
        elif op == "sendname":
            name = etf.unhex(t.next())
            body = etf.read_term(t)
            want = "ok" if name in sp.names and sp.deliver(sp.names[name], ("R", body)) else "err"
        elif op == "link":
            a, b = idx(), idx()
            want = "ok"
            if sp.live.get(a):
                sp.links[a].add(b)
            if sp.live.get(b):
                sp.links[b].add(a)
        elif op == "unlink":
            a, b = idx(), idx()
            want = "ok"
            sp.links[a].discard(b)
            sp.links[b].discard(a)
        elif op == "monitor":
            a, b = idx(), idx()
            if not o.startswith("ref "):
                return ("violation", "monitor failed")
            r = etf.parse_term(o[4:])
            if any(x[1:4] == r[1:4] for x in sp.refs):
                return ("violation", "two monitors got the same reference")
            sp.refs.append(r)
            if sp.live.get(b):
                sp.mons[b].append((a, len(sp.refs) - 1))
            mon_target[len(sp.refs) - 1] = b
            continue
        elif op == "demonitor":
            a, b = idx(), idx()
            rn = int(t.next()[1:])
            want = "ok"
            sp.mons[b] = [(w, x) for (w, x) in sp.mons[b] if x != rn]
        elif op == "events":
            want = nodelib.show_events(sp.events[idx()])
        elif op == "count":
            want = str(sum(1 for v in sp.live.values() if v))
        elif op == "registered":
            want = ",".join(sorted(hx(n) for n in sp.names)) or "-"
        if want is not None and o != want:
            what = {"events": "a process was not handed exactly the messages and notices it must get, in order",
                    "whereis": "a name resolves to the wrong process (or to a terminated one)",
                    "register": "registration of a %s name" % ("taken" if want == "err" else "free"),
                    "count": "the number of live processes", "registered": "the set of registered names"}.get(op, op)
            return ("violation", "step %d (%s): %s — got %s, expected %s" % (k, s[:40], what, o[:60], want[:60]))
    return None


def oracle_for(_d):
    return oracle


# ------------------------------------------------------------------------------------------
# the gen_server behaviour (domain gsrv): each call answered once, to its caller

def A(b):
    return ("a", b)


def caller_pid(k):
    return ("p", b"c@h", 100 + k, 0, 1, None)


def gen_gsrv(rng):
    ncall = rng.choice([1, 2, 3])
    mask = "".join(rng.choice("110") for _ in range(ncall))
    steps, refs = [], 0
    reqs = [A(b"hi"), A(b"noreply"), ("i", 7), ("t", [A(b"get"), ("b", b"k")]), ("n",), A(b"ok")]
    for _ in range(rng.choice([1, 3, 6, 12, 25])):
        r = rng.random()
        k = rng.randrange(ncall + 1)                       # ncall = a pid nobody has
        pid = caller_pid(k) if k < ncall else ("p", rng.choice([b"c@h", b"other@h"]), 7, rng.choice([0, 1]), 1, None)
        refs += 1
        ref = ("r", b"c@h", 1, [rng.choice([refs, 1, 2])] + ([refs] if rng.random() < 0.3 else []), None)
        req = rng.choice(reqs) if rng.random() < 0.93 else A(b"fail")
        if r < 0.45:
            steps.append("R " + etf.show(("t", [A(b"$gen_call"), ("t", [pid, ref]), req])))
        elif r < 0.55:
            steps.append("R " + etf.show(("t", [A(b"$gen_cast"), req])))
        elif r < 0.63:
            steps.append("R " + etf.show(req))
        elif r < 0.70:
            steps.append("X " + etf.show(rng.choice([A(b"normal"), A(b"kill"), ("t", [A(b"shutdown"), ("i", 1)])])))
        elif r < 0.74:
            steps.append("O")
        else:       # near misses of the protocol: they are ordinary messages (handle_info)
            bad = rng.choice([
                ("t", [A(b"$gen_call"), ("t", [pid, ref])]),                          # no request
                ("t", [A(b"$gen_call"), ("t", [pid, ref]), req, req]),                # one element too many
                ("t", [A(b"$gen_call"), ("t", [ref, pid]), req]),                     # from-tuple swapped
                ("t", [A(b"$gen_call"), ("t", [pid, ref, A(b"x")]), req]),            # from-tuple of three
                ("t", [A(b"$gen_call"), pid, req]),                                   # bare pid
                ("t", [A(b"$gen_call"), ("t", [pid, ("i", 5)]), req]),                # not a reference
                ("t", [("b", b"$gen_call"), ("t", [pid, ref]), req]),                 # tag not an atom
                ("t", [A(b"$gen_cast")]),                                             # cast without request
                ("t", [A(b"$gen_cast"), req, req]),                                   # cast with two
                ("t", [A(b"gen_call"), ("t", [pid, ref]), req]),                      # another tag
                ("l", [A(b"$gen_call"), ("t", [pid, ref]), req]),                     # a list, not a tuple
            ])
            steps.append("R " + etf.show(bad))
    return SEP.join(["gsrv " + mask] + steps)


def gsrv_expect(case):
    """OTP's gen_server protocol for the instrumented server: reply {ok, Req} unless Req is noreply / fail"""
    parts = case.split(SEP)
    mask = parts[0].split()[1]
    live = {etf.show(caller_pid(k)) for k in range(len(mask)) if mask[k] == "1"}
    log, boxes, alive = [], {k: [] for k in range(len(mask))}, True
    for st in parts[1:]:
        if not alive:
            break
        kind, _, rest = st.partition(" ")
        if kind == "O":
            continue
        t = etf.parse_term(rest)
        if kind == "X":
            log.append("T " + etf.show(t))
            continue
        failed = False
        if (t[0] == "t" and len(t[1]) == 3 and t[1][0] == A(b"$gen_call") and t[1][1][0] == "t" and len(t[1][1][1]) == 2
                and t[1][1][1][0][0] == "p" and t[1][1][1][1][0] == "r"):
            pid, ref, req = t[1][1][1][0], t[1][1][1][1], t[1][2]
            log.append("C %s %s" % (etf.show(req), etf.show(pid)))
            if req == A(b"fail"):
                failed = True
            elif req != A(b"noreply") and etf.show(pid) in live:
                k = pid[2] - 100
                boxes[k].append(etf.show(("t", [ref, ("t", [A(b"ok"), req])])))
        elif t[0] == "t" and len(t[1]) == 2 and t[1][0] == A(b"$gen_cast"):
            log.append("K " + etf.show(t[1][1]))
            failed = t[1][1] == A(b"fail")
        else:
            log.append("I " + etf.show(t))
            failed = t == A(b"fail")
        if failed:
            log.append("T " + etf.show(A(b"normal")))
            alive = False
    j = lambda l: " , ".join(l) if l else "-"  # noqa
    return SEP.join(["alive=%d" % alive, "log=" + j(log)] + ["c%d=%s" % (k, j(boxes[k])) for k in range(len(mask))])


def gsrv_oracle(case, impl):
    if impl.startswith(("PANIC", "CRASH", "TIMEOUT")):
        return ("violation", "did not return: " + impl[:60])
    want = gsrv_expect(case)
    if impl != want:
        wi, ww = impl.split(SEP), want.split(SEP)
        for a, b in zip(wi, ww):
            if a != b:
                what = "a caller's mailbox" if a.startswith("c") else "what the callbacks saw" if a.startswith("log") else "liveness"
                return ("violation", "gen_server: %s differs: got %s, expected %s" % (what, a[:80], b[:80]))
        return ("violation", "gen_server: output shape differs")
    return None


# ------------------------------------------------------------------------------------------
# the gen_event behaviour (domain gevt)

HIDS = [A(b"log"), A(b"alt"), ("t", [A(b"h"), ("i", 1)]), ("b", b"bin")]


def gen_gevt(rng):
    ncall = rng.choice([1, 2, 3])
    mask = "".join(rng.choice("110") for _ in range(ncall))
    steps, refs = [], 0
    ids = rng.sample(HIDS, rng.choice([0, 1, 2, 3]))
    for h in ids:
        steps.append("H %s %s" % (etf.show(h), etf.show(A(b"bad") if rng.random() < 0.15 else A(b"args"))))
    if ids and rng.random() < 0.15:          # the same id installed twice: the second replaces the first
        steps.append("H %s %s" % (etf.show(ids[0]), etf.show(A(b"again"))))
    words = [A(b"ev"), A(b"ev"), ("i", 3), A(b"remove"), A(b"fail"), A(b"swap"), A(b"badswap"), A(b"count"), ("t", [A(b"x"), ("n",)])]
    for _ in range(rng.choice([1, 3, 6, 12, 25])):
        r = rng.random()
        k = rng.randrange(ncall + 1)
        pid = caller_pid(k) if k < ncall else ("p", b"other@h", 7, 0, 1, None)
        frm = "$%d" % rng.randrange(ncall) if rng.random() < 0.6 else "-"
        refs += 1
        ref = ("r", b"c@h", 1, [rng.choice([refs, 1])], None)
        w = rng.choice(words)
        hid = rng.choice(HIDS + [("t", [rng.choice(HIDS), ("i", 2)])])
        if r < 0.2:
            steps.append("R %s %s" % (frm, etf.show(("t", [A(b"$gen_notify"), w]))))
        elif r < 0.35:
            steps.append("R %s %s" % (frm, etf.show(("t", [A(b"$gen_sync_notify"), w]))))
        elif r < 0.65:
            steps.append("R %s %s" % (frm, etf.show(("t", [A(b"$gen_call"), ("t", [pid, ref]), hid, w]))))
        elif r < 0.75:
            steps.append("R %s %s" % (frm, etf.show(("t", [A(b"$gen_which_handlers"), ("t", [pid, ref])]))))
        elif r < 0.8:
            steps.append("R %s %s" % (frm, etf.show(w)))
        elif r < 0.85:
            steps.append("X " + etf.show(rng.choice([A(b"normal"), A(b"kill")])))
        elif r < 0.88:
            steps.append("O")
        else:       # near misses: ordinary messages for every handler's handle_info
            bad = rng.choice([
                ("t", [A(b"$gen_call"), ("t", [pid, ref]), w]),                       # gen_server's shape: three elements
                ("t", [A(b"$gen_call"), ("t", [pid, ref]), hid, w, w]),               # five
                ("t", [A(b"$gen_call"), ("t", [ref, pid]), hid, w]),                  # from-tuple swapped
                ("t", [A(b"$gen_call"), pid, hid, w]),                                # bare pid
                ("t", [A(b"$gen_notify")]), ("t", [A(b"$gen_notify"), w, w]),
                ("t", [A(b"$gen_sync_notify"), w, w]),
                ("t", [A(b"$gen_which_handlers"), pid]), ("t", [A(b"$gen_which_handlers"), ("t", [pid, ref]), w]),
                ("t", [("b", b"$gen_notify"), w]),
            ])
            steps.append("R %s %s" % (frm, etf.show(bad)))
    return SEP.join(["gevt " + mask] + steps)


class DemoHandler:
    def __init__(self, hid):
        self.id, self.count = hid, 0


def gevt_expect(case):
    """the gen_event protocol with the instrumented handler (event / request words decide what a callback does)"""
    parts = case.split(SEP)
    mask = parts[0].split()[1]
    live = {etf.show(caller_pid(k)): k for k in range(len(mask)) if mask[k] == "1"}
    hs = {}                       # key text -> handler, insertion-ordered (order is not compared)
    logs, boxes = {}, {k: [] for k in range(len(mask))}

    def note(key, what, t):
        logs.setdefault(key, []).append("%s %s" % (what, etf.show(t)))

    def successor(h):
        return DemoHandler(("t", [h.id, ("i", 2)]))

    def reply(pid, t):
        if etf.show(pid) in live:
            boxes[live[etf.show(pid)]].append(etf.show(t))

    def shaped(x):
        return x[0] == "t" and len(x[1]) == 2 and x[1][0][0] == "p" and x[1][1][0] == "r"

    def notify(ev):
        gone = []
        for key in list(hs):
            h = hs[key]
            note(key, "event", ev)
            if ev in (A(b"remove"), A(b"fail")):
                gone.append(key)
            elif ev in (A(b"swap"), A(b"badswap")):
                note(key, "term", A(b"swap"))
                hs[key] = successor(h)
                args = A(b"swapped") if ev == A(b"swap") else A(b"bad")
                note(key, "init", args)
                if args == A(b"bad"):
                    gone.append(key)
            else:
                h.count += 1
        for key in gone:
            del hs[key]
            note(key, "term", A(b"error"))

    for st in parts[1:]:
        kind, _, rest = st.partition(" ")
        if kind == "H":
            t = etf.Toks(rest)
            hid, args = etf.read_term(t), etf.read_term(t)
            key = etf.show(hid)
            note(key, "init", args)
            if args != A(b"bad"):
                hs[key] = DemoHandler(hid)
            continue
        if kind == "O":
            continue
        if kind == "X":
            for key in hs:
                note(key, "term", etf.parse_term(rest))
            continue
        frm, _, body = rest.partition(" ")
        t = etf.parse_term(body)
        tag = t[1][0] if t[0] == "t" and len(t[1]) >= 2 and t[1][0][0] == "a" else None
        if tag == A(b"$gen_notify") and len(t[1]) == 2:
            notify(t[1][1])
        elif tag == A(b"$gen_sync_notify") and len(t[1]) == 2:
            notify(t[1][1])
            if frm != "-":
                reply(caller_pid(int(frm[1:])), A(b"ok"))
        elif tag == A(b"$gen_call") and len(t[1]) == 4 and shaped(t[1][1]):
            pid, ref = t[1][1][1]
            key, req = etf.show(t[1][2]), t[1][3]
            ans = A(b"error")
            if key in hs:
                h = hs[key]
                note(key, "call", req)
                if req == A(b"count"):
                    ans = ("i", h.count)
                elif req == A(b"remove"):
                    del hs[key]; note(key, "term", A(b"normal")); ans = A(b"ok")
                elif req == A(b"fail"):
                    del hs[key]; note(key, "term", A(b"error"))
                elif req in (A(b"swap"), A(b"badswap")):
                    note(key, "term", A(b"swap"))
                    hs[key] = successor(h)
                    args = A(b"swapped") if req == A(b"swap") else A(b"bad")
                    note(key, "init", args)
                    if args != A(b"bad"):
                        ans = A(b"ok")
                else:
                    ans = ("t", [h.id, req])
            reply(pid, ("t", [ref, ans]))
        elif tag == A(b"$gen_which_handlers") and len(t[1]) == 2 and shaped(t[1][1]):
            pid, ref = t[1][1][1]
            reply(pid, ("t", [ref, ("l", sorted((h.id for h in hs.values()), key=etf.show))]))
        else:
            for key, h in hs.items():
                note(key, "info", t)
                h.count += 100
    j = lambda l: " , ".join(l) if l else "-"  # noqa
    return SEP.join(["h[%s]=%s" % (k, j(logs[k])) for k in sorted(logs)] + ["c%d=%s" % (k, j(boxes[k])) for k in range(len(mask))])


def gevt_oracle(case, impl):
    if impl.startswith(("PANIC", "CRASH", "TIMEOUT")):
        return ("violation", "did not return: " + impl[:60])
    want = gevt_expect(case)
    if impl != want:
        wi, ww = impl.split(SEP), want.split(SEP)
        for a, b in zip(wi, ww):
            if a != b:
                what = "a caller's mailbox" if a.startswith("c") else "what a handler's callbacks saw"
                return ("violation", "gen_event: %s differs: got %s, expected %s" % (what, a[:90], b[:90]))
        return ("violation", "gen_event: output shape differs")
    return None


def run(ctx):
    rng = ctx.rng
    cases = [gen_script(rng) for _ in range(ctx.budget(150, 4000))]
    # the name of a terminated process is free again
    cases.append(SEP.join(["node 0", "spawn", "spawn", "register 616c696365 $0", "send $0 a 6372617368", "whereis 616c696365",
                           "register 616c696365 $1", "whereis 616c696365", "sendname 616c696365 i 1", "events $1", "registered"]))

    # two monitors of one process on the same target: removing one leaves the other in force (either one)
    for drop in (0, 1):
        cases.append(SEP.join(["node 0", "spawn", "spawn", "monitor $0 $1", "monitor $0 $1", "demonitor $0 $1 #%d" % drop, "send $1 a 6372617368",
                               "events $0", "events $1", "count"]))
    # a monitor and a link on the same pair; a process registered under two names that ends
    cases.append(SEP.join(["node 0", "spawn", "spawn", "link $0 $1", "monitor $0 $1", "unlink $0 $1", "send $1 a 6372617368", "events $0", "count"]))
    cases.append(SEP.join(["node 0", "spawn", "spawn", "register 616c696365 $0", "register 626f62 $0", "send $0 a 6372617368", "whereis 616c696365",
                           "whereis 626f62", "registered", "register 626f62 $1", "whereis 626f62", "sendname 626f62 i 1", "events $1"]))

    # a watcher that is busy with a full mailbox (the default capacity is 1000) when the process it watches ends still gets
    # its notices; also one message short of full, and a registered name freed meanwhile
    park = "a " + hx(b"park")
    for n in (999, 1000):
        cases.append(SEP.join(["node 0", "spawn", "spawn", "link $0 $1", "monitor $0 $1", "register 616c696365 $1", "send $0 " + park,
                               "flood $0 %d i 1" % n, "send $1 a 6372617368", "open", "events $0", "count", "whereis 616c696365", "registered"]))
    cases.append(SEP.join(["node 0", "spawn", "spawn", "spawn", "monitor $0 $2", "monitor $1 $2", "send $0 " + park, "flood $0 1000 a 78",
                           "send $2 a 6372617368", "open", "events $0", "events $1", "count"]))

    def classify(c, impl):
        out = []
        for s in c.split(SEP)[1:]:
            out.append("op:" + s.split()[0])
        return out
    ctx.diff_domain("node", cases, oracle=oracle, nontrivial=lambda c, i: c if "6372617368" in c else None, classify=classify)
    # OTP-style behaviours answer each call once to its caller
    gcases = list(dict.fromkeys(gen_gsrv(rng) for _ in range(ctx.budget(400, 12000))))

    def gclassify(c, impl):
        out = ["gsrv:callers=%s" % c.split(SEP)[0].split()[1]]
        for st in c.split(SEP)[1:]:
            out.append("gsrv:" + ("call" if "2467656e5f63616c6c" in st else "cast" if "2467656e5f63617374" in st else st.split()[0]))
        return out
    ctx.diff_domain("gsrv", gcases, oracle=gsrv_oracle, nontrivial=lambda c, i: c if " , " in i else None, classify=gclassify)
    ecases = list(dict.fromkeys(gen_gevt(rng) for _ in range(ctx.budget(400, 12000))))

    def eclassify(c, impl):
        out = ["gevt:handlers=%d" % sum(1 for st in c.split(SEP) if st.startswith("H "))]
        for st in c.split(SEP)[1:]:
            for tag, nm in ((b"$gen_notify", "notify"), (b"$gen_sync_notify", "sync_notify"), (b"$gen_call", "call"), (b"$gen_which_handlers", "which")):
                if tag.hex() + " " in st + " ":
                    out.append("gevt:" + nm)
        return out
    ctx.diff_domain("gevt", ecases, oracle=gevt_oracle, nontrivial=lambda c, i: c if " , " in i else None, classify=eclassify)
