From EDP Require Import Base.Bytes Gen.FramingConsts Dist.Framing.

Lemma len_app {A} (a b : list A) : len (a ++ b) = len a + len b.
Proof. unfold len. rewrite app_length. lia. Qed.

Lemma len_nil_iff {A} (l : list A) : len l = 0 <-> l = [].
Proof. unfold len. destruct l; cbn [length]; split; intros H; try reflexivity; try discriminate; lia. Qed.

Lemma app_eq_app_le {A} (d : list A) : forall x a b, d ++ x = a ++ b -> (length d <= length a)%nat ->
  exists a', a = d ++ a' /\ x = a' ++ b.
Proof.
  induction d as [|y d IH]; intros x a b H Hl.
  - exists a. split; [reflexivity|exact H].
  - destruct a as [|z a]; [cbn in Hl; lia|]. cbn [app] in H. injection H as -> H.
    destruct (IH x a b H ltac:(cbn in Hl; lia)) as (a' & -> & ->). exists a'. split; reflexivity.
Qed.

(* read_exact delivers exactly the next n bytes of the stream, whatever the chunking *)
Lemma read_exact_spec cs : forall n a b, wfc cs -> data_of cs = a ++ b -> len a = n ->
  exists cs', read_exact n cs = Some (a, cs') /\ data_of cs' = b /\ wfc cs'.
Proof.
  induction cs as [|c cs IH]; intros n a b Hwf Hd Hn.
  - cbn in Hd. symmetry in Hd. apply app_eq_nil in Hd as [-> ->]. cbn in Hn. subst n.
    exists []. cbn. repeat split; constructor.
  - destruct (n =? 0) eqn:E0.
    + apply N.eqb_eq in E0. subst n. apply len_nil_iff in E0. subst a.
      exists (c :: cs). cbn [read_exact]. destruct c; cbn [N.eqb]; repeat split; auto.
    + apply N.eqb_neq in E0. inversion Hwf as [|? ? Hc Hwf']; subst.
      destruct c as [d|].
      * cbn [read_exact]. rewrite (proj2 (N.eqb_neq _ _) E0).
        assert (Hd0 : len d =? 0 = false) by (apply N.eqb_neq; intros H; apply len_nil_iff in H; contradiction).
        rewrite Hd0. unfold data_of in Hd. cbn [map concat] in Hd. fold (data_of cs) in Hd.
        destruct (len d <=? len a) eqn:Ele.
        -- apply N.leb_le in Ele.
           destruct (app_eq_app_le d (data_of cs) a b Hd ltac:(unfold len in Ele; lia)) as (a' & -> & Hd').
           rewrite len_app in *.
           destruct (IH (len d + len a' - len d) a' b Hwf' Hd' ltac:(lia)) as (cs' & Hr & Hd2 & Hw').
           rewrite Hr. exists cs'. auto.
        -- apply N.leb_gt in Ele.
           symmetry in Hd. destruct (app_eq_app_le a b d (data_of cs) Hd ltac:(unfold len in Ele; lia)) as (d' & -> & ->).
           assert (Hn0 : N.to_nat (len a) = length a) by (unfold len; apply Nat2N.id).
           rewrite Hn0. rewrite firstn_app, Nat.sub_diag, firstn_all. cbn [firstn]. rewrite app_nil_r.
           rewrite skipn_app, Nat.sub_diag, skipn_all. cbn [skipn app].
           eexists. split; [reflexivity|]. split; [reflexivity|].
           constructor; [|exact Hwf'].
           intros ->. rewrite app_nil_r in Ele. lia.
      * cbn [read_exact]. rewrite (proj2 (N.eqb_neq _ _) E0).
        unfold data_of in Hd. cbn [map concat app] in Hd. fold (data_of cs) in Hd.
        apply (IH (len a) a b Hwf' Hd eq_refl).
Qed.

(* ... and reports end-of-stream when fewer than n bytes remain *)
Lemma read_exact_eof cs : forall n, wfc cs -> len (data_of cs) < n -> read_exact n cs = None.
Proof.
  induction cs as [|c cs IH]; intros n Hwf Hlt.
  - cbn [read_exact]. destruct (n =? 0) eqn:E; [apply N.eqb_eq in E; lia|reflexivity].
  - inversion Hwf as [|? ? Hc Hwf']; subst. cbn [read_exact].
    destruct (n =? 0) eqn:E; [apply N.eqb_eq in E; lia|].
    destruct c as [d|].
    + unfold data_of in Hlt. cbn [map concat] in Hlt. fold (data_of cs) in Hlt. rewrite len_app in Hlt.
      destruct (len d =? 0); [reflexivity|].
      replace (len d <=? n) with true by (symmetry; apply N.leb_le; lia).
      rewrite IH; [reflexivity|exact Hwf'|lia].
    + apply IH; [exact Hwf'|exact Hlt].
Qed.

Lemma prefix_size_le m : (prefix_size m <= 4)%nat /\ (1 <= prefix_size m)%nat.
Proof. destruct m; vm_compute; lia. Qed.

(* one frame *)
Lemma read_framed_frame m msg cs tail : wfc cs -> fits m msg ->
  data_of cs = frame m msg ++ tail ->
  exists cs', read_framed m cs = (ROk msg, cs', len msg) /\ data_of cs' = tail /\ wfc cs'.
Proof.
  intros Hwf (Hf1 & Hf2) Hd. unfold read_framed, frame in *.
  rewrite <- app_assoc in Hd.
  destruct (read_exact_spec cs (N.of_nat (prefix_size m)) _ _ Hwf Hd) as (cs1 & Hr1 & Hd1 & Hw1).
  { unfold len. now rewrite be_length. }
  rewrite Hr1. rewrite unbe_be_small by exact Hf1.
  destruct (len msg =? 0) eqn:E0.
  - apply N.eqb_eq in E0. apply len_nil_iff in E0. subst msg. cbn [app] in Hd1.
    exists cs1. auto.
  - replace (framing_max_message_size <? len msg) with false by (symmetry; apply N.ltb_ge; exact Hf2).
    destruct (read_exact_spec cs1 (len msg) msg tail Hw1 Hd1 eq_refl) as (cs2 & Hr2 & Hd2 & Hw2).
    rewrite Hr2. exists cs2. auto.
Qed.

(* a sequence of frames, any chunking: the k = |msgs| reads return exactly msgs, the stream position is after them *)
Lemma read_frames_msgs m msgs : forall cs tail, wfc cs -> Forall (fits m) msgs ->
  data_of cs = concat (map (frame m) msgs) ++ tail ->
  exists cs', read_frames (length msgs) m cs = (map ROk msgs, cs') /\ data_of cs' = tail /\ wfc cs'.
Proof.
  induction msgs as [|msg msgs IH]; intros cs tail Hwf Hfits Hd.
  - exists cs. cbn in *. auto.
  - inversion Hfits as [|? ? Hf Hfs]; subst. cbn [map concat] in Hd. rewrite <- app_assoc in Hd.
    destruct (read_framed_frame m msg cs _ Hwf Hf Hd) as (cs1 & Hr1 & Hd1 & Hw1).
    destruct (IH cs1 tail Hw1 Hfs Hd1) as (cs2 & Hr2 & Hd2 & Hw2).
    cbn [length read_frames map]. rewrite Hr1, Hr2. exists cs2. auto.
Qed.

(* end of stream: at a frame boundary or inside a frame, the next read is an error, never a short message *)
Lemma read_framed_truncated m msg cs (cut : nat) : wfc cs -> fits m msg ->
  (cut < length (frame m msg))%nat -> data_of cs = firstn cut (frame m msg) ->
  fst (fst (read_framed m cs)) = RErr Eof.
Proof.
  intros Hwf (Hf1 & Hf2) Hcut Hd. unfold read_framed.
  destruct (Nat.lt_ge_cases cut (prefix_size m)) as [Hlt|Hge].
  - rewrite read_exact_eof; [reflexivity|exact Hwf|].
    rewrite Hd. unfold len. rewrite firstn_length. lia.
  - unfold frame in Hd. rewrite firstn_app, be_length in Hd.
    rewrite firstn_all2 in Hd by (rewrite be_length; lia).
    destruct (read_exact_spec cs (N.of_nat (prefix_size m)) _ _ Hwf Hd) as (cs1 & Hr1 & Hd1 & Hw1).
    { unfold len. now rewrite be_length. }
    rewrite Hr1. rewrite unbe_be_small by exact Hf1.
    unfold frame in Hcut. rewrite app_length, be_length in Hcut.
    destruct (len msg =? 0) eqn:E0; [apply N.eqb_eq in E0; unfold len in E0; lia|].
    replace (framing_max_message_size <? len msg) with false by (symmetry; apply N.ltb_ge; exact Hf2).
    rewrite read_exact_eof; [reflexivity|exact Hw1|].
    rewrite Hd1. unfold len. rewrite firstn_length. lia.
Qed.

(* cap: a declared length above the cap is refused and no body buffer is allocated *)
Lemma read_framed_cap m cs p r : read_exact (N.of_nat (prefix_size m)) cs = Some (p, r) ->
  framing_max_message_size < unbe p -> read_framed m cs = (RErr TooLarge, r, 0).
Proof.
  intros Hr Hl. unfold read_framed. rewrite Hr.
  destruct (unbe p =? 0) eqn:E0; [apply N.eqb_eq in E0; unfold framing_max_message_size in Hl; lia|].
  replace (framing_max_message_size <? unbe p) with true by (symmetry; now apply N.ltb_lt). reflexivity.
Qed.

Lemma write_framed_eq_frame m data : concat (write_framed m data) = frame m data.
Proof. unfold write_framed, frame. cbn [concat]. now rewrite app_nil_r. Qed.
