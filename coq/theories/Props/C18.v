(* C18 — local processes: ordered exactly-once delivery, exit notices, name lifecycle.
   Model: Node/Node.v — the registry (by_pid, by_name), process records with links, monitors and the messages handed
   to the handler, termination with propagate_exit_signals; after fix commit 84e81b9.  One operation = one API call
   run to quiescence.  The correspondence run drives a real Node with instrumented processes. *)
From EDP Require Import Base.Bytes Term.Term Order.Cmp Codec.Decode Dist.Control Node.Node Node.NodeFacts Gen.LockScope.
From EDP Require Conc.Interleave Conc.RegisterConc Node.GenServer Node.GenServerFacts Node.GenEvent Node.GenEventFacts Node.GenEventLog.
Open Scope N_scope.

(* accepted for a live process: handed to it exactly once, after everything it received before; nobody else is
   touched; a message for an identifier that does not resolve is refused *)
Theorem C18_delivered_once_in_order : forall cfg st p msg y, crashes (MRegular msg) = false -> find_proc p (n_procs st) = Some y ->
  exists st', step cfg st (OSend p msg) = (st', UOk) /\
    find_proc p (n_procs st') = Some (add_event (MRegular msg) y) /\
    (forall q, pid_eqb q p = false -> find_proc q (n_procs st') = find_proc q (n_procs st)) /\
    n_names st' = n_names st.
Proof. exact send_delivered_once. Qed.

Theorem C18_unknown_refused : forall cfg st p msg, find_proc p (n_procs st) = None -> step cfg st (OSend p msg) = (st, UErr).
Proof. exact send_to_unknown_refused. Qed.

Theorem C18_name_is_its_process : forall cfg st name p msg, lookup_name name (n_names st) = Some p ->
  step cfg st (OSendName name msg) = step cfg st (OSend p msg).
Proof. exact send_name_is_send. Qed.

(* termination: every other live process gets, after what it had, one exit notice per link entry naming it and one
   monitor notice with the monitor's reference per monitor entry naming it — and nothing else *)
Theorem C18_exit_notices : forall st x q y, pid_eqb q (pp x) = false -> find_proc q (n_procs st) = Some y ->
  exists y', find_proc q (n_procs (terminate st x)) = Some y' /\
    pevents y' = pevents y ++ map (fun _ => MExit (pp x) (TAtom n_error)) (filter (fun l => pid_eqb l q) (plinks x))
                           ++ map (fun mr => MMonitorExit (pp x) (snd mr) (TAtom n_error)) (filter (fun mr => pid_eqb (fst mr) q) (pmons x)).
Proof. exact exit_notices. Qed.

(* afterwards the identifier no longer resolves, no name resolves to it, and its names can be registered again *)
Theorem C18_terminated_pid_gone : forall st x, pids_distinct (n_procs st) = true -> find_proc (pp x) (n_procs (terminate st x)) = None.
Proof. exact terminated_pid_gone. Qed.

Theorem C18_terminated_name_gone : forall st x name q,
  lookup_name name (n_names (terminate st x)) = Some q -> pid_eqb q (pp x) = false.
Proof. exact terminated_name_gone. Qed.

(* ... and only its own: a name held by another process survives the termination, also a name the terminating process
   held earlier, gave up, and the other process took *)
Theorem C18_others_keep_their_names : forall st x name q,
  lookup_name name (n_names st) = Some q -> pid_eqb q (pp x) = false -> lookup_name name (n_names (terminate st x)) = Some q.
Proof. exact others_keep_their_names. Qed.

Theorem C18_released_name_belongs_to_the_new_holder : forall cfg st name q x,
  lookup_name name (n_names st) = None -> pid_eqb q (pp x) = false ->
  let st' := fst (step cfg st (ORegister name q)) in
  lookup_name name (n_names st') = Some q /\ lookup_name name (n_names (terminate st' x)) = Some q.
Proof. exact released_name_belongs_to_the_new_holder. Qed.

(* a name never maps to two processes: a taken name is refused, a free one is taken and nothing else changes *)
Theorem C18_name_taken_refused : forall cfg st name p q, lookup_name name (n_names st) = Some q ->
  step cfg st (ORegister name p) = (st, UErr).
Proof. exact register_taken. Qed.

Theorem C18_name_free_registered : forall cfg st name p, lookup_name name (n_names st) = None ->
  exists st', step cfg st (ORegister name p) = (st', UOk) /\ lookup_name name (n_names st') = Some p /\
    forall other, eq_bytes name other = false -> lookup_name other (n_names st') = lookup_name other (n_names st).
Proof. exact register_free. Qed.

Example C18_example :
  let cfg := {| d_arms := Gen.DecoderArms.owned_arms; d_cache := []; d_refs := []; d_inflate := fun _ => None; d_float_text := fun _ => None;
                d_kcmp := cmp_owned; d_kinsert := map_insert; d_extra_fuel := 0 |} in
  let p k := {| pnode := [110]; pnum := k; pserial := 0; pcreation := 7; ploc := None |} in
  let st := run cfg (node_init [110] 7 false)
              [OSpawn; OSpawn; ORegister [97] (p 1); OLink (p 1) (p 2); OMonitor (p 2) (p 1); OSend (p 1) (TAtom n_crash)] in
  map pp (n_procs st) = [p 2] /\ n_names st = [] /\
  (exists r, map pevents (n_procs st) = [[MExit (p 1) (TAtom n_error); MMonitorExit (p 1) r (TAtom n_error)]]) /\
  fst (step cfg st (ORegister [97] (p 2))) <> st.
Proof. cbv zeta. split; [vm_compute; reflexivity|]. split; [vm_compute; reflexivity|]. split; [eexists; vm_compute; reflexivity|]. vm_compute. discriminate. Qed.

(* ---- the name table under any interleaving ----
   register looks the name up and inserts it if free, unregister removes it; each under the table's write lock for its
   whole body (for register the translator checks this on the source).  With the lookup and the insertion as separate
   atomic steps, any number of tasks, any names and EVERY schedule: the table and the results handed out are those of
   the sequential table fed the granted operations in grant order, so at no moment does a name belong to two processes *)
Theorem C18_registry_sequential_under_any_schedule : forall prog schedule s0, RegisterConc.all_reg prog ->
  exists ops, (length ops <= length schedule)%nat /\
    RegisterConc.names (RegisterConc.exec (Interleave.trace _ (Interleave.run _ (Interleave.start _ prog) schedule)) s0) =
      fst (fold_left RegisterConc.seq_step ops (RegisterConc.names s0, RegisterConc.results s0)) /\
    RegisterConc.results (RegisterConc.exec (Interleave.trace _ (Interleave.run _ (Interleave.start _ prog) schedule)) s0) =
      snd (fold_left RegisterConc.seq_step ops (RegisterConc.names s0, RegisterConc.results s0)).
Proof. exact RegisterConc.registry_is_sequential. Qed.

Theorem C18_one_process_per_name_under_any_schedule : forall prog schedule, RegisterConc.all_reg prog ->
  RegisterConc.functional (RegisterConc.names (RegisterConc.exec (Interleave.trace _ (Interleave.run _ (Interleave.start _ prog) schedule))
                                                 {| RegisterConc.names := []; RegisterConc.found := false; RegisterConc.results := [] |})).
Proof. exact RegisterConc.registry_functional. Qed.

Theorem C18_register_holds_its_lock : forallb snd lock_sites = true.
Proof. vm_compute. reflexivity. Qed.

(* ---- "OTP-style behaviours answer each call once to its caller" (gen_server.rs in the process loop of process.rs) ----
   For every sequence of mailbox messages, every behaviour of the user's callbacks and every set of live callers: the
   replies sent are exactly, in order, one {Ref, Reply} per call that was answered, to the process named in that call
   when it is a live local process — for the messages handled up to the first failing callback; nothing else is sent *)
Theorem C18_gen_server_replies_exact : forall on_call on_cast on_info live ms,
  GenServer.g_sent (GenServer.grun on_call on_cast on_info live ms) =
  flat_map (GenServerFacts.answer on_call live) (GenServerFacts.handled on_call on_cast on_info ms).
Proof. exact GenServerFacts.replies_exact. Qed.

Theorem C18_gen_server_one_reply_per_call : forall on_call live m, (length (GenServerFacts.answer on_call live m) <= 1)%nat.
Proof. exact GenServerFacts.answer_at_most_one. Qed.

Theorem C18_gen_server_replies_when_no_failure : forall on_call on_cast on_info live ms,
  GenServerFacts.dies on_call on_cast on_info ms = false ->
  GenServer.g_sent (GenServer.grun on_call on_cast on_info live ms) = flat_map (GenServerFacts.answer on_call live) ms.
Proof. exact GenServerFacts.replies_when_no_failure. Qed.

(* a reply goes to the caller named in the call it answers, with that call's reference and the callback's answer *)
Theorem C18_gen_server_replies_only_to_callers : forall on_call on_cast on_info live ms, Forall (fun pt =>
    exists body ref req r, In (GenServer.GReg body) ms /\ GenServer.classify body = GenServer.GCall (fst pt) ref req /\
                           on_call req (fst pt) = GenServer.CReply r /\ snd pt = TTuple [ref; r] /\ live (fst pt) = true)
  (GenServer.g_sent (GenServer.grun on_call on_cast on_info live ms)).
Proof. exact GenServerFacts.replies_only_to_callers. Qed.

(* the callbacks are shown every handled message once, in order; the process ends at the first failure and only then *)
Theorem C18_gen_server_callbacks_see_each_message_once : forall on_call on_cast on_info live ms,
  GenServer.g_log (GenServer.grun on_call on_cast on_info live ms) =
  flat_map GenServerFacts.shown (GenServerFacts.handled on_call on_cast on_info ms) ++
  (if GenServerFacts.dies on_call on_cast on_info ms then [GenServer.EvTerm (TAtom GenServer.n_normal)] else []).
Proof. exact GenServerFacts.callbacks_see_each_message_once. Qed.

Theorem C18_gen_server_alive_iff_no_failure : forall on_call on_cast on_info live ms,
  GenServer.g_alive (GenServer.grun on_call on_cast on_info live ms) = negb (GenServerFacts.dies on_call on_cast on_info ms).
Proof. exact GenServerFacts.alive_iff_no_failure. Qed.

(* two calls with the same reference from two callers, a cast, a near miss and a call from a caller that is gone *)
Example C18_gen_server_example :
  let c k := {| pnode := [99]; pnum := k; pserial := 0; pcreation := 1; ploc := None |} in
  let call k r req := GenServer.GReg (TTuple [TAtom GenServer.n_gen_call; TTuple [TPid (c k); TRef [99] 1 [r] None]; req]) in
  GenServer.g_sent (GenServer.demo_run [c 1; c 2]
     [call 1 7 (TInt 1); GenServer.GReg (TTuple [TAtom GenServer.n_gen_cast; TInt 2]); call 2 7 (TAtom GenServer.n_noreply);
      GenServer.GReg (TTuple [TAtom GenServer.n_gen_call; TPid (c 1); TInt 3]); call 3 8 (TInt 4); call 2 9 (TInt 5)])
  = [(c 1, TTuple [TRef [99] 1 [7] None; TTuple [TAtom GenServer.n_ok; TInt 1]]);
     (c 2, TTuple [TRef [99] 1 [9] None; TTuple [TAtom GenServer.n_ok; TInt 5]])].
Proof. vm_compute. reflexivity. Qed.

(* ---- gen_event.rs: the manager answers every call, every which_handlers request and every sync_notify once, to the
   process that asked, with the request's reference (a call to a handler that is missing or fails is answered `error`);
   nothing else is ever sent.  For every message sequence, every handler behaviour (including handlers that remove or
   swap themselves), every set of installed handlers and every set of live callers *)
Theorem C18_gen_event_replies_exact : forall H on_init on_event on_call on_info id_of live ms s, exists rs,
  GenEvent.e_sent (GenEvent.erun H on_init on_event on_call on_info id_of live s ms) = GenEvent.e_sent s ++ rs /\
  Forall2 GenEventFacts.pays (flat_map (GenEventFacts.owed live) ms) rs.
Proof. intros. apply GenEventFacts.replies_exact. Qed.

Theorem C18_gen_event_one_reply_per_request : forall live m, (length (GenEventFacts.owed live m) <= 1)%nat.
Proof. exact GenEventFacts.owed_at_most_one. Qed.

(* a handler that counts events, asked for its count after two notifications, one of them synchronous; a call to a
   handler that is not installed; a which_handlers request *)
Example C18_gen_event_example :
  let c k := {| pnode := [99]; pnum := k; pserial := 0; pcreation := 1; ploc := None |} in
  let fr k r := TTuple [TPid (c k); TRef [99] 1 [r] None] in
  let s0 := GenEvent.demo_add GenEvent.demo_einit {| GenEvent.dh_id := TAtom [108]; GenEvent.dh_count := 0 |} (TAtom [120]) in
  GenEvent.e_sent (fold_left (GenEvent.demo_estep [c 1; c 2]) 
     [GenEvent.EReg None (TTuple [TAtom GenEvent.n_gen_notify; TInt 1]);
      GenEvent.EReg (Some (c 2)) (TTuple [TAtom GenEvent.n_gen_sync_notify; TInt 2]);
      GenEvent.EReg None (TTuple [TAtom GenServer.n_gen_call; fr 1 7; TAtom [108]; TAtom GenEvent.n_count]);
      GenEvent.EReg None (TTuple [TAtom GenServer.n_gen_call; fr 2 8; TAtom [109]; TAtom GenEvent.n_count]);
      GenEvent.EReg None (TTuple [TAtom GenEvent.n_gen_which; fr 3 9]);
      GenEvent.EReg None (TTuple [TAtom GenEvent.n_gen_which; fr 1 9])] s0)
  = [(c 2, TAtom GenServer.n_ok); (c 1, TTuple [TRef [99] 1 [7] None; TInt 2]);
     (c 2, TTuple [TRef [99] 1 [8] None; TAtom GenEvent.n_error]); (c 1, TTuple [TRef [99] 1 [9] None; TList [TAtom [108]]])].
Proof. vm_compute. reflexivity. Qed.

(* a notified event is shown to every installed handler exactly once, in the order of the handler table, whatever the
   handlers answer (continue, ask to be removed, fail, swap themselves for a successor) *)
Theorem C18_gen_event_every_handler_sees_the_event_once : forall H on_init on_event s e,
  filter GenEventLog.is_event (GenEvent.e_log (GenEvent.notify H on_init on_event s e)) =
  filter GenEventLog.is_event (GenEvent.e_log s) ++ map (fun kh => GenEvent.HEvent (fst kh) e) (GenEvent.e_handlers s).
Proof. exact GenEventLog.every_handler_sees_the_event_once. Qed.

Check C18_exit_notices.
