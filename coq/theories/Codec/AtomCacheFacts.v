(* Histories of distribution headers from a conforming sender that keeps an atom cache (erl_ext_dist: new entries,
   references to entries of earlier messages, overwrites, eight segments, header position independent of the slot):
   the reader (DistHeader.read_entries, decode_with_atom_cache) resolves every reference of every message to the atom
   the sender meant, for every history. *)
From EDP Require Import Base.Bytes Term.Term Gen.Tags Gen.DecoderArms Codec.Encode Codec.Decode Codec.DecodeFacts Codec.Norm
  Codec.RoundTrip Codec.DistHeader Codec.RoundTripC Codec.DistHeaderFacts Codec.AtomCache.

Definition e_ok (long : bool) (e : entry) : Prop :=
  match e with
  | ENew s i a => s < 8 /\ i < 256 /\ atom_fits long a
  | EOld s i => s < 8 /\ i < 256
  end.


Definition agree (rc sc : list (N * bytes)) : Prop := forall k, assocb k rc = assocb k sc.

(* ---------- nibble packing ---------- *)
Lemma list_ind2 {A} (P : list A -> Prop) :
  P [] -> (forall a, P [a]) -> (forall a b r, P r -> P (a :: b :: r)) -> forall l, P l.
Proof.
  intros H0 H1 H2. fix IH 1. intros [|a [|b r]]; [exact H0|apply H1|apply H2, IH].
Qed.

Lemma nibble_SS x fl i : nibble (x :: fl) (N.of_nat (S (S i))) = nibble fl (N.of_nat i).
Proof.
  unfold nibble. replace (N.of_nat (S (S i))) with (N.of_nat i + 1 * 2) by lia.
  rewrite N.div_add by lia. rewrite (N.mul_comm 1 2), N.even_add_mul_2.
  replace (N.to_nat (N.of_nat i / 2 + 1)) with (S (N.to_nat (N.of_nat i / 2))) by lia. reflexivity.
Qed.

Lemma lo_nib a b : a < 16 -> (a + 16 * b) mod 16 = a.
Proof. intros Ha. symmetry. apply N.mod_unique with (q := b); lia. Qed.
Lemma hi_nib a b : a < 16 -> b < 16 -> ((a + 16 * b) / 16) mod 16 = b.
Proof. intros Ha Hb. replace ((a + 16 * b) / 16) with b by (apply N.div_unique with (r := a); lia). now apply N.mod_small. Qed.

Lemma nibble_pack : forall l, Forall (fun x => x < 16) l -> forall i, (i < length l)%nat -> nibble (pack l) (N.of_nat i) = nth i l 0.
Proof.
  induction l as [|a|a b r IH] using list_ind2; intros Hl i Hi.
  - cbn in Hi. lia.
  - destruct i; [|cbn in Hi; lia]. inversion Hl; subst. unfold nibble. cbn. now apply N.mod_small.
  - inversion Hl as [|? ? Ha Hl']; subst. inversion Hl' as [|? ? Hb Hr]; subst.
    destruct i as [|[|i]].
    + unfold nibble. change (N.of_nat 0) with 0. change (N.to_nat (0 / 2)) with 0%nat. change (N.even 0) with true. cbn [pack nth]. cbv zeta iota.
      now apply lo_nib.
    + unfold nibble. change (N.of_nat 1) with 1. change (N.to_nat (1 / 2)) with 0%nat. change (N.even 1) with false. cbn [pack nth]. cbv zeta iota.
      now apply hi_nib.
    + cbn [pack]. rewrite nibble_SS. cbn [nth]. apply IH; [exact Hr|cbn [length] in Hi; lia].
Qed.

Lemma pack_length : forall l, length (pack l) = ((length l + 1) / 2)%nat.
Proof.
  induction l as [|a|a b r IH] using list_ind2; [reflexivity|reflexivity|].
  cbn [pack length]. rewrite IH. replace (S (S (length r)) + 1)%nat with (length r + 1 + 1 * 2)%nat by lia.
  rewrite Nat.div_add by lia. lia.
Qed.

Lemma testbit4 a L : a < 16 -> N.testbit (a + 16 * L) 4 = N.testbit L 0.
Proof.
  intros Ha. rewrite !N.testbit_eqb. change (2 ^ 4) with 16. change (2 ^ 0) with 1. rewrite N.div_1_r.
  replace ((a + 16 * L) / 16) with L by (apply N.div_unique with (r := a); lia). reflexivity.
Qed.

Lemma pack_nonempty l x : pack (l ++ [x]) <> [].
Proof. destruct l as [|a [|b r]]; cbn; discriminate. Qed.

Lemma long_bit : forall nibs (long : bool), Forall (fun x => x < 16) nibs ->
  long_of_coded (N.of_nat (length nibs)) (pack (nibs ++ [if long then 1 else 0])) = long.
Proof.
  unfold long_of_coded. induction nibs as [|a|a b r IH] using list_ind2; intros long Hl.
  - cbn. now destruct long.
  - inversion Hl; subst. cbn [app pack last length]. change (N.even (N.of_nat 1)) with false. cbv iota.
    rewrite testbit4 by assumption. now destruct long.
  - inversion Hl as [|? ? _ Hl']; subst. inversion Hl' as [|? ? _ Hr]; subst.
    cbn [app pack length]. replace (N.even (N.of_nat (S (S (length r))))) with (N.even (N.of_nat (length r))).
    2:{ replace (N.of_nat (S (S (length r)))) with (N.of_nat (length r) + 2 * 1) by lia. now rewrite N.even_add_mul_2. }
    specialize (IH long Hr). remember (pack (r ++ [if long then 1 else 0])) as p eqn:Ep.
    destruct p as [|y p']; [exfalso; symmetry in Ep; revert Ep; apply pack_nonempty|]. exact IH.
Qed.

(* ---------- the reader against the sender's entries ---------- *)
Lemma agree_push rc sc e : agree rc sc -> agree (push rc e) (push sc e).
Proof. intros H k. destruct e as [s i a|s i]; cbn [push]; [cbn [assocb]; now rewrite H|apply H]. Qed.

Lemma e_bytes_length long e : (1 <= length (e_bytes long e))%nat.
Proof. destruct e; cbn [e_bytes length]; lia. Qed.

Lemma ebytes_length long : forall es, (length es <= length (concat (map (e_bytes long) es)))%nat.
Proof. induction es as [|e es IH]; [cbn; lia|]. cbn [map concat]. rewrite app_length. pose proof (e_bytes_length long e). cbn [length]. lia. Qed.

Lemma read_sender flags long n : forall es i0 rc sc refs body fuel l,
  N.of_nat (i0 + length es) = n -> n <= 255 ->
  (forall j, (j < length es)%nat -> nibble flags (N.of_nat (i0 + j)) = e_nib (nth j es (EOld 0 0))) ->
  Forall (e_ok long) es -> (length es < fuel)%nat -> agree rc sc -> meant sc es = Some l ->
  read_entries fuel (N.of_nat i0) n flags long rc refs (concat (map (e_bytes long) es) ++ body) =
    (fold_left push es rc, inl (rev refs ++ l, body)).
Proof.
  induction es as [|e es IH]; intros i0 rc sc refs body fuel l Hn Hmax Hnib Hok Hfuel Hag Hm.
  - cbn [length] in Hn. rewrite Nat.add_0_r in Hn. cbn [meant] in Hm. inversion Hm; subst l.
    destruct fuel; cbn [read_entries]; rewrite Hn, N.eqb_refl; cbn; now rewrite app_nil_r.
  - destruct fuel as [|fuel]; [cbn in Hfuel; lia|]. cbn [length] in *. apply Forall_cons_iff in Hok as [He Hok'].
    cbn [meant] in Hm.
    pose proof (Hnib 0%nat ltac:(lia)) as Hn0. rewrite Nat.add_0_r in Hn0. cbn [nth] in Hn0.
    assert (Hrest : forall j, (j < length es)%nat -> nibble flags (N.of_nat (S i0 + j)) = e_nib (nth j es (EOld 0 0))).
    { intros j Hj. specialize (Hnib (S j) ltac:(lia)). cbn [nth] in Hnib. replace (S i0 + j)%nat with (i0 + S j)%nat by lia. exact Hnib. }
    destruct e as [s i a|s i]; cbn [map concat e_bytes push] in *.
    + destruct He as (Hs & Hi & Hu & Hl & Hsh).
      cbn [assocb] in Hm. rewrite N.eqb_refl in Hm.
      destruct (meant ((slot_of s i, a) :: sc) es) as [l'|] eqn:Em; [|discriminate]. inversion Hm; subst l.
      cbn [app]. rewrite <- !app_assoc. rewrite read_entries_step.
      replace (N.of_nat i0 =? n) with false by (symmetry; apply N.eqb_neq; lia).
      cbv zeta. rewrite Hn0. cbn [e_nib].
      replace (N.testbit (8 + s) 3) with true.
      2:{ symmetry. rewrite N.testbit_eqb. change (2 ^ 3) with 8. replace ((8 + s) / 8) with 1; [reflexivity|].
          apply N.div_unique with (r := s); lia. }
      replace ((8 + s) mod 8) with s by (apply N.mod_unique with (q := 1); lia).
      fold (slot_of s i).
      assert (Hrd : forall tail, (if long then rd 2 ((if long then be 2 (len a) else [len a]) ++ tail)
                     else rd 1 ((if long then be 2 (len a) else [len a]) ++ tail)) = Some (len a, tail)).
      { intros tail. destruct long; [apply rd_app; cbn; lia|cbn [app]; now rewrite rd1]. }
      rewrite Hrd, takeN_app, Hu. cbn [assocb]. rewrite N.eqb_refl.
      replace (N.of_nat i0 + 1) with (N.of_nat (S i0)) by lia.
      rewrite (IH (S i0) ((slot_of s i, a) :: rc) ((slot_of s i, a) :: sc) (a :: refs) body fuel l');
        [|lia|exact Hmax|exact Hrest|exact Hok'|lia|apply (agree_push rc sc (ENew s i a) Hag)|exact Em].
      cbn [fold_left push rev]. rewrite <- !app_assoc. reflexivity.
    + destruct He as (Hs & Hi).
      destruct (assocb (slot_of s i) sc) as [a|] eqn:Ea; [|discriminate].
      destruct (meant sc es) as [l'|] eqn:Em; [|discriminate]. inversion Hm; subst l.
      cbn [app]. rewrite read_entries_step.
      replace (N.of_nat i0 =? n) with false by (symmetry; apply N.eqb_neq; lia).
      cbv zeta. rewrite Hn0. cbn [e_nib].
      replace (N.testbit s 3) with false.
      2:{ symmetry. rewrite N.testbit_eqb. change (2 ^ 3) with 8. rewrite N.div_small by lia. reflexivity. }
      rewrite (N.mod_small s 8) by lia. fold (slot_of s i). rewrite (Hag (slot_of s i)), Ea.
      replace (N.of_nat i0 + 1) with (N.of_nat (S i0)) by lia.
      rewrite (IH (S i0) rc sc (a :: refs) body fuel l'); [|lia|exact Hmax|exact Hrest|exact Hok'|lia|exact Hag|exact Em].
      cbn [fold_left push rev]. rewrite <- !app_assoc. reflexivity.
Qed.

Lemma e_nib_lt long e : e_ok long e -> e_nib e < 16.
Proof. destruct e; cbn [e_ok e_nib]; intros H; lia. Qed.

Theorem sender_header_read cfg sc es long l body :
  agree (d_cache cfg) sc -> (length es <= 255)%nat -> Forall (e_ok long) es -> meant sc es = Some l ->
  decode_with_atom_cache cfg long_of_coded (tag_version :: tag_dist_header :: sender_header es long ++ body) =
    after_hdr cfg (length (sender_header es long ++ body) + 3 + d_extra_fuel cfg) (fold_left push es (d_cache cfg)) l body.
Proof.
  intros Hag Hlen Hok Hm. unfold decode_with_atom_cache.
  change (negb (tag_version =? tag_version)) with false. cbv iota.
  change (tag_dist_header =? tag_dist_header) with true. cbv iota.
  destruct es as [|e0 es0].
  - cbn [meant] in Hm. inversion Hm; subst l. cbn [sender_header app]. change (0 =? 0) with true. cbv iota. reflexivity.
  - assert (Hsh : sender_header (e0 :: es0) long = N.of_nat (length (e0 :: es0)) ::
              pack (map e_nib (e0 :: es0) ++ [if long then 1 else 0]) ++ concat (map (e_bytes long) (e0 :: es0))) by reflexivity.
    rewrite Hsh. clear Hsh. set (es := e0 :: es0) in *.
    cbn [app].
    replace (N.of_nat (length es) =? 0) with false by (symmetry; apply N.eqb_neq; subst es; cbn [length]; lia).
    set (fl := pack (map e_nib es ++ [if long then 1 else 0])).
    assert (Hnibs : Forall (fun x => x < 16) (map e_nib es)).
    { apply Forall_forall. intros x Hx. apply in_map_iff in Hx as (e & <- & He). rewrite Forall_forall in Hok. eapply e_nib_lt, Hok, He. }
    assert (Hfl : length fl = N.to_nat (N.of_nat (length es) / 2 + 1)).
    { subst fl. rewrite pack_length, app_length, map_length. cbn [length].
      rewrite N2Nat.inj_add, N2Nat.inj_div, Nat2N.id. change (N.to_nat 2) with 2%nat. change (N.to_nat 1) with 1%nat.
      replace (length es + 1 + 1)%nat with (length es + 1 * 2)%nat by lia. rewrite Nat.div_add by lia. reflexivity. }
    rewrite <- Hfl. rewrite <- app_assoc. rewrite take_app.
    assert (Hlong : long_of_coded (N.of_nat (length es)) fl = long).
    { subst fl. rewrite <- (map_length e_nib es). apply long_bit. exact Hnibs. }
    rewrite Hlong.
    rewrite (read_sender fl long (N.of_nat (length es)) es 0 (d_cache cfg) sc [] body _ l); [reflexivity|reflexivity|lia| |exact Hok| |exact Hag|exact Hm].
    + intros j Hj. cbn [Nat.add]. subst fl. rewrite nibble_pack.
      * rewrite app_nth1 by (rewrite map_length; exact Hj). change 0 with (e_nib (EOld 0 0)). apply map_nth.
      * apply Forall_app. split; [exact Hnibs|]. constructor; [destruct long; lia|constructor].
      * rewrite app_length, map_length. cbn [length]. lia.
    + rewrite app_length. pose proof (ebytes_length long es). lia.
Qed.

(* ---------- histories ---------- *)
Record smsg := { m_es : list entry; m_long : bool; m_ctl : term; m_pl : option term }.

Definition terms_of (m : smsg) : list term := m_ctl m :: match m_pl m with Some p => [p] | None => [] end.

(* the bytes a conforming sender with table sc puts on the wire for m: its references in the terms are positions in
   the list its header stands for *)
Definition sender_bytes (sc : list (N * bytes)) (m : smsg) : option bytes :=
  match meant sc (m_es m) with
  | None => None
  | Some l => match enc_terms_c l (terms_of m) with
              | EOk body => Some (tag_version :: tag_dist_header :: sender_header (m_es m) (m_long m) ++ body)
              | EErr _ => None
              end
  end.

Section History.
  Variable cfg : dcfg.
  Hypothesis Harms : d_arms cfg = owned_arms.
  Variable kc : term -> term -> comparison.
  Variable ki : (term -> term -> comparison) -> term -> term -> list (term * term) -> list (term * term).
  Hypothesis Hkc : d_kcmp cfg = kc.
  Hypothesis Hki : d_kinsert cfg = ki.

  Definition conform (sc : list (N * bytes)) (m : smsg) : Prop :=
    (length (m_es m) <= 255)%nat /\ Forall (e_ok (m_long m)) (m_es m) /\ meant sc (m_es m) <> None /\
    Forall (fun t => wf t = true /\ rt_ok kc ki t) (terms_of m).

  Fixpoint history_ok (sc : list (N * bytes)) (ms : list smsg) : Prop :=
    match ms with [] => True | m :: r => conform sc m /\ history_ok (fold_left push (m_es m) sc) r end.

  (* the connection: each message is decoded with the cache the previous one left (Receive.decode_dist) *)
  Fixpoint reader_run (rc : list (N * bytes)) (frames : list bytes) : list hdout :=
    match frames with
    | [] => []
    | d :: r => let '(o, c) := decode_with_atom_cache (cfg_with_cache cfg rc []) long_of_coded d in o :: reader_run c r
    end.

  Fixpoint sender_run (sc : list (N * bytes)) (ms : list smsg) : option (list bytes) :=
    match ms with
    | [] => Some []
    | m :: r => match sender_bytes sc m, sender_run (fold_left push (m_es m) sc) r with
                | Some b, Some bl => Some (b :: bl)
                | _, _ => None
                end
    end.

  Lemma meant_length : forall es sc l, meant sc es = Some l -> length l = length es.
  Proof.
    induction es as [|e es IH]; intros sc l H; cbn [meant] in H; [inversion H; reflexivity|].
    destruct (assocb _ (push sc e)); [|discriminate]. destruct (meant (push sc e) es) eqn:E; [|discriminate].
    inversion H; subst. cbn [length]. f_equal. eapply IH, E.
  Qed.

  Lemma one_message rc sc m : agree rc sc -> conform sc m ->
    exists d, sender_bytes sc m = Some d /\
      decode_with_atom_cache (cfg_with_cache cfg rc []) long_of_coded d =
        (HDOk (norm (m_ctl m)) (option_map norm (m_pl m)), fold_left push (m_es m) rc).
  Proof.
    intros Hag (Hlen & Hok & Hm & Hts). destruct (meant sc (m_es m)) as [l|] eqn:El; [|contradiction]. clear Hm.
    pose proof (meant_length _ _ _ El) as Hll.
    set (rc' := fold_left push (m_es m) rc).
    assert (RT := fun t => roundtrip_c (cfg_with_cache (cfg_with_cache cfg rc []) rc' l) Harms l eq_refl
                             ltac:(unfold len; lia) kc ki Hkc Hki t).
    unfold sender_bytes. rewrite El. unfold terms_of in *. destruct (m_pl m) as [pl|].
    - inversion Hts as [|? ? [Hw Ho] Hts']; subst. inversion Hts' as [|? ? [Hwp Hop] _]; subst.
      destruct (RT _ Hw Ho) as (bc & Ec & Lc & Pc). destruct (RT _ Hwp Hop) as (bp & Ep & Lp & Pp).
      cbn [enc_terms_c]. rewrite Ec, Ep. cbn [ebind]. eexists. split; [reflexivity|].
      rewrite (sender_header_read (cfg_with_cache cfg rc []) sc (m_es m) (m_long m) l _ Hag Hlen Hok El).
      unfold after_hdr. cbv zeta. cbn [d_cache cfg_with_cache]. fold rc'.
      rewrite Pc by (rewrite !app_length; lia).
      destruct (bp ++ []) as [|x r] eqn:E; [apply (f_equal (@length N)) in E; rewrite app_length in E; cbn in E; lia|].
      rewrite <- E. rewrite Pp; [reflexivity|]. rewrite !app_length. lia.
    - inversion Hts as [|? ? [Hw Ho] _]; subst.
      destruct (RT _ Hw Ho) as (bc & Ec & Lc & Pc).
      cbn [enc_terms_c]. rewrite Ec. cbn [ebind]. eexists. split; [reflexivity|].
      rewrite (sender_header_read (cfg_with_cache cfg rc []) sc (m_es m) (m_long m) l _ Hag Hlen Hok El).
      unfold after_hdr. cbv zeta. cbn [d_cache cfg_with_cache]. fold rc'.
      rewrite Pc; [reflexivity|]. rewrite !app_length. lia.
  Qed.

  Lemma agree_fold es : forall rc sc, agree rc sc -> agree (fold_left push es rc) (fold_left push es sc).
  Proof. induction es as [|e es IH]; intros rc sc H; [exact H|]. cbn [fold_left]. apply IH, agree_push, H. Qed.

  (* every message of every conforming history is read as the terms the sender meant *)
  Theorem history_read : forall ms rc sc, agree rc sc -> history_ok sc ms ->
    exists frames, sender_run sc ms = Some frames /\
      reader_run rc frames = map (fun m => HDOk (norm (m_ctl m)) (option_map norm (m_pl m))) ms.
  Proof.
    induction ms as [|m ms IH]; intros rc sc Hag Hh.
    - exists []. split; reflexivity.
    - destruct Hh as [Hc Hh]. destruct (one_message rc sc m Hag Hc) as (d & Ed & Dd).
      destruct (IH (fold_left push (m_es m) rc) (fold_left push (m_es m) sc) (agree_fold _ _ _ Hag) Hh) as (fr & Ef & Rf).
      exists (d :: fr). cbn [sender_run]. rewrite Ed, Ef. split; [reflexivity|].
      cbn [reader_run map]. rewrite Dd. now rewrite Rf.
  Qed.
End History.
