(* The size of what the decoder builds is bounded by the input it consumed: every node of the returned term is paid for
   by at least one byte of input.  Proved once over all arms (except the compressed one, whose nested term lives in the
   inflated buffer: there the bound is the inflated length, which is bounded by the size the input declares). *)
From EDP Require Import Base.Bytes Term.Term Order.Cmp Gen.Tags Gen.Limits Gen.DecoderArms Codec.Decode Codec.DecodeFacts Codec.OffsetFacts.
Local Open Scope nat_scope.

(* the number of nodes of a term *)
Fixpoint nodes (t : term) : nat :=
  let all := fix go (l : list term) : nat := match l with [] => 0 | x :: r => nodes x + go r end in
  match t with
  | TList l => S (all l)
  | TImproper l tl => S (all l + nodes tl)
  | TTuple l => S (all l)
  | TMap kvs => S ((fix gom (m : list (term * term)) : nat := match m with [] => 0 | kv :: r => nodes (fst kv) + nodes (snd kv) + gom r end) kvs)
  | TIntFun _ _ _ _ _ _ _ _ fr => S (all fr)
  | _ => 1
  end%nat.
Definition nodes_all := fix go (l : list term) : nat := match l with [] => 0 | x :: r => nodes x + go r end%nat.
Definition nodes_kvs := fix gom (m : list (term * term)) : nat := match m with [] => 0 | kv :: r => nodes (fst kv) + nodes (snd kv) + gom r end%nat.

Lemma nodes_pos t : (1 <= nodes t)%nat.
Proof. destruct t; cbn [nodes]; lia. Qed.

Lemma nodes_ints s : nodes_all (map (fun b => TInt (Z.of_N b)) s) = length s.
Proof. induction s as [|x s IH]; [reflexivity|]. cbn [map nodes_all nodes length]. rewrite IH. reflexivity. Qed.

Lemma map_insert_nodes c k v m : (nodes_kvs (map_insert c k v m) <= nodes k + nodes v + nodes_kvs m)%nat.
Proof.
  induction m as [|[k' v'] m IH]; cbn [map_insert nodes_kvs fst snd]; [lia|].
  destruct (c k k'); cbn [nodes_kvs fst snd]; lia.
Qed.

Lemma pair_up_nodes_aux n : forall l, length l <= n -> nodes_kvs (pair_up l) <= nodes_all l.
Proof.
  induction n as [|n IH]; intros l Hl.
  - destruct l; [cbn; lia|cbn [length] in Hl; lia].
  - destruct l as [|k [|v r]]; cbn [pair_up nodes_kvs nodes_all fst snd]; try lia.
    assert (H : nodes_kvs (pair_up r) <= nodes_all r) by (apply IH; cbn [length] in Hl; lia). lia.
Qed.
Lemma pair_up_nodes l : nodes_kvs (pair_up l) <= nodes_all l.
Proof. apply (pair_up_nodes_aux (length l)). lia. Qed.

Lemma map_build_nodes c kvs : forall acc,
  (nodes_kvs (fold_left (fun m kv => map_insert c (fst kv) (snd kv) m) kvs acc) <= nodes_kvs acc + nodes_kvs kvs)%nat.
Proof.
  induction kvs as [|[k v] kvs IH]; intros acc; cbn [fold_left nodes_kvs fst snd]; [lia|].
  specialize (IH (map_insert c k v acc)). pose proof (map_insert_nodes c k v acc). lia.
Qed.

(* a parser every node of whose result is paid for by a consumed byte *)
Definition sized (p : bytes -> pres) : Prop := forall x t r, p x = POk t r -> (nodes t + length r <= length x)%nat.

Lemma sized_consumes p : sized p -> consumes p.
Proof. intros H x t r E. apply H in E. pose proof (nodes_pos t). lia. Qed.

Lemma seq_with_sized p k : sized p -> forall n bs l r, seq_with p k n bs = SOk l r -> (nodes_all l + length r <= length bs)%nat.
Proof.
  intros Hp. induction k as [|k IH]; intros n bs l r H; cbn [seq_with] in H.
  - destruct (n =? 0)%N; [inversion H; subst; cbn; lia|discriminate].
  - destruct (n =? 0)%N; [inversion H; subst; cbn; lia|].
    destruct (p bs) as [t r1|e] eqn:E1; [|discriminate].
    destruct (seq_with p k (N.pred n) r1) as [l' r2|e] eqn:E2; [|discriminate].
    inversion H; subst. apply Hp in E1. apply IH in E2. cbn [nodes_all]. lia.
Qed.

Lemma takeN_split n l h t : takeN n l = Some (h, t) -> (length h + length t = length l)%nat.
Proof. intros H. apply takeN_spec in H as [-> _]. rewrite app_length. reflexivity. Qed.

Lemma nodes_tuple l : nodes (TTuple l) = S (nodes_all l).  Proof. reflexivity. Qed.
Lemma nodes_list l : nodes (TList l) = S (nodes_all l).  Proof. reflexivity. Qed.
Lemma nodes_improper l tl : nodes (TImproper l tl) = S (nodes_all l + nodes tl).  Proof. reflexivity. Qed.
Lemma nodes_map kvs : nodes (TMap kvs) = S (nodes_kvs kvs).  Proof. reflexivity. Qed.
Lemma nodes_fun a u i nf m oi ou p fr : nodes (TIntFun a u i nf m oi ou p fr) = S (nodes_all fr).  Proof. reflexivity. Qed.

Section Body.
  Variable cfg : dcfg.
  Hypothesis Hins : d_kinsert cfg = map_insert.

  Lemma atom_bytes_sized k bs t r : 1 <= k -> parse_atom_bytes k bs = POk t r -> nodes t + length r <= length bs.
  Proof.
    unfold parse_atom_bytes. intros Hk H. repeat break_hyp H; try discriminate. inversion H; subst. len_facts. cbn [nodes]. lia.
  Qed.
  Lemma atom_latin1_sized k bs t r : 1 <= k -> parse_atom_latin1 k bs = POk t r -> nodes t + length r <= length bs.
  Proof.
    unfold parse_atom_latin1. intros Hk H. repeat break_hyp H; try discriminate. inversion H; subst. len_facts. cbn [nodes]. lia.
  Qed.

  Lemma body_sized self pid r0 t r : pid <> 25%N -> sized self ->
    parse_body cfg self pid r0 = POk t r -> nodes t + length r <= S (length r0).
  Proof.
    intros Hp Hs H. pose proof (seq_with_sized self) as Hseq.
    unfold parse_body, atom_of in H.
    destruct pid as [|p]; [discriminate|].
    do 6 (try (destruct p as [p|p|])); try discriminate; try (exfalso; apply Hp; reflexivity);
    try (apply atom_bytes_sized in H; [lia|lia]); try (apply atom_latin1_sized in H; [lia|lia]);
    repeat break_hyp H; try discriminate; inversion H; subst; clear H;
    repeat match goal with
    | H : seq_with self _ _ _ = SOk _ _ |- _ => apply (Hseq _ Hs) in H
    | H : self _ = POk _ _ |- _ => apply Hs in H
    | H : takeN _ _ = Some _ |- _ => apply takeN_split in H
    end; len_facts;
    repeat (rewrite nodes_tuple in * || rewrite nodes_list in * || rewrite nodes_improper in * || rewrite nodes_map in *
            || rewrite nodes_fun in * || rewrite nodes_ints in *);
    cbn [nodes] in *; try lia.
    (* the map arm: what insertion builds is no larger than what was read *)
    rewrite Hins.
    match goal with |- context [fold_left ?f (pair_up ?l) []] =>
      pose proof (map_build_nodes (d_kcmp cfg) (pair_up l) []) as Hb; pose proof (pair_up_nodes l) end.
    cbn [nodes_kvs] in Hb. lia.
  Qed.
End Body.

(* every node of the result is paid for by a byte of input: for every arm table without the compressed arm *)
Theorem parse_sized cfg : d_kinsert cfg = map_insert -> no_compressed (d_arms cfg) = true -> forall f, sized (parse cfg f).
Proof.
  intros Hins Hn. induction f as [|f IH]; intros x t r H; [discriminate H|]. cbn [parse] in H.
  destruct x as [|tag r0]; [discriminate H|]. destruct (assoc tag (d_arms cfg)) as [pid|] eqn:E; [|discriminate H].
  apply (body_sized cfg Hins) in H; [cbn [length]; lia| |exact IH].
  intros ->. exact (no_compressed_assoc _ _ Hn E).
Qed.

Definition uncompressed (arms : list (N * N)) : list (N * N) := filter (fun tp => negb (snd tp =? 25)%N) arms.
Lemma uncompressed_ok arms : no_compressed (uncompressed arms) = true.
Proof.
  unfold no_compressed, uncompressed. apply forallb_forall. intros x Hx. apply filter_In in Hx as [_ Hx]. exact Hx.
Qed.

(* the compressed arm: the term is read from the inflated buffer, whose length does not exceed the size the input
   declares, which is capped *)
Lemma compressed_within_declared cfg self r0 t r : parse_body cfg self 25%N r0 = POk t r ->
  exists usz rest plain consumed r',
    rd 4 r0 = Some (usz, rest) /\ (usz <= max_binary_size)%N /\ d_inflate cfg rest = Some (plain, consumed) /\
    (len plain <= usz)%N /\ self plain = POk t r'.
Proof.
  unfold parse_body. intros H.
  destruct (rd 4 r0) as [[usz rest]|] eqn:E1; [|discriminate H].
  destruct (max_binary_size <? usz)%N eqn:E2; [discriminate H|].
  destruct (d_inflate cfg rest) as [[plain consumed]|] eqn:E3; [|discriminate H].
  destruct (usz <? len plain)%N eqn:E4; [discriminate H|].
  destruct (self plain) as [t' r'|e] eqn:E5; [|discriminate H].
  destruct (takeN consumed rest) as [[h r'']|]; [|discriminate H]. inversion H; subst.
  exists usz, rest, plain, consumed, r'. repeat split; try assumption; [apply N.ltb_ge in E2|apply N.ltb_ge in E4]; assumption.
Qed.

(* a compressed term at the top of a message whose inflated content holds no further compressed term: the result has
   at most as many nodes as the inflated buffer has bytes, and that is at most the declared size *)
Corollary compressed_message_sized cfg f r0 t r : d_kinsert cfg = map_insert ->
  parse_body cfg (parse (with_arms cfg (uncompressed (d_arms cfg))) f) 25%N r0 = POk t r ->
  exists usz, (N.of_nat (nodes t) <= usz)%N /\ (usz <= max_binary_size)%N.
Proof.
  intros Hins H. apply compressed_within_declared in H as (usz & rest & plain & consumed & r' & _ & Hcap & _ & Hlen & Hp).
  exists usz. split; [|exact Hcap].
  apply (parse_sized (with_arms cfg (uncompressed (d_arms cfg))) Hins (uncompressed_ok _)) in Hp. unfold len in Hlen. lia.
Qed.
