(* Facts about the shared accessors: as_integer returns the integer the term denotes. *)
From EDP Require Import Base.Bytes Term.Term Term.Value Codec.Encode Term.Access.

Lemma unle_app a : forall b, unle (a ++ b) = unle a + 256 ^ len a * unle b.
Proof.
  induction a as [|x a IH]; intros b; [unfold len; cbn [app length unle]; rewrite N.pow_0_r; lia|].
  cbn [app unle]. rewrite IH. unfold len. cbn [length].
  replace (N.of_nat (S (length a))) with (N.succ (N.of_nat (length a))) by lia. rewrite N.pow_succ_r'. lia.
Qed.

Lemma unle_zeros l : forallb (fun x => x =? 0) l = true -> unle l = 0.
Proof.
  induction l as [|x l IH]; [reflexivity|]. cbn [forallb unle]. intros Hl. apply andb_prop in Hl as [Hx Hl].
  apply N.eqb_eq in Hx. subst. rewrite (IH Hl). reflexivity.
Qed.

Lemma strip_hi_split r : exists zs, r = zs ++ strip_hi r /\ forallb (fun x => x =? 0) zs = true.
Proof.
  induction r as [|x r (zs & E & Hz)]; [exists []; split; reflexivity|]. cbn [strip_hi].
  destruct (x =? 0) eqn:Ex.
  - exists (x :: zs). split; [cbn [app]; congruence|]. cbn [forallb]. now rewrite Ex.
  - exists []. split; reflexivity.
Qed.

Lemma forallb_rev {A} (f : A -> bool) l : forallb f (rev l) = forallb f l.
Proof.
  induction l as [|x l IH]; [reflexivity|]. cbn [rev forallb]. rewrite forallb_app, IH. cbn [forallb].
  destruct (f x), (forallb f l); reflexivity.
Qed.

Lemma unle_strip d : unle (rev (strip_hi (rev d))) = unle d.
Proof.
  destruct (strip_hi_split (rev d)) as (zs & E & Hz).
  rewrite <- (rev_involutive d) at 2. rewrite E at 2. rewrite rev_app_distr, unle_app.
  rewrite (unle_zeros (rev zs)) by (rewrite forallb_rev; exact Hz). lia.
Qed.

Lemma big_to_i64_value neg d z : big_to_i64 neg d = Some z -> big_value neg d = z.
Proof.
  unfold big_to_i64, big_value. rewrite unle_strip.
  destruct (8 <? len (rev (strip_hi (rev d)))); [discriminate|].
  destruct neg.
  - destruct (Z.of_N (unle d) <=? 9223372036854775808)%Z; [|discriminate]. now intros [= <-].
  - destruct (Z.of_N (unle d) <=? 9223372036854775807)%Z; [|discriminate]. now intros [= <-].
Qed.

Lemma big_to_i64_range neg d z : big_to_i64 neg d = Some z -> (-9223372036854775808 <= z <= 9223372036854775807)%Z.
Proof.
  unfold big_to_i64. destruct (8 <? len (rev (strip_hi (rev d)))); [discriminate|].
  destruct neg.
  - destruct (Z.of_N (unle (rev (strip_hi (rev d)))) <=? 9223372036854775808)%Z eqn:E; [|discriminate].
    apply Z.leb_le in E. intros [= <-]. lia.
  - destruct (Z.of_N (unle (rev (strip_hi (rev d)))) <=? 9223372036854775807)%Z eqn:E; [|discriminate].
    apply Z.leb_le in E. intros [= <-]. lia.
Qed.

Lemma as_integer_value x z : as_integer x = Some z -> denote x = denote (TInt z).
Proof.
  destruct x; try discriminate; cbn [as_integer denote].
  - now intros [= <-].
  - intros H. now rewrite (big_to_i64_value _ _ _ H).
Qed.
