(* Model of crates/edp_node/src/gen_event.rs (GenEventManager: handlers keyed by their id, the gen_event protocol's
   notify / sync_notify / call / which_handlers messages).  A handler is a value of an abstract type with its callbacks
   as parameters.  The manager's HashMap is an association list: the order in which handlers are visited is the list's
   (the code's is the hash map's; observations are compared per handler).  Definitions only. *)
From Coq Require Import String.
From EDP Require Import Base.Bytes Term.Term Order.Cmp Elixir.Wrap Node.GenServer.
Open Scope N_scope.

Definition n_gen_notify := Eval compute in str "$gen_notify".
Definition n_gen_sync_notify := Eval compute in str "$gen_sync_notify".
Definition n_gen_which := Eval compute in str "$gen_which_handlers".
Definition n_error := Eval compute in str "error".
Definition n_swap := Eval compute in str "swap".
Definition n_shutdown := Eval compute in str "shutdown".

(* mailbox traffic: a regular message carries the sender the node attached (sync_notify answers to it) *)
Inductive ein := EReg (from : option pidr) (body : term) | EExit (reason : term) | EOther.

(* how handle_message reads a regular message *)
Inductive emsg :=
| MNotify (e : term) | MSync (e : term) | MCall (from : pidr) (ref : term) (hid req : term)
| MWhich (from : pidr) (ref : term) | MInfo (body : term).

Definition from_tuple (x : term) : option (pidr * term) :=
  match x with TTuple [TPid p; TRef n c ids l] => Some (p, TRef n c ids l) | _ => None end.

Definition eclassify (body : term) : emsg :=
  match body with
  | TTuple (TAtom tag :: x :: rest) =>
      if eq_bytes tag n_gen_notify && match rest with [] => true | _ => false end then MNotify x
      else if eq_bytes tag n_gen_sync_notify && match rest with [] => true | _ => false end then MSync x
      else if eq_bytes tag n_gen_call && match rest with [_; _] => true | _ => false end then
        match from_tuple x, rest with
        | Some (p, r), [hid; req] => MCall p r hid req
        | _, _ => MInfo body
        end
      else if eq_bytes tag n_gen_which && match rest with [] => true | _ => false end then
        match from_tuple x with Some (p, r) => MWhich p r | None => MInfo body end
      else MInfo body
  | _ => MInfo body
  end.

Section GenEvent.
  Variable H : Type.
  Inductive evres := VOk (h : H) | VRemove | VSwap (h : H) (args : term) | VFail.
  Inductive cares := AReply (r : term) (h : H) | ARemove (r : term) | ASwap (h : H) (args r : term) | AFail.
  Variable on_init : H -> term -> option H.
  Variable on_event : H -> term -> evres.
  Variable on_call : H -> term -> cares.
  Variable on_info : H -> term -> H.
  Variable id_of : H -> term.
  Variable live : pidr -> bool.

  (* what the manager did to a handler: the key it is stored under, the callback, the argument *)
  Inductive hev := HInit (key args : term) | HEvent (key e : term) | HCall (key req : term) | HInfo (key b : term)
                 | HTerm (key reason : term).

  Record est := { e_handlers : list (term * H); e_log : list hev; e_sent : list (pidr * term) }.

  Fixpoint lookup (k : term) (l : list (term * H)) : option H :=
    match l with [] => None | (k', h) :: r => if teqb k' k then Some h else lookup k r end.
  Fixpoint replace (k : term) (h : H) (l : list (term * H)) : list (term * H) :=
    match l with [] => [] | (k', h') :: r => if teqb k' k then (k', h) :: r else (k', h') :: replace k h r end.
  Definition drop (k : term) (l : list (term * H)) : list (term * H) := filter (fun kh => negb (teqb (fst kh) k)) l.

  (* notify: every handler sees the event; the ones that ask to go, fail, or fail to start after a swap are taken out
     after the round, each with terminate(error) *)
  Fixpoint notify_round (e : term) (todo : list (term * H)) (acc : list (term * H)) (log : list hev) (gone : list term)
    : list (term * H) * list hev * list term :=
    match todo with
    | [] => (acc, log, gone)
    | (k, h) :: r =>
        match on_event h e with
        | VOk h' => notify_round e r (acc ++ [(k, h')]) (log ++ [HEvent k e]) gone
        | VRemove => notify_round e r (acc ++ [(k, h)]) (log ++ [HEvent k e]) (gone ++ [k])
        | VFail => notify_round e r (acc ++ [(k, h)]) (log ++ [HEvent k e]) (gone ++ [k])
        | VSwap h' args =>
            match on_init h' args with
            | Some h'' => notify_round e r (acc ++ [(k, h'')]) (log ++ [HEvent k e; HTerm k (TAtom n_swap); HInit k args]) gone
            | None => notify_round e r (acc ++ [(k, h')]) (log ++ [HEvent k e; HTerm k (TAtom n_swap); HInit k args]) (gone ++ [k])
            end
        end
    end.

  Definition notify (s : est) (e : term) : est :=
    let '(hs, log, gone) := notify_round e (e_handlers s) [] (e_log s) [] in
    {| e_handlers := fold_left (fun l k => drop k l) gone hs;
       e_log := log ++ map (fun k => HTerm k (TAtom n_error)) gone;
       e_sent := e_sent s |}.

  Definition reply_to (s : est) (p : pidr) (t : term) : est :=
    {| e_handlers := e_handlers s; e_log := e_log s; e_sent := if live p then e_sent s ++ [(p, t)] else e_sent s |}.

  (* call_handler: the reply, or None for Err (answered with the atom error) *)
  Definition call_handler (s : est) (hid req : term) : est * option term :=
    match lookup hid (e_handlers s) with
    | None => (s, None)
    | Some h =>
        let log1 := e_log s ++ [HCall hid req] in
        match on_call h req with
        | AReply r h' => ({| e_handlers := replace hid h' (e_handlers s); e_log := log1; e_sent := e_sent s |}, Some r)
        | ARemove r => ({| e_handlers := drop hid (e_handlers s); e_log := log1 ++ [HTerm hid (TAtom n_normal)]; e_sent := e_sent s |}, Some r)
        | ASwap h' args r =>
            let log2 := log1 ++ [HTerm hid (TAtom n_swap); HInit hid args] in
            match on_init h' args with
            | Some h'' => ({| e_handlers := replace hid h'' (e_handlers s); e_log := log2; e_sent := e_sent s |}, Some r)
            | None => ({| e_handlers := replace hid h' (e_handlers s); e_log := log2; e_sent := e_sent s |}, None)
            end
        | AFail => ({| e_handlers := drop hid (e_handlers s); e_log := log1 ++ [HTerm hid (TAtom n_error)]; e_sent := e_sent s |}, None)
        end
    end.

  Definition estep (s : est) (m : ein) : est :=
    match m with
    | EOther => s
    | EExit reason =>
        {| e_handlers := e_handlers s; e_log := e_log s ++ map (fun kh => HTerm (fst kh) reason) (e_handlers s); e_sent := e_sent s |}
    | EReg from body =>
        match eclassify body with
        | MNotify e => notify s e
        | MSync e => let s1 := notify s e in match from with Some p => reply_to s1 p (TAtom n_ok) | None => s1 end
        | MCall p ref hid req =>
            let '(s1, r) := call_handler s hid req in
            reply_to s1 p (TTuple [ref; match r with Some v => v | None => TAtom n_error end])
        | MWhich p ref => reply_to s p (TTuple [ref; TList (map (fun kh => id_of (snd kh)) (e_handlers s))])
        | MInfo b =>
            {| e_handlers := map (fun kh => (fst kh, on_info (snd kh) b)) (e_handlers s);
               e_log := e_log s ++ map (fun kh => HInfo (fst kh) b) (e_handlers s); e_sent := e_sent s |}
        end
    end.

  Definition erun (s : est) (ms : list ein) : est := fold_left estep ms s.
End GenEvent.
Arguments e_handlers {H}.
Arguments e_log {H}.
Arguments e_sent {H}.

Section AddHandler.
  Variable H : Type.
  Variable on_init : H -> term -> option H.
  Variable id_of : H -> term.
  (* GenEventManager::add_handler: init, then insert under the handler's id (an entry with that key is replaced) *)
  Definition add_handler (s : est H) (h : H) (args : term) : est H :=
    let k := id_of h in
    let log := e_log s ++ [HInit k args] in
    match on_init h args with
    | None => {| e_handlers := e_handlers s; e_log := log; e_sent := e_sent s |}
    | Some h' =>
        {| e_handlers := match lookup H k (e_handlers s) with Some _ => replace H k h' (e_handlers s) | None => e_handlers s ++ [(k, h')] end;
           e_log := log; e_sent := e_sent s |}
    end.
End AddHandler.

(* ---- the instrumented handler of the correspondence run: the event / request decides what the callbacks do ---- *)
Record dh := { dh_id : term; dh_count : Z }.
Definition n_remove := Eval compute in str "remove".
Definition n_badswap := Eval compute in str "badswap".
Definition n_bad := Eval compute in str "bad".
Definition n_swapped := Eval compute in str "swapped".
Definition n_count := Eval compute in str "count".
Definition dh_new (h : dh) : dh := {| dh_id := TTuple [dh_id h; TInt 2]; dh_count := 0 |}.
Definition demo_init (h : dh) (args : term) : option dh := if is_atom_named n_bad args then None else Some h.
Definition demo_event (h : dh) (e : term) : evres dh :=
  if is_atom_named n_remove e then VRemove dh
  else if is_atom_named n_fail e then VFail dh
  else if is_atom_named n_swap e then VSwap dh (dh_new h) (TAtom n_swapped)
  else if is_atom_named n_badswap e then VSwap dh (dh_new h) (TAtom n_bad)
  else VOk dh {| dh_id := dh_id h; dh_count := dh_count h + 1 |}.
Definition demo_ecall (h : dh) (req : term) : cares dh :=
  if is_atom_named n_count req then AReply dh (TInt (dh_count h)) h
  else if is_atom_named n_remove req then ARemove dh (TAtom n_ok)
  else if is_atom_named n_fail req then AFail dh
  else if is_atom_named n_swap req then ASwap dh (dh_new h) (TAtom n_swapped) (TAtom n_ok)
  else if is_atom_named n_badswap req then ASwap dh (dh_new h) (TAtom n_bad) (TAtom n_ok)
  else AReply dh (TTuple [dh_id h; req]) h.
Definition demo_info (h : dh) (_ : term) : dh := {| dh_id := dh_id h; dh_count := dh_count h + 100 |}.
Definition demo_estep (callers : list pidr) : est dh -> ein -> est dh :=
  estep dh demo_init demo_event demo_ecall demo_info dh_id (fun p => existsb (pid_eqb p) callers).
Definition demo_add : est dh -> dh -> term -> est dh := add_handler dh demo_init dh_id.
Definition demo_einit : est dh := {| e_handlers := []; e_log := []; e_sent := [] |}.
