(* A uniform total order that the term comparison equals on the terms where comparison is lawful.
   key: numbers and sequences; kcmp: numbers by value, a number before a sequence, sequences lexicographically with a
   proper prefix first.  kcmp is a total order for every key (transitivity by one induction); on the class `tcl`
   (no floats, no improper lists, integers in minimal digits) cmp_owned a b = kcmp (key a) (key b), hence
   cmp_owned is transitive there. *)
From EDP Require Import Base.Bytes Base.F64 Term.Term Term.Value Gen.Ranks Order.Cmp Order.CmpFacts Order.CmpLaws Order.NumLaws.

Inductive key := KNum (z : Z) | KSeq (l : list key).

Section KeyInd.
  Variable P : key -> Prop.
  Hypothesis HNum : forall z, P (KNum z).
  Hypothesis HSeq : forall l, Forall P l -> P (KSeq l).
  Fixpoint key_ind' (k : key) : P k :=
    match k with
    | KNum z => HNum z
    | KSeq l => HSeq l ((fix go (l : list key) : Forall P l :=
                           match l with [] => Forall_nil _ | x :: r => Forall_cons _ (key_ind' x) (go r) end) l)
    end.
End KeyInd.

Fixpoint kcmp (a b : key) {struct a} : comparison :=
  match a, b with
  | KNum x, KNum y => (x ?= y)%Z
  | KNum _, KSeq _ => Lt
  | KSeq _, KNum _ => Gt
  | KSeq l1, KSeq l2 =>
      (fix lexp (l1 l2 : list key) {struct l1} : comparison :=
         match l1, l2 with
         | [], [] => Eq
         | [], _ :: _ => Lt
         | _ :: _, [] => Gt
         | x :: r1, y :: r2 => thn (kcmp x y) (lexp r1 r2)
         end) l1 l2
  end.

Definition lexp := fix lexp (l1 l2 : list key) {struct l1} : comparison :=
  match l1, l2 with
  | [], [] => Eq
  | [], _ :: _ => Lt
  | _ :: _, [] => Gt
  | x :: r1, y :: r2 => thn (kcmp x y) (lexp r1 r2)
  end.

Lemma kcmp_seq l1 l2 : kcmp (KSeq l1) (KSeq l2) = lexp l1 l2.
Proof. reflexivity. Qed.

(* the two clauses from which, with antisymmetry, every transitivity statement follows *)
Definition Tr (a : key) : Prop := forall b c,
  (kcmp a b = Eq -> kcmp b c = kcmp a c) /\ (kcmp a b = Lt -> kcmp b c <> Gt -> kcmp a c = Lt).

Lemma thn_Eq x y : thn x y = Eq -> x = Eq /\ y = Eq.
Proof. destruct x; cbn; intros H; try discriminate; auto. Qed.
Lemma thn_Lt x y : thn x y = Lt -> x = Lt \/ (x = Eq /\ y = Lt).
Proof. destruct x; cbn; intros H; try discriminate; auto. Qed.
Lemma thn_notGt x y : thn x y <> Gt -> x = Lt \/ (x = Eq /\ y <> Gt).
Proof. destruct x; cbn; intros H; auto; contradiction. Qed.

Lemma lexp_tr l1 : Forall Tr l1 -> forall l2 l3,
  (lexp l1 l2 = Eq -> lexp l2 l3 = lexp l1 l3) /\ (lexp l1 l2 = Lt -> lexp l2 l3 <> Gt -> lexp l1 l3 = Lt).
Proof.
  induction 1 as [|x l1 Hx _ IH]; intros l2 l3.
  - destruct l2 as [|y l2]; cbn [lexp].
    + split; [reflexivity|discriminate].
    + split; [discriminate|]. intros _ H. destruct l3; [contradiction|reflexivity].
  - destruct l2 as [|y l2]; cbn [lexp]; [split; discriminate|].
    destruct l3 as [|z l3]; cbn [lexp].
    + split; [intros _; reflexivity|intros _ H; contradiction].
    + destruct (Hx y z) as [HE HL]. destruct (IH l2 l3) as [IE IL]. split.
      * intros H. apply thn_Eq in H as [H1 H2]. now rewrite (HE H1), (IE H2).
      * intros H Hn. apply thn_Lt in H as [H1|[H1 H2]]; apply thn_notGt in Hn as [G1|[G1 G2]].
        -- rewrite (HL H1 ltac:(rewrite G1; discriminate)). reflexivity.
        -- rewrite (HL H1 ltac:(rewrite G1; discriminate)). reflexivity.
        -- rewrite <- (HE H1), G1. reflexivity.
        -- rewrite <- (HE H1), G1. cbn [thn]. now apply IL.
Qed.

Theorem kcmp_tr : forall a, Tr a.
Proof.
  induction a as [x|l1 IH] using key_ind'; intros b c.
  - destruct b as [y|l2]; cbn [kcmp].
    + destruct c as [z|l3]; cbn [kcmp].
      * split; [intros H; apply Z.compare_eq in H; now subst|].
        intros H Hn. change (x < y)%Z in H. change (x < z)%Z. revert Hn. destruct (Z.compare_spec y z); intros Hn; try congruence; lia.
      * split; reflexivity.
    + split; [discriminate|]. intros _ Hn. destruct c as [z|l3]; cbn [kcmp] in *; [contradiction|reflexivity].
  - destruct b as [y|l2]; [cbn [kcmp]; split; discriminate|].
    destruct c as [z|l3].
    + rewrite kcmp_seq. cbn [kcmp]. split; [intros _; reflexivity|]. intros _ Hn. contradiction.
    + rewrite !kcmp_seq. apply lexp_tr. exact IH.
Qed.

Corollary kcmp_transitive a b c : kcmp a b <> Gt -> kcmp b c <> Gt -> kcmp a c <> Gt.
Proof.
  intros H1 H2. destruct (kcmp_tr a b c) as [HE HL]. destruct (kcmp a b) eqn:E; [|rewrite (HL eq_refl H2); discriminate|contradiction].
  now rewrite <- (HE eq_refl).
Qed.

(* ---------- terms as keys ---------- *)
Definition kn (n : N) : key := KNum (Z.of_N n).
Definition kb (b : list N) : key := KSeq (map kn b).
Definition kr (r : N) (l : list key) : key := KSeq (kn r :: l).
Definition kpid (p : pidr) : key := KSeq [kb (pnode p); kn (pnum p); kn (pserial p); kn (pcreation p)].

Fixpoint tkey (t : term) : key :=
  let ks := fix go (l : list term) : list key := match l with [] => [] | x :: r => tkey x :: go r end in
  match t with
  | TAtom a => kr rank_atom [kb a]
  | TInt z => kr rank_integer [KNum z]
  | TBig n d => kr rank_bigint [KNum (big_value n d)]
  | TFloat b => kr rank_float [kn b]
  | TPid p => kr rank_pid [kpid p]
  | TPort n i c _ => kr rank_port [kb n; kn i; kn c]
  | TRef n c ids _ => kr rank_reference [kb n; kn c; kb ids]
  | TBin b => kr rank_binary [kb b; kn 8]
  | TStr s => kr rank_string [kb s; kn 8]
  | TBitBin b k => kr rank_bitbinary [kb b; kn k]
  | TList l => kr rank_list [KSeq (ks l)]
  | TNil => kr rank_nil [KSeq []]
  | TImproper l tl => kr rank_improperlist [KSeq (ks l); tkey tl]
  | TMap kvs => kr rank_map [kn (len kvs);
                             KSeq ((fix gk (m : list (term * term)) : list key := match m with [] => [] | kv :: r => tkey (fst kv) :: gk r end) kvs);
                             KSeq ((fix gv (m : list (term * term)) : list key := match m with [] => [] | kv :: r => tkey (snd kv) :: gv r end) kvs)]
  | TTuple l => kr rank_tuple [kn (len l); KSeq (ks l)]
  | TExtFun m f a => kr rank_externalfun [KNum 0; kb m; kb f; kn a]
  | TIntFun a u i nf m oi ou p fr => kr rank_internalfun [KNum 1; kb m; kn oi; kn ou; kn i; kb u; kpid p; KSeq (ks fr)]
  end.

Definition keys := fix go (l : list term) : list key := match l with [] => [] | x :: r => tkey x :: go r end.
Definition keysk := fix gk (m : list (term * term)) : list key := match m with [] => [] | kv :: r => tkey (fst kv) :: gk r end.
Definition keysv := fix gv (m : list (term * term)) : list key := match m with [] => [] | kv :: r => tkey (snd kv) :: gv r end.

(* the class on which comparison is lawful: no floats, no improper lists, integers in minimal digits *)
Fixpoint tcl (t : term) : Prop :=
  let all := fix go (l : list term) : Prop := match l with [] => True | x :: r => tcl x /\ go r end in
  match t with
  | TFloat _ => False
  | TImproper _ _ => False
  | TInt _ | TBig _ _ => int_term t
  | TList l | TTuple l => all l
  | TMap kvs => (fix gom (m : list (term * term)) : Prop := match m with [] => True | kv :: r => tcl (fst kv) /\ tcl (snd kv) /\ gom r end) kvs
  | TIntFun _ _ _ _ _ _ _ _ fr => all fr
  | _ => True
  end.
Definition tcl_all := fix go (l : list term) : Prop := match l with [] => True | x :: r => tcl x /\ go r end.
Definition tcl_allm := fix gom (m : list (term * term)) : Prop := match m with [] => True | kv :: r => tcl (fst kv) /\ tcl (snd kv) /\ gom r end.

Lemma kcmp_kn a b : kcmp (kn a) (kn b) = (a ?= b).
Proof. unfold kn. cbn [kcmp]. apply N2Z.inj_compare. Qed.

Lemma thn_Eq_r c : thn c Eq = c.
Proof. now destruct c. Qed.

Lemma lexp_kb a : forall b, lexp (map kn a) (map kn b) = cmp_bytes a b.
Proof. induction a as [|x a IH]; intros [|y b]; try reflexivity. cbn [map lexp cmp_bytes]. now rewrite kcmp_kn, IH. Qed.

Lemma kcmp_kb a b : kcmp (kb a) (kb b) = cmp_bytes a b.
Proof. unfold kb. rewrite kcmp_seq. apply lexp_kb. Qed.

Lemma kcmp_kpid p q : kcmp (kpid p) (kpid q) = cmp_pid p q.
Proof. unfold kpid, cmp_pid. rewrite kcmp_seq. cbn [lexp]. now rewrite kcmp_kb, !kcmp_kn, thn_Eq_r. Qed.

Definition CK (a : term) : Prop := forall b, tcl a -> tcl b -> cmp rank_owned a b = kcmp (tkey a) (tkey b).

Lemma lexp_keys l1 : Forall CK l1 -> forall l2, tcl_all l1 -> tcl_all l2 ->
  lexp (keys l1) (keys l2) = thn (zipc rank_owned l1 l2) (len l1 ?= len l2).
Proof.
  induction 1 as [|x l1 Hx _ IH]; intros [|y l2] T1 T2; try reflexivity.
  cbn [tcl_all] in T1, T2. destruct T1 as [Tx T1], T2 as [Ty T2].
  cbn [keys lexp zipc]. rewrite <- (Hx y Tx Ty), (IH l2 T1 T2).
  replace (len (x :: l1) ?= len (y :: l2)) with (len l1 ?= len l2).
  - destruct (cmp rank_owned x y); reflexivity.
  - unfold len. cbn [length]. rewrite !Nat2N.inj_succ. destruct (N.compare_spec (N.of_nat (length l1)) (N.of_nat (length l2))); symmetry; [apply N.compare_eq_iff|apply N.compare_lt_iff|apply N.compare_gt_iff]; lia.
Qed.

Lemma lexp_keysk m1 : Forall (fun kv => CK (fst kv) /\ CK (snd kv)) m1 -> forall m2, tcl_allm m1 -> tcl_allm m2 ->
  lexp (keysk m1) (keysk m2) = thn (zipk rank_owned m1 m2) (len m1 ?= len m2).
Proof.
  induction 1 as [|x m1 [Hx _] _ IH]; intros [|y m2] T1 T2; try reflexivity.
  cbn [tcl_allm] in T1, T2. destruct T1 as (Tx & _ & T1), T2 as (Ty & _ & T2).
  cbn [keysk lexp zipk]. rewrite <- (Hx (fst y) Tx Ty), (IH m2 T1 T2).
  replace (len (x :: m1) ?= len (y :: m2)) with (len m1 ?= len m2).
  - destruct (cmp rank_owned (fst x) (fst y)); reflexivity.
  - unfold len. cbn [length]. rewrite !Nat2N.inj_succ. destruct (N.compare_spec (N.of_nat (length m1)) (N.of_nat (length m2))); symmetry; [apply N.compare_eq_iff|apply N.compare_lt_iff|apply N.compare_gt_iff]; lia.
Qed.
Lemma lexp_keysv m1 : Forall (fun kv => CK (fst kv) /\ CK (snd kv)) m1 -> forall m2, tcl_allm m1 -> tcl_allm m2 ->
  lexp (keysv m1) (keysv m2) = thn (zipv rank_owned m1 m2) (len m1 ?= len m2).
Proof.
  induction 1 as [|x m1 [_ Hx] _ IH]; intros [|y m2] T1 T2; try reflexivity.
  cbn [tcl_allm] in T1, T2. destruct T1 as (_ & Tx & T1), T2 as (_ & Ty & T2).
  cbn [keysv lexp zipv]. rewrite <- (Hx (snd y) Tx Ty), (IH m2 T1 T2).
  replace (len (x :: m1) ?= len (y :: m2)) with (len m1 ?= len m2).
  - destruct (cmp rank_owned (snd x) (snd y)); reflexivity.
  - unfold len. cbn [length]. rewrite !Nat2N.inj_succ. destruct (N.compare_spec (N.of_nat (length m1)) (N.of_nat (length m2))); symmetry; [apply N.compare_eq_iff|apply N.compare_lt_iff|apply N.compare_gt_iff]; lia.
Qed.

Ltac ranks := unfold rank_atom, rank_integer, rank_float, rank_pid, rank_port, rank_reference, rank_binary, rank_bitbinary, rank_string,
  rank_list, rank_improperlist, rank_map, rank_tuple, rank_bigint, rank_externalfun, rank_internalfun, rank_nil in *.

(* different type ranks: both sides are the comparison of the ranks *)
Lemma cross_rank a b : (rank_owned a ?= rank_owned b) <> Eq ->
  (exists la, tkey a = kr (rank_owned a) la) -> (exists lb, tkey b = kr (rank_owned b) lb) ->
  cmp rank_owned a b = kcmp (tkey a) (tkey b).
Proof.
  intros H (la & Ea) (lb & Eb). rewrite (cmp_rank rank_owned a b H), Ea, Eb. unfold kr. rewrite kcmp_seq. cbn [lexp]. rewrite kcmp_kn.
  destruct (rank_owned a ?= rank_owned b); [contradiction|reflexivity|reflexivity].
Qed.

Lemma tkey_shape t : exists l, tkey t = kr (rank_owned t) l.
Proof. destruct t; cbn [tkey rank_owned]; eexists; reflexivity. Qed.

Theorem cmp_is_kcmp : forall a b, tcl a -> tcl b -> cmp_owned a b = kcmp (tkey a) (tkey b).
Proof.
  unfold cmp_owned. intros a. change (CK a). induction a using term_ind'; intros t2 T1 T2.
  all: match goal with |- cmp rank_owned ?x ?y = _ => destruct (rank_owned x ?= rank_owned y) eqn:ER end;
       [|apply cross_rank; [rewrite ER; discriminate|apply tkey_shape|apply tkey_shape]
        |apply cross_rank; [rewrite ER; discriminate|apply tkey_shape|apply tkey_shape]].
  all: destruct t2; cbn [rank_owned] in ER; ranks; try discriminate ER; clear ER.
  all: try (cbn [tcl] in T1, T2; contradiction).
  all: cbn [tkey]; unfold kr; rewrite kcmp_seq; cbn [lexp]; rewrite kcmp_kn; ranks; rewrite N.compare_refl; cbn [thn];
       rewrite ?kcmp_kb, ?kcmp_kn, ?kcmp_kpid, ?thn_Eq_r.
  all: try (cbn [cmp rank_owned]; ranks; rewrite N.compare_refl; reflexivity).
  - (* Integer / BigInt *) cbn [kcmp]. exact (integers_by_value (TInt z) (TBig neg digits) T1 T2).
  - (* List / List *) rewrite (cmp_unfold rank_owned); cbn [rank_owned]; ranks; rewrite N.compare_refl.
    cbn [tcl] in T1, T2. symmetry. exact (lexp_keys l H l0 T1 T2).
  - (* List / Nil *) destruct l; cbn [cmp rank_owned]; ranks; rewrite N.compare_refl; reflexivity.
  - (* Map / Map *) rewrite (cmp_unfold rank_owned); cbn [rank_owned]; ranks; rewrite N.compare_refl. cbn [tcl] in T1, T2.
    unfold cmp_len. destruct (len kvs ?= len kvs0) eqn:EL; cbn [thn]; try reflexivity.
    transitivity (thn (lexp (keysk kvs) (keysk kvs0)) (lexp (keysv kvs) (keysv kvs0))); [|reflexivity].
    rewrite (lexp_keysk kvs H kvs0 T1 T2), (lexp_keysv kvs H kvs0 T1 T2), EL, !thn_Eq_r. reflexivity.
  - (* Tuple / Tuple *) rewrite (cmp_unfold rank_owned); cbn [rank_owned]; ranks; rewrite N.compare_refl. cbn [tcl] in T1, T2.
    unfold cmp_len. destruct (len l ?= len l0) eqn:EL; cbn [thn]; try reflexivity.
    transitivity (lexp (keys l) (keys l0)); [|reflexivity]. now rewrite (lexp_keys l H l0 T1 T2), EL, thn_Eq_r.
  - (* BigInt / Integer *) cbn [kcmp]. exact (integers_by_value (TBig s d) (TInt z) T1 T2).
  - (* BigInt / BigInt *) cbn [kcmp]. exact (integers_by_value (TBig s d) (TBig neg digits) T1 T2).
  - (* fun / fun *) rewrite (cmp_unfold rank_owned); cbn [rank_owned]; ranks; rewrite N.compare_refl. cbn [tcl] in T1, T2.
    cbn [kcmp Z.compare]. change ((1 ?= 1)%positive) with Eq. cbn [thn]. unfold cmp_len.
    transitivity (thn (cmp_bytes m m0) (thn (oi ?= old_index) (thn (ou ?= old_uniq) (thn (i ?= index) (thn (cmp_bytes u uniq)
                    (thn (cmp_pid p p0) (lexp (keys fr) (keys free)))))))); [|reflexivity].
    now rewrite (lexp_keys fr H free T1 T2).
  - (* Nil / List *) destruct l; cbn [cmp rank_owned]; ranks; rewrite N.compare_refl; reflexivity.
Qed.

(* hence, on the class, the comparison is transitive — in the strong form: Equal is substitutive and Less composes *)
Theorem cmp_transitive_on_class a b c : tcl a -> tcl b -> tcl c ->
  cmp_owned a b <> Gt -> cmp_owned b c <> Gt -> cmp_owned a c <> Gt.
Proof.
  intros Ta Tb Tc. rewrite (cmp_is_kcmp a b Ta Tb), (cmp_is_kcmp b c Tb Tc), (cmp_is_kcmp a c Ta Tc). apply kcmp_transitive.
Qed.

Theorem cmp_equal_substitutive a b c : tcl a -> tcl b -> tcl c ->
  cmp_owned a b = Eq -> cmp_owned b c = cmp_owned a c.
Proof.
  intros Ta Tb Tc. rewrite (cmp_is_kcmp a b Ta Tb), (cmp_is_kcmp b c Tb Tc), (cmp_is_kcmp a c Ta Tc). apply kcmp_tr.
Qed.

Theorem cmp_less_composes a b c : tcl a -> tcl b -> tcl c ->
  cmp_owned a b = Lt -> cmp_owned b c <> Gt -> cmp_owned a c = Lt.
Proof.
  intros Ta Tb Tc. rewrite (cmp_is_kcmp a b Ta Tb), (cmp_is_kcmp b c Tb Tc), (cmp_is_kcmp a c Ta Tc). apply kcmp_tr.
Qed.
