"""C08 — control messages parse and serialise losslessly, protocol numbering. Domain `control`."""
import etf, termgen

ID = "C08"
GEN_FILES = ["ControlTable.v"]
RULE = ("tuples headed by every integer 0..255 (and out-of-range / non-integer heads, non-tuples) at every arity 1..10 with arbitrary fields; "
        "every protocol operation at its protocol arity with boundary unlink ids (0, 2^31, 2^63-1, 2^63, 2^64-1, 2^64, negative, big-integer form); "
        "each parsed, serialised with both serialisers, and sent through encode/decode and parsed again; oracle: the protocol's own table "
        "(tag, arity, field roles) and value equality of the serialised tuple; distinct = distinct case; non-trivial = arity >= 2")
ASSUMPTIONS = ["protocol table transcribed from the Erlang distribution protocol document (props/C08.py PROTOCOL, coq ControlSpec.v)"]
PROTOCOL = {
    1: (3, [1, 2]), 2: (3, [4, 2]), 3: (4, [1, 2, 3]), 4: (3, [1, 2]), 5: (1, []), 6: (4, [1, 4, 5]), 7: (3, [1, 2]), 8: (4, [1, 2, 3]),
    12: (4, [4, 2, 9]), 13: (5, [1, 2, 9, 3]), 16: (5, [1, 4, 5, 9]), 18: (5, [1, 2, 9, 3]), 19: (4, [1, 6, 8]), 20: (4, [1, 6, 8]),
    21: (5, [7, 2, 8, 3]), 22: (3, [1, 2]), 23: (4, [1, 2, 9]), 24: (3, [1, 2]), 25: (4, [1, 2, 9]), 26: (3, [1, 2]), 27: (4, [1, 2, 9]),
    28: (4, [7, 2, 8]), 29: (6, [10, 11, 12, 13, 15]), 30: (7, [10, 11, 12, 13, 15, 9]), 31: (5, [10, 16, 17, 18]), 32: (6, [10, 16, 17, 18, 9]),
    33: (3, [1, 19]), 34: (4, [1, 19, 9]), 35: (4, [20, 1, 2]), 36: (4, [20, 1, 2]),
}


def parse_out(impl):
    head, to, into = impl.split(" || ")
    parts = head.split(" | ")
    tag = parts[0][3:]
    fields = [p for p in parts[1:] if p != ""]
    return tag, fields, to[3:], into[5:]


def int_value(t):
    if t[0] == "i":
        return t[1]
    if t[0] == "g":
        return etf.big_value(t[1], t[2])
    return None


def expected_ok(t):
    """None if the term must be rejected, else (tag, elements)"""
    if t[0] != "t" or not t[1]:
        return None
    v = int_value(t[1][0])      # the tag is an integer however it is encoded (as_integer; fix commit 10e629c)
    if v is None or not 0 <= v <= 255:
        return None
    return v, t[1]


def check_msg(tag, els, impl, after_wire=False):
    if not impl.startswith("ok "):
        if tag in (35, 36) and len(els) == 4:
            v = int_value(els[1])
            if v is None or v < 0 or v >= 2**64:
                return None
        return ("violation", "a tuple headed by %d with %d elements is rejected: %s" % (tag, len(els), impl[:40]))
    vtag, fields, to, into = parse_out(impl)
    want = etf.denote(("t", els))
    for name, s in (("to_term", to), ("into_term", into)):
        if etf.denote(etf.parse_term(s)) != want:
            return ("violation", "%s gives back a tuple denoting a different value" % name)
    spec = PROTOCOL.get(tag)
    if spec and spec[0] == len(els):
        if vtag.startswith("G"):
            if tag in (29, 30):
                return ("known", "C08-spawn-request-arity")
            return ("violation", "operation %d at its protocol arity %d is not recognised" % (tag, len(els)))
        if int(vtag) != tag:
            return ("violation", "operation %d parsed as variant %s" % (tag, vtag))
        roles = [int(f.split("=", 1)[0]) for f in fields]
        if roles != spec[1]:
            return ("violation", "operation %d: field roles %s, the protocol prescribes %s" % (tag, roles, spec[1]))
        for f, el in zip(fields, els[1:]):
            r, v = f.split("=", 1)
            if v.startswith("U"):
                if int(v[1:]) != int_value(el):
                    return ("violation", "unlink id %s parsed as %s" % (int_value(el), v[1:]))
            elif etf.denote(etf.parse_term(v)) != etf.denote(el):
                return ("violation", "field with role %s does not hold element %d" % (r, els.index(el)))
    elif not vtag.startswith("G"):
        # structured message at a non-protocol arity (e.g. SPAWN_REQUEST with 7 elements): lossless is all we ask
        if int(vtag) != tag:
            return ("violation", "tuple headed by %d parsed as variant %s" % (tag, vtag))
    return None


def oracle(case, impl):
    if impl.startswith(("PANIC", "CRASH", "TIMEOUT")):
        return ("violation", "did not return: " + impl[:60])
    op, rest = case.split(" ", 1)
    t = etf.parse_term(rest)
    e = expected_ok(t)
    if e is None:
        return None if impl.startswith("err") else ("violation", "a term that is not a control tuple was accepted: " + impl[:60])
    tag, els = e
    return check_msg(tag, els, impl, after_wire=(op == "ctlw"))


def oracle_for(_d):
    return oracle


def no_maps(t):
    """maps with colliding keys shrink when the harness builds them; keep control fields map-free except singletons"""
    k = t[0]
    if k == "m":
        return ("m", [(no_maps(a), no_maps(b)) for a, b in t[1][:1]])
    if k in ("l", "t"):
        return (k, [no_maps(x) for x in t[1]])
    if k == "L":
        return (k, [no_maps(x) for x in t[1]], no_maps(t[2]))
    if k == "u":
        return t[:9] + ([no_maps(x) for x in t[9]],)
    return t


def gen_field(rng):
    return no_maps(termgen.gen_term(rng, depth=rng.choice([0, 0, 1]), big_ok=False))


def run(ctx):
    rng = ctx.rng
    cases = []
    pid = ("p", b"n@h", 1, 2, 3, None)
    for tag, (arity, roles) in PROTOCOL.items():
        for ar in range(1, 11):
            els = [("i", tag)] + [gen_field(rng) for _ in range(ar - 1)]
            cases.append("ctl " + etf.show(("t", els)))
            if ar in (arity, arity + 1):
                cases.append("ctlw " + etf.show(("t", els)))
    for tag in (35, 36):
        for idv in (0, 1, 2**31 - 1, 2**31, 2**32, 2**53, 2**63 - 1, 2**63, 2**64 - 1, 2**64, 2**70, -1, -2**63):
            for form in ("i", "g"):
                if form == "i" and not -2**63 <= idv < 2**63:
                    continue
                idt = ("i", idv) if form == "i" else termgen.big_ast(idv)
                for op in ("ctl", "ctlw"):
                    cases.append("%s %s" % (op, etf.show(("t", [("i", tag), idt, pid, pid]))))
        cases.append("ctl " + etf.show(("t", [("i", tag), ("a", b"x"), pid, pid])))
        cases.append("ctl " + etf.show(("t", [("i", tag), ("g", False, bytes(8) + b"\x01"), pid, pid])))
        cases.append("ctl " + etf.show(("t", [("i", tag), ("g", False, b"\x05" + bytes(9)), pid, pid])))
    for tag in range(0, 256):
        for ar in (1, 3, 4, 5):
            cases.append("ctl " + etf.show(("t", [("i", tag)] + [gen_field(rng) for _ in range(ar - 1)])))
    for bad in [("n",), ("t", []), ("l", [("i", 1)]), ("t", [("a", b"x"), ("i", 1)]), ("t", [("i", 256), pid]), ("t", [("i", -1), pid]),
                ("t", [("f", termgen.fbits(2.0)), pid, pid]), ("t", [termgen.big_ast(2**64), pid]), ("i", 2), ("t", [("g", False, b"\x02"), pid, pid])]:
        cases.append("ctl " + etf.show(bad))
    for _ in range(ctx.budget(1500, 30000)):
        tag = rng.choice(list(PROTOCOL) + [rng.randrange(256)])
        ar = rng.choice([PROTOCOL.get(tag, (3,))[0], rng.randrange(1, 11)])
        head = ("i", tag) if rng.random() < 0.9 else ("g", False, bytes([tag]) + bytes(rng.choice([0, 0, 1, 7, 8])))
        els = [head] + [gen_field(rng) for _ in range(ar - 1)]
        cases.append("%s %s" % (rng.choice(["ctl", "ctl", "ctlw"]), etf.show(("t", els))))
    for head in [("g", True, b"\x02"), ("g", False, b"\x00\x01"), ("g", False, b""), ("g", True, b"\x00"), ("g", False, bytes(9)),
                 ("g", False, b"\x02" + bytes(8)), ("g", False, b"\xff" * 8), ("g", True, bytes(7) + b"\x80")]:
        cases.append("ctl " + etf.show(("t", [head, pid, pid])))

    def nontrivial(c, impl):
        return c if c.split()[1] == "t" and int(c.split()[2]) >= 2 else None

    def classify(c, impl):
        return ["op:" + c.split()[0], "result:" + (impl.split(" | ")[0][:8] if impl.startswith("ok") else impl[:12])]
    ctx.diff_domain("control", cases, oracle=oracle, nontrivial=nontrivial, classify=classify)
