(* norm: the representation change the wire imposes on a term (what decode (encode t) is), and the side
   conditions under which the round trip is claimed.  Definitions only. *)
From EDP Require Import Base.Bytes Term.Term Gen.Limits Codec.Encode.

Definition in_i32 (z : Z) : bool := ((-2147483648 <=? z) && (z <=? 2147483647))%Z.

Definition norm_int (z : Z) : term :=
  if in_i32 z then TInt z else TBig (z <? 0)%Z (significant (le 8 (Z.to_N (Z.abs z)))).

Definition norm_pid (p : pidr) : pidr := p.

Fixpoint norm (t : term) : term :=
  match t with
  | TInt z => norm_int z
  | TStr s => TBin s
  | TList l => match l with [] => TNil | _ => TList (map norm l) end
  | TImproper l tl =>
      match l with
      | [] => norm tl
      | _ => match norm tl with
             | TNil => TList (map norm l)
             | tl' => TImproper (map norm l) tl'
             end
      end
  | TMap kvs => TMap (map (fun kv => (norm (fst kv), norm (snd kv))) kvs)
  | TTuple l => TTuple (map norm l)
  | TIntFun a u i nf m oi ou p fr => TIntFun a u i nf m oi ou p (map norm fr)
  | _ => t
  end.

(* LOCAL_EXT payload of the modern shape: 8 hash bytes followed by the canonical encoding of the same identifier *)
Definition loc_modern (plain : eres) (loc : option bytes) : Prop :=
  match loc with
  | None => True
  | Some raw => exists h nb, raw = h ++ nb /\ length h = 8%nat /\ plain = EOk nb
  end.

Definition atom_ok (a : bytes) : Prop := len a <= 65535.

Section RtOk.
  Variable kcmp : term -> term -> comparison.
  Variable kinsert : (term -> term -> comparison) -> term -> term -> list (term * term) -> list (term * term).

  Definition pid_ok (p : pidr) : Prop :=
    atom_ok (pnode p) /\
    loc_modern (enc_pid {| pnode := pnode p; pnum := pnum p; pserial := pserial p; pcreation := pcreation p; ploc := None |}) (ploc p).

  (* sizes the decoder accepts, fields the wire form can carry, and — for maps — stability of the normalised
     entries under re-insertion with the decoder's key order (decidable per map by evaluation) *)
  Fixpoint rt_ok (t : term) : Prop :=
    match t with
    | TAtom a => atom_ok a
    | TPid p => pid_ok p
    | TPort n i c loc => atom_ok n /\ loc_modern (enc (TPort n i c None)) loc
    | TRef n c ids loc => atom_ok n /\ len ids <= 65535 /\ loc_modern (enc (TRef n c ids None)) loc
    | TBin b => len b <= max_binary_size
    | TBitBin b _ => len b <= max_binary_size
    | TStr s => len s <= max_binary_size
    | TList l => len l <= max_list_size /\ (fix all (l : list term) : Prop := match l with [] => True | x :: r => rt_ok x /\ all r end) l
    | TImproper l tl => len l <= max_list_size /\ rt_ok tl /\
        (fix all (l : list term) : Prop := match l with [] => True | x :: r => rt_ok x /\ all r end) l
    | TMap kvs => len kvs <= max_map_size /\
        fold_left (fun m kv => kinsert kcmp (fst kv) (snd kv) m) (map (fun kv => (norm (fst kv), norm (snd kv))) kvs) []
          = map (fun kv => (norm (fst kv), norm (snd kv))) kvs /\
        (fix allm (l : list (term * term)) : Prop := match l with [] => True | kv :: r => rt_ok (fst kv) /\ rt_ok (snd kv) /\ allm r end) kvs
    | TTuple l => len l <= max_tuple_size /\
        (fix all (l : list term) : Prop := match l with [] => True | x :: r => rt_ok x /\ all r end) l
    | TBig _ d => len d < 4294967296
    | TExtFun m f _ => atom_ok m /\ atom_ok f
    | TIntFun a u i nf m oi ou p fr =>
        atom_ok m /\ oi < 2147483648 /\ ou < 2147483648 /\ pid_ok p /\ nf = len fr /\
        (fix all (l : list term) : Prop := match l with [] => True | x :: r => rt_ok x /\ all r end) fr
    | _ => True
    end.
End RtOk.
