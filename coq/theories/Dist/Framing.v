(* Model of crates/edp_client/src/framing.rs: MessageFramer (one-shot and streaming) and
   MessageDeframer::read_framed over a transport that delivers arbitrary chunks.  Definitions only.
   tokio's read_exact / write_all are modelled by their documented contract:
   read_exact fills the buffer across reads, a 0-byte read is UnexpectedEof, Pending means "poll again";
   write_all pushes every byte of its argument in order however the writer splits the calls. *)
From EDP Require Import Base.Bytes Gen.FramingConsts.

Inductive fmode := Handshake | Distribution.
Definition prefix_size (m : fmode) : nat :=
  N.to_nat (match m with Handshake => prefix_handshake | Distribution => prefix_distribution end).

(* frame_message: `data.len() as u16 / as u32` is the truncation `mod 256^k` that `be` performs *)
Definition frame (m : fmode) (data : bytes) : bytes := be (prefix_size m) (len data) ++ data.

(* write_framed: the write_all calls it issues, in order *)
Definition write_framed (m : fmode) (data : bytes) : list bytes := [be (prefix_size m) (len data); data].

Inductive chunk := Data (d : bytes) | Pending.
Inductive rerr := Eof | TooLarge.
Inductive rres := ROk (b : bytes) | RErr (e : rerr).

(* read_exact n: None = UnexpectedEof *)
Fixpoint read_exact (n : N) (cs : list chunk) : option (bytes * list chunk) :=
  if n =? 0 then Some ([], cs) else
  match cs with
  | [] => None
  | Pending :: r => read_exact n r
  | Data d :: r =>
      if len d =? 0 then None
      else if len d <=? n then
        match read_exact (n - len d) r with
        | Some (b, r') => Some (d ++ b, r')
        | None => None
        end
      else Some (firstn (N.to_nat n) d, Data (skipn (N.to_nat n) d) :: r)
  end.

(* read_framed: result, remaining transport, size of the buffer allocated for the body *)
Definition read_framed (m : fmode) (cs : list chunk) : rres * list chunk * N :=
  match read_exact (N.of_nat (prefix_size m)) cs with
  | None => (RErr Eof, [], 0)
  | Some (p, r) =>
      let l := unbe p in
      if l =? 0 then (ROk [], r, 0)
      else if framing_max_message_size <? l then (RErr TooLarge, r, 0)
      else match read_exact l r with
           | None => (RErr Eof, [], l)
           | Some (b, r') => (ROk b, r', l)
           end
  end.

(* read frames until the first error (fuel = an upper bound on the number of frames) *)
Fixpoint read_all (fuel : nat) (m : fmode) (cs : list chunk) : list rres * N :=
  match fuel with
  | O => ([], 0)
  | S f =>
      let '(r, cs', a) := read_framed m cs in
      match r with
      | RErr _ => ([r], a)
      | ROk _ => let '(rs, a') := read_all f m cs' in (r :: rs, N.max a a')
      end
  end.

(* exactly k frames *)
Fixpoint read_frames (k : nat) (m : fmode) (cs : list chunk) : list rres * list chunk :=
  match k with
  | O => ([], cs)
  | S k' =>
      let '(r, cs', _) := read_framed m cs in
      match r with
      | RErr _ => ([r], cs')
      | ROk _ => let '(rs, cs'') := read_frames k' m cs' in (r :: rs, cs'')
      end
  end.

Definition data_of (cs : list chunk) : bytes :=
  concat (map (fun c => match c with Data d => d | Pending => [] end) cs).
Definition wfc (cs : list chunk) : Prop :=
  Forall (fun c => match c with Data d => d <> [] | Pending => True end) cs.

Definition fits (m : fmode) (msg : bytes) : Prop :=
  len msg < 256 ^ N.of_nat (prefix_size m) /\ len msg <= framing_max_message_size.
