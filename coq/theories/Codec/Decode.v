(* Model of crates/erltf/src/decoder.rs: the owned parser family (parse_term_from_tag and the parse_xxx functions), and —
   through the second arm table — the zero-copy family, whose parsers are the same functions over the
   same tags.  Definitions only.  Dispatch goes through the generated arm tables of Gen/DecoderArms.v.
   External functions are parameters of the configuration record (never axioms):
     inflate     zlib (flate2 read_to_end): compressed bytes -> (inflated bytes, consumed input)
     float_text  Rust's str::parse::<f64> on the 31-byte FLOAT_EXT text (after trimming NULs)
     kcmp        the key order used by BTreeMap::insert (the model of impl Ord) *)
From EDP Require Import Base.Bytes Term.Term Gen.Tags Gen.Limits Gen.DecoderArms.

Inductive dkind := KEof | KTag | KVerify | KTooLarge | KChar | KFloat | KFail | KFuel.
Inductive pres := POk (t : term) (rest : bytes) | PErr (k : dkind).
Inductive sres := SOk (l : list term) (rest : bytes) | SErr (k : dkind).

Record dcfg := {
  d_arms : list (N * N);
  d_cache : list (N * bytes);                       (* AtomCache slots: segment*256 + internal index -> atom name *)
  d_refs : list bytes;                              (* the current header's atom cache references, in header order *)
  d_inflate : bytes -> option (bytes * N);
  d_float_text : bytes -> option N;
  d_kcmp : term -> term -> comparison;
  d_kinsert : (term -> term -> comparison) -> term -> term -> list (term * term) -> list (term * term);
  d_extra_fuel : nat      (* total length of everything the inflate oracle can return: the code has no fuel, the model needs enough *)
}.

Fixpoint assoc (k : N) (l : list (N * N)) : option N :=
  match l with [] => None | (k', v) :: r => if k' =? k then Some v else assoc k r end.
Fixpoint assocb (k : N) (l : list (N * bytes)) : option bytes :=
  match l with [] => None | (k', v) :: r => if k' =? k then Some v else assocb k r end.

(* nom `take(n)` with a wire-supplied count: structural on the input, never converts n to unary *)
Fixpoint takeN (n : N) (l : bytes) : option (bytes * bytes) :=
  match l with
  | [] => if n =? 0 then Some ([], []) else None
  | x :: r => if n =? 0 then Some ([], l)
              else match takeN (N.pred n) r with Some (h, t) => Some (x :: h, t) | None => None end
  end.

Definition rd (k : nat) (bs : bytes) : option (N * bytes) := rd_be k bs.

(* i32 from its big-endian two's-complement bytes *)
Definition to_i32 (n : N) : Z := if n <? 2147483648 then Z.of_N n else (Z.of_N n - 4294967296)%Z.

Fixpoint rd_ids (fuel : nat) (n : N) (bs : bytes) : option (list N * bytes) :=
  if n =? 0 then Some ([], bs) else
  match fuel with
  | O => None
  | S f => match rd 4 bs with
           | Some (id, r) => match rd_ids f (N.pred n) r with Some (ids, r') => Some (id :: ids, r') | None => None end
           | None => None
           end
  end.

Fixpoint pair_up (l : list term) : list (term * term) :=
  match l with k :: v :: r => (k, v) :: pair_up r | _ => [] end.

Definition trim_nul (bs : bytes) : bytes := rev ((fix go (l : bytes) := match l with 0 :: r => go r | _ => l end) (rev bs)).

Section Parse.
  Variable cfg : dcfg.

  Definition atom_of (p : pres) (k : bytes -> bytes -> pres) : pres :=
    match p with
    | POk (TAtom a) r => k a r
    | POk _ _ => PErr KTag
    | PErr e => PErr e
    end.

  (* ATOM_EXT / SMALL_ATOM_EXT: Latin-1, every byte one code point, re-encoded as UTF-8 *)
  Definition latin1_to_utf8 (bs : bytes) : bytes :=
    concat (map (fun b => if b <? 128 then [b] else [192 + b / 64; 128 + b mod 64]) bs).

  Definition parse_atom_latin1 (lenk : nat) (bs : bytes) : pres :=
    match rd lenk bs with
    | None => PErr KEof
    | Some (l, r) =>
        if max_atom_size <? l then PErr KTooLarge else
        match takeN l r with
        | None => PErr KEof
        | Some (name, r') => POk (TAtom (latin1_to_utf8 name)) r'
        end
    end.

  Definition parse_atom_bytes (lenk : nat) (bs : bytes) : pres :=
    match rd lenk bs with
    | None => PErr KEof
    | Some (l, r) =>
        if max_atom_size <? l then PErr KTooLarge else
        match takeN l r with
        | None => PErr KEof
        | Some (name, r') => if utf8_valid name then POk (TAtom name) r' else PErr KChar
        end
    end.

  (* a sequence of n terms read with the element parser p (own fuel: every element consumes at least one byte) *)
  Fixpoint seq_with (p : bytes -> pres) (k : nat) (n : N) (bs : bytes) : sres :=
    if n =? 0 then SOk [] bs else
    match k with
    | O => SErr KFuel
    | S k' =>
        match p bs with
        | PErr e => SErr e
        | POk t r => match seq_with p k' (N.pred n) r with
                     | SOk l r' => SOk (t :: l) r'
                     | SErr e => SErr e
                     end
        end
    end.

  (* what each parser does after the tag byte, given the parser for nested terms *)
  Definition parse_body (self : bytes -> pres) (pid : N) (r0 : bytes) : pres :=
    match pid with
    | 1 => match rd 1 r0 with Some (v, r) => POk (TInt (Z.of_N v)) r | None => PErr KEof end
    | 2 => match rd 4 r0 with Some (v, r) => POk (TInt (to_i32 v)) r | None => PErr KEof end
    | 3 => match takeN 31 r0 with
           | None => PErr KEof
           | Some (txt, r) =>
               if utf8_valid txt then
                 match d_float_text cfg (trim_nul txt) with Some b => POk (TFloat b) r | None => PErr KFloat end
               else PErr KChar
           end
    | 4 => match rd 8 r0 with Some (v, r) => POk (TFloat v) r | None => PErr KEof end
    | 5 => parse_atom_latin1 2 r0
    | 6 => parse_atom_bytes 2 r0
    | 7 => parse_atom_bytes 1 r0
    | 8 => parse_atom_latin1 1 r0
    | 9 => match rd 1 r0 with
           | None => PErr KEof
           | Some (n, r) => if max_tuple_size <? n then PErr KTooLarge else
               match seq_with self (S (length r)) n r with SOk l r' => POk (TTuple l) r' | SErr e => PErr e end
           end
    | 10 => match rd 4 r0 with
            | None => PErr KEof
            | Some (n, r) => if max_tuple_size <? n then PErr KTooLarge else
                match seq_with self (S (length r)) n r with SOk l r' => POk (TTuple l) r' | SErr e => PErr e end
            end
    | 11 => POk TNil r0
    | 12 => match rd 2 r0 with
            | None => PErr KEof
            | Some (n, r) => match takeN n r with
                             | Some (s, r') => POk (TList (map (fun b => TInt (Z.of_N b)) s)) r'
                             | None => PErr KEof
                             end
            end
    | 13 => match rd 4 r0 with
            | None => PErr KEof
            | Some (n, r) => if max_list_size <? n then PErr KTooLarge else
                match seq_with self (S (length r)) n r with
                | SErr e => PErr e
                | SOk l r' =>
                    match self r' with
                    | PErr e => PErr e
                    | POk TNil r'' => POk (TList l) r''
                    | POk tl r'' => POk (TImproper l tl) r''
                    end
                end
            end
    | 14 => match rd 4 r0 with
            | None => PErr KEof
            | Some (n, r) => if max_binary_size <? n then PErr KTooLarge else
                match takeN n r with Some (b, r') => POk (TBin b) r' | None => PErr KEof end
            end
    | 15 => match rd 4 r0 with
            | None => PErr KEof
            | Some (n, r) => if max_binary_size <? n then PErr KTooLarge else
                match rd 1 r with
                | None => PErr KEof
                | Some (bits, r1) =>
                    if (bits =? 0) || (8 <? bits) then PErr KVerify
                    else if (n =? 0) && negb (bits =? 8) then PErr KVerify
                    else match takeN n r1 with Some (b, r') => POk (TBitBin b bits) r' | None => PErr KEof end
                end
            end
    | 16 => match rd 1 r0 with
            | None => PErr KEof
            | Some (n, r) => match rd 1 r with
                | None => PErr KEof
                | Some (sign, r1) => match takeN n r1 with
                    | Some (d, r') => POk (TBig (negb (sign =? 0)) d) r' | None => PErr KEof end
                end
            end
    | 17 => match rd 4 r0 with
            | None => PErr KEof
            | Some (n, r) => match rd 1 r with
                | None => PErr KEof
                | Some (sign, r1) => match takeN n r1 with
                    | Some (d, r') => POk (TBig (negb (sign =? 0)) d) r' | None => PErr KEof end
                end
            end
    | 18 => match rd 4 r0 with
            | None => PErr KEof
            | Some (n, r) => if max_map_size <? n then PErr KTooLarge else
                match seq_with self (S (length r)) (2 * n) r with
                | SErr e => PErr e
                | SOk l r' => POk (TMap (fold_left (fun m kv => d_kinsert cfg (d_kcmp cfg) (fst kv) (snd kv) m) (pair_up l) [])) r'
                end
            end
    | 19 => atom_of (self r0) (fun node r =>
              match rd 4 r with None => PErr KEof | Some (id, r1) =>
              match rd 4 r1 with None => PErr KEof | Some (ser, r2) =>
              match rd 4 r2 with None => PErr KEof | Some (cr, r3) =>
                POk (TPid {| pnode := node; pnum := id; pserial := ser; pcreation := cr; ploc := None |}) r3 end end end)
    | 20 => match rd 2 r0 with
            | None => PErr KEof
            | Some (n, r) => atom_of (self r) (fun node r1 =>
                match rd 4 r1 with None => PErr KEof | Some (cr, r2) =>
                match rd_ids (S (length r2)) n r2 with None => PErr KEof | Some (ids, r3) =>
                  POk (TRef node cr ids None) r3 end end)
            end
    | 21 => atom_of (self r0) (fun node r =>
              match rd 8 r with None => PErr KEof | Some (id, r1) =>
              match rd 4 r1 with None => PErr KEof | Some (cr, r2) => POk (TPort node id cr None) r2 end end)
    | 22 => atom_of (self r0) (fun m r =>
              atom_of (self r) (fun fn r1 =>
                match self r1 with
                | PErr e => PErr e
                | POk (TInt a) r2 => if ((0 <=? a) && (a <=? 255))%Z then POk (TExtFun m fn (Z.to_N a)) r2 else PErr KTag
                | POk _ _ => PErr KTag
                end))
    | 23 => match rd 4 r0 with None => PErr KEof | Some (_, r) =>
            match rd 1 r with None => PErr KEof | Some (ar, r1) =>
            match takeN 16 r1 with None => PErr KEof | Some (uniq, r2) =>
            match rd 4 r2 with None => PErr KEof | Some (idx, r3) =>
            match rd 4 r3 with None => PErr KEof | Some (nf, r4) =>
              atom_of (self r4) (fun m r5 =>
                match self r5 with
                | PErr e => PErr e
                | POk (TInt oi) r6 => if (oi <? 0)%Z then PErr KTag else
                  match self r6 with
                  | PErr e => PErr e
                  | POk (TInt ou) r7 => if (ou <? 0)%Z then PErr KTag else
                    match self r7 with
                    | PErr e => PErr e
                    | POk (TPid p) r8 =>
                        match seq_with self (S (length r8)) nf r8 with
                        | SErr e => PErr e
                        | SOk fr r9 => POk (TIntFun ar uniq idx nf m (Z.to_N oi mod 4294967296) (Z.to_N ou mod 4294967296) p fr) r9
                        end
                    | POk _ _ => PErr KTag
                    end
                  | POk _ _ => PErr KTag
                  end
                | POk _ _ => PErr KTag
                end)
            end end end end end
    | 24 => PErr KTag
    | 25 => match rd 4 r0 with
            | None => PErr KEof
            | Some (usz, r) => if max_binary_size <? usz then PErr KTooLarge else
                match d_inflate cfg r with
                | None => PErr KFail
                | Some (plain, consumed) =>
                    if usz <? len plain then PErr KFail else
                    match self plain with
                    | POk t _ => match takeN consumed r with Some (_, r') => POk t r' | None => PErr KFail end
                    | PErr _ => PErr KFail
                    end
                end
            end
    | 26 => atom_of (self r0) (fun node r =>
              match rd 4 r with None => PErr KEof | Some (id, r1) =>
              match rd 1 r1 with None => PErr KEof | Some (cr, r2) => POk (TRef node cr [id] None) r2 end end)
    | 27 => atom_of (self r0) (fun node r =>
              match rd 4 r with None => PErr KEof | Some (id, r1) =>
              match rd 1 r1 with None => PErr KEof | Some (cr, r2) => POk (TPort node id cr None) r2 end end)
    | 28 => atom_of (self r0) (fun node r =>
              match rd 4 r with None => PErr KEof | Some (id, r1) =>
              match rd 4 r1 with None => PErr KEof | Some (ser, r2) =>
              match rd 1 r2 with None => PErr KEof | Some (cr, r3) =>
                POk (TPid {| pnode := node; pnum := id; pserial := ser; pcreation := cr; ploc := None |}) r3 end end end)
    | 29 => match rd 2 r0 with
            | None => PErr KEof
            | Some (n, r) => atom_of (self r) (fun node r1 =>
                match rd 1 r1 with None => PErr KEof | Some (cr, r2) =>
                match rd_ids (S (length r2)) n r2 with None => PErr KEof | Some (ids, r3) =>
                  POk (TRef node cr ids None) r3 end end)
            end
    | 30 => match rd 8 r0 with
            | None => PErr KEof
            | Some (_, r) =>
                match self r with
                | PErr e => PErr e
                | POk t r' =>
                    (* start[..8 + nested_len] *)
                    let raw := firstn (length r0 - length r') r0 in
                    match t with
                    | TPid p => POk (TPid {| pnode := pnode p; pnum := pnum p; pserial := pserial p;
                                             pcreation := pcreation p; ploc := Some raw |}) r'
                    | TPort n i c _ => POk (TPort n i c (Some raw)) r'
                    | TRef n c ids _ => POk (TRef n c ids (Some raw)) r'
                    | _ => POk t r'
                    end
                end
            end
    | 31 => match rd 1 r0 with
            | None => PErr KEof
            | Some (i, r) =>
                (* resolve_ref: by header position when a header was seen, else segment 0 directly *)
                match d_refs cfg with
                | [] => match assocb i (d_cache cfg) with Some a => POk (TAtom a) r | None => PErr KTag end
                | refs => match nth_error refs (N.to_nat i) with Some a => POk (TAtom a) r | None => PErr KTag end
                end
            end
    | 32 => atom_of (self r0) (fun node r =>
              match rd 4 r with None => PErr KEof | Some (id, r1) =>
              match rd 4 r1 with None => PErr KEof | Some (cr, r2) => POk (TPort node id cr None) r2 end end)
    | _ => PErr KTag
    end.

  Fixpoint parse (fuel : nat) (bs : bytes) : pres :=
    match fuel with
    | O => PErr KFuel
    | S f =>
      match bs with
      | [] => PErr KEof
      | tag :: r0 =>
        match assoc tag (d_arms cfg) with
        | None => PErr KTag
        | Some pid => parse_body (parse f) pid r0
        end
      end
    end.

End Parse.

(* ---------- entry points ---------- *)
Inductive dres := DOk (t : term) | DErr (k : dkind) | DTrailing (n : N) | DVersion.

(* decode: version byte, one term, nothing after it *)
Definition decode (cfg : dcfg) (data : bytes) : dres :=
  match data with
  | [] => DErr KEof
  | v :: r =>
      if v =? tag_version then
        match parse cfg (length r + 2 + d_extra_fuel cfg) r with
        | POk t [] => DOk t
        | POk _ rest => DTrailing (len rest)
        | PErr k => DErr k
        end
      else DErr KTag
  end.
