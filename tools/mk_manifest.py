#!/usr/bin/env python3
"""Regenerates MANIFEST.json from tools/claims.json (one entry per claimed property) + properties.jsonl."""
import json, os
V = os.path.dirname(os.path.dirname(os.path.abspath(__file__)))
props = [json.loads(l) for l in open(os.path.join(V, "properties.jsonl"))]
claims = json.load(open(os.path.join(V, "tools", "claims.json")))
checks = []
for p in props:
    c = claims["claimed"].get(p["id"])
    if not c:
        continue
    checks.append({
        "property_id": p["id"],
        "quick_cmd": "./check %s --tier quick" % p["id"],
        "thorough_cmd": "./check %s --tier thorough" % p["id"],
        "evidence_file": "/verif/evidence/%s.json" % p["id"],
        "replay_cmd_template": "./check %s --replay {path}" % p["id"],
        "engine": "coq-model+correspondence",
        "level_claimed": {"category": "proof", "text": c["text"], "design_ref": "DESIGN.md section 6 " + p["id"]},
        "level_note": c["note"],
        "technique": c.get("technique", "Coq proof over hand-written Gallina model + differential correspondence check against the Rust code + spec oracle"),
    })
na = [{"property_id": p["id"], "reason": claims["not_applicable"].get(p["id"], "check not built yet (work in progress; DESIGN.md section 9 gives the order of work)")}
      for p in props if p["id"] not in claims["claimed"]]
ids = sorted(claims["claimed"])
m = {"version": 1, "setup_cmd": "./check --setup",
     "hooks": {"guard": "edp_verif", "enable": "RUSTFLAGS=\"--cfg edp_verif\" (set in harness/.cargo/config.toml)",
               "baseline_off_cmd": "cd /repo && cargo test --workspace --no-fail-fast --offline",
               "source_commits": claims.get("hook_commits", []), "add_only": True},
     "engines": [{"name": "coq-model", "path": "coq/", "serves_properties": ids, "kind_free_text": "Coq 8.16 development: executable Gallina models + theorems (Props/Cxx.v), constants regenerated from the Rust source by tools/gen_consts.py"},
                 {"name": "model_runner", "path": "coq/extract/", "serves_properties": ids, "kind_free_text": "OCaml extraction of the models (ExtrOcamlBasic only), driven line by line"},
                 {"name": "harness", "path": "harness/", "serves_properties": ids, "kind_free_text": "Rust crate with path dependencies on /repo/crates/*, runs the implementation on the same cases"}],
     "checks": checks,
     "notes": "single entry point ./check; known findings in known_findings.json; seeded changes used to validate the checks in seeded/",
     "not_applicable": na}
json.dump(m, open(os.path.join(V, "MANIFEST.json"), "w"), indent=1)
print("claimed:", ids)
