(* Proplist / map conversions and the builders: what converting there and back keeps. *)
From Coq Require Import Permutation.
From EDP Require Import Base.Bytes Term.Term Order.Cmp Elixir.Wrap.

Lemma entries_tuples m : entries_of (map tuple_of m) = m.
Proof. unfold entries_of. induction m as [|[k v] m IH]; [reflexivity|]. cbn [map flat_map tuple_of entry_of fst snd app]. now rewrite IH. Qed.

(* map -> proplist -> map: the entries are re-inserted in the map's own order *)
Theorem map_proplist_map m :
  obind (map_to_proplist (TMap m)) proplist_to_map = Some (TMap (map_of_list cmp_owned m)).
Proof. cbn [map_to_proplist obind proplist_to_map]. now rewrite entries_tuples. Qed.

(* ... so a map whose entries are in the order its own insertion produces (every map built by the library) comes
   back unchanged *)
Corollary map_proplist_map_id m : map_of_list cmp_owned m = m ->
  obind (map_to_proplist (TMap m)) proplist_to_map = Some (TMap m).
Proof. intros H. now rewrite map_proplist_map, H. Qed.

Section Perm.
  Variable c : term -> term -> comparison.

  Lemma insert_perm k v m : (forall kv', In kv' m -> c k (fst kv') <> Eq) ->
    Permutation ((k, v) :: m) (map_insert c k v m).
  Proof.
    induction m as [|[k' v'] r IH]; intros H; [reflexivity|]. cbn [map_insert].
    destruct (c k k') eqn:E.
    - exfalso. apply (H (k', v')); [left; reflexivity|exact E].
    - reflexivity.
    - etransitivity; [apply perm_swap|]. apply perm_skip. apply IH. intros kv' Hin. apply H. right. exact Hin.
  Qed.

  (* later keys differ (under the map's order) from every earlier key *)
  Fixpoint keys_distinct (seen : list (term * term)) (l : list (term * term)) : Prop :=
    match l with
    | [] => True
    | kv :: r => (forall kv', In kv' seen -> c (fst kv) (fst kv') <> Eq) /\ keys_distinct (kv :: seen) r
    end.

  Lemma distinct_perm seen seen' l : (forall kv, In kv seen' -> In kv seen) -> keys_distinct seen l -> keys_distinct seen' l.
  Proof.
    revert seen seen'. induction l as [|kv r IH]; intros seen seen' Hsub; [trivial|]. cbn [keys_distinct]. intros [H1 H2]. split.
    - intros kv' Hin. apply H1. now apply Hsub.
    - apply (IH (kv :: seen)); [|exact H2]. intros x [->|Hx]; [left; reflexivity|right; now apply Hsub].
  Qed.

  Lemma fold_perm l : forall acc, keys_distinct acc l ->
    Permutation (acc ++ l) (fold_left (fun m kv => map_insert c (fst kv) (snd kv) m) l acc).
  Proof.
    induction l as [|[k v] r IH]; intros acc H; [rewrite app_nil_r; reflexivity|].
    cbn [keys_distinct fst] in H. destruct H as [H1 H2]. cbn [fold_left fst snd].
    pose proof (insert_perm k v acc H1) as Hp.
    etransitivity; [|apply IH].
    - etransitivity; [apply Permutation_sym, Permutation_middle|]. exact (Permutation_app_tail r Hp).
    - apply (distinct_perm ((k, v) :: acc)); [|exact H2]. intros x Hx. apply (Permutation_in x (Permutation_sym Hp)). exact Hx.
  Qed.
End Perm.

(* proplist -> map -> proplist: with no key repeated nothing is lost — the result holds exactly the entries of the
   normalised proplist (2-tuples as they are, a bare atom as {atom, true}), in the map's order *)
Theorem proplist_map_proplist els : keys_distinct cmp_owned [] (entries_of els) ->
  exists m, proplist_to_map (TList els) = Some (TMap m) /\
            map_to_proplist (TMap m) = Some (TList (map tuple_of m)) /\
            normalize_proplist (TList els) = Some (TList (map tuple_of (entries_of els))) /\
            Permutation (entries_of els) m.
Proof.
  intros H. exists (map_of_list cmp_owned (entries_of els)). repeat split.
  exact (fold_perm cmp_owned (entries_of els) [] H).
Qed.

(* ---------- builders ---------- *)
Lemma entries_kw l : entries_of (map (fun kv : bytes * term => TTuple [TAtom (fst kv); snd kv]) l) = map (fun kv => (TAtom (fst kv), snd kv)) l.
Proof. unfold entries_of. induction l as [|[k v] l IH]; [reflexivity|]. cbn [map flat_map entry_of fst snd app]. now rewrite IH. Qed.

(* a keyword list converted to a map is the atom-key map built from the same entries *)
Theorem kw_to_map_is_akm l : proplist_to_map (kw_build l) = Some (akm_build l).
Proof. unfold kw_build, akm_build. cbn [proplist_to_map]. now rewrite entries_kw. Qed.

(* reading a key back from a built keyword list gives the first value put under it *)
Theorem kw_get name l :
  match kw_build l with
  | TList els => proplist_get_atom_key name els = option_map snd (find (fun kv => eq_bytes (fst kv) name) l)
  | _ => False
  end.
Proof.
  unfold kw_build. induction l as [|[k v] l IH]; [reflexivity|]. cbn [map proplist_get_atom_key find fst snd].
  destruct (eq_bytes k name); [reflexivity|exact IH].
Qed.

(* a keyword list is a proplist *)
Theorem kw_is_proplist l : is_proplist (kw_build l) = true.
Proof. unfold kw_build. cbn [is_proplist]. induction l as [|[k v] l IH]; [reflexivity|]. cbn [map forallb is_proplist_element fst]. exact IH. Qed.
