(* C06 — receiving delivers each peer message exactly once, in order, and survives junk.
   Model: Dist/Receive.v composes the models of the deframer (C05), the decoder (C01-C03), the distribution header
   reader with the per-connection atom cache (C14), the fragment assembler (C09) and the control message parser
   (C08) into Connection::receive_message, after fix commit a22584b.  The correspondence run drives a real
   Connection against a scripted peer over a loopback socket and compares it with this model. *)
From EDP Require Import Base.Bytes Term.Term Gen.Tags Gen.ControlTable Gen.DecoderArms Codec.Encode Codec.Decode Codec.Norm
  Order.Cmp Dist.Fragment Dist.Control Dist.Framing Dist.Receive Dist.ReceiveFacts.

(* a tick never surfaces and leaves the connection's receive state alone *)
Theorem C06_tick : forall cfg st, handle_frame cfg st [] = (st, OContinue).
Proof. exact handle_tick. Qed.

(* over a transport that delivers the peer's frames with any segmentation, the successive calls of receive_message
   return the outcomes of the frames in order, each exactly once, and after them only end-of-stream: nothing is
   lost, duplicated or reordered, whatever the frames are (messages, ticks, fragments, junk) *)
Theorem C06_exactly_once_in_order : forall cfg k frames st cs fuel, wfc cs -> Forall (fits Distribution) frames ->
  data_of cs = concat (map (frame Distribution) frames) -> (length frames < fuel)%nat ->
  receive_n k fuel cfg st cs =
    firstn k (fst (outcomes cfg st frames)) ++ repeat REof (k - length (fst (outcomes cfg st frames))).
Proof. exact receive_stream. Qed.

(* a pass-through frame is delivered with the control tuple and payload the peer encoded (in their decoded
   representation, norm: C01) ... *)
Theorem C06_pass_through_delivery : forall cfg st, d_arms cfg = owned_arms ->
  forall ctl msg, wf ctl = true -> rt_ok (d_kcmp cfg) (d_kinsert cfg) ctl ->
  wf msg = true -> rt_ok (d_kcmp cfg) (d_kinsert cfg) msg ->
  exists bc bm, encode ctl = EOk bc /\ encode msg = EOk bm /\
    handle_frame cfg st (pass_through :: bc ++ bm) = (st, to_outcome (norm ctl) (Some (norm msg))) /\
    handle_frame cfg st (pass_through :: bc) = (st, to_outcome (norm ctl) None).
Proof. exact pass_through_delivery. Qed.

(* ... and neither reads nor changes the receive state, so no earlier frame — malformed or not — can alter what it
   delivers: an undecodable frame costs exactly its own outcome *)
Theorem C06_junk_does_not_leak : forall cfg st1 st2 rest,
  snd (handle_frame cfg st1 (pass_through :: rest)) = snd (handle_frame cfg st2 (pass_through :: rest)) /\
  fst (handle_frame cfg st1 (pass_through :: rest)) = st1.
Proof. exact pass_through_state_free. Qed.

(* every frame has exactly one of the three outcomes; an error is an outcome like any other and the next frame is
   read from the next length prefix (handle_frame is total: there is no input on which the model gets stuck) *)
Theorem C06_total : forall cfg st data, exists st' o, handle_frame cfg st data = (st', o).
Proof. intros cfg st data. destruct (handle_frame cfg st data) as [st' o]. eauto. Qed.

(* the fragment header that used to crash the task: 21 bytes announcing more atom-cache bytes than follow *)
Example C06_short_fragment_header_is_an_error : forall cfg st,
  handle_frame cfg st ([131; 69] ++ repeat 0 7 ++ [1] ++ repeat 0 7 ++ [1] ++ [9; 0; 0]) = (st, OError).
Proof. intros. reflexivity. Qed.

Example C06_example :
  let cfg := {| d_arms := owned_arms; d_cache := []; d_refs := []; d_inflate := fun _ => None; d_float_text := fun _ => None;
                d_kcmp := cmp_owned; d_kinsert := map_insert; d_extra_fuel := 0 |} in
  (* {2, '', pid} ++ payload [1], a tick, a junk frame, the same message again *)
  let m := [112; 131; 104; 3; 97; 2; 119; 0; 88; 119; 1; 110; 0; 0; 0; 1; 0; 0; 0; 2; 0; 0; 0; 3; 131; 107; 0; 1; 1] in
  exists d, fst (outcomes cfg rstate_init [m; []; [112; 131; 255]; m]) = [d; RFail; d] /\ d <> RFail.
Proof. cbv zeta. eexists. split; [vm_compute; reflexivity|discriminate]. Qed.

Check C06_exactly_once_in_order.
