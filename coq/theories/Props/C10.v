(* C10 — identifiers received from a peer are re-emitted byte-for-byte; identity is by logical fields. *)
From EDP Require Import Base.Bytes Term.Term Gen.Tags Gen.DecoderArms Gen.Ranks.
From EDP Require Import Codec.Encode Codec.Decode Codec.Norm Codec.RoundTrip Codec.RoundTrip2 Order.Cmp Order.CmpFacts Order.HashStream.
From EDP Require Gen.HashFields Order.HashFieldsFacts.

(* 1. capture: a LOCAL_EXT wrapper (any 8-byte hash h, any nested encoding nb the decoder accepts — modern or
      legacy) around an identifier is decoded to that identifier carrying exactly the bytes h ++ nb ... *)
Theorem C10_local_captured : forall cfg, d_arms cfg = owned_arms -> forall f h nb rest t,
  length h = 8%nat -> parse cfg f (nb ++ rest) = POk t rest ->
  parse cfg (S f) (tag_local_ext :: h ++ nb ++ rest) =
    match t with
    | TPid p => POk (TPid (set_ploc p (Some (h ++ nb)))) rest
    | TPort n i c _ => POk (TPort n i c (Some (h ++ nb))) rest
    | TRef n c ids _ => POk (TRef n c ids (Some (h ++ nb))) rest
    | _ => POk t rest
    end.
Proof. intros cfg Harms f h nb rest t. exact (p_local cfg Harms f h nb rest t). Qed.

(* ... and the encoder replays those bytes verbatim behind the LOCAL_EXT tag *)
Theorem C10_local_replayed_pid : forall p raw, enc (TPid (set_ploc p (Some raw))) = EOk (tag_local_ext :: raw).
Proof. reflexivity. Qed.
Theorem C10_local_replayed_port : forall n i c raw, enc (TPort n i c (Some raw)) = EOk (tag_local_ext :: raw).
Proof. reflexivity. Qed.
Theorem C10_local_replayed_ref : forall n c ids raw, enc (TRef n c ids (Some raw)) = EOk (tag_local_ext :: raw).
Proof. reflexivity. Qed.

(* 2. wherever they are nested (tuples, lists, tails, map keys/values, fun environments): the round trip of the whole
      term gives back a term that re-encodes to the same bytes (C01), and normalisation never touches an identifier *)
Theorem C10_context_bytes_preserved : forall cfg, d_arms cfg = owned_arms ->
  forall t, wf t = true -> rt_ok (d_kcmp cfg) (d_kinsert cfg) t ->
  exists bs, encode t = EOk bs /\ decode cfg bs = DOk (norm t) /\ encode (norm t) = EOk bs.
Proof.
  intros cfg Harms t Hwf Hok.
  destruct (roundtrip cfg Harms (d_kcmp cfg) (d_kinsert cfg) eq_refl eq_refl t Hwf Hok) as (b & Eb & Lb & Pb).
  exists (tag_version :: b). unfold encode. rewrite enc_norm, Eb. split; [reflexivity|]. split; [|reflexivity].
  unfold decode. rewrite N.eqb_refl.
  specialize (Pb (length b + 2 + d_extra_fuel cfg)%nat [] ltac:(lia)). rewrite app_nil_r in Pb. now rewrite Pb.
Qed.

Theorem C10_identifiers_not_normalised : forall p n i c l ids,
  norm (TPid p) = TPid p /\ norm (TPort n i c l) = TPort n i c l /\ norm (TRef n c ids l) = TRef n c ids l.
Proof. intros; repeat split. Qed.

(* 3. identity by logical fields only: whatever the two node-local byte strings are *)
Theorem C10_logical_eq_pid : forall p l1 l2,
  teqb (TPid (set_ploc p l1)) (TPid (set_ploc p l2)) = true
  /\ cmp_owned (TPid (set_ploc p l1)) (TPid (set_ploc p l2)) = Eq
  /\ cmp_borrowed (TPid (set_ploc p l1)) (TPid (set_ploc p l2)) = Eq
  /\ hstream (TPid (set_ploc p l1)) = hstream (TPid (set_ploc p l2)).
Proof.
  intros p l1 l2. split; [apply pid_eqb_loc|].
  split; [unfold cmp_owned; cbn [cmp rank_owned]; rewrite N.compare_refl, (cmp_pid_loc p p l1 l2); apply cmp_pid_refl|].
  split; [unfold cmp_borrowed; cbn [cmp rank_borrowed]; rewrite N.compare_refl, (cmp_pid_loc p p l1 l2); apply cmp_pid_refl|reflexivity].
Qed.

Theorem C10_logical_eq_port : forall n i c l1 l2,
  teqb (TPort n i c l1) (TPort n i c l2) = true /\ cmp_owned (TPort n i c l1) (TPort n i c l2) = Eq
  /\ hstream (TPort n i c l1) = hstream (TPort n i c l2).
Proof.
  intros. split; [cbn [teqb]; now rewrite eq_bytes_refl, !N.eqb_refl|].
  split; [unfold cmp_owned; cbn [cmp rank_owned]; now rewrite !N.compare_refl, cmp_bytes_refl|reflexivity].
Qed.

Theorem C10_logical_eq_ref : forall n c ids l1 l2,
  teqb (TRef n c ids l1) (TRef n c ids l2) = true /\ cmp_owned (TRef n c ids l1) (TRef n c ids l2) = Eq
  /\ hstream (TRef n c ids l1) = hstream (TRef n c ids l2).
Proof.
  intros. split; [cbn [teqb]; now rewrite !eq_bytes_refl, N.eqb_refl|].
  split; [unfold cmp_owned; cbn [cmp rank_owned]; now rewrite !N.compare_refl, !cmp_bytes_refl|reflexivity].
Qed.

(* comparison against any other term never depends on the node-local bytes *)
Theorem C10_cmp_ignores_loc : forall p l1 l2 q,
  cmp_owned (TPid (set_ploc p l1)) q = cmp_owned (TPid (set_ploc p l2)) q.
Proof. intros p l1 l2 q. destruct q; reflexivity. Qed.

(* the code's own ==, hash and order of pids, ports and references look at the logical fields only — the field lists are
   read from types.rs by the translator (Gen/HashFields.v) and none contains local_ext_bytes *)
Theorem C10_code_identity_is_by_logical_fields : forallb HashFieldsFacts.row_lawful HashFields.id_fields = true.
Proof. exact HashFieldsFacts.identifier_fields_lawful. Qed.

Check C10_local_captured.
