(* C13 — the zero-copy decoder agrees with the owned decoder.
   The two parser families are one set of per-tag parsers dispatched through two generated arm tables
   (Gen/DecoderArms.v, regenerated from decoder.rs on every run). *)
From EDP Require Import Base.Bytes Term.Term Gen.Tags Gen.DecoderArms Codec.Decode Codec.DecodeFacts Codec.OffsetFacts.

(* every arm of the zero-copy table is an arm of the owned table with the same parser: checked by computation
   on the tables extracted from the current source *)
Theorem C13_borrowed_arms_are_owned_arms : arms_subb borrowed_arms owned_arms = true.
Proof. vm_compute. reflexivity. Qed.

(* whatever the zero-copy decoder accepts, the owned decoder accepts with exactly the same term — for all byte
   strings, all fuel, all oracles (inflate, float text, key order) *)
Theorem C13_borrowed_implies_owned : forall cfg f bs t r,
  parse (with_arms cfg borrowed_arms) f bs = POk t r -> parse (with_arms cfg owned_arms) f bs = POk t r.
Proof. intros cfg f. exact (parse_arms_mono cfg _ _ f (arms_subb_sound _ _ C13_borrowed_arms_are_owned_arms)). Qed.

Theorem C13_borrowed_implies_owned_decode : forall cfg data t,
  decode (with_arms cfg borrowed_arms) data = DOk t -> decode (with_arms cfg owned_arms) data = DOk t.
Proof. intros cfg data t. exact (decode_arms_mono cfg _ _ data t (arms_subb_sound _ _ C13_borrowed_arms_are_owned_arms)). Qed.

(* the tags current OTP releases emit over distribution *)
Definition modern_tags : list N :=
  [tag_new_float_ext; tag_bit_binary_ext; tag_new_pid_ext; tag_newer_reference_ext; tag_small_integer_ext; tag_integer_ext;
   tag_small_tuple_ext; tag_large_tuple_ext; tag_nil_ext; tag_string_ext; tag_list_ext; tag_binary_ext; tag_small_big_ext;
   tag_large_big_ext; tag_new_fun_ext; tag_export_ext; tag_map_ext; tag_atom_utf8_ext; tag_small_atom_utf8_ext; tag_v4_port_ext].
Definition owned_modern : list (N * N) := filter (fun tp => existsb (N.eqb (fst tp)) modern_tags) owned_arms.

Theorem C13_modern_owned_arms_are_borrowed_arms : arms_subb owned_modern borrowed_arms = true.
Proof. vm_compute. reflexivity. Qed.

(* conversely: if the owned parser accepts while visiting modern tags only (= the owned parser restricted to the
   modern arms accepts), the zero-copy parser accepts with the same term *)
Theorem C13_owned_implies_borrowed_modern : forall cfg f bs t r,
  parse (with_arms cfg owned_modern) f bs = POk t r -> parse (with_arms cfg borrowed_arms) f bs = POk t r.
Proof. intros cfg f. exact (parse_arms_mono cfg _ _ f (arms_subb_sound _ _ C13_modern_owned_arms_are_borrowed_arms)). Qed.

(* ... and restricting the owned parser to the modern arms loses nothing on such inputs *)
Theorem C13_modern_restriction_sound : forall cfg f bs t r,
  parse (with_arms cfg owned_modern) f bs = POk t r -> parse (with_arms cfg owned_arms) f bs = POk t r.
Proof.
  intros cfg f. apply parse_arms_mono. apply arms_subb_sound. vm_compute. reflexivity.
Qed.

(* "when it rejects an input, the byte offset it reports lies within the input": the zero-copy decoder reports
   original_len - input.len() for the term it entered last; no arm of its table ever enters a nested term on an input
   longer than the original (parse_off is the parser with that check made explicit: it is the parser), so the
   subtraction stays within 0..original_len — for every input, whatever the arm table holds short of the compressed arm *)
Theorem C13_offsets_within_input : forall cfg L f bs, (length bs <= L)%nat ->
  parse_off (with_arms cfg borrowed_arms) L f bs = parse (with_arms cfg borrowed_arms) f bs.
Proof. intros cfg. exact (offsets_never_underflow (with_arms cfg borrowed_arms) borrowed_arms_no_compressed). Qed.

(* what is left after a term is a suffix no longer than the input: the offset reported with TrailingData is within it too *)
Theorem C13_trailing_offset_within_input : forall cfg f bs t r, parse cfg f bs = POk t r -> (length r < length bs)%nat.
Proof. intros cfg f bs t r. exact (parse_consumes cfg f bs t r). Qed.

Check C13_borrowed_implies_owned : forall cfg f bs t r,
  parse (with_arms cfg borrowed_arms) f bs = POk t r -> parse (with_arms cfg owned_arms) f bs = POk t r.
