(* Integers in both representations compare by mathematical value: Integer against Integer, Integer against BigInt,
   BigInt against BigInt, for every i64 and every big integer with minimal digits (what the decoder produces). *)
From EDP Require Import Base.Bytes Base.F64 Term.Term Term.Value Term.AccessFacts Gen.Ranks Order.Cmp Order.CmpFacts.

Lemma all_bytes_forall d : all_bytes d = true -> Forall (fun b => b < 256) d.
Proof. unfold all_bytes, is_byte. intros H. apply Forall_forall. intros x Hx. rewrite forallb_forall in H. apply N.ltb_lt. now apply H. Qed.

Lemma pow256_pos k : 0 < 256 ^ k.
Proof. apply N.neq_0_lt_0. apply N.pow_nonzero. lia. Qed.

Lemma unle_bound d : Forall (fun b => b < 256) d -> unle d < 256 ^ len d.
Proof.
  induction 1 as [|x d Hx _ IH]; [vm_compute; reflexivity|]. cbn [unle]. unfold len in *. cbn [length].
  rewrite Nat2N.inj_succ, N.pow_succ_r'. remember (256 ^ N.of_nat (length d)) as P eqn:EP. clear EP. lia.
Qed.

(* most significant digit first *)
Lemma unbe_cons x r : unbe (x :: r) = x * 256 ^ len r + unbe r.
Proof.
  revert x. induction r as [|y r IH] using rev_ind; intros x; [unfold unbe, len; cbn [fold_left length]; change (256 ^ N.of_nat 0) with 1; lia|].
  change (x :: r ++ [y]) with ((x :: r) ++ [y]). rewrite !unbe_snoc, IH. unfold len. rewrite app_length. cbn [length].
  replace (N.of_nat (length r + 1)) with (N.succ (N.of_nat (length r))) by lia. rewrite N.pow_succ_r'. lia.
Qed.

Lemma unbe_rev d : unbe (rev d) = unle d.
Proof.
  induction d as [|x d IH]; [reflexivity|]. cbn [rev unle]. rewrite unbe_snoc, IH. lia.
Qed.

Lemma unbe_bound m : Forall (fun b => b < 256) m -> unbe m < 256 ^ len m.
Proof.
  intros H. rewrite <- (rev_involutive m), unbe_rev. replace (len (rev (rev m))) with (len (rev m)) by (unfold len; now rewrite !rev_length).
  apply unle_bound. now apply Forall_rev.
Qed.

Lemma msd_first m1 : forall m2, length m1 = length m2 -> Forall (fun b => b < 256) m1 -> Forall (fun b => b < 256) m2 ->
  cmp_bytes m1 m2 = (unbe m1 ?= unbe m2).
Proof.
  induction m1 as [|x m1 IH]; intros [|y m2] Hl H1 H2; try discriminate; [reflexivity|].
  cbn [length] in Hl. injection Hl as Hl. inversion H1 as [|? ? Hx H1']; subst. inversion H2 as [|? ? Hy H2']; subst.
  cbn [cmp_bytes]. rewrite !unbe_cons. replace (len m2) with (len m1) by (unfold len; now rewrite Hl).
  pose proof (unbe_bound m1 H1') as B1. pose proof (unbe_bound m2 H2') as B2. replace (len m2) with (len m1) in B2 by (unfold len; now rewrite Hl).
  pose proof (pow256_pos (len m1)) as Pp. set (P := 256 ^ len m1) in *.
  destruct (N.compare_spec x y) as [->|L|G]; cbn [thn].
  - rewrite (IH m2 Hl H1' H2'). symmetry. destruct (N.compare_spec (unbe m1) (unbe m2)); [apply N.compare_eq_iff|apply N.compare_lt_iff|apply N.compare_gt_iff]; lia.
  - symmetry. apply N.compare_lt_iff. nia.
  - symmetry. apply N.compare_gt_iff. nia.
Qed.

Definition minimal (d : bytes) : Prop := match rev d with [] => True | x :: _ => x <> 0 end.

Lemma minimal_digits_minimal d : minimal_digits d = true -> minimal d.
Proof. unfold minimal_digits, minimal. destruct (rev d) as [|x r]; [trivial|]. intros H. apply negb_true_iff in H. now apply N.eqb_neq in H. Qed.

(* a minimal digit string of n > 0 digits is at least 256^(n-1) *)
Lemma unle_lower d : Forall (fun b => b < 256) d -> minimal d -> d <> [] -> 256 ^ (len d - 1) <= unle d.
Proof.
  intros Hb Hm Hne. unfold minimal in Hm. rewrite <- unbe_rev. destruct (rev d) as [|x r] eqn:E.
  - exfalso. apply Hne. apply (f_equal (@rev N)) in E. now rewrite rev_involutive in E.
  - rewrite unbe_cons. replace (len d - 1) with (len r).
    + assert (1 <= x) by lia. pose proof (pow256_pos (len r)). nia.
    + apply (f_equal (@length N)) in E. rewrite rev_length in E. unfold len. rewrite E. cbn [length]. lia.
Qed.

Lemma cmp_big_mag d1 d2 : Forall (fun b => b < 256) d1 -> Forall (fun b => b < 256) d2 -> minimal d1 -> minimal d2 ->
  thn (cmp_len d1 d2) (cmp_bytes (rev d1) (rev d2)) = (unle d1 ?= unle d2).
Proof.
  intros B1 B2 M1 M2. unfold cmp_len. destruct (N.compare_spec (len d1) (len d2)) as [E|L|G]; cbn [thn].
  - rewrite (msd_first (rev d1) (rev d2)); [now rewrite !unbe_rev| |now apply Forall_rev|now apply Forall_rev].
    rewrite !rev_length. unfold len in E. lia.
  - symmetry. apply N.compare_lt_iff. pose proof (unle_bound d1 B1) as U1.
    assert (Hne : d2 <> []) by (intros ->; unfold len in L; cbn in L; lia).
    pose proof (unle_lower d2 B2 M2 Hne) as L2.
    assert (256 ^ len d1 <= 256 ^ (len d2 - 1)) by (apply N.pow_le_mono_r; lia). lia.
  - symmetry. apply N.compare_gt_iff. pose proof (unle_bound d2 B2) as U2.
    assert (Hne : d1 <> []) by (intros ->; unfold len in G; cbn in G; lia).
    pose proof (unle_lower d1 B1 M1 Hne) as L1.
    assert (256 ^ len d2 <= 256 ^ (len d1 - 1)) by (apply N.pow_le_mono_r; lia). lia.
Qed.

Lemma compopp_compare (a b : N) : CompOpp (a ?= b) = (b ?= a).
Proof. symmetry. apply N.compare_antisym. Qed.

Lemma cmp_big_value n1 d1 n2 d2 : Forall (fun b => b < 256) d1 -> Forall (fun b => b < 256) d2 -> minimal d1 -> minimal d2 ->
  d1 <> [] -> d2 <> [] ->
  cmp_big n1 d1 n2 d2 = (big_value n1 d1 ?= big_value n2 d2)%Z.
Proof.
  intros B1 B2 M1 M2 N1 N2. unfold cmp_big, big_value.
  pose proof (unle_lower d1 B1 M1 N1) as L1. pose proof (unle_lower d2 B2 M2 N2) as L2.
  pose proof (pow256_pos (len d1 - 1)). pose proof (pow256_pos (len d2 - 1)).
  destruct n1, n2.
  - rewrite (cmp_big_mag d1 d2 B1 B2 M1 M2). rewrite compopp_compare. rewrite Z.compare_opp. now rewrite N2Z.inj_compare.
  - symmetry. apply Z.compare_lt_iff. lia.
  - symmetry. apply Z.compare_gt_iff. lia.
  - rewrite (cmp_big_mag d1 d2 B1 B2 M1 M2). now rewrite N2Z.inj_compare.
Qed.

Lemma firstn_short {A} k (l : list A) : (length l <= k)%nat -> firstn k l = l.
Proof. apply firstn_all2. Qed.

Lemma cmp_int_big_value x n d : (- 9223372036854775808 <= x < 9223372036854775808)%Z ->
  Forall (fun b => b < 256) d -> minimal d -> d <> [] ->
  cmp_int_big x n d = (x ?= big_value n d)%Z.
Proof.
  intros Hx B M Ne. unfold cmp_int_big, big_value. destruct d as [|d0 dr] eqn:Ed; [contradiction|]. rewrite <- Ed in *.
  pose proof (unle_lower d B M Ne) as L. pose proof (pow256_pos (len d - 1)) as Pp.
  destruct (8 <? len d) eqn:E8.
  - apply N.ltb_lt in E8. assert (H64 : 18446744073709551616 <= unle d).
    { etransitivity; [|exact L]. change 18446744073709551616 with (256 ^ 8). apply N.pow_le_mono_r; lia. }
    destruct n.
    + destruct (0 <=? x)%Z eqn:E0; symmetry; apply Z.compare_gt_iff; lia.
    + destruct (x <? 0)%Z eqn:E0; symmetry; apply Z.compare_lt_iff; lia.
  - apply N.ltb_ge in E8. unfold big_to_u64. rewrite firstn_short by (unfold len in E8; lia).
    destruct n.
    + destruct (0 <=? x)%Z eqn:E0; [apply Z.leb_le in E0; symmetry; apply Z.compare_gt_iff; lia|].
      apply Z.leb_gt in E0. rewrite compopp_compare. symmetry.
      destruct (N.compare_spec (unle d) (Z.to_N (- x))); [apply Z.compare_eq_iff|apply Z.compare_lt_iff|apply Z.compare_gt_iff]; lia.
    + destruct (x <? 0)%Z eqn:E0; [apply Z.ltb_lt in E0; symmetry; apply Z.compare_lt_iff; lia|].
      apply Z.ltb_ge in E0. symmetry.
      destruct (N.compare_spec (Z.to_N x) (unle d)); [apply Z.compare_eq_iff|apply Z.compare_lt_iff|apply Z.compare_gt_iff]; lia.
Qed.

(* integers in minimal digits: an i64, or a big integer with byte digits, the most significant one non-zero *)
Definition int_term (t : term) : Prop :=
  match t with
  | TInt z => (- 9223372036854775808 <= z < 9223372036854775808)%Z
  | TBig _ d => Forall (fun b => b < 256) d /\ minimal d /\ d <> []
  | _ => False
  end.
Definition int_value (t : term) : Z := match t with TInt z => z | TBig n d => big_value n d | _ => 0%Z end.

Theorem integers_by_value a b : int_term a -> int_term b -> cmp_owned a b = (int_value a ?= int_value b)%Z.
Proof.
  unfold cmp_owned. destruct a as [| x | | | | | | | | | | | | n1 d1 | | |], b as [| y | | | | | | | | | | | | n2 d2 | | |];
    cbn [int_term]; try contradiction; intros Ha Hb; cbn [cmp rank_owned int_value].
  - reflexivity.
  - change (rank_integer ?= rank_bigint) with Eq. cbv iota. destruct Hb as (B & M & Ne). now apply cmp_int_big_value.
  - change (rank_bigint ?= rank_integer) with Eq. cbv iota. destruct Ha as (B & M & Ne). rewrite (cmp_int_big_value y n1 d1 Hb B M Ne).
    now rewrite <- Z.compare_antisym.
  - change (rank_bigint ?= rank_bigint) with Eq. cbv iota. destruct Ha as (B1 & M1 & N1). destruct Hb as (B2 & M2 & N2). now apply cmp_big_value.
Qed.
