(* Facts about the send path: one operation, one well-formed frame; in pass-through mode the frame reads back (with
   the receive model, over any segmentation) as the operation's control message and the payload. *)
From EDP Require Import Base.Bytes Term.Term Term.Access Gen.Tags Gen.ControlTable Gen.DecoderArms Codec.Encode Codec.Decode Codec.Norm
  Codec.DistHeader Codec.DistHeaderFacts Gen.FragConsts Dist.Control Dist.Framing Dist.FramingFacts Dist.Receive Dist.ReceiveFacts Dist.Send.

(* the framing mode is decided by the negotiated flags: the intersection of what the client asked for and what the
   peer granted *)
Theorem mode_from_negotiated cfgf peerf :
  uses_pass_through (N.land cfgf peerf) = negb (N.testbit cfgf 13 && N.testbit peerf 13).
Proof. unfold uses_pass_through. now rewrite N.land_spec. Qed.

(* exactly one frame: the bytes written are the length prefix of the body followed by the body *)
Theorem one_frame negotiated order op f : send_frame negotiated order op = Some f ->
  exists body, frame_body negotiated order op = Some body /\ f = be 4 (len body) ++ body.
Proof.
  unfold send_frame. destruct (frame_body negotiated order op) as [body|]; [|discriminate].
  intros [= <-]. exists body. split; reflexivity.
Qed.

(* ... and a reader of the stream gets exactly that body back, however the transport segments it *)
Theorem frame_reads_back negotiated order op f body cs tail :
  send_frame negotiated order op = Some f -> frame_body negotiated order op = Some body ->
  fits Distribution body -> wfc cs -> data_of cs = f ++ tail ->
  exists cs', read_framed Distribution cs = (ROk body, cs', len body) /\ data_of cs' = tail /\ wfc cs'.
Proof.
  intros Hs Hb Hfits Hwf Hd. unfold send_frame in Hs. rewrite Hb in Hs. injection Hs as <-.
  exact (read_framed_frame Distribution body cs tail Hwf Hfits Hd).
Qed.

(* the control tuple of every operation is the one the protocol numbers for it: it parses as the structured control
   message with that tag *)
Theorem control_tags op :
  match from_term control_table (fst (control_of op)) with
  | COk (CMsg v _) =>
      v = match op with SSend _ _ => 2 | SRegSend _ _ _ => 6 | SLink _ _ => 1 | SUnlink _ _ _ => 35
                      | SMonitor _ _ _ => 19 | SDemonitor _ _ _ => 20 end
  | _ => False
  end.
Proof.
  destruct op; try reflexivity.
  (* unlink: the id term is an integer in either of its two forms *)
  cbn [control_of fst]. remember (unlink_id_term id) as idt eqn:Hidt.
  assert (Hx : exists id', unlink_id_of idt = Some id').
  { subst idt. unfold unlink_id_term. destruct (id <=? 9223372036854775807).
    - cbn [unlink_id_of]. replace (0 <=? Z.of_N id)%Z with true by (symmetry; apply Z.leb_le; lia). eauto.
    - cbn [unlink_id_of]. rewrite skipn_all2 by (rewrite le_length; lia). cbn [forallb]. eauto. }
  destruct Hx as [id' Hx]. clear Hidt.
  unfold from_term. cbn [as_integer]. unfold from_term_c. change (35 <=? 255)%Z with true. cbn iota.
  match goal with |- context [find_entry ?t ?a ?b] => destruct (find_entry t a b) as [e|] eqn:Ee end;
    [|vm_compute in Ee; discriminate].
  vm_compute in Ee. injection Ee as <-. unfold build_fields.
  cbv -[unlink_id_of unlink_id_term le]. rewrite Hx. reflexivity.
Qed.

(* pass-through mode: what is written is 112, the control tuple, the payload, and nothing else; read with the
   receive model it is delivered as that control tuple and payload *)
Theorem pass_through_frame cfg st negotiated order op : uses_pass_through negotiated = true ->
  d_arms cfg = owned_arms ->
  let ctl := fst (control_of op) in
  wf ctl = true -> rt_ok (d_kcmp cfg) (d_kinsert cfg) ctl ->
  match snd (control_of op) with
  | Some msg => wf msg = true /\ rt_ok (d_kcmp cfg) (d_kinsert cfg) msg
  | None => True
  end ->
  exists body, frame_body negotiated order op = Some body /\
    handle_frame cfg st body = (st, to_outcome (norm ctl) (option_map norm (snd (control_of op)))).
Proof.
  intros Hpt Harms ctl Hw Ho Hm. unfold frame_body. destruct (control_of op) as [c pl] eqn:Ec. cbn [fst snd] in *.
  subst ctl. rewrite Hpt. destruct pl as [msg|].
  - destruct Hm as [Hwm Hom].
    destruct (pass_through_delivery cfg st Harms c msg Hw Ho Hwm Hom) as (bc & bm & Ebc & Ebm & H1 & _).
    rewrite Ebc, Ebm. eexists. split; [reflexivity|exact H1].
  - destruct (pass_through_delivery cfg st Harms c c Hw Ho Hw Ho) as (bc & _ & Ebc & _ & _ & H2).
    rewrite Ebc. eexists. split; [reflexivity|exact H2].
Qed.

(* header mode: what is written is 131, 68, the header of the writer's atoms, the control tuple and the payload with
   cached atoms as references; read with the receive model it is delivered as that control tuple and payload, and the
   reader's cache holds the header's atoms *)
Theorem header_frame_content cfg st negotiated order op : uses_pass_through negotiated = false ->
  d_arms cfg = owned_arms ->
  order <> [] -> len order <= 255 -> Forall (fun a => utf8_valid a = true) order ->
  existsb (fun a => 65535 <? len a) order = false ->
  let ctl := fst (control_of op) in
  wf ctl = true -> rt_ok (d_kcmp cfg) (d_kinsert cfg) ctl ->
  match snd (control_of op) with
  | Some msg => wf msg = true /\ rt_ok (d_kcmp cfg) (d_kinsert cfg) msg
  | None => True
  end ->
  exists body, frame_body negotiated order op = Some body /\
    handle_frame cfg st body = (with_cache st (new_cache order (r_cache st)),
                                to_outcome (norm ctl) (option_map norm (snd (control_of op)))).
Proof.
  intros Hpt Harms Hne Hlen Hutf Hbig ctl Hw Ho Hm. unfold frame_body.
  destruct (control_of op) as [c pl] eqn:Ec. cbn [fst snd] in *. subst ctl. rewrite Hpt.
  set (cfg' := cfg_with_cache cfg (r_cache st) []).
  assert (Hread : forall ts out, encode_multi order ts = HOk out ->
            forall o, decode_with_atom_cache cfg' long_of_coded out = (o, new_cache order (r_cache st)) ->
            handle_frame cfg st out = (with_cache st (new_cache order (r_cache st)),
                                       match o with HDOk ctl pl => to_outcome ctl pl | _ => OError end)).
  { intros ts out Eo o Ed.
    assert (exists x, out = tag_version :: tag_dist_header :: x) as (x & ->).
    { unfold encode_multi in Eo. destruct order as [|a r]; [contradiction|].
      repeat match type of Eo with context [if ?c then _ else _] => destruct c; [discriminate|] end.
      destruct (enc_terms_c (a :: r) ts); [|discriminate]. inversion Eo. eauto. }
    unfold handle_frame.
    replace (is_tagged dist_frag_header (tag_version :: tag_dist_header :: x)) with false by reflexivity.
    replace (is_tagged dist_frag_cont (tag_version :: tag_dist_header :: x)) with false by reflexivity.
    replace (tag_version =? pass_through) with false by reflexivity.
    replace (is_tagged tag_dist_header (tag_version :: tag_dist_header :: x)) with true by reflexivity.
    cbv iota. unfold decode_dist. fold cfg'. rewrite Ed. reflexivity. }
  destruct pl as [msg|].
  - destruct Hm as [Hwm Hom].
    destruct (message_read_back_2 cfg' Harms (d_kcmp cfg) (d_kinsert cfg) eq_refl eq_refl order Hne Hlen Hutf Hbig c msg Hw Ho Hwm Hom)
      as (bs & Eb & Db).
    rewrite Eb. exists bs. split; [reflexivity|]. exact (Hread _ _ Eb _ Db).
  - destruct (message_read_back_1 cfg' Harms (d_kcmp cfg) (d_kinsert cfg) eq_refl eq_refl order Hne Hlen Hutf Hbig c Hw Ho)
      as (bs & Eb & Db).
    rewrite Eb. exists bs. split; [reflexivity|]. exact (Hread _ _ Eb _ Db).
Qed.
