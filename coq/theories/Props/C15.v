(* C15 — serde round trip returns the original Rust value, also across the wire.
   Model: Serde/Serde.v — a Rust type is a `ty` (integers of every width, f32/f64, bool, char, String, unit, Option,
   tuples, Vec, maps, named structs, unit / newtype / tuple structs, derive(ElixirStruct) structs, enums with all
   four variant shapes, byte buffers, nested arbitrarily), a value of it an `rval`; `rser` / `rde` are the
   type-directed serialiser and deserialiser that the standard and derived Serialize / Deserialize impls drive.  The model follows the code after fix commit 5d4f8ca;
   the correspondence run compares it with erltf_serde on every check, for the harness's family of Rust types. *)
From Coq Require Import String.
From EDP Require Import Base.Bytes Term.Term Term.Access Order.Cmp Codec.Norm Elixir.Wrap Serde.Serde Serde.SerdeFacts.
Open Scope N_scope.

(* For every type of the family, with or without the elixir-interop feature, and every value of the type (rwt: in
   range, valid UTF-8, one character, no directly nested options, distinct field and variant names; canon: maps
   listed in the order insertion produces): serialising to a term and deserialising gives the value back, and so
   does deserialising the term after the wire changed its representation (decode (encode t) = norm t is
   C01_roundtrip_parse). *)
Theorem C15_roundtrip : forall interop f32_round t v,
  rwt interop f32_round t v = true -> canon interop t v ->
  rde interop f32_round t (rser interop t v) = Some v /\
  rde interop f32_round t (norm (rser interop t v)) = Some v.
Proof. exact roundtrip. Qed.

(* never silently altered: an integer is produced only if the term holds exactly that integer and it fits the type *)
Theorem C15_integers_exact : forall interop f32_round k tm v, k <> U64 ->
  rde interop f32_round (TyInt k) tm = Some v ->
  exists z, v = RInt z /\ in_range k z = true /\ as_integer tm = Some z.
Proof. exact de_int_exact. Qed.

Theorem C15_chars_exact : forall interop f32_round tm v, rde interop f32_round TyChar tm = Some v ->
  exists s, v = RChar s /\ char_count s = 1 /\ (tm = TStr s \/ tm = TBin s).
Proof. exact de_char_exact. Qed.

(* the exclusion the property names is real: a directly nested option does not come back *)
Theorem C15_nested_option_excluded :
  rde false (fun b => b) (TyOption (TyOption (TyInt I64))) (rser false (TyOption (TyOption (TyInt I64))) (RSome RNone)) = Some RNone.
Proof. vm_compute. reflexivity. Qed.

(* ---------- the hypotheses are satisfiable: a nested value using every shape ---------- *)
Definition ex_enum : ty :=
  TyEnum [(str "Unit", PUnit); (str "Newtype", PNewtype (TyInt I64)); (str "Pair", PTuple [TyInt I32; TyString]);
          (str "Rec", PStruct [(str "x", TyInt U64); (str "y", TyChar)])].
Definition ex_ty : ty :=
  TyStruct [(str "id", TyInt U64); (str "tags", TyVec TyString); (str "opt", TyOption (TyInt U32));
            (str "e", ex_enum); (str "m", TyMap (TyInt I64) (TyTuple [TyBool; TyF64]));
            (str "user", TyElixir (str "MyApp.User") [(str "name", TyString); (str "age", TyInt U32)])].
Definition ex_val : rval :=
  RRec [RInt 18446744073709551615; RSeq [RStr (str "a"); RStr []]; RSome (RInt 4000000000);
        RVariant 3 [RInt 1099511627776; RChar [240; 159; 152; 128]];
        RMap [(RInt (-1099511627776), RTup [RBool true; RFloat 4607182418800017408]); (RInt 7, RTup [RBool false; RFloat 0])];
        RRec [RStr (str "x"); RInt 3000000000]].

Example C15_example : forall interop,
  rwt interop (fun b => b) ex_ty ex_val = true /\ canon interop ex_ty ex_val /\
  rde interop (fun b => b) ex_ty (norm (rser interop ex_ty ex_val)) = Some ex_val.
Proof. intros []; (split; [vm_compute; reflexivity|split; [vm_compute; auto 20|vm_compute; reflexivity]]). Qed.

(* the other struct kinds and a byte buffer, nested: struct Marker; struct Meters(i64); struct Pair(i32, String) *)
Definition ex_ty2 : ty :=
  TyTuple [TyUnitStruct (str "Marker"); TyNewtype (TyInt I64); TyTupleStruct [TyInt I32; TyString];
           TyOption (TyNewtype (TyVec (TyUnitStruct (str "Marker")))); TyBytes; TyVec (TyNewtype (TyNewtype TyChar))].
Definition ex_val2 : rval :=
  RTup [RUnit; RTup [RInt (-1099511627776)]; RTup [RInt 7; RStr (str "x")]; RSome (RTup [RSeq [RUnit; RUnit]]); RStr [255; 0];
        RSeq [RTup [RTup [RChar [240; 159; 152; 128]]]]].
Example C15_example_struct_kinds : forall interop,
  rwt interop (fun b => b) ex_ty2 ex_val2 = true /\ canon interop ex_ty2 ex_val2 /\
  rde interop (fun b => b) ex_ty2 (norm (rser interop ex_ty2 ex_val2)) = Some ex_val2.
Proof. intros []; (split; [vm_compute; reflexivity|split; [vm_compute; auto 20|vm_compute; reflexivity]]). Qed.

Check C15_roundtrip.
