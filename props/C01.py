"""C01 — encode/decode round trip. Domain `codec` (ops rt, enc)."""
import etf, termgen

ID = "C01"
GEN_FILES = ["Tags.v", "Limits.v", "DecoderArms.v", "Ranks.v"]
RULE = ("terms over all 17 variants generated from boundary pools (integers around 0/255/256/2^31/2^63, bignums 1..300 digits incl. "
        "255/256, floats incl. -0.0/subnormal/max, atoms 0/255/256/65535/65536 bytes incl. multi-byte UTF-8, bit-strings 1..8 bits, "
        "tuples 0/255/256, heterogeneous maps, identifiers plain and node-local, funs with free variables) nested to depth <= 5; "
        "each case encodes, decodes and re-encodes; oracle: an independent Python ETF reader must read the bytes as the same Erlang "
        "value; distinct = distinct case text; non-trivial = the term has >= 2 nodes or sits on a listed boundary")
ASSUMPTIONS = ["spec reader props/etf.py transcribed from the erl_ext_dist document", "BTreeMap modelled as sorted association list under the model of impl Ord"]
TRUSTED_EXTRA = ["Python reference reader of the External Term Format (props/etf.py) as the 'independent implementation' of the property"]


def contains(t, pred):
    if pred(t):
        return True
    k = t[0]
    if k in ("l", "t"):
        return any(contains(x, pred) for x in t[1])
    if k == "L":
        return any(contains(x, pred) for x in t[1]) or contains(t[2], pred)
    if k == "m":
        return any(contains(a, pred) or contains(b, pred) for a, b in t[1])
    if k == "u":
        return any(contains(x, pred) for x in t[9])
    return False


def atom_lens(t):
    k = t[0]
    out = []
    if k == "a":
        out.append(len(t[1]))
    elif k in ("p", "o", "r"):
        if t[-1] is None:
            out.append(len(t[1]))
    elif k == "e":
        out += [len(t[1]), len(t[2])]
    elif k == "u":
        out.append(len(t[5]))
        if t[8][4] is None:
            out.append(len(t[8][0]))
        for x in t[9]:
            out += atom_lens(x)
    elif k in ("l", "t"):
        for x in t[1]:
            out += atom_lens(x)
    elif k == "L":
        for x in t[1]:
            out += atom_lens(x)
        out += atom_lens(t[2])
    elif k == "m":
        for a, b in t[1]:
            out += atom_lens(a) + atom_lens(b)
    return out


def wire_big(t):
    """integer value if the term is an integer that travels as a big integer (outside i32)"""
    if t[0] == "i" and not -2**31 <= t[1] < 2**31:
        return t[1]
    if t[0] == "g":
        return etf.big_value(t[1], t[2])
    return None


def big_misordered_map(t):
    """a map with two keys that travel as big integers of equal sign and digit count whose little-endian digit
    strings order differently from their values (the order compare_bigint uses)"""
    if t[0] != "m":
        return False
    ks = [wire_big(k) for k, _ in t[1]]
    ks = [k for k in ks if k is not None]
    for i in range(len(ks)):
        for j in range(len(ks)):
            a, b = ks[i], ks[j]
            if a < b and (a < 0) == (b < 0):
                da = abs(a).to_bytes((abs(a).bit_length() + 7) // 8 or 1, "little")
                db = abs(b).to_bytes((abs(b).bit_length() + 7) // 8 or 1, "little")
                if len(da) == len(db) and ((da < db) != (abs(a) < abs(b))):
                    return True
    return False


def wire_class(t):
    """variant the decoder will produce for this term ('l' proper list, 'n' nil, 'L' improper, 'b' binary, 'B' bit-string, ...)"""
    k = t[0]
    if k == "l":
        return "l" if t[1] else "n"
    if k == "L":
        tc = wire_class(t[2])
        if not t[1]:
            return tc                      # no elements: it travels as its tail
        if tc == "n":
            return "l"
        return "L"                         # any other tail, a list included: the decoder keeps elements and tail apart
    if k == "s":
        return "b"
    return k


def catchall_keys_map(t):
    """a map with two keys that the ordering cannot tell apart after decoding: proper list / nil vs improper list,
    or binary vs bit-string (the `_ => Equal` arm of impl Ord) — BTreeMap merges them"""
    if t[0] != "m":
        return False
    cs = [wire_class(k) for k, _ in t[1]]
    return (("L" in cs) and ("l" in cs or "n" in cs)) or ("b" in cs and "B" in cs)


def improper_empty_key(t):
    """a map one of whose keys contains an improper list without elements: such a key orders as a list in memory
    but travels (and comes back) as its tail, so the key order changes across the wire (and it may collide with a
    key that is that tail)"""
    return t[0] == "m" and any(contains(k, lambda x: x[0] == "L" and not x[1]) for k, _ in t[1])


def fields(impl):
    d = {}
    for part in impl.split(" ; "):
        k, _, v = part.partition("=")
        d[k] = v
    return d


def oracle(case, impl):
    if impl.startswith(("PANIC", "CRASH", "TIMEOUT")):
        return ("violation", "encode/decode did not return: " + impl[:60])
    op = case.split(" ", 1)[0]
    if op == "enc":
        if impl.startswith("ok") and not impl.endswith("w=same"):
            return ("violation", "encode_to_writer wrote different bytes than encode")
        return None
    if op == "encw":
        if "DIFF" in impl:
            return ("violation", "encode_to_writer, in a history of calls on one thread, does not write what encode returns: " + impl[:80])
        return None
    f = fields(impl)
    tin = etf.parse_term(f["in"])
    v = etf.denote(tin)
    enc = f.get("enc", "")
    if enc.startswith("err:"):
        kind = enc[4:]
        lens = atom_lens(tin)
        ok = (kind == "AtomTooLarge" and any(l > 65535 for l in lens)) or \
             (kind == "ReferenceTooLarge" and contains(tin, lambda x: x[0] == "r" and x[4] is None and len(x[3]) > 65535))
        return None if ok else ("violation", "encode reported %s for a term the format can express" % kind)
    data = bytes.fromhex(enc)
    try:
        sv = etf.spec_decode(data)
    except Exception as ex:  # noqa
        return ("violation", "the encoded bytes are not valid External Term Format: %s" % ex)
    if sv != v:
        if contains(tin, improper_empty_key) and "map-dupkeys" in repr(sv):
            return ("known", "C01-improper-empty-key")   # key `x` and key ImproperList{[], x} coexist in memory, collide on the wire
        return ("violation", "an independent reader sees a different value in the encoded bytes")
    dec = f.get("dec", "")
    if dec.startswith("err:"):
        if contains(tin, lambda x: x[0] == "u" and (x[6] >= 2**31 or x[7] >= 2**31)):
            return ("known", "C01-fun-old-index")
        return ("violation", "decoding the library's own encoding failed: " + dec)
    dv = etf.denote(etf.parse_term(dec))
    if dv != v:
        if contains(tin, improper_empty_key):
            # the key ImproperList{[], x} travels as x: it meets a key that the ordering identifies with x (x itself, or a
            # number equal to it) only after the wire
            return ("known", "C01-improper-empty-key")
        if contains(tin, catchall_keys_map):
            return ("known", "C01-map-catchall")
        return ("violation", "decoded term denotes a different value")
    if f.get("re") != "same":
        # the open classes first: a term may also contain the shape of a class that has been repaired since
        if contains(tin, improper_empty_key):
            return ("known", "C01-improper-empty-key")
        if contains(tin, catchall_keys_map):
            return ("known", "C01-map-catchall")
        if contains(tin, big_misordered_map):
            return ("known", "C01-map-reencode")
        return ("violation", "re-encoding the decoded term gives different bytes")
    return None


def oracle_for(_d):
    return oracle


def node_count(s):
    return sum(1 for w in s.split() if w in "aifporbBslLmtgeun")


def run(ctx):
    rng = ctx.rng
    cases = ["rt " + etf.show(t) for t in termgen.boundary_terms()]
    cases += ["enc " + etf.show(t) for t in termgen.boundary_terms()[::3]]
    for _ in range(ctx.budget(4000, 150000)):
        t = termgen.gen_term(rng, depth=rng.choice([1, 2, 3, 3, 4, 5]))
        cases.append("rt " + etf.show(t))
    for _ in range(ctx.budget(300, 5000)):
        cases.append("enc " + etf.show(termgen.gen_term(rng, depth=3)))

    # encode_to_writer: histories of calls on one thread, some of which fail (a size the format cannot express, a writer
    # that stops accepting bytes at some point) — a failed call must leave nothing behind for the next one
    too_long_atom = ("a", b"x" * 65536)
    too_many_ids = ("r", b"n@h", 1, list(range(65536)), None)
    for k in range(ctx.budget(60, 1500)):
        items = []
        for _ in range(rng.choice([2, 3, 5, 8])):
            t = termgen.gen_term(rng, depth=rng.choice([0, 1, 2]))
            limit = -1 if rng.random() < 0.7 else rng.choice([0, 1, 2, 3, 5, 8, 20, 100])
            items.append("W%d %s" % (limit, etf.show(t)))
        if rng.random() < 0.6:
            # a term the format cannot express, alone or after something that encodes, followed by ordinary calls
            t = rng.choice([too_long_atom, ("t", [("a", b"ok"), too_long_atom]), ("l", [("i", 1), ("t", [too_long_atom])]), too_many_ids,
                            ("m", [(("a", b"k"), too_many_ids)])])
            items.insert(rng.randrange(len(items)), "W-1 " + etf.show(t))
        cases.append("encw " + " | ".join(items))

    def nontrivial(c, impl):
        return c if node_count(c) >= 2 or len(c) > 40 else None

    def classify(c, impl):
        ks = ["op:" + c.split(" ", 1)[0], "nodes:%d" % min(40, 5 * (node_count(c) // 5))]
        for w in set(c.split()):
            if len(w) == 1 and w in "aifporbBslLmtgeun":
                ks.append("variant:" + w)
        if "enc=err" in impl:
            ks.append("encode-error")
        return ks
    ctx.diff_domain("codec", cases, oracle=oracle, nontrivial=nontrivial, classify=classify)
