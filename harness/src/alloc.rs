//! Counting global allocator: records the largest single allocation request (for C02/C05 resource claims).
use std::alloc::{GlobalAlloc, Layout, System};
use std::sync::atomic::{AtomicUsize, Ordering};

pub struct Counting;
static MAX_REQ: AtomicUsize = AtomicUsize::new(0);
static TOTAL_REQ: AtomicUsize = AtomicUsize::new(0);

unsafe impl GlobalAlloc for Counting {
    unsafe fn alloc(&self, l: Layout) -> *mut u8 {
        MAX_REQ.fetch_max(l.size(), Ordering::Relaxed);
        TOTAL_REQ.fetch_add(l.size(), Ordering::Relaxed);
        unsafe { System.alloc(l) }
    }
    unsafe fn alloc_zeroed(&self, l: Layout) -> *mut u8 {
        MAX_REQ.fetch_max(l.size(), Ordering::Relaxed);
        TOTAL_REQ.fetch_add(l.size(), Ordering::Relaxed);
        unsafe { System.alloc_zeroed(l) }
    }
    unsafe fn dealloc(&self, p: *mut u8, l: Layout) {
        unsafe { System.dealloc(p, l) }
    }
    unsafe fn realloc(&self, p: *mut u8, l: Layout, new_size: usize) -> *mut u8 {
        MAX_REQ.fetch_max(new_size, Ordering::Relaxed);
        TOTAL_REQ.fetch_add(new_size.saturating_sub(l.size()), Ordering::Relaxed);
        unsafe { System.realloc(p, l, new_size) }
    }
}

pub fn reset() {
    MAX_REQ.store(0, Ordering::Relaxed);
    TOTAL_REQ.store(0, Ordering::Relaxed);
}
pub fn max_request() -> usize {
    MAX_REQ.load(Ordering::Relaxed)
}
pub fn total_requested() -> usize {
    TOTAL_REQ.load(Ordering::Relaxed)
}
