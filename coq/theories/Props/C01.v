(* C01 — encode/decode round trip preserves the Erlang value of every term.
   cfg is any decoder configuration whose arm table is the generated owned table; kc/ki are the key order and
   BTreeMap insertion the decoder uses (the round trip does not depend on their laws: for maps it asks, per map,
   that re-inserting the normalised entries reproduces them — `rt_ok`, decidable by evaluation, whose failures are
   exactly the recorded C01 map findings). *)
From EDP Require Import Base.Bytes Term.Term Term.Value Gen.Tags Gen.DecoderArms.
From EDP Require Import Codec.Encode Codec.Decode Codec.Norm Codec.RoundTrip Codec.RoundTrip2.
From EDP Require Order.Cmp.

(* 1. parse (enc t ++ rest) = norm t, rest — all 17 variants, arbitrary nesting, any fuel above the encoding's length *)
Theorem C01_roundtrip_parse : forall cfg, d_arms cfg = owned_arms ->
  forall t, wf t = true -> rt_ok (d_kcmp cfg) (d_kinsert cfg) t ->
  exists b, enc t = EOk b /\ (0 < length b)%nat /\
    forall f rest, (length b < f)%nat -> parse cfg f (b ++ rest) = POk (norm t) rest.
Proof. intros cfg Harms t. exact (roundtrip cfg Harms (d_kcmp cfg) (d_kinsert cfg) eq_refl eq_refl t). Qed.

(* 2. the public entry points: decode (encode t) = norm t *)
Theorem C01_decode_encode : forall cfg, d_arms cfg = owned_arms ->
  forall t, wf t = true -> rt_ok (d_kcmp cfg) (d_kinsert cfg) t ->
  exists bs, encode t = EOk bs /\ decode cfg bs = DOk (norm t).
Proof.
  intros cfg Harms t Hwf Hok.
  destruct (roundtrip cfg Harms (d_kcmp cfg) (d_kinsert cfg) eq_refl eq_refl t Hwf Hok) as (b & Eb & Lb & Pb).
  exists (tag_version :: b). unfold encode. rewrite Eb. split; [reflexivity|].
  unfold decode. rewrite N.eqb_refl.
  specialize (Pb (length b + 2 + d_extra_fuel cfg)%nat [] ltac:(lia)). rewrite app_nil_r in Pb. now rewrite Pb.
Qed.

(* 3. encoding the decoded term again reproduces the same bytes — for every term, no side condition *)
Theorem C01_reencode_same_bytes : forall t, encode (norm t) = encode t.
Proof. intros t. unfold encode. now rewrite enc_norm. Qed.

(* 4. the decoded term denotes the same Erlang value *)
Theorem C01_same_value : forall t, wf t = true -> denote (norm t) = denote t.
Proof. exact denote_norm. Qed.

(* the recorded finding C01-fun-old-index, as a refutation of the statement without the `old_index < 2^31` condition *)
Theorem C01_refuted_fun_old_index : exists cfg t, d_arms cfg = owned_arms /\ wf t = true /\
  exists bs, encode t = EOk bs /\ decode cfg bs = DErr KTag.
Proof.
  exists {| d_arms := owned_arms; d_cache := []; d_refs := []; d_inflate := fun _ => None; d_float_text := fun _ => None;
            d_kcmp := fun _ _ => Eq; d_kinsert := fun _ k v m => m ++ [(k, v)]; d_extra_fuel := 0 |}.
  exists (TIntFun 0 (repeat 0 16) 0 0 [109] 2147483648 5 {| pnode := [110]; pnum := 1; pserial := 2; pcreation := 3; ploc := None |} []).
  split; [reflexivity|]. split; [vm_compute; reflexivity|].
  eexists. split; [vm_compute; reflexivity|]. vm_compute. reflexivity.
Qed.

(* the recorded findings C01-improper-empty-key and C01-map-catchall on the model, with the library's own key order and
   insertion: a map that holds two entries in memory comes back from its own encoding with one *)
Definition cfg_lib : dcfg :=
  {| d_arms := owned_arms; d_cache := []; d_refs := []; d_inflate := fun _ => None; d_float_text := fun _ => None;
     d_kcmp := Order.Cmp.cmp_owned; d_kinsert := Order.Cmp.map_insert; d_extra_fuel := 0 |}.

Theorem C01_refuted_improper_empty_key :        (* #{a => 2, ImproperList{[], a} => 1} *)
  let t := TMap [(TAtom [97], TInt 2); (TImproper [] (TAtom [97]), TInt 1)] in
  t = TMap (Order.Cmp.map_of_list Order.Cmp.cmp_owned [(TImproper [] (TAtom [97]), TInt 1); (TAtom [97], TInt 2)]) /\
  exists bs, encode t = EOk bs /\ decode cfg_lib bs = DOk (TMap [(TAtom [97], TInt 1)]).
Proof. cbv zeta. split; [vm_compute; reflexivity|]. eexists. split; [vm_compute; reflexivity|]. vm_compute. reflexivity. Qed.

Theorem C01_refuted_map_catchall :              (* #{[1] => 1, [1|2] => 2} as a peer writes it: one entry is read *)
  decode cfg_lib [131; 116; 0; 0; 0; 2; 108; 0; 0; 0; 1; 97; 1; 106; 97; 1; 108; 0; 0; 0; 1; 97; 1; 97; 2; 97; 2]
  = DOk (TMap [(TList [TInt 1], TInt 2)]).
Proof. vm_compute. reflexivity. Qed.

(* non-vacuity: a nested term with every kind of node satisfies the hypotheses (with the real key order this is
   checked by the correspondence run; here a trivial append-order stands in for it) *)
Example C01_example :
  let cfg := {| d_arms := owned_arms; d_cache := []; d_refs := []; d_inflate := fun _ => None; d_float_text := fun _ => None;
                d_kcmp := fun _ _ => Eq; d_kinsert := fun _ k v m => m ++ [(k, v)]; d_extra_fuel := 0 |} in
  let t := TTuple [TAtom [111; 107]; TInt (-5); TInt 4294967298; TList [TFloat 4607182418800017408; TBin [1; 2]];
                   TImproper [TInt 1] (TAtom [116]); TMap [(TInt 1, TStr [104; 105])]; TBig true [1; 0; 0; 0; 0; 0; 0; 0; 1];
                   TPid {| pnode := [110]; pnum := 1; pserial := 2; pcreation := 3; ploc := None |}; TBitBin [160] 3; TNil] in
  wf t = true /\ exists bs, encode t = EOk bs /\ decode cfg bs = DOk (norm t).
Proof. split; [vm_compute; reflexivity|]. eexists. split; [vm_compute; reflexivity|]. vm_compute. reflexivity. Qed.

Check C01_decode_encode : forall cfg, d_arms cfg = owned_arms ->
  forall t, wf t = true -> rt_ok (d_kcmp cfg) (d_kinsert cfg) t ->
  exists bs, encode t = EOk bs /\ decode cfg bs = DOk (norm t).
Check C01_reencode_same_bytes : forall t, encode (norm t) = encode t.
