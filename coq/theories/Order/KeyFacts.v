(* On the lawful class, terms that compare Equal denote the same Erlang value; so a map whose keys denote pairwise
   different values loses nothing when it is decoded (the decoder's BTreeMap holds every entry, in key order). *)
From Coq Require Import Permutation.
From EDP Require Import Base.Bytes Base.F64 Term.Term Term.Value Gen.Ranks Gen.Tags Gen.Limits Gen.DecoderArms Order.Cmp Order.CmpFacts Order.CmpLaws Order.NumLaws Order.Key
  Codec.Decode Codec.RoundTrip Elixir.ProplistFacts.

Lemma kcmp_eq : forall a b, kcmp a b = Eq -> a = b.
Proof.
  induction a as [x|l1 IH] using key_ind'; intros [y|l2] H; cbn [kcmp] in H; try discriminate.
  - apply Z.compare_eq in H. now subst.
  - f_equal. change (lexp l1 l2 = Eq) in H. revert l2 H. induction IH as [|x l1 Hx _ IHl]; intros [|y l2] H; cbn [lexp] in H; try discriminate; [reflexivity|].
    apply thn_Eq in H as [H1 H2]. f_equal; [now apply Hx|now apply IHl].
Qed.

Lemma kn_inj a b : kn a = kn b -> a = b.
Proof. unfold kn. intros H. injection H as H. lia. Qed.
Lemma kb_inj a : forall b, kb a = kb b -> a = b.
Proof.
  unfold kb. induction a as [|x a IH]; intros [|y b] H; try discriminate; [reflexivity|].
  injection H as H1 H2. f_equal; [lia|]. apply IH. now f_equal.
Qed.

Lemma kseq_cons x l y m : KSeq (x :: l) = KSeq (y :: m) -> x = y /\ l = m.
Proof. intros H. injection H as H1 H2. now split. Qed.

(* the lawful class without internal funs (whose arity and free-variable count the comparison does not look at) *)
Fixpoint tcl0 (t : term) : Prop :=
  let all := fix go (l : list term) : Prop := match l with [] => True | x :: r => tcl0 x /\ go r end in
  match t with
  | TFloat _ => False
  | TImproper _ _ => False
  | TIntFun _ _ _ _ _ _ _ _ _ => False
  | TInt _ | TBig _ _ => int_term t
  | TList l | TTuple l => all l
  | TMap kvs => (fix gom (m : list (term * term)) : Prop := match m with [] => True | kv :: r => tcl0 (fst kv) /\ tcl0 (snd kv) /\ gom r end) kvs
  | _ => True
  end.
Definition tcl0_all := fix go (l : list term) : Prop := match l with [] => True | x :: r => tcl0 x /\ go r end.
Definition tcl0_allm := fix gom (m : list (term * term)) : Prop := match m with [] => True | kv :: r => tcl0 (fst kv) /\ tcl0 (snd kv) /\ gom r end.

Lemma tcl0_tcl : forall t, tcl0 t -> tcl t.
Proof.
  induction t using term_ind'; cbn [tcl0 tcl]; try tauto.
  - change (tcl0_all l -> tcl_all l). induction H as [|x l Hx _ IH]; cbn [tcl0_all tcl_all]; [tauto|]. intros [H1 H2]. split; auto.
  - change (tcl0_allm kvs -> tcl_allm kvs). induction H as [|x l [Hk Hv] _ IH]; cbn [tcl0_allm tcl_allm]; [tauto|]. intros (H1 & H2 & H3). repeat split; auto.
  - change (tcl0_all l -> tcl_all l). induction H as [|x l Hx _ IH]; cbn [tcl0_all tcl_all]; [tauto|]. intros [H1 H2]. split; auto.
Qed.

Definition DV (a : term) : Prop := forall b, tcl0 a -> tcl0 b -> tkey a = tkey b -> denote a = denote b.

Lemma keys_denote l1 : Forall DV l1 -> forall l2, tcl0_all l1 -> tcl0_all l2 -> keys l1 = keys l2 -> map denote l1 = map denote l2.
Proof.
  induction 1 as [|x l1 Hx _ IH]; intros [|y l2] T1 T2 H; cbn [keys] in H; try discriminate; [reflexivity|].
  cbn [tcl0_all] in T1, T2. destruct T1 as [Tx T1], T2 as [Ty T2]. injection H as H1 H2. cbn [map]. f_equal; [now apply Hx|now apply IH].
Qed.

Lemma keysm_denote m1 : Forall (fun kv => DV (fst kv) /\ DV (snd kv)) m1 -> forall m2, tcl0_allm m1 -> tcl0_allm m2 ->
  keysk m1 = keysk m2 -> keysv m1 = keysv m2 ->
  map (fun kv => (denote (fst kv), denote (snd kv))) m1 = map (fun kv => (denote (fst kv), denote (snd kv))) m2.
Proof.
  induction 1 as [|x m1 [Hk Hv] _ IH]; intros [|y m2] T1 T2 K V; cbn [keysk keysv] in K, V; try discriminate; [reflexivity|].
  cbn [tcl0_allm] in T1, T2. destruct T1 as (Tk1 & Tv1 & T1), T2 as (Tk2 & Tv2 & T2). injection K as K1 K2. injection V as V1 V2.
  cbn [map]. f_equal; [f_equal; [now apply Hk|now apply Hv]|now apply IH].
Qed.

Lemma cons_inj {A} (x y : A) l m : x :: l = y :: m -> x = y /\ l = m.
Proof. intros H. injection H as H1 H2. now split. Qed.
Ltac inj3 H := repeat match type of H with
  | _ :: _ = _ :: _ => let H1 := fresh "K" in apply cons_inj in H as [H1 H]
  | [] = [] => clear H
  end.

Theorem same_key_same_value : forall a b, tcl0 a -> tcl0 b -> tkey a = tkey b -> denote a = denote b.
Proof.
  intros a. change (DV a). induction a using term_ind'; intros t2 T1 T2 HK; destruct t2; cbn [tkey] in HK; unfold kr in HK;
    apply kseq_cons in HK as [HR HK]; try (apply kn_inj in HR; revert HR; ranks; discriminate); clear HR.
  all: try (cbn [tcl0] in T1, T2; contradiction).
  all: cbn [denote]; inj3 HK.
  all: repeat match goal with
       | H : kb _ = kb _ |- _ => apply kb_inj in H; subst
       | H : kn _ = kn _ |- _ => apply kn_inj in H; subst
       | H : KNum _ = KNum _ |- _ => injection H as H; subst
       end.
  all: try reflexivity.
  - (* pid *) unfold kpid in K. apply kseq_cons in K as [K1 K]. inj3 K. apply kb_inj in K1. apply kn_inj in K0, K2, K3.
    unfold denote_pid. now rewrite K1, K0, K2, K3.
  - (* Bin / BitBin with 8 bits *) destruct b0; [reflexivity|]. f_equal; try lia.
  - (* BitBin with 8 bits / Bin *) destruct b0; [reflexivity|]. f_equal; try lia.
  - (* BitBin / Str *) destruct s; [reflexivity|]. f_equal; try lia.
  - (* Str / BitBin *) destruct b; [reflexivity|]. f_equal; try lia.
  - (* List / List *) cbn [tcl0] in T1, T2. injection K as K. now rewrite (keys_denote l H l0 T1 T2 K).
  - (* List / Nil *) injection K as K. destruct l; [reflexivity|discriminate K].
  - (* Map / Map *) cbn [tcl0] in T1, T2. injection K0 as K0. injection K1 as K1. now rewrite (keysm_denote kvs H kvs0 T1 T2 K0 K1).
  - (* Tuple / Tuple *) cbn [tcl0] in T1, T2. injection K0 as K0. now rewrite (keys_denote l H l0 T1 T2 K0).
  - (* Big / Big *) now rewrite K.
  - (* Nil / List *) injection K as K. destruct l; [reflexivity|discriminate K].
Qed.

(* terms that compare Equal denote the same value (lawful class without internal funs) *)
Theorem cmp_eq_same_value a b : tcl0 a -> tcl0 b -> cmp_owned a b = Eq -> denote a = denote b.
Proof.
  intros Ta Tb H. rewrite (cmp_is_kcmp a b (tcl0_tcl a Ta) (tcl0_tcl b Tb)) in H. apply kcmp_eq in H. now apply same_key_same_value.
Qed.

(* a list of entries whose keys are lawful and denote pairwise different values *)
Fixpoint distinct_values (seen l : list (term * term)) : Prop :=
  match l with
  | [] => True
  | kv :: r => tcl0 (fst kv) /\ (forall kv', In kv' seen -> denote (fst kv) <> denote (fst kv')) /\ distinct_values (kv :: seen) r
  end.

Lemma distinct_values_keys : forall l seen, Forall (fun kv => tcl0 (fst kv)) seen -> distinct_values seen l -> keys_distinct cmp_owned seen l.
Proof.
  induction l as [|kv r IH]; intros seen Hs H; [exact I|]. cbn [distinct_values] in H. destruct H as (Tk & Hd & Hr). cbn [keys_distinct]. split.
  - intros kv' Hin Heq. apply (Hd kv' Hin). rewrite Forall_forall in Hs. exact (cmp_eq_same_value _ _ Tk (Hs kv' Hin) Heq).
  - apply IH; [constructor; assumption|exact Hr].
Qed.

(* the decoder's map: every entry of the wire is in the result, once, whatever the wire order *)
Theorem map_keeps_entries l : distinct_values [] l -> Permutation l (map_of_list cmp_owned l).
Proof.
  intros H. unfold map_of_list. change l with ([] ++ l) at 1. apply fold_perm. apply distinct_values_keys; [constructor|exact H].
Qed.

Section MapDecode.
  Variable cfg : dcfg.
  Hypothesis Harms : d_arms cfg = owned_arms.
  Hypothesis Hkc : d_kcmp cfg = cmp_owned.
  Hypothesis Hki : d_kinsert cfg = map_insert.

  (* MAP_EXT: once the 2n terms after the arity have been read, the result is the map of those pairs — all of them when the
     keys are lawful and denote different values *)
  Theorem map_ext_decodes f n r l r' : n < 4294967296 -> n <= max_map_size ->
    seq_with (parse cfg f) (S (length r)) (2 * n) r = SOk l r' -> distinct_values [] (pair_up l) ->
    exists m, parse cfg (S f) (tag_map_ext :: be 4 n ++ r) = POk (TMap m) r' /\ Permutation (pair_up l) m.
  Proof.
    intros Hn Hmax Hs Hd. exists (map_of_list cmp_owned (pair_up l)). split; [|now apply map_keeps_entries].
    rewrite (parse_S cfg Harms), arm_map. unfold parse_body. rewrite rd_app by (cbn; lia).
    replace (max_map_size <? n) with false by (symmetry; apply N.ltb_ge; exact Hmax). rewrite Hs, Hkc, Hki. reflexivity.
  Qed.
End MapDecode.
